"""RoundA of spec/MechFloat.tla over unbounded integers: roundTiesToEven into the binary format F = (p, emin, emax)
(values +-m * 2^e, 0 <= m < 2^p, emin <= e <= emax; e is the exponent of the LAST mantissa bit).
The implementation follows the TLA+ definition line by line and is validated against every case TLC emits for the
miniature formats of MC_C01f before it is used as the oracle at binary32 / binary64."""
from fractions import Fraction

BINARY32 = (24, -149, 104)
BINARY64 = (53, -1074, 971)
FORMATS = {"f32": BINARY32, "f64": BINARY64}

def scale(m, e):
    return Fraction(m * (1 << e), 1) if e >= 0 else Fraction(m, 1 << (-e))

def max_finite(F):
    p, emin, emax = F
    return scale((1 << p) - 1, emax)

def overflows(F, q):
    p, emin, emax = F
    return not (abs(q) < max_finite(F) + scale(1, emax - 1))

def exp_of(F, a):
    p, emin, emax = F
    e = emin
    while not (a < scale(1, p + e) or e >= emax):
        e += 1
    return e

def round_a(F, q):
    q = Fraction(q)
    a = abs(q)
    e = exp_of(F, a)
    sc = a / scale(1, e)
    m = sc.numerator // sc.denominator
    rem2 = 2 * (sc - m)
    up = rem2 > 1 or (rem2 == 1 and m % 2 == 1)
    r = scale(m + 1 if up else m, e)
    return -r if q < 0 else r

def exact(op, a, b):
    if op == "+": return a + b
    if op == "-": return a - b
    if op == "*": return a * b
    if op == "/": return a / b
    raise ValueError(op)

def float_op(F, op, a, b):
    """None where the operation is undefined here (division by zero) or overflows"""
    if op == "/" and b == 0: return None
    q = exact(op, Fraction(a), Fraction(b))
    if overflows(F, q): return None
    return round_a(F, q)

def selftest_against_cases(cases):
    """every case emitted by MC_C01f (miniature format) must be reproduced; returns (checked, first mismatch or None)"""
    n = 0
    for c in cases:
        F = (c["p"], c["emin"], c["emax"])
        a = Fraction(c["a"]["n"], c["a"]["d"]); b = Fraction(c["b"]["n"], c["b"]["d"])
        q = exact(c["op"], a, b)
        if overflows(F, q) != c["ovf"]: return n, ("overflow", c)
        if not c["ovf"]:
            r = round_a(F, q)
            if r != Fraction(c["r"]["n"], c["r"]["d"]): return n, ("value", c, str(r))
        n += 1
    return n, None
