"""Shared check framework: build, failure classification against known findings, evidence, exit codes."""
import json, os, subprocess, sys, time, hashlib, random

ROOT = os.path.dirname(os.path.dirname(os.path.abspath(__file__)))
OUT = os.path.join(ROOT, "out")
EVID = os.path.join(ROOT, "evidence")
KNOWN = os.path.join(ROOT, "known_findings.jsonl")
HARNESS = os.path.join(ROOT, "harness")

class ToolError(Exception):
    pass

def log(*a):
    print(*a, flush=True)

def build_harness():
    """Rebuild the harness against /repo's current working tree (path deps) with hooks enabled."""
    t0 = time.time()
    lock = os.path.join(HARNESS, "Cargo.lock")
    if not os.path.exists(lock):
        import shutil; shutil.copy("/repo/Cargo.lock", lock)
    env = dict(os.environ); env["CARGO_NET_OFFLINE"] = "true"
    import fcntl
    os.makedirs(OUT, exist_ok=True)
    with open(os.path.join(OUT, ".build.lock"), "w") as lf:
        fcntl.flock(lf, fcntl.LOCK_EX)
        p = subprocess.run(["cargo", "build", "--offline"], cwd=HARNESS, env=env,
                           stdout=subprocess.PIPE, stderr=subprocess.STDOUT, text=True)
        if p.returncode == 0:
            import execpool
            execpool.use_private_copy()       # under the build lock: the copy is the binary of THIS build
    if p.returncode != 0:
        sys.stdout.write(p.stdout[-6000:])
        raise ToolError("harness build failed (does /repo still compile?)")
    log(f"[build] harness built against /repo working tree in {time.time()-t0:.1f}s")

def load_known():
    out = []
    paths = [KNOWN]
    extra = os.environ.get("VERIF_EXTRA_KNOWN")     # development aid only (candidate files under review)
    if extra: paths.append(os.path.join(ROOT, extra))
    for kp in paths:
        if not os.path.exists(kp): continue
        for line in open(kp):
            line = line.strip()
            if line and not line.startswith("#"):
                out.append(json.loads(line))
    return out

class Failure:
    def __init__(self, sig, what, replay):
        self.sig = sig; self.what = what; self.replay = replay

class Report:
    """Collects what a check explored and what failed; writes evidence; decides the exit code."""
    def __init__(self, prop, tier, seed):
        self.prop = prop; self.tier = tier; self.seed = seed
        self.t0 = time.time()
        self.failures = []          # list[Failure]
        self.cov = {}               # coverage dict
        self.samples = []
        self.assumptions = []
        self.tool_errors = []
        self.level = "model_checking"

    def fail(self, sig, what, replay):
        self.failures.append(Failure(sig, what, replay))

    def add_samples(self, items, k=8):
        rnd = random.Random(self.seed)
        items = list(items)
        if len(items) <= k: self.samples += items
        else:
            pick = [items[0], items[-1]] + rnd.sample(items[1:-1], min(k - 2, len(items) - 2))
            self.samples += pick

    def finish(self):
        known = [k for k in load_known() if k.get("property") == self.prop]
        known_sigs = {k["signature"]: k for k in known if k.get("status") == "known"}
        by_sig = {}
        for f in self.failures:
            by_sig.setdefault(f.sig, []).append(f)
        rdir = os.path.join(OUT, "replay", self.prop)
        os.makedirs(rdir, exist_ok=True)
        violations = 0; reproduced = []
        for sig, fs in sorted(by_sig.items()):
            path = os.path.join(rdir, hashlib.sha1(sig.encode()).hexdigest()[:12] + ".json")
            with open(path, "w") as fh:
                json.dump({"property": self.prop, "signature": sig, "count": len(fs),
                           "cases": [{"what": f.what, "replay": f.replay} for f in fs[:20]]}, fh, indent=1, default=str)
            if sig in known_sigs:
                reproduced.append(sig)
                log(f"KNOWN-FINDING: property={self.prop} {sig} {known_sigs[sig].get('what','')} ({len(fs)} case(s))")
            else:
                violations += 1
                log(f"VIOLATION property={self.prop} replay={path}")
                log(f"   signature={sig} cases={len(fs)} first: {fs[0].what}")
        self.cov["known_findings_reproduced"] = reproduced
        self.cov["failure_signatures"] = sorted(by_sig.keys())
        self.cov["samples"] = self.samples if self.samples else [{"note": "no samples"}]
        ev = {"property_id": self.prop, "tier": self.tier, "seed": self.seed, "level": self.level,
              "coverage": self.cov, "assumptions": self.assumptions,
              "wall_s": round(time.time() - self.t0, 2), "violations": violations}
        import re as _re
        # growth areas (G..: behaviour no listed property names) are not registered in MANIFEST.json; their evidence is kept apart
        evdir = EVID if _re.match(r"^C\d\d$", self.prop) else os.path.join(os.path.dirname(EVID), "evidence_extra")
        os.makedirs(evdir, exist_ok=True)
        with open(os.path.join(evdir, f"{self.prop}.json"), "w") as fh:
            json.dump(ev, fh, indent=1, default=str)
        log(f"[{self.prop}] tier={self.tier} wall={ev['wall_s']}s violations={violations} known={len(reproduced)}")
        return 1 if violations else 0


def generic_replay(prop, path):
    """bin/check <ID> --replay <file>: <file> is a replay file written by an earlier run (out/replay/<ID>/<hash>.json: signature +
    the failing cases with their inputs).  The failure is re-judged by the SAME machinery against the current /repo tree: the check is
    re-run (quick tier first, thorough if the signature does not come back) and the recorded signature is looked up among the failures.
    Exit 1 (with the VIOLATION line) if it still occurs, 0 if it no longer does."""
    import importlib
    try:
        rec = json.load(open(path))
    except Exception as ex:
        raise ToolError(f"cannot read replay file {path}: {ex}")
    sig = rec.get("signature")
    if rec.get("property") not in (None, prop): raise ToolError(f"{path} belongs to {rec.get('property')}, not {prop}")
    log(f"[replay] {prop} signature {sig}; recorded case: {str(rec.get('cases', [{}])[0].get('what'))[:300]}")
    mod = importlib.import_module("areas." + prop.lower())
    seed = int(os.environ.get("VERIF_SEED", "1") or 1)
    for tier in ("quick", "thorough"):
        rep = Report(prop, tier, seed)
        mod.run(rep, tier, seed)
        hits = [f for f in rep.failures if f.sig == sig]
        if hits:
            rdir = os.path.join(OUT, "replay", prop); os.makedirs(rdir, exist_ok=True)
            out = os.path.join(rdir, "replayed_" + hashlib.sha1(sig.encode()).hexdigest()[:12] + ".json")
            with open(out, "w") as fh:
                json.dump({"property": prop, "signature": sig, "count": len(hits), "tier": tier,
                           "cases": [{"what": f.what, "replay": f.replay} for f in hits[:20]]}, fh, indent=1, default=str)
            log(f"VIOLATION property={prop} replay={out}")
            log(f"   signature={sig} reproduced on the current tree ({len(hits)} case(s), {tier} tier): {hits[0].what[:300]}")
            return 1
    log(f"[replay] signature {sig} does not occur on the current tree (quick and thorough tiers)")
    return 0
