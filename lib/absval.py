"""Abstract value domain shared by the checks (Python side).

Projection JSON (from the Rust harness) -> canonical Python values:
  ('num', kind, Fraction) | ('flt', kind, 'nan'|'inf'|'-inf'|'-0') | ('cplx', re, im)
  ('bool', b) | ('str', s) | ('atom', s) | ('empty',)
  ('mat', kind, r, c, (elements col-major...)) | ('set', kindstr, frozenset) | ('tup', (..)) ...
"""
import struct
from fractions import Fraction

INT_KINDS = ["u8", "u16", "u32", "u64", "u128", "i8", "i16", "i32", "i64", "i128"]
FLOAT_KINDS = ["f32", "f64"]
NUM_KINDS = INT_KINDS + FLOAT_KINDS + ["r64", "c64"]

def kind_min(k):
    if k[0] == 'u': return 0
    return -(1 << (int(k[1:]) - 1))

def kind_max(k):
    b = int(k[1:])
    return (1 << b) - 1 if k[0] == 'u' else (1 << (b - 1)) - 1

def f64_from_bits(h):
    return struct.unpack(">d", bytes.fromhex(h))[0]

def f32_from_bits(h):
    return struct.unpack(">f", bytes.fromhex(h))[0]

def float_abs(kind, x):
    import math
    if math.isnan(x): return ('flt', kind, 'nan')
    if math.isinf(x): return ('flt', kind, 'inf' if x > 0 else '-inf')
    if x == 0 and math.copysign(1.0, x) < 0: return ('flt', kind, '-0')
    return ('num', kind, Fraction(x))

def absval(p):
    """projection JSON -> canonical value"""
    t = p.get("t")
    if t == "num":
        k = p["k"]
        if k == "f64": return float_abs(k, f64_from_bits(p["bits"]))
        if k == "f32": return float_abs(k, f32_from_bits(p["bits"]))
        if k == "r64": return ('num', k, Fraction(int(p["n"]), int(p["d"])))
        return ('num', k, Fraction(int(p["v"])))
    if t == "cplx":
        return ('cplx', float_abs('f64', f64_from_bits(p["re"])), float_abs('f64', f64_from_bits(p["im"])))
    if t == "bool": return ('bool', bool(p["v"]))
    if t == "str": return ('str', p["s"])
    if t == "atom": return ('atom', p["s"])
    if t == "empty": return ('empty',)
    if t == "mat":
        return ('mat', p["k"], p["r"], p["c"], tuple(absval(e) for e in p["d"]))
    if t == "set":
        els = [absval(e) for e in p["e"]]
        return ('set', p["k"], p["n"], tuple(els))
    if t == "tup": return ('tup', tuple(absval(e) for e in p["e"]))
    if t == "rec": return ('rec', tuple((f["n"], f["k"], absval(f["v"])) for f in p["f"]))
    if t == "tbl":
        return ('tbl', p["rows"], tuple((c["n"], c["k"], tuple(absval(e) for e in c["d"])) for c in p["cols"]))
    if t == "map": return ('map', tuple((absval(a), absval(b)) for a, b in p["e"]))
    if t == "mref": return absval(p["v"])
    if t == "typed": return ('typed', p["k"], absval(p["v"]))
    if t == "enum": return ('enum', p["n"], tuple((v["n"], absval(v["p"]) if v["p"] else None) for v in p["v"]))
    if t == "kind": return ('kind', p["k"])
    if t == "id": return ('id', p["v"])
    if t == "all": return ('all',)
    return ('other', str(p))

def short(v, depth=0):
    """compact human rendering of a canonical value"""
    t = v[0]
    if t == 'num':
        f = v[2]
        s = str(f.numerator) if f.denominator == 1 else (str(float(f)) if v[1] in FLOAT_KINDS else f"{f.numerator}/{f.denominator}")
        return f"{s}:{v[1]}"
    if t == 'flt': return f"{v[2]}:{v[1]}"
    if t == 'bool': return 'true' if v[1] else 'false'
    if t == 'str': return '"' + v[1] + '"'
    if t == 'mat':
        r, c, d = v[2], v[3], v[4]
        rows = []
        for i in range(r):
            rows.append(" ".join(short(d[j * r + i]).rsplit(":", 1)[0] for j in range(c)))
        return f"[{'; '.join(rows)}]<{v[1]}:{r}x{c}>"
    if t == 'set': return "{" + ", ".join(short(e) for e in v[3]) + "}"
    if t == 'tup': return "(" + ", ".join(short(e) for e in v[1]) + ")"
    return str(v)

# ---------------------------------------------------------------- rendering of scalars as Mech literals

def lit_num(kind, f):
    """Mech source literal for the exact rational f in the given kind (f must be representable)."""
    f = Fraction(f)
    if kind == "f64":
        if f.denominator == 1: return str(f.numerator) if f >= 0 else f"-{-f.numerator}"
        return repr(float(f))
    if kind == "f32":
        body = str(f.numerator) if f.denominator == 1 else repr(float(f))
        return f"{body}<f32>"
    if kind == "r64":
        return f"{f.numerator}/{f.denominator}"
    if kind in INT_KINDS:
        assert f.denominator == 1
        if kind[0] == 'u': return f"{f.numerator}{kind}"
        return f"{f.numerator}<{kind}>"
    raise ValueError(kind)

def lit_scalar(v):
    t = v[0]
    if t == 'num': return lit_num(v[1], v[2])
    if t == 'bool': return 'true' if v[1] else 'false'
    if t == 'str': return '"' + v[1] + '"'
    raise ValueError(v)
