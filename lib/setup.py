"""bin/check --setup : build the harness offline, parse every TLA+ module, run the self-tests."""
import glob, os, subprocess, sys, json
import core, tlc, execpool, absval

def main():
    core.build_harness()
    bad = 0
    claimed = {c["property_id"] for c in json.load(open(os.path.join(core.ROOT, "MANIFEST.json")))["checks"]}
    for p in sorted(glob.glob(os.path.join(tlc.SPEC, "*.tla"))):
        mod = os.path.basename(p)[:-4]
        # top-level modules of claimed checks (sany parses what they extend); others are work in progress
        if not any(mod.startswith((f"MC_{c}", f"Trace_{c}")) for c in claimed): continue
        ok, out = tlc.sany(mod)
        print(f"[sany] {mod}: {'ok' if ok else 'FAILED'}")
        if not ok:
            print(out[-2000:]); bad += 1
    # projection self-test: values of every scalar kind round-trip through the executor
    stmts = ["5u8", "300u16", "70000u32", "5000000000u64", "5u128", "-5<i8>", "-300<i16>", "-70000<i32>", "-5000000000<i64>",
             "-5<i128>", "1.5", "2.25<f32>", "3/4", "true", '"s"', "[1 2; 3 4]"]
    w = execpool.Worker()
    resp, oc = w.request({"id": "setup", "mode": "session", "stmts": stmts}, 60)
    w.close()
    if oc != "ok":
        print("executor self-test failed:", oc); return 2
    from fractions import Fraction as F
    want = [F(5), F(300), F(70000), F(5000000000), F(5), F(-5), F(-300), F(-70000), F(-5000000000), F(-5), F(3, 2), F(9, 4), F(3, 4)]
    for s, st, wv in zip(stmts, resp["steps"], want):
        v = absval.absval(st["v"])
        if v[0] != 'num' or v[2] != wv:
            print("projection self-test mismatch:", s, v); bad += 1
    print("[setup] projection self-test", "ok" if not bad else "FAILED")
    return 2 if bad else 0
