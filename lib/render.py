"""Renderer: abstract operands -> Mech source text (the single place where text is produced)."""
from fractions import Fraction
from absval import INT_KINDS, FLOAT_KINDS, lit_num, kind_min, kind_max

ELEM_KINDS = ["f64", "u8", "u16", "u32", "u64", "u128", "i8", "i16", "i32", "i64", "i128", "f32", "r64", "bool", "string"]
SIGNED = ["i8", "i16", "i32", "i64", "i128"]

_BOOLBITS = '1011001110001011010011101100010'

def token_value(kind, t):
    """distinct, easily recognisable element value for cell token t (t >= 1) in the given kind."""
    if kind == "bool":
        return ('bool', _BOOLBITS[(t - 1) % len(_BOOLBITS)] == '1')
    if kind == "string":
        return ('str', f"s{t}")
    if kind == "f64":
        return ('num', kind, Fraction(2 * (10 + t) + 1, 2))       # 10.5+t
    if kind == "f32":
        return ('num', kind, Fraction(4 * (10 + t) + 1, 4))       # 10.25+t
    if kind == "r64":
        return ('num', kind, Fraction(10 + t, 7))
    if kind in SIGNED:
        return ('num', kind, Fraction((10 + t) * (-1 if t % 2 == 0 else 1)))
    return ('num', kind, Fraction(10 + t))

def scalar_lit(v):
    if v[0] == 'num':
        k, f = v[1], v[2]
        if f < 0 and k in ("f64",):
            return "-" + lit_num(k, -f)
        return lit_num(k, f)
    if v[0] == 'bool': return 'true' if v[1] else 'false'
    if v[0] == 'str': return '"' + v[1] + '"'
    raise ValueError(v)

def _f64_lit(f):
    f = Fraction(f)
    s = str(f.numerator) if f.denominator == 1 else repr(float(f))
    return s

def matrix_literal(r, c, cells):
    """cells: list of source texts, column-major"""
    rows = []
    for i in range(r):
        rows.append(" ".join(cells[j * r + i] for j in range(c)))
    return "[" + "; ".join(rows) + "]"

def define_matrix(name, kind, r, c, vals, mutable=False):
    """Statement defining `name` as an r x c matrix of element kind `kind` with the given column-major
    canonical values.  Route R1 (typed literal) for kinds whose concatenation arms exist, route R2
    (conversion of an f64 literal) for signed integers (vertical concatenation has no signed arm)."""
    tilde = "~" if mutable else ""
    if kind in SIGNED:
        cells = [_f64_lit(v[2]) for v in vals]
        return f"{tilde}{name}<[{kind}]:{r},{c}> := {matrix_literal(r, c, cells)}"
    cells = [scalar_lit(v) for v in vals]
    return f"{tilde}{name} := {matrix_literal(r, c, cells)}"

INDEX_KINDS = ["f64", "u8", "u16", "u32", "u64", "i8", "i16", "i32", "i64", "u128", "i128", "f32"]

def index_scalar(i, ikind="f64"):
    if ikind == "f64": return str(i)
    return lit_num(ikind, Fraction(i))

def index_vector(ix, ikind="f64"):
    return "[" + " ".join(index_scalar(i, ikind) for i in ix) + "]"

def mask_literal(mask):
    return "[" + " ".join("true" if b else "false" for b in mask) + "]"
