"""TLC wrapper: exhaustive runs (case emission through PrintT/ToJson), simulation, trace validation."""
import glob, json, os, re, subprocess, time, shutil, tempfile

ROOT = os.path.dirname(os.path.dirname(os.path.abspath(__file__)))
SPEC = os.path.join(ROOT, "spec")
OUT = os.path.join(ROOT, "out")

class TlcError(Exception):
    pass

class TlcResult:
    def __init__(self):
        self.generated = 0; self.distinct = 0; self.cases = []; self.msgs = []
        self.violations = []; self.errors = []; self.stdout = ""; self.wall = 0.0
        self.coverage_zero = []; self.depth = 0; self.ok = False

_case_re = re.compile(r'^<<"(CASE|EDGE|MSG)", "(.*)">>$')

def _unescape(s):
    # TLC prints TLA+ strings with \" and \\ escapes
    out = []; i = 0
    while i < len(s):
        ch = s[i]
        if ch == "\\" and i + 1 < len(s):
            nx = s[i + 1]
            if nx == '"': out.append('"'); i += 2; continue
            if nx == "\\": out.append("\\"); i += 2; continue
            if nx == "n": out.append("\n"); i += 2; continue
            if nx == "t": out.append("\t"); i += 2; continue
        out.append(ch); i += 1
    return "".join(out)

def run(module, cfg=None, workers=16, env=None, timeout=1800, simulate=None, depth=None,
        coverage=False, deque=False, xmx="8g", xss=None, extra=None, tag=None, collect=("CASE", "EDGE", "MSG")):
    """Run TLC on spec/<module>.tla with spec/<cfg>. Returns TlcResult. Raises TlcError on tool failure."""
    cfg = cfg or (module + ".cfg")
    tag = tag or module
    os.makedirs(OUT, exist_ok=True)
    meta = tempfile.mkdtemp(prefix=f"tlc_{tag}_", dir=OUT)
    jopts = [f"-Xmx{xmx}"]
    if xss: jopts.append(f"-Xss{xss}")
    if deque: jopts.append("-Dtlc2.tool.queue.IStateQueue=StateDeque")
    e = dict(os.environ)
    e["JAVA_TOOL_OPTIONS"] = " ".join(jopts)
    if env: e.update({k: str(v) for k, v in env.items()})
    cmd = ["tlc", "-workers", str(workers), "-metadir", meta, "-cleanup", "-noGenerateSpecTE",
           "-config", cfg]
    if simulate:
        cmd += ["-simulate", f"num={simulate}"]
        if depth: cmd += ["-depth", str(depth)]
    if coverage: cmd += ["-coverage", "1"]
    if extra: cmd += extra
    cmd.append(module + ".tla")
    t0 = time.time()
    res = TlcResult()
    logp = os.path.join(OUT, f"tlc_{tag}.{os.getpid()}.log")     # per process: concurrent checks must not share a log
    for old in glob.glob(os.path.join(OUT, f"tlc_{tag}.*.log")):
        try:
            if time.time() - os.path.getmtime(old) > 6 * 3600: os.remove(old)
        except OSError: pass
    try:
        with open(logp, "w") as lf:
            p = subprocess.run(cmd, cwd=SPEC, env=e, stdout=lf, stderr=subprocess.STDOUT, timeout=timeout)
    except subprocess.TimeoutExpired:
        shutil.rmtree(meta, ignore_errors=True)
        try: shutil.copyfile(logp, os.path.join(OUT, f"tlc_{tag}.log"))
        except OSError: pass
        raise TlcError(f"TLC timeout after {timeout}s on {module}")
    finally:
        shutil.rmtree(meta, ignore_errors=True)
    res.wall = time.time() - t0
    try: shutil.copyfile(logp, os.path.join(OUT, f"tlc_{tag}.log"))      # stable name for callers that read the log of a failed run
    except OSError: pass
    with open(logp, errors="replace") as f:
        for line in f:
            line = line.rstrip("\n")
            m = _case_re.match(line)
            if m:
                kind = m.group(1)
                if kind in collect:
                    try:
                        obj = json.loads(_unescape(m.group(2)))
                    except Exception as ex:
                        raise TlcError(f"unparsable {kind} line from TLC: {line[:200]} ({ex})")
                    if kind == "MSG": res.msgs.append(obj)
                    else: res.cases.append(obj)
                continue
            m2 = re.match(r"^(\d+) states generated, (\d+) distinct states found", line)
            if m2:
                res.generated = int(m2.group(1)); res.distinct = int(m2.group(2))
            m2s = re.match(r"^The number of states generated: (\d+)", line)
            if m2s and not res.generated:
                res.generated = int(m2s.group(1)); res.distinct = res.distinct or int(m2s.group(1))
            m3 = re.match(r"^The depth of the complete state graph search is (\d+)", line)
            if m3: res.depth = int(m3.group(1))
            if line.startswith("Error:"):
                res.errors.append(line)
                mv = re.match(r"Error: (Invariant|Action property|Temporal properties?) (\S+)? ?.*violated", line)
                if "is violated" in line or "was violated" in line:
                    res.violations.append(line)
            if "Finished in" in line or "Model checking completed" in line:
                res.ok = True
    res.rc = p.returncode
    res.log = logp
    # TLC exit codes: 0 ok, 12 safety violation, 13 liveness, others = errors
    if p.returncode not in (0, 12, 13) and not res.violations:
        tail = open(logp, errors="replace").read()[-3000:]
        raise TlcError(f"TLC failed rc={p.returncode} on {module}:\n{tail}")
    return res

def sany(module):
    p = subprocess.run(["tla-sany", module + ".tla"], cwd=SPEC, stdout=subprocess.PIPE, stderr=subprocess.STDOUT, text=True)
    ok = p.returncode == 0 and "Semantic errors" not in p.stdout and "Parse Error" not in p.stdout and "Fatal" not in p.stdout
    return ok, p.stdout

def tlapm(module, deps, timeout=900, threads=8):
    """Check the TLAPS proofs of spec/<module>.tla (with the modules it extends, `deps`) in a scratch directory.
    Returns (ok, obligations_proved, text). Raises TlcError when the tool cannot be run."""
    os.makedirs(OUT, exist_ok=True)
    d = tempfile.mkdtemp(prefix=f"tlapm_{module}_", dir=OUT)
    try:
        for m in [module] + list(deps):
            shutil.copyfile(os.path.join(SPEC, m + ".tla"), os.path.join(d, m + ".tla"))
        # the back ends run under wall-clock timeouts: on a loaded machine (16 replay workers next to the provers) an obligation
        # that takes 2 s alone can time out.  Timeouts are stretched, and a failed run is repeated with fewer threads and a larger
        # factor (fingerprints of the proved obligations are kept between the attempts): a proof either goes through or it does not,
        # the machine's load must not decide it.
        out = ""
        for attempt, (stretch, thr, clean) in enumerate(((4, threads, True), (12, max(2, threads // 2), False), (30, 2, False))):
            try:
                p = subprocess.run(["tlapm", "--threads", str(thr), "--stretch", str(stretch)] + (["--cleanfp"] if clean else []) + [module + ".tla"],
                                   cwd=d, stdout=subprocess.PIPE, stderr=subprocess.STDOUT, text=True, timeout=timeout)
            except subprocess.TimeoutExpired:
                raise TlcError(f"tlapm timeout after {timeout}s on {module}")
            except FileNotFoundError:
                raise TlcError("tlapm not found on PATH")
            out = p.stdout
            m = re.search(r"All (\d+) obligations? proved", out)
            if p.returncode == 0 and m is not None and int(m.group(1)) > 0:
                return True, int(m.group(1)), out[-3000:]
        return False, 0, out[-3000:]
    finally:
        shutil.rmtree(d, ignore_errors=True)
