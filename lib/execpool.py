"""Worker pool around `mechverif exec`: strict request/response over pipes, crash/hang attribution.

A worker that dies (abort, stack overflow, OOM kill) or exceeds the per-request budget is DATA:
the in-flight request gets {"outcome": "abort"|"hang", ...} and a fresh worker is started.
"""
import json, os, select, subprocess, threading, queue, signal, resource, time

HARNESS = os.path.join(os.path.dirname(os.path.dirname(os.path.abspath(__file__))), "harness")
BUILT = os.path.join(HARNESS, "target", "debug", "mechverif")
BIN = os.environ.get("VERIF_EXEC_BIN") or BUILT      # development aid: a pinned executor copy (bin/runall)
_private = [None]

def use_private_copy():
    """Copy the freshly built executor to a private file and run from there, so that a later rebuild (another check
    started meanwhile, possibly against a different /repo working tree) cannot swap the binary under a running check."""
    import atexit, shutil, tempfile
    global BIN
    if _private[0]: return
    d = tempfile.mkdtemp(prefix="exec_", dir=os.path.join(os.path.dirname(HARNESS), "out"))
    dst = os.path.join(d, "mechverif")
    shutil.copy2(BUILT, dst)
    _private[0] = d; BIN = dst
    atexit.register(lambda: shutil.rmtree(d, ignore_errors=True))


class Worker:
    def __init__(self, mem_limit_mb=None, cwd=None, env=None):
        self.mem = mem_limit_mb
        self.cwd = cwd
        self.env = env
        self.p = None
        self.buf = b""
        self.start()

    def start(self):
        def pre():
            os.setsid()
            if self.mem:
                lim = self.mem * 1024 * 1024
                resource.setrlimit(resource.RLIMIT_AS, (lim, lim))
            resource.setrlimit(resource.RLIMIT_CORE, (0, 0))
        e = dict(os.environ)
        e["RUST_BACKTRACE"] = "0"
        if self.env:
            e.update(self.env)
        self.p = subprocess.Popen([BIN, "exec"], stdin=subprocess.PIPE, stdout=subprocess.PIPE,
                                  stderr=subprocess.DEVNULL, preexec_fn=pre, cwd=self.cwd, env=e)
        self.buf = b""

    def kill(self):
        try:
            os.killpg(self.p.pid, signal.SIGKILL)
        except Exception:
            pass
        try:
            self.p.wait(timeout=5)
        except Exception:
            pass

    def request(self, req, timeout):
        """returns (response dict | None, outcome) with outcome in ok/abort/hang"""
        data = (json.dumps(req) + "\n").encode()
        try:
            self.p.stdin.write(data)
            self.p.stdin.flush()
        except (BrokenPipeError, OSError):
            rc = self.p.poll()
            self.kill(); self.start()
            return None, "abort"
        deadline = time.time() + timeout
        fd = self.p.stdout.fileno()
        while True:
            nl = self.buf.find(b"\n")
            if nl >= 0:
                line = self.buf[:nl]
                self.buf = self.buf[nl + 1:]
                try:
                    return json.loads(line), "ok"
                except Exception:
                    return {"raw": line.decode("utf8", "replace")}, "ok"
            rem = deadline - time.time()
            if rem <= 0:
                self.kill(); self.start()
                return None, "hang"
            r, _, _ = select.select([fd], [], [], min(rem, 1.0))
            if r:
                chunk = os.read(fd, 1 << 16)
                if not chunk:
                    rc = self.p.wait()
                    self.start()
                    return {"exit": rc}, "abort"
                self.buf += chunk

    def close(self):
        try:
            self.p.stdin.close()
        except Exception:
            pass
        self.kill()


def run_requests(reqs, nworkers=16, timeout=60.0, mem_limit_mb=None, cwd=None, env=None, progress=None):
    """Run all requests; returns list of (resp, outcome) aligned with reqs."""
    n = len(reqs)
    out = [None] * n
    q = queue.Queue()
    for i in range(n):
        q.put(i)
    nworkers = max(1, min(nworkers, n))
    done = [0]
    lock = threading.Lock()

    def work():
        w = Worker(mem_limit_mb, cwd, env)
        try:
            while True:
                try:
                    i = q.get_nowait()
                except queue.Empty:
                    break
                resp, oc = w.request(reqs[i], timeout)
                out[i] = (resp, oc)
                if progress:
                    with lock:
                        done[0] += 1
                        if done[0] % progress == 0:
                            print(f"  .. {done[0]}/{n}", flush=True)
        finally:
            w.close()

    ths = [threading.Thread(target=work) for _ in range(nworkers)]
    for t in ths:
        t.start()
    for t in ths:
        t.join()
    return out
