"""Rendering / projection / graph utilities for the MechSession model (C05, C19, C10)."""
import json, collections, heapq
from fractions import Fraction as F
import absval

def lit(v):
    c, d = v["cls"], v["d"]
    if c == "sc": return str(d[0])
    if c == "mat": return f"[{d[0]} {d[1]}]"
    if c == "rec": return f"{{x: {d[0]}, y: {d[1]}}}"
    if c == "tup": return f"({d[0]}, {d[1]})"
    if c == "set": return "{1, 2}"
    if c == "tbl": return "| x<f64> y<f64> | 1 2 |"
    raise ValueError(v)

def stmt(act):
    a, n, m = act["a"], act["n"], act["m"]
    til = "~" if act.get("mu") else ""
    if a == "Define": return f"{til}{n} := {lit(act['v'])}"
    if a == "DefineFromVar": return f"{til}{n} := {m}"
    if a == "DefineFromVarAnnot": return f"{til}{n}<{ {1: 'f64', 2: '[f64]:1,2', 3: '[f64]'}[act['i']] }> := {m}"
    if a == "Assign": return f"{n} = {lit(act['v'])}"
    if a == "AssignFromVar": return f"{n} = {m}"
    if a == "AssignFromPart": return {1: f"{n} = {m}.x", 2: f"{n} = {m}.1", 3: f"{n} = [{m}]", 4: f"{n} = {m}[1]"}[act["i"]]
    if a == "IndexAssign": return f"{n}[{act['i']}] = 9"
    if a == "OpAssign": return f"{n} += 1"
    if a == "OpAssignVar": return f"{n} {'+-*'[act['i'] - 1]}= {m}"
    if a == "FieldAssign": return f"{n}.x = 9"
    if a == "TupleElemAssign": return f"{n}.1 = 9"
    if a == "Destructure": return f"({n}, {m}) := (7, 8)"
    if a == "DestructureTooMany": return f"({n}, {m}, zz9) := (7, 8)"
    if a == "DestructureVar": return f"({n}, {m}) := {act['k']}"
    if a == "Eval": return f"{n}"
    if a == "FailingCall":      # needs FN_DEFS in the main program; the variant is chosen by the caller through act["i"]
        return ["zzq := zzbad(1)", "zzq := zzpick(5)", "zzbad(2)", f"{n} = zzbad(3)", "zzq := zzbad(\"s\")", "zzw := zzpick(7) + 1",
                # the body PANICS inside the call (unsigned underflow, out-of-range index): caught at the interpret boundary
                "zzq := zzdec(0u64)", "zzat([1 2 3])", f"{n} = zzat([1 2 3])", "zzw := zzdec(0u64) + 1u64"][act.get("i", 0) % 10]
    raise ValueError(act)

# user functions whose calls fail at run time (body reads an undefined name; no arm matches; the body panics) - definitions change no variable
FN_DEFS = ("zzbad(x<f64>) = z<f64> :=\n  z := x + zzmissing.\n\nzzpick(x<f64>) => <f64>\n  | 0 => 10\n  | 1 => 11.\n\n"
           "zzdec(n<u64>) = r<u64> :=\n  r := n - 1u64.\n\nzzat(m<[f64]>) = r<f64> :=\n  r := m[7].")

def num(n): return ('num', 'f64', F(n))

def model_value(v):
    """canonical (absval) form of a model value"""
    c, d = v["cls"], v["d"]
    if c == "undef": return None
    if c == "sc": return num(d[0])
    if c == "mat": return ('mat', 'f64', 1, 2, (num(d[0]), num(d[1])))
    if c == "rec": return ('rec', (('x', 'f64', num(d[0])), ('y', 'f64', num(d[1]))))
    if c == "tup": return ('tup', (num(d[0]), num(d[1])))
    if c == "set": return ('setval', frozenset([num(1), num(2)]))
    if c == "tbl":
        rows = len(d) // 2
        return ('tbl', rows, (('x', 'f64', tuple(num(d[2 * k]) for k in range(rows))), ('y', 'f64', tuple(num(d[2 * k + 1]) for k in range(rows)))))
    raise ValueError(v)

def observed_value(p):
    v = absval.absval(p)
    if v[0] == 'set': return ('setval', frozenset(v[3]))
    return v

def observed_state(step, names):
    st = step.get("store") or {}
    store = {n: (observed_value(st[n]["v"]) if n in st else None) for n in names}
    mut = sorted(n for n in step.get("mut", []) if n in names)
    return store, mut

def model_state(s, names):
    return {n: model_value(s["store"][n]) for n in names}, sorted(s["mut"])

def skey(s):
    return json.dumps(s, sort_keys=True)

class Graph:
    def __init__(self, edges):
        self.out = collections.defaultdict(list)   # skey -> [(act, to_key)]
        self.state = {}
        for e in edges:
            fk, tk = skey(e["from"]), skey(e["to"])
            self.state[fk] = e["from"]; self.state[tk] = e["to"]
            self.out[fk].append((e["act"], tk))
        self.nedges = len(edges)

    def shortest_paths(self, init_key, penalty=None):
        """Dijkstra from init; returns {key: (cost, prev_key, act)}"""
        dist = {init_key: (0, None, None)}
        pq = [(0, init_key)]
        while pq:
            d, k = heapq.heappop(pq)
            if d > dist[k][0]: continue
            for act, tk in self.out.get(k, []):
                if tk == k: continue
                w = 1 + (penalty(act) if penalty else 0)
                if tk not in dist or d + w < dist[tk][0]:
                    dist[tk] = (d + w, k, act)
                    heapq.heappush(pq, (d + w, tk))
        return dist

    def path_to(self, dist, key):
        acts = []
        while dist[key][1] is not None:
            _, prev, act = dist[key]
            acts.append((act, key)); key = prev
        acts.reverse()
        return acts   # list of (act, resulting_state_key)
