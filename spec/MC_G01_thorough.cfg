SPECIFICATION Spec
CONSTANTS
  ShapeSet <- ShapesThorough
  ChainDims = {1, 2, 3}
  FillSet = {"prime", "iota", "neg", "dyad", "prime2", "sq"}
  RouteFills = {"prime", "neg"}
INVARIANTS RouteLaw KernelEqDecl Shapes TransposeLaw ProductTLaw SumLaw IdentityLaw DotLaw AssocLaw CompositeLaw Discriminating Emit
CHECK_DEADLOCK FALSE
