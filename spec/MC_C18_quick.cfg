SPECIFICATION Spec
CONSTANTS
  MaxCols = 2
  MaxRows = 2
  MaxRows3 = 2
  SelRows = 3
  BigN = 6
  BigM = 3
INVARIANTS KernelEq Laws Mirror SelLaws Emit
CHECK_DEADLOCK FALSE
