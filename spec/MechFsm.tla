------------------------------ MODULE MechFsm ------------------------------
(***************************************************************************)
(* Reference semantics of Mech state machines (C17).                        *)
(*                                                                         *)
(* A machine is a record                                                    *)
(*   [name, inputs  : <<names>>,          machine arguments (kind u64 or    *)
(*          inkinds : <<kinds>>,          [u64])                            *)
(*          outkind : kind,               declared output kind              *)
(*          declared: <<[name, arity]>>,  the states of the specification   *)
(*          start   : target,             #M(..) -> :S(e, ..)               *)
(*          arms    : <<arm>>]            in source order                   *)
(* target = [state, args : <<expr>>]                                        *)
(* arm    = [state, pats : <<payload pattern>>, kind, to, guards, out]      *)
(*            kind "trans":  :S(p..) -> to                                  *)
(*            kind "out"  :  :S(p..) => out                                 *)
(*            kind "guard":  :S(p..)  followed by  |- cond -> to / cond => out *)
(* guard  = [cond, kind ("trans"|"out"), to, out]                           *)
(* payload pattern [k, v, n, r]: "var" v | "lit" n | "wild" | "nil" ([])    *)
(*   | "cons" ([v | r]) | "cons2" ([v, n2 | r] as [k,v,w,r]) | "one" ([v])  *)
(*   | "ends" ([v ... r])                                                   *)
(* expressions: lit n | var v | add/sub(l, r) | cat(l, r) = [l r] | nil = [] *)
(* conditions : gt ge lt eq ne (l, r) | any = the wildcard guard            *)
(*                                                                         *)
(* Values: [t |-> "n", n, e |-> <<>>] scalars, [t |-> "arr", n |-> 0, e]    *)
(* row vectors.  A configuration is [state, pay : <<values>>].              *)
(***************************************************************************)
EXTENDS Naturals, Integers, Sequences, FiniteSets

NV(n) == [t |-> "n", n |-> n, e |-> <<>>]
AV(s) == [t |-> "arr", n |-> 0, e |-> s]

(* --------------------------------------------------------------- builders *)
ELit(n) == [op |-> "lit", n |-> n]
EVar(v) == [op |-> "var", v |-> v]
EBin(op, l, r) == [op |-> op, l |-> l, r |-> r]
ENil == [op |-> "nil"]
Cond(op, l, r) == [op |-> op, l |-> l, r |-> r]
CAny == [op |-> "any", l |-> ELit(0), r |-> ELit(0)]
PV(v) == [k |-> "var", v |-> v, w |-> "", n |-> 0, r |-> ""]
PL(n) == [k |-> "lit", v |-> "", w |-> "", n |-> n, r |-> ""]
PW    == [k |-> "wild", v |-> "", w |-> "", n |-> 0, r |-> ""]
PNil  == [k |-> "nil", v |-> "", w |-> "", n |-> 0, r |-> ""]
POne(v) == [k |-> "one", v |-> v, w |-> "", n |-> 0, r |-> ""]
PCons(v, r) == [k |-> "cons", v |-> v, w |-> "", n |-> 0, r |-> r]
PCons2(v, w, r) == [k |-> "cons2", v |-> v, w |-> w, n |-> 0, r |-> r]
PEnds(v, w) == [k |-> "ends", v |-> v, w |-> w, n |-> 0, r |-> ""]
(* [... v w]: SEVERAL element patterns after the spread are aligned with the END of the vector in their written order: *)
(* v is the last but one element, w the last;  [r ... v w] binds the first element as well                             *)
PTail2(v, w) == [k |-> "tail2", v |-> v, w |-> w, n |-> 0, r |-> ""]
PEnds3(r, v, w) == [k |-> "ends3", v |-> v, w |-> w, n |-> 0, r |-> r]
Target(s, args) == [state |-> s, args |-> args]
NoTarget == Target("", <<>>)
TransArm(s, pats, to) == [state |-> s, pats |-> pats, kind |-> "trans", to |-> to, guards |-> <<>>, out |-> ELit(0)]
OutArm(s, pats, e)    == [state |-> s, pats |-> pats, kind |-> "out", to |-> NoTarget, guards |-> <<>>, out |-> e]
GuardArm(s, pats, gs) == [state |-> s, pats |-> pats, kind |-> "guard", to |-> NoTarget, guards |-> gs, out |-> ELit(0)]
GTrans(c, to) == [cond |-> c, kind |-> "trans", to |-> to, out |-> ELit(0)]
GOut(c, e)    == [cond |-> c, kind |-> "out", to |-> NoTarget, out |-> e]

(* ------------------------------------------------------------ environments *)
Bound(env, x)  == \E i \in 1..Len(env) : env[i].v = x
(* the LAST binding of a name wins: a pattern variable shadows a machine argument of the same name *)
Lookup(env, x) == env[CHOOSE i \in 1..Len(env) : env[i].v = x /\ \A j \in (i + 1)..Len(env) : env[j].v # x].val
B(x, val) == <<[v |-> x, val |-> val]>>

(* ------------------------------------------------------------- expressions *)
(* [ok, v]: ok = FALSE where u64 arithmetic has no result (subtraction below zero) *)
Bad == [ok |-> FALSE, v |-> NV(0)]
Elems(val) == IF val.t = "arr" THEN val.e ELSE <<val.n>>
RECURSIVE Eval(_, _)
Eval(e, env) ==
  CASE e.op = "lit" -> [ok |-> TRUE, v |-> NV(e.n)]
    [] e.op = "nil" -> [ok |-> TRUE, v |-> AV(<<>>)]
    [] e.op = "var" -> IF Bound(env, e.v) THEN [ok |-> TRUE, v |-> Lookup(env, e.v)] ELSE Bad
    [] e.op = "add" -> LET a == Eval(e.l, env) b == Eval(e.r, env) IN
                       IF a.ok /\ b.ok /\ a.v.t = "n" /\ b.v.t = "n" THEN [ok |-> TRUE, v |-> NV(a.v.n + b.v.n)] ELSE Bad
    [] e.op = "sub" -> LET a == Eval(e.l, env) b == Eval(e.r, env) IN
                       IF a.ok /\ b.ok /\ a.v.t = "n" /\ b.v.t = "n" /\ a.v.n >= b.v.n THEN [ok |-> TRUE, v |-> NV(a.v.n - b.v.n)] ELSE Bad
    [] e.op = "cat" -> LET a == Eval(e.l, env) b == Eval(e.r, env) IN
                       IF a.ok /\ b.ok THEN [ok |-> TRUE, v |-> AV(Elems(a.v) \o Elems(b.v))] ELSE Bad

(* [ok, b] *)
CondHolds(c, env) ==
  IF c.op = "any" THEN [ok |-> TRUE, b |-> TRUE]
  ELSE LET a == Eval(c.l, env) b == Eval(c.r, env) IN
       IF ~(a.ok /\ b.ok /\ a.v.t = "n" /\ b.v.t = "n") THEN [ok |-> FALSE, b |-> FALSE]
       ELSE [ok |-> TRUE, b |-> CASE c.op = "gt" -> a.v.n > b.v.n [] c.op = "ge" -> a.v.n >= b.v.n
                                  [] c.op = "lt" -> a.v.n < b.v.n [] c.op = "eq" -> a.v.n = b.v.n
                                  [] c.op = "ne" -> a.v.n # b.v.n]

(* --------------------------------------------------------- payload patterns *)
PMatches(p, val) ==
  CASE p.k = "var"   -> TRUE
    [] p.k = "wild"  -> TRUE
    [] p.k = "lit"   -> val.t = "n" /\ val.n = p.n
    [] p.k = "nil"   -> val.t = "arr" /\ Len(val.e) = 0
    [] p.k = "one"   -> val.t = "arr" /\ Len(val.e) = 1
    [] p.k = "cons"  -> val.t = "arr" /\ Len(val.e) >= 1
    [] p.k = "cons2" -> val.t = "arr" /\ Len(val.e) >= 2
    [] p.k = "ends"  -> val.t = "arr" /\ Len(val.e) >= 2
    [] p.k = "tail2" -> val.t = "arr" /\ Len(val.e) >= 2
    [] p.k = "ends3" -> val.t = "arr" /\ Len(val.e) >= 3
PBinds(p, val) ==
  CASE p.k = "var"   -> B(p.v, val)
    [] p.k = "one"   -> B(p.v, NV(val.e[1]))
    [] p.k = "cons"  -> B(p.v, NV(val.e[1])) \o B(p.r, AV(Tail(val.e)))
    [] p.k = "cons2" -> B(p.v, NV(val.e[1])) \o B(p.w, NV(val.e[2])) \o B(p.r, AV(Tail(Tail(val.e))))
    [] p.k = "ends"  -> B(p.v, NV(val.e[1])) \o B(p.w, NV(val.e[Len(val.e)]))
    [] p.k = "tail2" -> B(p.v, NV(val.e[Len(val.e) - 1])) \o B(p.w, NV(val.e[Len(val.e)]))
    [] p.k = "ends3" -> B(p.r, NV(val.e[1])) \o B(p.v, NV(val.e[Len(val.e) - 1])) \o B(p.w, NV(val.e[Len(val.e)]))
    [] OTHER -> <<>>

ArmMatches(arm, cfg) ==
  /\ arm.state = cfg.state
  /\ Len(arm.pats) = Len(cfg.pay)
  /\ \A i \in 1..Len(arm.pats) : PMatches(arm.pats[i], cfg.pay[i])
RECURSIVE BindFrom(_, _, _)
BindFrom(pats, pay, i) == IF i > Len(pats) THEN <<>> ELSE PBinds(pats[i], pay[i]) \o BindFrom(pats, pay, i + 1)
(* the scope of an arm: the machine's arguments (carried unchanged in cfg.inp), then the arm's OWN pattern bindings. *)
(* Nothing an arm that was tried before has bound (or shadowed) is visible: every arm starts from the same scope.   *)
ArmEnv(arm, cfg) == cfg.inp \o BindFrom(arm.pats, cfg.pay, 1)
WithInp(c, inp) == [state |-> c.state, pay |-> c.pay, inp |-> inp]

(* ----------------------------------------------------------------- stepping *)
EvalTarget(tg, env) ==
  LET vs == [i \in 1..Len(tg.args) |-> Eval(tg.args[i], env)] IN
  IF \A i \in 1..Len(vs) : vs[i].ok
  THEN [ok |-> TRUE, cfg |-> [state |-> tg.state, pay |-> [i \in 1..Len(vs) |-> vs[i].v]]]
  ELSE [ok |-> FALSE, cfg |-> [state |-> tg.state, pay |-> <<>>]]

(* the candidates of a machine in source order: (arm i, guard j); plain arms have the single candidate j = 0 *)
Cands(m) == UNION {IF m.arms[i].kind = "guard" THEN {<<i, j>> : j \in 1..Len(m.arms[i].guards)} ELSE {<<i, 0>>}
                   : i \in 1..Len(m.arms)}
Before(a, b) == a[1] < b[1] \/ (a[1] = b[1] /\ a[2] < b[2])

(* a candidate fires in a configuration: the arm's state pattern matches and its guard holds in the arm's bindings *)
Fires(m, cfg, c) ==
  LET arm == m.arms[c[1]] IN
  /\ ArmMatches(arm, cfg)
  /\ (c[2] > 0 => CondHolds(arm.guards[c[2]].cond, ArmEnv(arm, cfg)).b)

(* the effect of the selected candidate *)
Effect(m, cfg, c) ==
  LET arm == m.arms[c[1]]
      env == ArmEnv(arm, cfg)
      kind == IF c[2] = 0 THEN arm.kind ELSE arm.guards[c[2]].kind
      to == IF c[2] = 0 THEN arm.to ELSE arm.guards[c[2]].to
      out == IF c[2] = 0 THEN arm.out ELSE arm.guards[c[2]].out IN
  IF kind = "out"
  THEN LET r == Eval(out, env) IN
       IF r.ok THEN [kind |-> "out", cand |-> c, cfg |-> cfg, v |-> r.v] ELSE [kind |-> "err", cand |-> c, cfg |-> cfg, v |-> NV(0)]
  ELSE LET r == EvalTarget(to, env) IN
       IF r.ok THEN [kind |-> "trans", cand |-> c, cfg |-> WithInp(r.cfg, cfg.inp), v |-> NV(0)] ELSE [kind |-> "err", cand |-> c, cfg |-> cfg, v |-> NV(0)]

(* Step, declaratively: the first candidate (source order) that fires; none -> the machine halts *)
Step(m, cfg) ==
  LET F == {c \in Cands(m) : Fires(m, cfg, c)} IN
  IF F = {} THEN [kind |-> "halt", cand |-> <<0, 0>>, cfg |-> cfg, v |-> NV(0)]
  ELSE Effect(m, cfg, CHOOSE c \in F : \A d \in F : d = c \/ Before(c, d))

(* Step, loop-shaped: scan the arms, inside a matching guard arm scan the guards; a guard arm in which *)
(* no guard holds falls through to the following arms                                                 *)
RECURSIVE ScanGuards(_, _, _, _), ScanArms(_, _, _)
ScanGuards(m, cfg, i, j) ==
  IF j > Len(m.arms[i].guards) THEN ScanArms(m, cfg, i + 1)
  ELSE IF CondHolds(m.arms[i].guards[j].cond, ArmEnv(m.arms[i], cfg)).b THEN Effect(m, cfg, <<i, j>>)
  ELSE ScanGuards(m, cfg, i, j + 1)
ScanArms(m, cfg, i) ==
  IF i > Len(m.arms) THEN [kind |-> "halt", cand |-> <<0, 0>>, cfg |-> cfg, v |-> NV(0)]
  ELSE IF ~ArmMatches(m.arms[i], cfg) THEN ScanArms(m, cfg, i + 1)
  ELSE IF m.arms[i].kind = "guard" THEN ScanGuards(m, cfg, i, 1)
  ELSE Effect(m, cfg, <<i, 0>>)
StepK(m, cfg) == ScanArms(m, cfg, 1)

(* the start configuration: the start target evaluated with the arguments bound to the input names *)
RECURSIVE InputEnv(_, _, _)
InputEnv(m, args, i) == IF i > Len(m.inputs) THEN <<>> ELSE B(m.inputs[i], args[i]) \o InputEnv(m, args, i + 1)
StartCfg(m, args) == LET ie == InputEnv(m, args, 1)
                         r == EvalTarget(m.start, ie) IN [ok |-> r.ok, cfg |-> WithInp(r.cfg, ie)]

(* Run: at most maxSteps iterations; every iteration (also the one that produces the output) counts. *)
(* res: "out" value v | "halt" (no transition applies) | "limit" | "err" (arithmetic has no result)    *)
(* path: the configurations visited, start first                                                      *)
RECURSIVE RunFrom(_, _, _, _, _)
RunFrom(m, cfg, k, maxSteps, path) ==
  IF k >= maxSteps THEN [res |-> "limit", v |-> NV(0), steps |-> k, path |-> path]
  ELSE LET s == Step(m, cfg) IN
       CASE s.kind = "trans" -> RunFrom(m, s.cfg, k + 1, maxSteps, Append(path, s.cfg))
         [] s.kind = "out"   -> [res |-> "out", v |-> s.v, steps |-> k + 1, path |-> path]
         [] s.kind = "halt"  -> [res |-> "halt", v |-> NV(0), steps |-> k + 1, path |-> path]
         [] s.kind = "err"   -> [res |-> "err", v |-> NV(0), steps |-> k + 1, path |-> path]
Run(m, args, maxSteps) ==
  LET s == StartCfg(m, args) IN
  IF ~s.ok THEN [res |-> "err", v |-> NV(0), steps |-> 0, path |-> <<>>]
  ELSE RunFrom(m, s.cfg, 0, maxSteps, <<s.cfg>>)

(* ----------------------------------------------------- declaration validation *)
DeclaredNames(m) == {m.declared[i].name : i \in 1..Len(m.declared)}
ArmStates(m) == {m.arms[i].state : i \in 1..Len(m.arms)}
Targets(m) ==
  {m.start.state}
  \cup {m.arms[i].to.state : i \in {j \in 1..Len(m.arms) : m.arms[j].kind = "trans"}}
  \cup UNION {{m.arms[i].guards[j].to.state : j \in {g \in 1..Len(m.arms[i].guards) : m.arms[i].guards[g].kind = "trans"}}
              : i \in {a \in 1..Len(m.arms) : m.arms[a].kind = "guard"}}
(* transitions (or the start) into a state the specification does not declare *)
UndeclaredTargets(m) == Targets(m) \ DeclaredNames(m)
(* declared states that no arm implements *)
StatesWithoutArm(m) == DeclaredNames(m) \ ArmStates(m)
(* arms for states the specification does not declare *)
UndeclaredArms(m) == ArmStates(m) \ DeclaredNames(m)
WellFormed(m) == UndeclaredTargets(m) = {} /\ StatesWithoutArm(m) = {} /\ UndeclaredArms(m) = {}

(* kinds of the arguments of an invocation must be the declared ones, and as many *)
ArgsOk(m, argkinds) == Len(argkinds) = Len(m.inkinds) /\ \A i \in 1..Len(argkinds) : argkinds[i] = m.inkinds[i]

=============================================================================
