SPECIFICATION Spec
CONSTANTS
  P = 3
  Emin <- EminA
  Emax = 2
INVARIANTS Agree InSet ExactKept SignSym Commutes HalfUlp Emit
CHECK_DEADLOCK FALSE
