-------------------------- MODULE MechSessionBase --------------------------
(***************************************************************************)
(* The interpreter session as a state machine (C05, and the basis of C19   *)
(* and C10): a store from names to values and the set of mutable names.    *)
(* One action per statement kind, each with its failing variant: a         *)
(* statement that fails leaves store and mutability unchanged.             *)
(*                                                                         *)
(* Values are COPIED by define-from-variable: the specification has no     *)
(* cells, which is exactly the isolation property.                         *)
(*                                                                         *)
(* value == [cls, d]  cls \in {"undef","sc","mat","rec","tup","set","tbl"} *)
(*   sc  : d = <<n>>            scalar f64 n                               *)
(*   mat : d = <<x1, x2>>       1x2 f64 matrix                             *)
(*   rec : d = <<x, y>>         record {x: .., y: ..}                      *)
(*   tup : d = <<p, q>>         tuple (p, q)                               *)
(*   set : d = <<1, 2>>         the set {1, 2}                             *)
(*   tbl : d = <<x1, y1, x2, y2, ..>>  table |x y| with rows (x1 y1), ..    *)
(***************************************************************************)
EXTENDS Integers, Sequences, FiniteSets

CONSTANTS Names


V(c, d) == [cls |-> c, d |-> d]
Undef == V("undef", <<>>)
Sc(n) == V("sc", <<n>>)
Mat(a, b) == V("mat", <<a, b>>)
Rec(a, b) == V("rec", <<a, b>>)
Tup(a, b) == V("tup", <<a, b>>)
SetV == V("set", <<1, 2>>)
TblV == V("tbl", <<1, 2>>)

NoName == "-"
A(a, n, m, v, i, mu, ok) == [a |-> a, n |-> n, m |-> m, k |-> NoName, v |-> v, i |-> i, mu |-> mu, ok |-> ok]


(* ------------------------------------------------------------------------- *)
(* Effect(s, mu, a): the pure transition function.  a is an action record     *)
(* [a, n, m, k, v, i, mu]; the result is [ok, store, mut].  A statement that   *)
(* fails (ok = FALSE) returns the state it was given.                          *)
(* ------------------------------------------------------------------------- *)
Def(s, n) == s[n] # Undef
R(ok, s, mu) == [ok |-> ok, store |-> s, mut |-> mu]

ApplyOp(i, x, y) == CASE i = 1 -> x + y [] i = 2 -> x - y [] OTHER -> x * y

(* kind annotation of an annotated define: 1 = <f64>, 2 = <[f64]:1,2> (element kind and dimensions of the source), 3 = <[f64]> *)
AnnotFits(i, v) == (i = 1 /\ v.cls = "sc") \/ (i \in {2, 3} /\ v.cls = "mat")

(* statements whose outcome the property leaves open (table += table panics into an error today): *)
(* excluded from the bounded alphabet; trace validation checks only the frame for them             *)
Unspecified(s, a) ==
  \/ a.a = "OpAssignVar" /\ s[a.n] # Undef /\ s[a.m] # Undef /\ s[a.n].cls = "tbl" /\ s[a.m].cls = "tbl"
  \/ a.a = "AssignFromPart" /\ a.i = 2 /\ s[a.m] # Undef /\ s[a.m].cls = "mat"    \* m.1 on a MATRIX reads a column: not modelled here
  \/ a.a = "DefineFromVarAnnot" /\ s[a.m] # Undef /\ ~AnnotFits(a.i, s[a.m])          \* a conversion (scalar -> matrix broadcast, ...): C12's subject

Effect(s, mu, a) ==
  LET n == a.n
      m == a.m IN
  CASE a.a = "Define" ->          \* n := v   /  ~n := v
         IF ~Def(s, n) THEN R(TRUE, [s EXCEPT ![n] = a.v], IF a.mu THEN mu \cup {n} ELSE mu) ELSE R(FALSE, s, mu)
    [] a.a = "DefineFromVar" ->   \* n := m : the value of m is COPIED
         IF ~Def(s, n) /\ Def(s, m) THEN R(TRUE, [s EXCEPT ![n] = s[m]], IF a.mu THEN mu \cup {n} ELSE mu) ELSE R(FALSE, s, mu)
    [] a.a = "DefineFromVarAnnot" ->   \* n<K> := m with K the kind m already has: no conversion takes place, the value of m is COPIED
         IF ~Def(s, n) /\ Def(s, m) /\ AnnotFits(a.i, s[m]) THEN R(TRUE, [s EXCEPT ![n] = s[m]], IF a.mu THEN mu \cup {n} ELSE mu) ELSE R(FALSE, s, mu)
    [] a.a = "Assign" ->          \* n = v : defined, mutable target holding a value of the same class
         IF Def(s, n) /\ n \in mu /\ s[n].cls = a.v.cls /\ a.v.cls \in {"sc", "mat"}
         THEN R(TRUE, [s EXCEPT ![n] = a.v], mu) ELSE R(FALSE, s, mu)
    [] a.a = "AssignFromVar" ->   \* n = m
         IF Def(s, n) /\ n \in mu /\ Def(s, m) /\ s[n].cls = s[m].cls /\ s[m].cls \in {"sc", "mat"}
         THEN R(TRUE, [s EXCEPT ![n] = s[m]], mu) ELSE R(FALSE, s, mu)
    [] a.a = "AssignFromPart" ->  \* n = m.x, n = m.1, n = [m], n = m[1] (a.i = 1..4): the source reads PART of m (or wraps it);
                                  \* the part is COPIED into n - m keeps its value, whatever n held before
         LET hasPart == Def(s, m) /\ ((a.i = 1 /\ s[m].cls = "rec") \/ (a.i = 2 /\ s[m].cls = "tup") \/ (a.i \in {3, 4} /\ s[m].cls = "mat"))
             part == IF a.i = 3 THEN s[m] ELSE Sc(s[m].d[1]) IN
         IF Def(s, n) /\ n \in mu /\ hasPart /\ s[n].cls = part.cls
         THEN R(TRUE, [s EXCEPT ![n] = part], mu) ELSE R(FALSE, s, mu)
    [] a.a = "IndexAssign" ->     \* n[i] = 9
         IF Def(s, n) /\ n \in mu /\ s[n].cls = "mat" /\ a.i \in 1..2
         THEN R(TRUE, [s EXCEPT ![n] = V("mat", [s[n].d EXCEPT ![a.i] = 9])], mu) ELSE R(FALSE, s, mu)
    [] a.a = "OpAssign" ->        \* n += 1 (scalars and matrices)
         IF Def(s, n) /\ n \in mu /\ s[n].cls \in {"sc", "mat"}
         THEN R(TRUE, [s EXCEPT ![n] = V(s[n].cls, [q \in 1..Len(s[n].d) |-> s[n].d[q] + 1])], mu) ELSE R(FALSE, s, mu)
    [] a.a = "OpAssignVar" ->     \* n += m, n -= m, n *= m (a.i = 1, 2, 3): elementwise on equal classes, a scalar
                                  \* source is broadcast over a matrix target, a record is APPENDED to a table as
                                  \* a new row (+= only); ONLY n changes, m keeps its value
         IF Def(s, n) /\ n \in mu /\ Def(s, m) /\ s[n].cls \in {"sc", "mat"} /\ s[m].cls \in {"sc", s[n].cls}
         THEN R(TRUE, [s EXCEPT ![n] = V(s[n].cls, [q \in 1..Len(s[n].d) |->
                          ApplyOp(a.i, s[n].d[q], IF s[m].cls = "sc" THEN s[m].d[1] ELSE s[m].d[q])])], mu)
         ELSE IF Def(s, n) /\ n \in mu /\ Def(s, m) /\ s[n].cls = "tbl" /\ s[m].cls = "rec" /\ a.i = 1
         THEN R(TRUE, [s EXCEPT ![n] = V("tbl", s[n].d \o s[m].d)], mu)
         ELSE R(FALSE, s, mu)
    [] a.a = "FieldAssign" ->     \* n.x = 9 (records)
         IF Def(s, n) /\ n \in mu /\ s[n].cls = "rec"
         THEN R(TRUE, [s EXCEPT ![n] = V("rec", [s[n].d EXCEPT ![1] = 9])], mu) ELSE R(FALSE, s, mu)
    [] a.a = "TupleElemAssign" -> \* n.1 = 9 (tuples)
         IF Def(s, n) /\ n \in mu /\ s[n].cls = "tup"
         THEN R(TRUE, [s EXCEPT ![n] = V("tup", [s[n].d EXCEPT ![1] = 9])], mu) ELSE R(FALSE, s, mu)
    [] a.a = "Destructure" ->     \* (n, m) := (7, 8) : defines both names (immutable) or neither
         IF n # m /\ ~Def(s, n) /\ ~Def(s, m) THEN R(TRUE, [s EXCEPT ![n] = Sc(7), ![m] = Sc(8)], mu) ELSE R(FALSE, s, mu)
    [] a.a = "DestructureTooMany" ->  \* (n, m, zz9) := (7, 8) : one target more than the tuple has elements - fails, NOTHING is defined
         R(FALSE, s, mu)
    [] a.a = "DestructureVar" ->  \* (n, m) := k with k a tuple variable
         IF n # m /\ ~Def(s, n) /\ ~Def(s, m) /\ Def(s, a.k) /\ s[a.k].cls = "tup"
         THEN R(TRUE, [s EXCEPT ![n] = Sc(s[a.k].d[1]), ![m] = Sc(s[a.k].d[2])], mu) ELSE R(FALSE, s, mu)
    [] a.a = "Eval" ->            \* reading a variable changes nothing
         R(Def(s, n), s, mu)
    [] a.a = "FailingCall" ->     \* a statement whose expression calls a user function that fails at run time (its body reads an
                                  \* undefined name, no arm matches, an argument does not bind): an error, NOTHING changes -
                                  \* in particular the caller's variables are all still there afterwards
         R(FALSE, s, mu)

=============================================================================
