------------------------------- MODULE MechDoc -------------------------------
(***************************************************************************)
(* Literate documents (C10).  A document is a sequence of blocks           *)
(*   [b |-> "prose"]                     any Mechdown prose element, a plain  *)
(*                                       or foreign-language fence, a        *)
(*                                       disabled fence, a comment           *)
(*   [b |-> "code",  ns |-> "",  st]     top-level Mech statements            *)
(*   [b |-> "fence", ns |-> "",  st]     unnamed ```mech fence                *)
(*   [b |-> "fence", ns |-> "a", st]     named fence ```mech:a                *)
(* Semantics: one MechSession for the main program (top-level code and      *)
(* unnamed fences, in document order; the first failing statement ends the  *)
(* evaluation of the document), one MechSession per fence name (a failing   *)
(* statement ends THAT BLOCK only), prose is a stuttering step.             *)
(* Statements and their effects are those of MechSession (Effect).          *)
(***************************************************************************)
EXTENDS MechSessionBase

Sess(s, m) == [store |-> s, mut |-> m]
EmptySess == Sess([n \in Names |-> Undef], {})

(* run statements st[i..] in session ss; returns [ss, ok] (ok = FALSE if one failed: the rest is skipped) *)
RECURSIVE RunStmts(_, _, _)
RunStmts(ss, st, i) ==
  IF i > Len(st) THEN [ss |-> ss, ok |-> TRUE]
  ELSE LET e == Effect(ss.store, ss.mut, st[i]) IN
       IF e.ok THEN RunStmts(Sess(e.store, e.mut), st, i + 1) ELSE [ss |-> ss, ok |-> FALSE]

(* document state: main session, named sessions, aborted flag *)
DocInit(FenceNames) == [main |-> EmptySess, subs |-> [f \in FenceNames |-> EmptySess], used |-> {}, aborted |-> FALSE]

ApplyBlock(d, blk) ==
  IF d.aborted \/ blk.b = "prose" THEN d
  ELSE IF blk.ns = ""
  THEN LET r == RunStmts(d.main, blk.st, 1) IN [d EXCEPT !.main = r.ss, !.aborted = ~r.ok]
  ELSE LET r == RunStmts(d.subs[blk.ns], blk.st, 1) IN
       [d EXCEPT !.subs = [d.subs EXCEPT ![blk.ns] = r.ss], !.used = d.used \cup {blk.ns}]

RECURSIVE RunDoc(_, _, _)
RunDoc(d, doc, i) == IF i > Len(doc) THEN d ELSE RunDoc(ApplyBlock(d, doc[i]), doc, i + 1)

(* the document reduced to its executable code *)
CodeOnly(doc) == SelectSeq(doc, LAMBDA blk : blk.b # "prose")
=============================================================================
