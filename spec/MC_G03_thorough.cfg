SPECIFICATION Spec
CONSTANTS
  Kinds = {"f64", "u8", "string", "bool", "tup", "i64", "r64", "set"}
  CrossKinds = {"f64", "u8", "string", "bool"}
  N = 3
  ULen = 4
  ELen = 4
  BLen = 3
  XLen = 2
  TwiceMax = 2
  BigKinds = {"f64", "u8", "string", "tup"}
  BigN = 12
  BigM = 8
INVARIANTS KernelU KernelE KernelP Expects Emit
CHECK_DEADLOCK FALSE
