------------------------------- MODULE MC_C15 -------------------------------
(* Bounded instance of MechRange for C15: the four range forms x kind classes  *)
(* (u8, i8, wide unsigned, wide signed, float, rational) x (start, step, end)  *)
(* from pools with boundary values; the wide classes also anchored at the      *)
(* kind's maximum / minimum and around 2^53 (the replay shifts start, end and  *)
(* elements by the anchor).  Checks the model-level laws, emits every case.    *)
EXTENDS MechRange, TLC, Json, FiniteSets

CONSTANTS Deep        \* TRUE: thorough pools

VARIABLE cs

I(S) == {IntV(x) : x \in S}
Low      == IF Deep THEN {-3, -2, -1, 0, 1, 2, 3, 4, 5, 7, 10} ELSE {-2, -1, 0, 1, 2, 3, 5, 7}
LowU     == {x \in Low : x >= 0}
HighU8   == 250..255
HighI8   == IF Deep THEN 120..127 ELSE 122..127
MinI8    == -128..-125
Fracs    == {Num(1, 2), Num(5, 2)} \cup (IF Deep THEN {Num(-1, 2), Num(3, 4), Num(7, 4)} ELSE {})
Thirds   == {Num(1, 3), Num(7, 3)} \cup (IF Deep THEN {Num(2, 5)} ELSE {})

(* value groups per class and anchor: start and end are drawn from the same group *)
(* anchors: "none"; "max": 255 (unsigned) / 127 (signed) stands for the kind's maximum; *)
(* "min": -128 stands for the signed kind's minimum; "p53": 252 stands for 2^53          *)
Classes == [u8 |-> IntClass(0, 255), i8 |-> IntClass(-128, 127), uw |-> IntClass(0, 65535), iw |-> IntClass(-32768, 32767),
            flt |-> FltClass, rat |-> RatClass]
AncClass(cn, anc) ==
  CASE anc = "none" -> Classes[cn]
    [] anc = "max" -> IF cn = "uw" THEN IntClass(0, 255) ELSE IntClass(-128, 127)
    [] anc = "min" -> IntClass(-128, 127)
    [] anc = "p53" -> IntClass(0, 65535)

Groups(cn, anc) ==
  CASE cn = "u8" -> {I(LowU), I(HighU8)}
    [] cn = "i8" -> {I(Low), I(HighI8), I(MinI8)}
    [] cn = "uw" /\ anc = "none" -> {I(LowU)}
    [] cn = "uw" /\ anc = "max" -> {I(HighU8)}
    [] cn = "iw" /\ anc = "none" -> {I(Low)}
    [] cn = "iw" /\ anc = "max" -> {I(HighI8)}
    [] cn = "iw" /\ anc = "min" -> {I(MinI8)}
    [] anc = "p53" -> {I(IF Deep THEN 249..256 ELSE 250..255)}
    [] cn = "flt" -> {I(Low) \cup Fracs}
    [] cn = "rat" -> {I({-1, 0, 1, 2, 3}) \cup Fracs \cup Thirds}

StepPool(cn) ==
  CASE cn \in {"u8", "uw"} -> I({0, 1, 2, 3, 5})
    [] cn \in {"i8", "iw"} -> I({0, 1, 2, 3, -1, -2})
    [] cn = "flt" -> I({0, 1, 2, -1}) \cup {Num(1, 2), Num(1, 4), Num(5, 2), Num(-1, 2)} \cup (IF Deep THEN {Num(3, 4), IntV(3)} ELSE {})
    [] cn = "rat" -> I({0, 1, -1}) \cup {Num(1, 2), Num(1, 3)} \cup (IF Deep THEN {Num(2, 3), IntV(2)} ELSE {})

ClassAnchors == {<<"u8", "none">>, <<"i8", "none">>, <<"uw", "none">>, <<"uw", "max">>, <<"uw", "p53">>,
                 <<"iw", "none">>, <<"iw", "max">>, <<"iw", "min">>, <<"iw", "p53">>, <<"flt", "none">>, <<"rat", "none">>}

(* the whole span of the narrow kinds: 256 elements, start - end + 1 does not fit the kind *)
Spans == {[stage |-> 1, cn |-> "u8", anc |-> "none", a |-> IntV(0), b |-> IntV(255), s |-> One, incl |-> FALSE, step |-> FALSE],
          [stage |-> 1, cn |-> "i8", anc |-> "none", a |-> IntV(-128), b |-> IntV(127), s |-> One, incl |-> FALSE, step |-> FALSE]}

Dummy == [stage |-> 0, cn |-> "u8", anc |-> "none", a |-> One, b |-> One, s |-> One, incl |-> FALSE, step |-> FALSE]
Partials ==
  Spans \cup
  UNION {UNION {{[stage |-> 1, cn |-> ca[1], anc |-> ca[2], a |-> x, b |-> y, s |-> One, incl |-> FALSE, step |-> FALSE]
                   : x \in g, y \in g} : g \in Groups(ca[1], ca[2])} : ca \in ClassAnchors}
Completes(k) ==
       {[k EXCEPT !.stage = 2, !.incl = i] : i \in BOOLEAN}
  \cup {[k EXCEPT !.stage = 2, !.incl = i, !.step = TRUE, !.s = t] : i \in BOOLEAN, t \in StepPool(k.cn)}

Init == cs = Dummy
Next == \/ cs.stage = 0 /\ cs' \in Partials
        \/ cs.stage = 1 /\ cs' \in Completes(cs)
Spec == Init /\ [][Next]_cs
Done == cs.stage = 2

Cls(k) == AncClass(k.cn, k.anc)
Els(k) == Range(k.a, k.s, k.b, k.incl)
St(k)  == Status(k.a, k.s, k.b, k.incl)

FormName(k) == (IF k.incl THEN "inclusive" ELSE "exclusive") \o (IF k.step THEN "-step" ELSE "")

(* boundary conditions of the kind, from the model side:                                              *)
(*  "span-beyond-kind-max"  end - start itself exceeds the kind's maximum (-128..127 in i8)            *)
(*  "at-kind-max/min"       the term one step past the last element is not representable: a kernel     *)
(*                          that forms it overflows                                                    *)
Edge(k) ==
  LET nx == NextAfter(k.a, k.s, k.b, k.incl)
      bounded == k.cn \in {"u8", "i8"} \/ k.anc \in {"max", "min"} IN
  IF St(k) \notin {"asc", "desc"} \/ Cls(k).c # "int" \/ ~bounded THEN "interior"
  ELSE IF Abs(k.b.n - k.a.n) > Cls(k).hi THEN "span-beyond-kind-max"
  ELSE IF nx.n > Cls(k).hi THEN "at-kind-max"
  ELSE IF nx.n < Cls(k).lo THEN "at-kind-min"
  ELSE "interior"

(* "exact":  a well-formed ascending range: must be accepted and equal the progression, kind of the operands *)
(* "desc":   a well-formed descending range (negative step): may be rejected; a returned vector must be it   *)
(* "none":   zero step / wrong order / a..a: an error or the empty vector, never elements                     *)
(* r64: no range kernel is generated for r64 on the pinned tree (DESIGN.md Appendix A): acceptance is free,  *)
(* a returned vector must still be the progression.                                                          *)
Expect(k) == CASE St(k) = "asc" -> "exact" [] St(k) = "desc" -> "desc" [] OTHER -> "none"
Must(k) == St(k) = "asc" /\ k.cn # "rat"

Sig(k) ==
  IF Edge(k) # "interior" THEN "C15/" \o FormName(k) \o "/" \o Edge(k)
  ELSE "C15/" \o FormName(k) \o "/" \o k.cn \o "/" \o St(k)
       \o (IF St(k) \in {"asc", "desc"} /\ ~OnGrid(k.a, k.s, k.b) THEN "/end-off-grid" ELSE "")

QJ(v) == [n |-> v.n, d |-> v.d]
CaseJson(k) ==
  [cn |-> k.cn, anc |-> k.anc, incl |-> k.incl, step |-> k.step, a |-> QJ(k.a), s |-> QJ(k.s), b |-> QJ(k.b),
   status |-> St(k), exp |-> Expect(k), must |-> Must(k), edge |-> Edge(k), form |-> FormName(k),
   els |-> [i \in 1..Len(Els(k)) |-> QJ(Els(k)[i])], count |-> Len(Els(k)), sig |-> Sig(k)]

(* ------------------------------------------------------- model-level laws *)
R == Els(cs)
N == Len(R)

LoopEqDecl == Done => RangeK(cs.a, cs.s, cs.b, cs.incl) = R

(* every element is a + k*s; consecutive elements differ by s; the first is a *)
Progression == Done =>
  /\ \A i \in 1..N : R[i] = Term(cs.a, cs.s, i - 1)
  /\ \A i \in 1..(N - 1) : QSub(R[i + 1], R[i]) = cs.s
  /\ N > 0 => R[1] = cs.a

(* every element lies before the end, the next term does not: the last element is the largest term *)
LastIsLargest == (Done /\ N > 0) =>
  /\ \A i \in 1..N : Before(R[i], cs.s, cs.b, cs.incl)
  /\ ~Before(NextAfter(cs.a, cs.s, cs.b, cs.incl), cs.s, cs.b, cs.incl)

(* empty exactly when the step is zero or the start is not before the end *)
Emptiness == Done => ((N = 0) <=> (cs.s.n = 0 \/ ~Before(cs.a, cs.s, cs.b, cs.incl)))

(* exclusive = inclusive without the end point when the end is on the grid, else they agree *)
ExclVsIncl == Done =>
  LET ex == Range(cs.a, cs.s, cs.b, FALSE)
      inc == Range(cs.a, cs.s, cs.b, TRUE) IN
  IF OnGrid(cs.a, cs.s, cs.b) THEN inc = ex \o <<cs.b>> ELSE inc = ex

(* operands representable in the class => every element is *)
Closed == Done => (St(cs) \in {"asc", "desc"} => \A i \in 1..N : Representable(Cls(cs), R[i]))

(* omitted step = step one *)
UnitStep == (Done /\ ~cs.step) => R = Range(cs.a, One, cs.b, cs.incl)

Emit == Done => PrintT(<<"CASE", ToJson(CaseJson(cs))>>)
=============================================================================
