SPECIFICATION Spec
INVARIANTS MatchIsKindEquality ArityMatters Emit
CHECK_DEADLOCK FALSE
