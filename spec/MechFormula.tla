----------------------------- MODULE MechFormula -----------------------------
(***************************************************************************)
(* Formula grammar (C02): precedence levels and left associativity.        *)
(*   level 1 logic  (&& || xor)      level 2 comparison (== != < <= > >=)   *)
(*   level 3 + -                      level 4 * / %  (and matrix operators)  *)
(*   level 5 ^                        unary - and ! bind tightest            *)
(* A token sequence alternates operands and operators; an operand is       *)
(* [neg, v] (v a scalar of MechScalar, neg = written with a leading minus). *)
(* Tree(toks) is defined twice - by precedence climbing (the shape of the  *)
(* recursive-descent parser: one left fold per level) and declaratively    *)
(* (the root is the LAST operator of the LOWEST level) - and TLC checks the *)
(* two agree, that the in-order traversal of the tree is the token list,   *)
(* and evaluates the tree with the exact arithmetic of MechScalar.          *)
(***************************************************************************)
EXTENDS MechScalar, FiniteSets

Level(op) == CASE op \in {"&&", "||", "xor"} -> 1
               [] op \in {"==", "!=", "<", "<=", ">", ">="} -> 2
               [] op \in {"+", "-"} -> 3
               [] op \in {"*", "/", "%", "**"} -> 4          \* "**" (matrix multiply) stands for the matrix operators
               [] op = "^" -> 5
MaxLevel == 5

(* an operand carries at most one unary mark un: "neg" (leading minus), "not" (leading !), "tr" (trailing ') or "none" *)
Leaf(o)       == [k |-> "leaf", neg |-> o.neg, un |-> o.un, v |-> o.v]
Bin(op, l, r) == [k |-> "bin", op |-> op, l |-> l, r |-> r]

(* ----------------------------------------------- precedence climbing *)
RECURSIVE ParseL(_, _, _), FoldL(_, _, _, _)
ParseL(toks, pos, lvl) ==
  IF lvl > MaxLevel THEN [t |-> Leaf(toks[pos]), p |-> pos + 1]
  ELSE LET first == ParseL(toks, pos, lvl + 1) IN FoldL(toks, first.t, first.p, lvl)
FoldL(toks, acc, pos, lvl) ==
  IF pos <= Len(toks) /\ Level(toks[pos]) = lvl
  THEN LET rhs == ParseL(toks, pos + 1, lvl + 1) IN FoldL(toks, Bin(toks[pos], acc, rhs.t), rhs.p, lvl)
  ELSE [t |-> acc, p |-> pos]
Tree(toks) == ParseL(toks, 1, 1).t

(* ------------------------------------------------------- declarative *)
OpPositions(toks) == {i \in 1..Len(toks) : i % 2 = 0}
RECURSIVE TreeD(_)
TreeD(toks) ==
  IF Len(toks) = 1 THEN Leaf(toks[1])
  ELSE LET ops == OpPositions(toks)
           low == CHOOSE l \in 1..MaxLevel : (\E i \in ops : Level(toks[i]) = l) /\ (\A i \in ops : Level(toks[i]) >= l)
           root == CHOOSE i \in ops : Level(toks[i]) = low /\ \A j \in ops : (Level(toks[j]) = low => j <= i)
       IN Bin(toks[root], TreeD(SubSeq(toks, 1, root - 1)), TreeD(SubSeq(toks, root + 1, Len(toks))))

(* in-order traversal *)
RECURSIVE InOrder(_)
InOrder(t) == IF t.k = "leaf" THEN <<[neg |-> t.neg, un |-> t.un, v |-> t.v]>> ELSE InOrder(t.l) \o <<t.op>> \o InOrder(t.r)

(* ---------------------------------------------------------- evaluation *)
Big(x) == x.t = "num" /\ (Abs(x.n) > 1000000 \/ x.d > 1000)
SafeOp(op, a, b) ==
  IF a.t # b.t THEN Undef
  ELSE IF op \in LogicOps /\ a.t # "bool" THEN Undef
  ELSE IF op \in (ArithOps \cup {"<", "<=", ">", ">="}) /\ a.t # "num" THEN Undef
  ELSE IF op = "**" THEN Undef
  ELSE IF Big(a) \/ Big(b) THEN Undef
  ELSE IF op = "^" /\ (Abs(a.n) > 30 \/ a.d # 1 \/ b.d # 1 \/ b.n > 4 \/ b.n < 0) THEN Undef
  ELSE ScalarOp(op, FltClass, a, b)

RECURSIVE Eval(_)
Eval(t) ==
  IF t.k = "leaf" THEN (IF t.un = "neg" THEN UnaryOp("neg", FltClass, t.v)
                        ELSE IF t.un = "tr" THEN Undef                 \* transposing a scalar is not accepted: tree only
                        ELSE IF t.un = "not" THEN Undef                \* operands are numbers: not is ill-kinded
                        ELSE Def(t.v))
  ELSE LET a == Eval(t.l)
           b == Eval(t.r) IN
       IF a.def /\ b.def THEN SafeOp(t.op, a.v, b.v) ELSE Undef
=============================================================================
