------------------------------- MODULE MechSet -------------------------------
(***************************************************************************)
(* Reference semantics of Mech sets (property C14).                        *)
(*                                                                         *)
(* Elements are abstract ids of a small universe (the area module maps an  *)
(* id to a concrete value of each element kind, several SPELLINGS per id   *)
(* such as 1/2 and 2/4; equal by Mech's own == means same id).  A set is   *)
(* a native TLA+ set of ids, so "no two equal elements", order freedom and *)
(* the mathematical definitions of the operators hold by construction.     *)
(*                                                                         *)
(* Second, independently written, loop-shaped definitions (suffix K) model *)
(* a set the way an implementation stores it: a duplicate-free sequence    *)
(* in insertion order, built by insert-if-absent.  MC_C14 checks that the  *)
(* two agree and that the algebraic laws hold before the declarative       *)
(* definitions judge the interpreter.                                      *)
(*                                                                         *)
(* Comprehensions { yield | qualifiers } are defined relationally: the     *)
(* result is the set of yields of all assignments of the pattern variables *)
(* that satisfy every generator (the tuple of the pattern's variables is   *)
(* an element of the source) and every filter.  A variable that occurs in  *)
(* two patterns (or twice in one) is thereby a join.  The K version walks  *)
(* the qualifiers left to right over a growing list of environments.       *)
(* In comprehensions a value is a sequence of integers: <<x>> for a scalar *)
(* element, <<p, q>> for a 2-tuple.                                        *)
(***************************************************************************)
EXTENDS Naturals, Integers, Sequences, FiniteSets, TLC

Range(s) == {s[i] : i \in DOMAIN s}

(* ------------------------------------------------------------ declarative *)
FromWritten(s)    == Range(s)              \* the set denoted by a written sequence with repeats
Size(A)           == Cardinality(A)
Union(A, B)       == A \cup B
Inter(A, B)       == A \cap B
Diff(A, B)        == A \ B
SymDiff(A, B)     == {e \in A \cup B : (e \in A) # (e \in B)}
Subset(A, B)      == \A e \in A : e \in B
Superset(A, B)    == \A e \in B : e \in A
PSubset(A, B)     == Subset(A, B) /\ \E e \in B : e \notin A
PSuperset(A, B)   == Superset(A, B) /\ \E e \in A : e \notin B
ElementOf(e, A)   == e \in A
NotElementOf(e, A) == e \notin A

(* ---------------------------------------------------------- loop-shaped (K) *)
(* a stored set: sequence without repeats, insertion order *)
RECURSIVE ContainsK(_, _, _)
ContainsK(st, e, i) == IF i > Len(st) THEN FALSE ELSE IF st[i] = e THEN TRUE ELSE ContainsK(st, e, i + 1)
Has(st, e) == ContainsK(st, e, 1)
InsertIfAbsent(st, e) == IF Has(st, e) THEN st ELSE Append(st, e)
RECURSIVE InsertAll(_, _, _)
InsertAll(st, s, i) == IF i > Len(s) THEN st ELSE InsertAll(InsertIfAbsent(st, s[i]), s, i + 1)

FromWrittenK(s) == InsertAll(<<>>, s, 1)
UnionK(a, b)    == InsertAll(a, b, 1)
RECURSIVE KeepK(_, _, _, _)
KeepK(a, b, want, i) ==    \* elements of a whose presence in b equals `want`
  IF i > Len(a) THEN <<>>
  ELSE (IF Has(b, a[i]) = want THEN <<a[i]>> ELSE <<>>) \o KeepK(a, b, want, i + 1)
InterK(a, b)    == KeepK(a, b, TRUE, 1)
DiffK(a, b)     == KeepK(a, b, FALSE, 1)
SymDiffK(a, b)  == DiffK(a, b) \o DiffK(b, a)
RECURSIVE AllInK(_, _, _)
AllInK(a, b, i) == IF i > Len(a) THEN TRUE ELSE IF Has(b, a[i]) THEN AllInK(a, b, i + 1) ELSE FALSE
SubsetK(a, b)    == AllInK(a, b, 1)
SupersetK(a, b)  == AllInK(b, a, 1)
PSubsetK(a, b)   == SubsetK(a, b) /\ Len(a) < Len(b)
PSupersetK(a, b) == SupersetK(a, b) /\ Len(b) < Len(a)
SizeK(a)         == Len(a)
NoDup(st)        == \A i, j \in DOMAIN st : i # j => st[i] # st[j]

(* ------------------------------------------------------------ comprehension *)
(* qualifier:  generator [q |-> "gen", pat, src (set of value tuples), seq (the same, stored order), n (source name)] *)
(*             filter    [q |-> "flt", f |-> [op, l, isvar, rv, rc]]   meaning   l op (rv | rc)                    *)
(* yield:      [k |-> "var" | "tup" | "sum" | "const", a, b, c]                                                  *)
Gen(pat, srcseq, name) == [q |-> "gen", pat |-> pat, src |-> Range(srcseq), seq |-> FromWrittenK(srcseq), n |-> name,
                           f |-> [op |-> "", l |-> "", isvar |-> FALSE, rv |-> "", rc |-> 0]]
FltV(op, l, r) == [q |-> "flt", pat |-> <<>>, src |-> {}, seq |-> <<>>, n |-> "",
                   f |-> [op |-> op, l |-> l, isvar |-> TRUE, rv |-> r, rc |-> 0]]
FltC(op, l, c) == [q |-> "flt", pat |-> <<>>, src |-> {}, seq |-> <<>>, n |-> "",
                   f |-> [op |-> op, l |-> l, isvar |-> FALSE, rv |-> "", rc |-> c]]
YVar(a)    == [k |-> "var", a |-> a, b |-> "", c |-> 0]
YTup(a, b) == [k |-> "tup", a |-> a, b |-> b, c |-> 0]
YSum(a, b) == [k |-> "sum", a |-> a, b |-> b, c |-> 0]
YConst(c)  == [k |-> "const", a |-> "", b |-> "", c |-> c]

Holds(f, env) ==
  LET x == env[f.l]
      y == IF f.isvar THEN env[f.rv] ELSE f.rc IN
  CASE f.op = "==" -> x = y
    [] f.op = "!=" -> x # y
    [] f.op = "<"  -> x < y
    [] f.op = "<=" -> x <= y
    [] f.op = ">"  -> x > y
    [] f.op = ">=" -> x >= y

YieldOf(y, env) ==
  CASE y.k = "var"   -> <<env[y.a]>>
    [] y.k = "tup"   -> <<env[y.a], env[y.b]>>
    [] y.k = "sum"   -> <<env[y.a] + env[y.b]>>
    [] y.k = "const" -> <<y.c>>

PatVars(quals) == UNION {Range(quals[i].pat) : i \in {j \in DOMAIN quals : quals[j].q = "gen"}}
Sat(quals, env) ==
  \A i \in DOMAIN quals :
     LET q == quals[i] IN
     IF q.q = "gen" THEN [k \in DOMAIN q.pat |-> env[q.pat[k]]] \in q.src ELSE Holds(q.f, env)
Comprehension(quals, yield, Dom) ==
  {YieldOf(yield, env) : env \in {e \in [PatVars(quals) -> Dom] : Sat(quals, e)}}

(* loop-shaped: environments are functions with a growing domain *)
EmptyEnv == [v \in {} |-> 0]
RECURSIVE Bind(_, _, _, _)
Bind(pat, val, k, env) ==
  IF k > Len(pat) THEN [ok |-> TRUE, env |-> env]
  ELSE IF pat[k] \in DOMAIN env
       THEN (IF env[pat[k]] = val[k] THEN Bind(pat, val, k + 1, env) ELSE [ok |-> FALSE, env |-> env])
       ELSE Bind(pat, val, k + 1, env @@ (pat[k] :> val[k]))
RECURSIVE ExtOne(_, _, _, _)
ExtOne(env, pat, src, j) ==
  IF j > Len(src) THEN <<>>
  ELSE LET b == Bind(pat, src[j], 1, env) IN
       (IF b.ok THEN <<b.env>> ELSE <<>>) \o ExtOne(env, pat, src, j + 1)
RECURSIVE ExtAll(_, _, _, _)
ExtAll(envs, pat, src, i) ==
  IF i > Len(envs) THEN <<>> ELSE ExtOne(envs[i], pat, src, 1) \o ExtAll(envs, pat, src, i + 1)
RECURSIVE FilterK(_, _, _)
FilterK(envs, f, i) ==
  IF i > Len(envs) THEN <<>> ELSE (IF Holds(f, envs[i]) THEN <<envs[i]>> ELSE <<>>) \o FilterK(envs, f, i + 1)
RECURSIVE RunQuals(_, _, _)
RunQuals(quals, k, envs) ==
  IF k > Len(quals) THEN envs
  ELSE LET q == quals[k] IN
       RunQuals(quals, k + 1, IF q.q = "gen" THEN ExtAll(envs, q.pat, q.seq, 1) ELSE FilterK(envs, q.f, 1))
ComprehensionK(quals, yield) ==
  LET envs == RunQuals(quals, 1, <<EmptyEnv>>) IN
  FromWrittenK([i \in 1..Len(envs) |-> YieldOf(yield, envs[i])])

(* ------------------------------------------------------------------- laws *)
(* stated for two written sequences; checked on every enumerated pair by MC_C14 *)
KernelAgrees(sa, sb) ==
  LET A == FromWritten(sa)  B == FromWritten(sb)
      a == FromWrittenK(sa) b == FromWrittenK(sb) IN
  /\ NoDup(a) /\ Range(a) = A /\ SizeK(a) = Size(A)
  /\ NoDup(UnionK(a, b))   /\ Range(UnionK(a, b)) = Union(A, B)
  /\ NoDup(InterK(a, b))   /\ Range(InterK(a, b)) = Inter(A, B)
  /\ NoDup(DiffK(a, b))    /\ Range(DiffK(a, b)) = Diff(A, B)
  /\ NoDup(SymDiffK(a, b)) /\ Range(SymDiffK(a, b)) = SymDiff(A, B)
  /\ SubsetK(a, b) = Subset(A, B)   /\ SupersetK(a, b) = Superset(A, B)
  /\ PSubsetK(a, b) = PSubset(A, B) /\ PSupersetK(a, b) = PSuperset(A, B)
  /\ \A e \in A \cup B : Has(a, e) = ElementOf(e, A)

Algebra(sa, sb) ==
  LET A == FromWritten(sa)  B == FromWritten(sb) IN
  /\ Union(A, B) = Union(B, A) /\ Inter(A, B) = Inter(B, A) /\ SymDiff(A, B) = SymDiff(B, A)
  /\ Union(A, A) = A /\ Inter(A, A) = A /\ Diff(A, A) = {} /\ SymDiff(A, A) = {}
  /\ Union(Diff(A, B), Inter(A, B)) = A /\ Inter(Diff(A, B), Inter(A, B)) = {}
  /\ SymDiff(A, B) = Diff(Union(A, B), Inter(A, B))
  /\ SymDiff(A, B) = Union(Diff(A, B), Diff(B, A))
  /\ Size(Union(A, B)) + Size(Inter(A, B)) = Size(A) + Size(B)
  /\ Subset(A, B) = Superset(B, A) /\ PSubset(A, B) = PSuperset(B, A)
  /\ Subset(A, B) = (Union(A, B) = B) /\ Subset(A, B) = (Inter(A, B) = A) /\ Subset(A, B) = (Diff(A, B) = {})
  /\ PSubset(A, B) = (Subset(A, B) /\ A # B) /\ PSubset(A, B) = (Subset(A, B) /\ Size(A) < Size(B))
  /\ (Subset(A, B) /\ Subset(B, A)) = (A = B) /\ ~(PSubset(A, B) /\ PSuperset(A, B))
  /\ \A e \in A \cup B : /\ ElementOf(e, A) = ~NotElementOf(e, A)
                         /\ ElementOf(e, Union(A, B)) = (ElementOf(e, A) \/ ElementOf(e, B))
                         /\ ElementOf(e, Inter(A, B)) = (ElementOf(e, A) /\ ElementOf(e, B))
                         /\ ElementOf(e, Diff(A, B)) = (ElementOf(e, A) /\ ~ElementOf(e, B))
  /\ FromWritten(sa \o sb) = Union(A, B) /\ FromWritten(sa \o sa) = A
=============================================================================
