SPECIFICATION Spec
CONSTANTS
  Paths = {"a.mec", "index.mec", "sub/index.mec", "b.html", "c.mec", "index.html"}
  IndexNames = {"index.mec", "index.html"}
  HtmlPaths = {"b.html", "index.html"}
  Texts = {"T1", "T2", "T3"}
  MecSibling <- SiblingDef
  ReloadLag = FALSE
INVARIANT TraceInv
POSTCONDITION TraceAccepted
CHECK_DEADLOCK FALSE
