SPECIFICATION Spec
CONSTANTS
  StmtSet = {"expr", "def"}
  RootForms <- Forms
INVARIANTS WellFormed Emit
CHECK_DEADLOCK FALSE
