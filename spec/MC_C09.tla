------------------------------- MODULE MC_C09 -------------------------------
(* Input generator for C09: every sequence of up to MaxLen token classes.  A  *)
(* behaviour types the text one token at a time; every prefix is a case.       *)
EXTENDS Naturals, Sequences, TLC, Json

CONSTANTS Classes, MaxLen
VARIABLE toks

Init == toks = <<>>
Next == Len(toks) < MaxLen /\ \E c \in Classes : toks' = Append(toks, c)
Spec == Init /\ [][Next]_toks

Emit == (Len(toks) > 0) => PrintT(<<"CASE", ToJson([toks |-> toks])>>)
=============================================================================
