SPECIFICATION WSpec
CONSTANTS
  Paths = {"a.mec", "b.html"}
  IndexNames = {}
  HtmlPaths = {"b.html"}
  Texts = {"T1", "T2"}
  MecSibling <- SiblingDef
  ReloadLag = FALSE
INVARIANTS TypeOK NoLostUpdate IndexRegistered
PROPERTIES EventuallyUpToDate
CHECK_DEADLOCK FALSE
