SPECIFICATION Spec
CONSTANTS
  Classes = {"ID", "DIG", "DEF", "EQ", "OP", "LB", "RB", "LP", "RP", "LC", "RC", "SEP", "Q", "ST", "EMO", "CMB", "BOX"}
  MaxLen = 4
INVARIANT Emit
CHECK_DEADLOCK FALSE
