----------------------------- MODULE MechStruct -----------------------------
(***************************************************************************)
(* Structured values of Mech: records, tuples, maps, tables - construction, *)
(* component access and component update (growth area G02; sources:         *)
(* docs/reference/record.mec, tuple.mec, map.mec, table.mec).               *)
(*                                                                         *)
(* Scalars are small exact tokens  Val(k, t) == [k |-> kind, t |-> token]   *)
(* with k in {"f64","string","bool","u8"}; two scalars are the same value   *)
(* iff kind and token agree (bool has the two tokens 0 and 1).  The same    *)
(* record shape is used for the KEYS of a component:                        *)
(*    Name(i)  field / column name number i     (record, table)             *)
(*    PosK(i)  1-based element position i        (tuple)                    *)
(*    Val(kk, t)  a key scalar of kind kk        (map)                      *)
(*    RowK(i)  1-based row number i              (table, row read)          *)
(*                                                                         *)
(* Every structured value AND every result of an operation is one uniform   *)
(* record (TLC cannot compare values of different shapes):                  *)
(*    Con(c, ks, kd, rows) == [c, ks, kd, rows]                             *)
(*      c    "rec" | "tup" | "map" | "tbl"      the four containers         *)
(*           "sc" | "col"                       a scalar / a column vector  *)
(*           "err" | "absent"                   no value                    *)
(*      ks   sequence of the component keys, IN THE ORDER WRITTEN           *)
(*      kd   sequence of the component kinds (aligned with ks)              *)
(*      rows sequence of rows, a row = sequence of scalars aligned with ks  *)
(*           (record, tuple, map: exactly one row; table: the rows)         *)
(*                                                                         *)
(* What the documents state and this module fixes:                          *)
(*  - a record field / tuple element / map value / table column is read by  *)
(*    its key and returns exactly the component written under that key;     *)
(*  - tuple positions are 1-based; there is no one-element tuple: (v) is v; *)
(*  - a table column read is a COLUMN VECTOR of the column's kind with one  *)
(*    element per row; a table row read by index is a RECORD with the       *)
(*    table's column names and kinds;                                       *)
(*  - a key that is not there (unknown field, unknown column, position 0 or *)
(*    n+1, row 0 or m+1) yields NO value ("err") - never another element;   *)
(*    a map key that is not there yields "absent" (map.mec: `none`; the     *)
(*    implementation raises an error: both are "no element");               *)
(*  - updates need a mutable variable (the mutability belongs to the        *)
(*    session, see MC_G02), change ONLY the addressed component and keep    *)
(*    all kinds: a source of another kind is rejected; a rejected update    *)
(*    changes nothing;                                                      *)
(*  - a map update with a key that is not there ADDS the key (map.mec 5.1); *)
(*  - `~r := T[i]` followed by `r.f = v` also updates cell (i, f) of T      *)
(*    (record.mec 5.2);                                                     *)
(*  - the order of fields / columns is irrelevant for reads by name, but it *)
(*    is part of the value (kind strings list the fields in order).         *)
(* Where the documents are silent (duplicate names / keys in a literal,     *)
(* assignment of a whole table column) the module only bounds the outcome:  *)
(* see DupOK and the expectation class "free" in MC_G02.                    *)
(*                                                                         *)
(* Read / Write are the declarative definitions; ReadK / WriteK are         *)
(* independently written scan-and-rebuild definitions, MC_G02 checks that   *)
(* they agree on the whole enumerated universe.                             *)
(***************************************************************************)
EXTENDS Integers, Sequences, FiniteSets

Kinds    == {"f64", "string", "bool", "u8"}
KeyKinds == {"string", "f64", "u8"}

Val(k, t) == [k |-> k, t |-> t]
Name(i) == Val("name", i)
PosK(i) == Val("pos", i)
RowK(i) == Val("row", i)

Con(c, ks, kd, rows) == [c |-> c, ks |-> ks, kd |-> kd, rows |-> rows]
Sc(v)      == Con("sc", <<>>, <<v.k>>, << <<v>> >>)
Col(k, vs) == Con("col", <<>>, <<k>>, [r \in 1..Len(vs) |-> <<vs[r]>>])
Err        == Con("err", <<>>, <<>>, <<>>)
Absent     == Con("absent", <<>>, <<>>, <<>>)

Width(C) == Len(C.ks)
NRows(C) == Len(C.rows)
KeySet(C) == {C.ks[i] : i \in 1..Width(C)}
Column(C, p) == [r \in 1..NRows(C) |-> C.rows[r][p]]
SrcVals(S) == [r \in 1..Len(S.rows) |-> S.rows[r][1]]
KeyKind(C) == C.ks[1].k           \* maps (never empty here)
ValKind(C) == C.kd[1]

(* well-formed containers *)
WF(C) ==
  /\ C.c \in {"rec", "tup", "map", "tbl"}
  /\ Width(C) >= 1 /\ Len(C.kd) = Width(C) /\ NRows(C) >= 1
  /\ \A i, j \in 1..Width(C) : i # j => C.ks[i] # C.ks[j]              \* one component per key
  /\ \A i \in 1..Width(C) : C.kd[i] \in Kinds
  /\ \A r \in 1..NRows(C) : /\ Len(C.rows[r]) = Width(C)
                            /\ \A i \in 1..Width(C) : C.rows[r][i].k = C.kd[i]   \* a component has the kind of its slot
  /\ C.c # "tbl" => NRows(C) = 1
  /\ C.c = "tup" => Width(C) >= 2 /\ \A i \in 1..Width(C) : C.ks[i] = PosK(i)
  /\ C.c \in {"rec", "tbl"} => \A i \in 1..Width(C) : C.ks[i].k = "name"
  /\ C.c = "map" => /\ KeyKind(C) \in KeyKinds
                    /\ \A i \in 1..Width(C) : C.ks[i].k = KeyKind(C) /\ C.kd[i] = ValKind(C)

(* ------------------------------------------------------------ declarative *)
Index(C, key) == IF \E i \in 1..Width(C) : C.ks[i] = key THEN CHOOSE i \in 1..Width(C) : C.ks[i] = key ELSE 0

Read(C, key) ==
  IF C.c = "tbl" /\ key.k = "row"
  THEN (IF key.t \in 1..NRows(C) THEN Con("rec", C.ks, C.kd, <<C.rows[key.t]>>) ELSE Err)
  ELSE LET p == Index(C, key) IN
       IF p = 0 THEN (IF C.c = "map" THEN Absent ELSE Err)
       ELSE IF C.c = "tbl" THEN Col(C.kd[p], Column(C, p))
       ELSE Sc(C.rows[1][p])

WR(ok, post) == [ok |-> ok, post |-> post]
SetCol(C, p, vs) == [C EXCEPT !.rows = [r \in 1..NRows(C) |-> [C.rows[r] EXCEPT ![p] = vs[r]]]]

(* Write(C, key, S): S is Sc(v) (record field, tuple element, map value) or Col(k, vs) (table column) *)
Write(C, key, S) ==
  LET p == Index(C, key) IN
  CASE C.c \in {"rec", "tup"} ->
         IF p # 0 /\ S.c = "sc" /\ S.kd[1] = C.kd[p] THEN WR(TRUE, SetCol(C, p, SrcVals(S))) ELSE WR(FALSE, C)
    [] C.c = "map" ->
         IF S.c = "sc" /\ key.k = KeyKind(C) /\ S.kd[1] = ValKind(C)
         THEN (IF p # 0 THEN WR(TRUE, SetCol(C, p, SrcVals(S)))
               ELSE WR(TRUE, Con("map", Append(C.ks, key), Append(C.kd, S.kd[1]), <<Append(C.rows[1], S.rows[1][1])>>)))
         ELSE WR(FALSE, C)
    [] C.c = "tbl" ->
         IF p # 0 /\ S.c = "col" /\ S.kd[1] = C.kd[p] /\ Len(S.rows) = NRows(C)
         THEN WR(TRUE, SetCol(C, p, SrcVals(S))) ELSE WR(FALSE, C)

(* record.mec 5.2: r is the record read from row i of the table T; assigning field `key` of r   *)
(* updates r AND cell (i, key) of T.  Result [ok, post (the table), rec (the record)].          *)
RowSet(T, i, key, S) ==
  LET R == Read(T, RowK(i))
      w == IF R.c = "rec" THEN Write(R, key, S) ELSE WR(FALSE, R)
      p == Index(T, key) IN
  IF w.ok THEN [ok |-> TRUE, post |-> [T EXCEPT !.rows[i][p] = S.rows[1][1]], rec |-> w.post]
  ELSE [ok |-> FALSE, post |-> T, rec |-> R]

(* (v) is v *)
Paren1(v) == Sc(v)

(* ------------------------------------------------- scan-and-rebuild shaped *)
RECURSIVE FindK(_, _, _)
FindK(ks, key, i) == IF i > Len(ks) THEN 0 ELSE IF ks[i] = key THEN i ELSE FindK(ks, key, i + 1)

RECURSIVE ColumnK(_, _, _)
ColumnK(rows, p, r) == IF r > Len(rows) THEN <<>> ELSE <<rows[r][p]>> \o ColumnK(rows, p, r + 1)

ReplaceK(s, p, v) == SubSeq(s, 1, p - 1) \o <<v>> \o SubSeq(s, p + 1, Len(s))

RECURSIVE SetColK(_, _, _, _)
SetColK(rows, p, vs, r) == IF r > Len(rows) THEN <<>> ELSE <<ReplaceK(rows[r], p, vs[r])>> \o SetColK(rows, p, vs, r + 1)

ReadK(C, key) ==
  IF C.c = "tbl" /\ key.k = "row"
  THEN (IF key.t >= 1 /\ key.t <= Len(C.rows) THEN Con("rec", C.ks, C.kd, SubSeq(C.rows, key.t, key.t)) ELSE Err)
  ELSE LET p == FindK(C.ks, key, 1) IN
       IF p = 0 THEN (IF C.c = "map" THEN Absent ELSE Err)
       ELSE IF C.c = "tbl" THEN Col(C.kd[p], ColumnK(C.rows, p, 1))
       ELSE Sc(C.rows[1][p])

WriteK(C, key, S) ==
  LET p == FindK(C.ks, key, 1)
      kindOk == IF p # 0 THEN S.kd = <<C.kd[p]>> ELSE (C.c = "map" /\ S.kd = <<C.kd[1]>> /\ key.k = C.ks[1].k)
      shapeOk == IF C.c = "tbl" THEN S.c = "col" /\ Len(S.rows) = Len(C.rows) ELSE S.c = "sc" IN
  IF ~(kindOk /\ shapeOk) THEN WR(FALSE, C)
  ELSE IF p # 0 THEN WR(TRUE, Con(C.c, C.ks, C.kd, SetColK(C.rows, p, ColumnK(S.rows, 1, 1), 1)))
  ELSE WR(TRUE, Con(C.c, C.ks \o <<key>>, C.kd \o S.kd, <<C.rows[1] \o S.rows[1]>>))

KernelAgrees(C, keys, srcs) ==
  /\ \A key \in keys : ReadK(C, key) = Read(C, key)
  /\ \A key \in keys : \A S \in srcs : key.k # "row" => WriteK(C, key, S) = Write(C, key, S)

(* ------------------------------------------------------------------- laws *)
(* construction-then-read returns the written component for every position; a key that was not   *)
(* written returns no element                                                                    *)
ConstructRead(C, keys) ==
  /\ \A p \in 1..Width(C) :
        Read(C, C.ks[p]) = (IF C.c = "tbl" THEN Col(C.kd[p], Column(C, p)) ELSE Sc(C.rows[1][p]))
  /\ C.c = "tbl" => \A r \in 1..NRows(C) :
        LET R == Read(C, RowK(r)) IN R.c = "rec" /\ R.ks = C.ks /\ R.kd = C.kd /\ R.rows = <<C.rows[r]>> /\ WF(R)
  /\ \A key \in keys : (key \notin KeySet(C) /\ ~(C.c = "tbl" /\ key.k = "row" /\ key.t \in 1..NRows(C)))
                          => Read(C, key) \in {Err, Absent}

(* an accepted update: read-after-write, frame, kinds and keys preserved; a rejected one: nothing changes *)
WriteLaws(C, key, S) ==
  LET w == Write(C, key, S) IN
  /\ ~w.ok => w.post = C                                                     \* failure atomicity
  /\ w.ok =>
       /\ WF(w.post)
       /\ Read(w.post, key) = S                                              \* read-after-write
       /\ \A k2 \in KeySet(C) \ {key} : Read(w.post, k2) = Read(C, k2)       \* frame: every other component
       /\ (C.c # "map" \/ key \in KeySet(C)) => (w.post.ks = C.ks /\ w.post.kd = C.kd)    \* keys, order and kinds kept
       /\ (C.c = "map" /\ key \notin KeySet(C)) => (w.post.ks = Append(C.ks, key) /\ Width(w.post) = Width(C) + 1)
       /\ C.c # "map" => key \in KeySet(C)                                   \* only maps grow
       /\ NRows(w.post) = NRows(C)
       /\ (C.c = "tbl") => \A r \in 1..NRows(C) : \A q \in 1..Width(C) :     \* frame, row-wise
              q # Index(C, key) => Read(w.post, RowK(r)).rows[1][q] = C.rows[r][q]
       /\ Write(w.post, key, S) = WR(TRUE, w.post)                           \* idempotent
       /\ S.kd[1] = w.post.kd[Index(w.post, key)]                            \* the slot keeps its kind
  /\ (w.ok /\ key \in KeySet(C)) =>                                          \* writing back what was there restores the value
       Write(w.post, key, Read(C, key)) = WR(TRUE, C)

(* two updates: the last one wins on the same key, updates of different existing keys commute *)
TwoWrites(C, k1, S1, k2, S2) ==
  LET a == Write(C, k1, S1)
      b == Write(C, k2, S2) IN
  (a.ok /\ b.ok) =>
     /\ k1 = k2 => Write(a.post, k2, S2).post = b.post
     /\ (k1 # k2 /\ k1 \in KeySet(C) /\ k2 \in KeySet(C)) => Write(a.post, k2, S2).post = Write(b.post, k1, S1).post

(* field / column / key ORDER: irrelevant for reads by key, preserved in the value *)
Perms(n) == {f \in [1..n -> 1..n] : \A i, j \in 1..n : i # j => f[i] # f[j]}
Permute(C, pi) == Con(C.c, [i \in 1..Width(C) |-> C.ks[pi[i]]], [i \in 1..Width(C) |-> C.kd[pi[i]]],
                      [r \in 1..NRows(C) |-> [i \in 1..Width(C) |-> C.rows[r][pi[i]]]])
FieldSet(R) == {<<R.ks[i], R.kd[i], R.rows[1][i]>> : i \in 1..Width(R)}
OrderLaw(C) ==
  C.c \in {"rec", "map", "tbl"} =>
    \A pi \in Perms(Width(C)) :
      LET D == Permute(C, pi) IN
      /\ WF(D)
      /\ \A key \in KeySet(C) : Read(D, key) = Read(C, key)
      /\ C.c = "tbl" => \A r \in 1..NRows(C) : FieldSet(Read(D, RowK(r))) = FieldSet(Read(C, RowK(r)))
      /\ \A i \in 1..Width(C) : D.ks[i] = C.ks[pi[i]]                      \* the value keeps the order written
      /\ (pi # [i \in 1..Width(C) |-> i]) => D # C

(* the documented alias between a table and a record read from it *)
RowSetLaws(T, i, key, S) ==
  LET x == RowSet(T, i, key, S) IN
  /\ ~x.ok => (x.post = T /\ x.rec = Read(T, RowK(i)))
  /\ x.ok => /\ WF(x.post) /\ WF(x.rec)
             /\ Read(x.post, RowK(i)) = x.rec                                \* table and record agree afterwards
             /\ Read(x.rec, key) = S
             /\ \A r \in 1..NRows(T) : r # i => Read(x.post, RowK(r)) = Read(T, RowK(r))
             /\ \A k2 \in KeySet(T) \ {key} : Read(x.rec, k2) = Read(Read(T, RowK(i)), k2)
             /\ x.post.ks = T.ks /\ x.post.kd = T.kd

(* ------------------------------------------------ literals with duplicates *)
(* a literal is a sequence of entries [key, kd, vs] (vs: one value per row).  With pairwise       *)
(* distinct keys it denotes FromEntries.  With a repeated key the documents say nothing for       *)
(* records and tables, and "each key is unique" for maps; DupOK bounds what an accepted literal   *)
(* may denote: a well-formed value over exactly the written keys in which every key carries ONE   *)
(* of the (kind, values) written under that key - never something written under another key.      *)
Entry(key, kd, vs) == [key |-> key, kd |-> kd, vs |-> vs]
EntriesOf(C) == [i \in 1..Width(C) |-> Entry(C.ks[i], C.kd[i], Column(C, i))]
FromEntries(c, es) == Con(c, [i \in 1..Len(es) |-> es[i].key], [i \in 1..Len(es) |-> es[i].kd],
                          [r \in 1..Len(es[1].vs) |-> [i \in 1..Len(es) |-> es[i].vs[r]]])
NoDup(es) == \A i, j \in 1..Len(es) : i # j => es[i].key # es[j].key
DupOK(c, es, R) ==
  /\ WF(R) /\ R.c = c
  /\ KeySet(R) = {es[i].key : i \in 1..Len(es)}
  /\ \A p \in 1..Width(R) : \E i \in 1..Len(es) : es[i].key = R.ks[p] /\ es[i].kd = R.kd[p] /\ es[i].vs = Column(R, p)
(* two natural readings, both acceptable: the first / the last entry of a key wins (position of the first occurrence) *)
FirstIdx(es, i) == \A j \in 1..(i - 1) : es[j].key # es[i].key
Winner(es, i, last) == IF last THEN CHOOSE j \in 1..Len(es) : es[j].key = es[i].key /\ \A q \in (j + 1)..Len(es) : es[q].key # es[i].key
                       ELSE i
DupResolve(c, es, last) ==
  LET firsts == SelectSeq([i \in 1..Len(es) |-> i], LAMBDA i : FirstIdx(es, i)) IN
  FromEntries(c, [q \in 1..Len(firsts) |-> Entry(es[firsts[q]].key, es[Winner(es, firsts[q], last)].kd, es[Winner(es, firsts[q], last)].vs)])
=============================================================================
