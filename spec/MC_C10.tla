------------------------------- MODULE MC_C10 -------------------------------
(* Bounded instance of MechDoc: every document of up to MaxBlocks blocks over the   *)
(* block alphabet; checks ProseInert / Isolation / ErrorContained on the model and  *)
(* emits every document with the final stores of the main and the named sessions.   *)
EXTENDS MechDoc, TLC, Json

CONSTANTS MaxBlocks, FenceNames

VARIABLES doc, ds
vars == <<doc, ds>>

(* MechSession's own variables are not used here *)
NoAct == A("Init", NoName, NoName, Undef, 0, FALSE, TRUE)

St(a, n, m, v, i, mu) == A(a, n, m, v, i, mu, TRUE)
Stmts == { St("Define", "a", NoName, Sc(5), 0, TRUE),  St("Define", "a", NoName, Sc(5), 0, FALSE),
           St("Define", "b", NoName, Mat(1, 2), 0, TRUE),
           St("Assign", "a", NoName, Sc(6), 0, FALSE), St("OpAssign", "a", NoName, Undef, 0, FALSE),
           St("IndexAssign", "b", NoName, Undef, 1, FALSE),
           St("Eval", "a", NoName, Undef, 0, FALSE), St("Eval", "b", NoName, Undef, 0, FALSE),
           St("FailingCall", "a", NoName, Undef, 0, FALSE) }

Blocks ==    {[b |-> "prose", ns |-> "", st |-> <<>>]}
        \cup {[b |-> "code", ns |-> "", st |-> <<s>>] : s \in Stmts}
        \cup {[b |-> "fence", ns |-> f, st |-> <<s>>] : f \in FenceNames \cup {""}, s \in Stmts}
        \cup {[b |-> "fence", ns |-> f, st |-> <<St("Assign", "a", NoName, Sc(6), 0, FALSE), St("Define", "b", NoName, Sc(5), 0, FALSE)>>] : f \in FenceNames}
        \cup {[b |-> "fence", ns |-> f, st |-> <<St("Define", "a", NoName, Sc(5), 0, TRUE), St("OpAssign", "a", NoName, Undef, 0, FALSE)>>] : f \in FenceNames}

Init == doc = <<>> /\ ds = DocInit(FenceNames)
Next == /\ Len(doc) < MaxBlocks
        /\ ~ds.aborted                       \* nothing after an aborting error is interesting
        /\ \E blk \in Blocks :
             /\ (IF blk.b = "prose" /\ Len(doc) > 0 THEN doc[Len(doc)].b # "prose" ELSE TRUE)   \* no two prose blocks in a row
             /\ doc' = Append(doc, blk)
             /\ ds' = ApplyBlock(ds, blk)
Spec == Init /\ [][Next]_vars

(* incremental evaluation = evaluation of the whole document *)
Compositional == ds = RunDoc(DocInit(FenceNames), doc, 1)
(* prose never changes any value *)
ProseInert == RunDoc(DocInit(FenceNames), CodeOnly(doc), 1) = ds
(* a named fence never touches the main session nor another name's session, and vice versa *)
Isolation ==
  \A i \in 1..Len(doc) :
    LET before == RunDoc(DocInit(FenceNames), SubSeq(doc, 1, i - 1), 1)
        after == ApplyBlock(before, doc[i]) IN
    /\ (doc[i].b # "prose" /\ doc[i].ns # "") => (after.main = before.main /\ \A f \in FenceNames \ {doc[i].ns} : after.subs[f] = before.subs[f])
    /\ (doc[i].b # "prose" /\ doc[i].ns = "") => after.subs = before.subs
(* an error inside a named fence never aborts the document *)
ErrorContained == (\A i \in 1..Len(doc) : doc[i].b = "prose" \/ doc[i].ns # "") => ~ds.aborted

CaseJson == [doc |-> doc, main |-> ds.main, subs |-> ds.subs, used |-> ds.used, aborted |-> ds.aborted]
Emit == (Len(doc) > 0) => PrintT(<<"CASE", ToJson(CaseJson)>>)
=============================================================================
