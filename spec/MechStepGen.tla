----------------------------- MODULE MechStepGen -----------------------------
(***************************************************************************)
(* Re-evaluation (C19) over OPAQUE values.                                  *)
(*                                                                         *)
(* A session runs the items of a program, then re-evaluates its plan.  The  *)
(* specification does not know what the plan computes; it states what the   *)
(* property states:                                                         *)
(*   * a program without assignment / op-assignment statements is a fixed   *)
(*     point of re-evaluation: every step leaves every variable unchanged;  *)
(*   * n single steps equal one request for n steps (second instance);      *)
(*   * two instances that ran the same program hold equal values (third     *)
(*     instance).                                                           *)
(* state:  store     name -> value token                                    *)
(*         assigned  an assignment / op-assignment statement was executed   *)
(*         singles   stores after each single step so far                   *)
(*         base      the store when the program's items had been executed   *)
(* The generative part (Next) lets an arbitrary `plan effect` F act on the  *)
(* store: F is a function on stores, fixed per behaviour, which is the      *)
(* identity on the base store when nothing was assigned; TLC checks that    *)
(* the judge accepts exactly such behaviours.                               *)
(***************************************************************************)
EXTENDS Naturals, Sequences, FiniteSets, TLC

CONSTANTS Names, Vals, MaxSteps

VARIABLES store, assigned, singles, base, act
svars == <<store, assigned, singles, base, act>>

Stores == [Names -> Vals]

SEv(kind, n, ok) == [kind |-> kind, n |-> n, ok |-> ok]

(* the rules an observed step event breaks: s = store before, e the event, s2 the store observed *)
StepViolations(s, asg, sing, b, e, s2) ==
       (IF e.kind = "Step" /\ e.ok /\ ~asg /\ s2 # s THEN {"StepChangedNoAssign"} ELSE {})
  \cup (IF e.kind = "StepN" /\ e.ok /\ Len(sing) >= e.n /\ e.n >= 1 /\ s2 # sing[e.n] THEN {"StepNDiffers"} ELSE {})
  \cup (IF e.kind = "Rerun" /\ s2 # b THEN {"RerunDiffers"} ELSE {})

(* ---- generative specification: the plan effect is an arbitrary function on stores *)
Init == /\ store \in Stores
        /\ assigned \in BOOLEAN
        /\ singles = <<>>
        /\ base = store
        /\ act = SEv("Init", 0, TRUE)

RECURSIVE IterR(_, _, _)
IterR(F, s, k) == IF k = 0 THEN s ELSE F[IterR(F, s, k - 1)]

(* plan effects compatible with the session: identity on the base store unless something was assigned *)
Effects == {F \in [Stores -> Stores] : ~assigned => F[base] = base}

Next == \E F \in Effects :
          \/ /\ Len(singles) < MaxSteps
             /\ store = IterR(F, base, Len(singles))          \* the same effect throughout the behaviour
             /\ store' = F[store]
             /\ singles' = Append(singles, store')
             /\ act' = SEv("Step", 1, TRUE)
             /\ UNCHANGED <<assigned, base>>
          \/ /\ Len(singles) = MaxSteps                        \* second instance: MaxSteps at once
             /\ \A k \in 1..MaxSteps : singles[k] = IterR(F, base, k)
             /\ act.kind = "Step"
             /\ store' = IterR(F, base, MaxSteps)
             /\ act' = SEv("StepN", MaxSteps, TRUE)
             /\ UNCHANGED <<assigned, base, singles>>
          \/ /\ act.kind = "StepN"                             \* third instance: the program only
             /\ store' = base
             /\ act' = SEv("Rerun", 0, TRUE)
             /\ UNCHANGED <<assigned, base, singles>>

Spec == Init /\ [][Next]_svars

JudgeAcceptsSpec == [][StepViolations(store, assigned, singles, base, act', store') = {}]_svars
FixedPointNoAssign == [][(~assigned /\ act'.kind = "Step") => store' = store]_svars
=============================================================================
