----------------------------- MODULE MechSources -----------------------------
(* The source registry of the `mech` tool (src/mechfs.rs, struct MechSources): the object behind `mech serve`,      *)
(* `mech run <dir>` and the file watcher.  It maps source paths to the text that was read, the tree parsed from it   *)
(* and the HTML rendered from that tree, keeps an INDEX entry (what `get_source("")` serves), and stores anonymous   *)
(* code added with `add_code`.  The disk changes underneath it (the watcher calls `reload_source`).                  *)
(*                                                                                                                  *)
(* One action per public entry point, with its failing variant; the environment's actions are Write and Remove.      *)
(* A derived artefact is identified by the TEXT it derives from: tree[p] = t means "the stored tree of p is the      *)
(* parse of t" (the harness maps the stored tree / html back to a text of the universe), so coherence of the three   *)
(* maps is a plain state predicate.                                                                                  *)
(*                                                                                                                  *)
(* ReloadLag = FALSE is the specification.  ReloadLag = TRUE describes what src/mechfs.rs does today (reload_source  *)
(* parses the STALE text before it stores the new one, so tree and html lag one reload behind): it is kept as a      *)
(* named deviation so that TLC can show that the judge (Coherent) separates the two.                                 *)
EXTENDS Naturals, FiniteSets, Sequences

CONSTANTS Paths,        \* relative source paths (strings)
          IndexNames,   \* the relative paths that claim the index: "index.mec", "index.html", "index.md"
          HtmlPaths,    \* paths read as ready-made HTML (.html / .htm / .md / .css): no tree is parsed
          MecSibling,   \* [Paths -> Paths \cup {"none"}]: the path with its extension replaced by .mec, if that is another path
          Texts,        \* file contents
          ReloadLag     \* FALSE: specification; TRUE: the implementation's stale-parse deviation

None == "none"          \* not registered / absent
Empty == "empty"        \* the empty program (tree of an HTML source)

VARIABLES fs,           \* [Paths -> Texts \cup {None}]      the disk
          src,          \* [Paths -> Texts \cup {None}]      text registered for a path
          tree,         \* [Paths -> Texts \cup {None, Empty}] the text the stored tree was parsed from
          html,         \* [Paths -> Texts \cup {None}]      the text the stored html was rendered from
          idx,          \* Paths \cup {None}                  the index entry
          codes         \* SUBSET Texts                       anonymous code
svars == <<fs, src, tree, html, idx, codes>>

TypeOK == /\ fs \in [Paths -> Texts \cup {None}]
          /\ src \in [Paths -> Texts \cup {None}]
          /\ tree \in [Paths -> Texts \cup {None, Empty}]
          /\ html \in [Paths -> Texts \cup {None}]
          /\ idx \in Paths \cup {None}
          /\ codes \subseteq Texts

SInit == /\ fs \in [Paths -> Texts \cup {None}]
         /\ src = [p \in Paths |-> None]
         /\ tree = [p \in Paths |-> None]
         /\ html = [p \in Paths |-> None]
         /\ idx = None
         /\ codes = {}

Registered == {p \in Paths : src[p] # None}
TreeOf(p, t) == IF p \in HtmlPaths THEN Empty ELSE t

(* ---------------------------------------------------------------- pure effects: state record -> [r, state record] *)
St == [fs |-> fs, src |-> src, tree |-> tree, html |-> html, idx |-> idx, codes |-> codes]

NewIdx(s, p) == IF s.idx = None THEN p ELSE IF p \in IndexNames THEN p ELSE s.idx

EffAdd(s, p) ==
  IF s.fs[p] = None THEN [r |-> "fail", s |-> s]
  ELSE [r |-> "ok",
        s |-> [s EXCEPT !.src[p] = s.fs[p], !.tree[p] = TreeOf(p, s.fs[p]), !.html[p] = s.fs[p], !.idx = NewIdx(s, p)]]

EffReloadWith(s, p, lag) ==
  IF s.fs[p] = None \/ s.src[p] = None THEN [r |-> "fail", s |-> s]
  ELSE LET from == IF lag THEN s.src[p] ELSE s.fs[p] IN
       [r |-> "ok",
        s |-> [s EXCEPT !.src[p] = s.fs[p], !.tree[p] = TreeOf(p, from), !.html[p] = from]]
EffReload(s, p) == EffReloadWith(s, p, ReloadLag)

EffCode(s, t) == [r |-> "ok", s |-> [s EXCEPT !.codes = s.codes \cup {t}]]
EffWrite(s, p, t) == [r |-> "ok", s |-> [s EXCEPT !.fs[p] = t]]
EffRemove(s, p) == [r |-> "ok", s |-> [s EXCEPT !.fs[p] = None]]

Op(o, p, t) == [o |-> o, p |-> p, t |-> t]
Eff(s, op) ==
  CASE op.o = "add"    -> EffAdd(s, op.p)
    [] op.o = "reload" -> EffReload(s, op.p)
    [] op.o = "code"   -> EffCode(s, op.t)
    [] op.o = "write"  -> EffWrite(s, op.p, op.t)
    [] op.o = "remove" -> EffRemove(s, op.p)

(* ---------------------------------------------------------------- what a client can ask (the observation) *)
(* get_source / get_tree / get_html of a relative path, of "" (the index) and of an anonymous text; contains *)
GetSrc(s, p) == s.src[p]
GetTree(s, p) == s.tree[p]
(* a request for the html of an unregistered path is answered with the html of the .mec source of the same name, if that is  *)
(* registered (`mech serve` answers page.html from page.mec)                                                                *)
HtmlFrom(s, p) == IF s.html[p] # None THEN p
                  ELSE IF MecSibling[p] # None /\ s.html[MecSibling[p]] # None THEN MecSibling[p] ELSE None
GetHtml(s, p) == IF HtmlFrom(s, p) = None THEN None ELSE s.html[HtmlFrom(s, p)]
IndexSrc(s) == IF s.idx = None THEN None ELSE s.src[s.idx]
Contains(s, p) == s.src[p] # None
CodeSrc(s, t) == IF t \in s.codes THEN t ELSE None

(* ---------------------------------------------------------------- laws *)
(* the three maps describe the same text (for an HTML source: no tree) *)
CoherentS(s) == \A p \in Paths :
                  IF s.src[p] # None THEN s.tree[p] = TreeOf(p, s.src[p]) /\ s.html[p] = s.src[p]
                  ELSE s.tree[p] = None /\ s.html[p] = None
Coherent == CoherentS(St)
(* the index is a registered source; once a top-level index file is registered the index is an index file *)
IndexRegistered == idx # None => src[idx] # None
IndexNonEmpty == Registered # {} => idx # None
IndexClaimed == Registered \cap IndexNames # {} => idx \in IndexNames
=============================================================================
