SPECIFICATION SpecZ
INVARIANT EmitZ
CHECK_DEADLOCK FALSE
