----------------------------- MODULE Trace_C19g -----------------------------
(* Trace validation (impl -> spec) against MechStepGen: the repository's own programs are   *)
(* executed item by item, then re-evaluated by k single steps; a second instance runs the    *)
(* same items and k steps at once, a third only the items.  Every recorded step event must   *)
(* be allowed by MechStepGen!StepViolations.  Mismatches are reported and the trace          *)
(* specification resynchronises on the observed store.                                       *)
EXTENDS MechStepGen, Json, IOUtils

Tr == ndJsonDeserialize(IOEnv.TRACE)

VARIABLE l
tvars == <<store, assigned, singles, base, act, l>>

TraceInit == /\ l = 1
             /\ store = [n \in {"$"} |-> "-"]
             /\ assigned = FALSE
             /\ singles = <<>>
             /\ base = [n \in {"$"} |-> "-"]
             /\ act = SEv("Init", 0, TRUE)

TraceStep ==
  /\ l <= Len(Tr)
  /\ l' = l + 1
  /\ LET e == Tr[l] IN
     CASE e.kind = "Reset" ->
            /\ store' = e.store /\ base' = e.store /\ assigned' = FALSE /\ singles' = <<>> /\ act' = SEv("Reset", 0, TRUE)
       [] e.kind \in {"Step", "StepN", "Rerun"} ->
            LET ev == SEv(e.kind, e.n, e.ok)
                bad == StepViolations(store, assigned, singles, base, ev, e.store) IN
            /\ (IF bad = {} THEN TRUE ELSE PrintT(<<"MSG", ToJson([l |-> l, sess |-> e.sess, rules |-> bad])>>))
            /\ store' = e.store
            /\ singles' = IF e.kind = "Step" THEN Append(singles, e.store) ELSE singles
            /\ act' = ev
            /\ UNCHANGED <<assigned, base>>
       [] OTHER ->     \* an item of the program: it (re)defines the base store
            /\ store' = e.store /\ base' = e.store /\ singles' = <<>>
            /\ assigned' = (assigned \/ e.kind \in {"Assign", "OpAssign"})
            /\ act' = SEv(e.kind, 0, e.ok)

TraceSpec == TraceInit /\ [][TraceStep]_tvars

TraceAccepted ==
  IF TLCGet("stats").diameter - 1 = Len(Tr) THEN TRUE
  ELSE Print(<<"MSG", ToJson([unconsumed |-> TLCGet("stats").diameter])>>, FALSE)
=============================================================================
