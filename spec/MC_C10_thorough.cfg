SPECIFICATION Spec
CONSTANTS
  Names = {"a", "b"}
  MaxBlocks = 4
  FenceNames = {"p", "q"}
INVARIANTS Compositional ProseInert Isolation ErrorContained Emit
CHECK_DEADLOCK FALSE
