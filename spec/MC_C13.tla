------------------------------- MODULE MC_C13 -------------------------------
(* Bounded instance of MechLiteral for C13: enumerates literal spellings      *)
(* (form x digit strings x underscores x exponent forms x base prefixes x     *)
(* kind suffix/annotation x sign, boundary values of u8/i8/u16/i16 exactly,    *)
(* the wide kinds with small values and with anchored boundary values),       *)
(* checks the model-level laws and emits every case for replay.               *)
EXTENDS MechLiteral, TLC, Json, FiniteSets

CONSTANTS Alpha,      \* decimal digit alphabet for the exhaustive digit strings
          MaxLen,     \* their maximal length
          Deep        \* TRUE: thorough pools

VARIABLE cs

Strings(A, n) == UNION {[1..k -> A] : k \in 1..n}
D(v) == ToDigits(v, 10)

(* underscore placements: 1 after the first digit, 2 between all digits, 3 before the last digit *)
RECURSIVE Inter(_)
Inter(ds) == IF Len(ds) <= 1 THEN ds ELSE <<ds[1], US>> \o Inter(Tail(ds))
WithUS(ds, m) ==
  CASE m = 0 -> ds
    [] m = 1 -> <<ds[1], US>> \o Tail(ds)
    [] m = 2 -> Inter(ds)
    [] m = 3 -> SubSeq(ds, 1, Len(ds) - 1) \o <<US, ds[Len(ds)]>>
USModes(ds) == IF Len(ds) >= 3 THEN {1, 2, 3} ELSE IF Len(ds) = 2 THEN {1} ELSE {}
HasUS(ts) == \E i \in 1..Len(ts) : ts[i] = US

Boundary == {0, 1, 126, 127, 128, 129, 254, 255, 256, 257, 32766, 32767, 32768, 32769, 65534, 65535, 65536, 65537}
LongInts == {<<1, 2, 3, 4, 5, 6>>, <<9, 9, 9, 9, 9, 9, 9>>, <<1, 0, 0, 0, 0, 0, 0, 0, 0>>, <<0, 0, 7>>, <<1, 6, 7, 7, 7, 2, 1, 7>>}
            \cup (IF Deep THEN {<<5, 3, 6, 8, 7, 0, 9, 1, 2>>, <<1, 0, 7, 3, 7, 4, 1, 8, 2>>, <<4, 0, 9, 6>>, <<0, 0, 0, 0>>} ELSE {})

IntStrings == Strings(Alpha, MaxLen) \cup {D(v) : v \in Boundary} \cup LongInts

FltW == {<<>>, <<0>>, <<1>>, <<9>>, <<1, 0>>, <<1, 9>>} \cup (IF Deep THEN {<<0, 0>>, <<2, 5, 5>>, <<1, 2, 3, 4>>} ELSE {})
FltF == Strings(Alpha, 2) \cup {<<1, 2, 5>>, <<0, 0, 1>>, <<9, 9, 9>>, <<6, 2, 5>>, <<0, 6, 2, 5>>, <<3>>, <<7, 5>>}
        \cup (IF Deep THEN Strings(Alpha, 3) \cup {<<1, 4, 1, 5, 9>>, <<0, 0, 0, 0, 1>>, <<3, 3, 3, 3>>} ELSE {})

(* <<w, hasf, f>> *)
SciMant == {<<<<1>>, FALSE, <<>>>>, <<<<3>>, FALSE, <<>>>>, <<<<1, 2>>, FALSE, <<>>>>,
            <<<<1>>, TRUE, <<0>>>>, <<<<1>>, TRUE, <<5>>>>, <<<<2>>, TRUE, <<2, 5>>>>, <<<<1, 2>>, TRUE, <<5>>>>,
            <<<<>>, TRUE, <<5>>>>, <<<<0>>, TRUE, <<0, 1>>>>, <<<<9>>, TRUE, <<9>>>>, <<<<1>>, TRUE, <<1>>>>, <<<<3>>, TRUE, <<3>>>>}
           \cup (IF Deep THEN {<<<<1, 0, 0>>, FALSE, <<>>>>, <<<<0>>, FALSE, <<>>>>, <<<<6>>, TRUE, <<0, 2, 2>>>>, <<<<>>, TRUE, <<1, 2, 5>>>>,
                               <<<<7>>, TRUE, <<7>>>>, <<<<1, 2, 3>>, TRUE, <<4>>>>, <<<<0>>, TRUE, <<0>>>>} ELSE {})
SciExp == {<<0>>, <<1>>, <<2>>, <<3>>, <<0, 2>>} \cup (IF Deep THEN {<<4>>, <<5>>, <<0, 0>>} ELSE {})

HexStrings == Strings({0, 1, 9, 10, 15}, 2) \cup {<<7, 15>>, <<8, 0>>, <<15, 15>>, <<1, 0, 0>>, <<7, 15, 15, 15>>, <<8, 0, 0, 0>>, <<15, 15, 15, 15>>,
               <<1, 0, 0, 0, 0>>, <<1, 2, 10, 11>>, <<12, 13, 14, 15>>, <<13, 14, 10, 13>>}
OctStrings == Strings({0, 1, 7}, 3) \cup {<<1, 7, 7>>, <<2, 0, 0>>, <<3, 7, 7>>, <<4, 0, 0>>, <<1, 7, 7, 7, 7, 7>>, <<2, 0, 0, 0, 0, 0>>, <<6, 5, 4>>}
BinStrings == Strings({0, 1}, 4) \cup {<<0,1,1,1,1,1,1,1>>, <<1,0,0,0,0,0,0,0>>, <<1,1,1,1,1,1,1,1>>, <<1,0,0,0,0,0,0,0,0>>, <<1,0,1,0,1,0>>}
DecStrings == Strings({0, 1, 9}, 2) \cup {D(v) : v \in {127, 128, 255, 256, 32767, 32768, 65535, 65536, 4096}}
BasStrings(b) == CASE b = 16 -> HexStrings [] b = 8 -> OctStrings [] b = 2 -> BinStrings [] b = 10 -> DecStrings

RatN == {<<0>>, <<1>>, <<2>>, <<3>>, <<5>>, <<6>>, <<1, 0>>, <<1, 2>>, <<2, 5, 5>>, <<0, 7>>} \cup (IF Deep THEN {<<2, 2>>, <<3, 5, 5>>, <<1, 0, 0, 0>>, <<9, 9>>} ELSE {})
RatD == {<<0>>, <<1>>, <<2>>, <<3>>, <<4>>, <<5>>, <<7>>, <<1, 0>>, <<1, 2>>, <<0, 0>>, <<0, 4>>} \cup (IF Deep THEN {<<8>>, <<1, 1, 3>>, <<1, 0, 0, 0>>, <<6, 4>>} ELSE {})

(* <<hasre, w, hasf, f>>, <<q, hasqf, qf>> *)
CpxRe == {<<FALSE, <<>>, FALSE, <<>>>>, <<TRUE, <<3>>, FALSE, <<>>>>, <<TRUE, <<1>>, TRUE, <<5>>>>, <<TRUE, <<>>, TRUE, <<5>>>>, <<TRUE, <<0>>, FALSE, <<>>>>, <<TRUE, <<1, 2>>, TRUE, <<1>>>>}
CpxIm == {<<<<4>>, FALSE, <<>>>>, <<<<0>>, FALSE, <<>>>>, <<<<2>>, TRUE, <<5>>>>, <<<<>>, TRUE, <<2, 5>>>>, <<<<1, 0>>, FALSE, <<>>>>, <<<<0>>, TRUE, <<1>>>>}

(* ------------------------------------------------------------------ stage 1: cores *)
IntCores == {[L0 EXCEPT !.form = "int", !.w = s] : s \in IntStrings}
FltCores == {[L0 EXCEPT !.form = "flt", !.hasf = TRUE, !.w = a, !.f = b] : a \in FltW, b \in FltF}
SciCores == {[L0 EXCEPT !.form = "sci", !.w = m[1], !.hasf = m[2], !.f = m[3], !.e = x] : m \in SciMant, x \in SciExp}
BasCores == UNION {{[L0 EXCEPT !.form = "bas", !.pfx = TRUE, !.base = b, !.w = s] : s \in BasStrings(b)} : b \in {16, 8, 2, 10}}
RatCores == {[L0 EXCEPT !.form = "rat", !.w = a, !.q = b] : a \in RatN, b \in RatD}
CpxCores == {[L0 EXCEPT !.form = "cpx", !.hasre = r[1], !.w = r[2], !.hasf = r[3], !.f = r[4], !.q = i[1], !.hasqf = i[2], !.qf = i[3]]
               : r \in CpxRe, i \in CpxIm}
(* anchored: plain decimal (base 10, no prefix) and 0x *)
BigCores == {[L0 EXCEPT !.form = "big", !.anc = a, !.off = o, !.neg = (a \in {"min", "n53"}), !.base = bp[1], !.pfx = bp[2]]
               : a \in {"max", "min", "p53", "n53"}, o \in -1..1, bp \in {<<10, FALSE>>, <<16, TRUE>>}}
Cores == IntCores \cup FltCores \cup SciCores \cup BasCores \cup RatCores \cup CpxCores \cup BigCores

(* ------------------------------------------------------------------ stage 2: decorations *)
None == <<"none", "none">>
AllKinds == IntKinds \cup {"f32", "f64", "r64"}
SfxKinds == Unsigned \cup {"f32", "f64", "i8", "i64"}        \* 5i8 is not code today (i = imaginary unit): left free
AnnOf(S) == {<<"ann", k>> : k \in S}
SfxOf(S) == {<<"sfx", k>> : k \in S}

Anns(c) ==
  CASE c.form = "int" -> {None} \cup SfxOf(SfxKinds) \cup AnnOf(AllKinds)
    [] c.form = "flt" -> {None} \cup AnnOf({"f32", "f64", "r64", "u8", "i8"} \cup (IF Deep THEN {"u16", "i64", "u128"} ELSE {}))
    [] c.form = "sci" -> {None} \cup AnnOf({"f32"} \cup (IF Deep THEN {"f64", "u8", "i16", "r64"} ELSE {}))
    [] c.form = "bas" -> {None} \cup AnnOf(IF Deep THEN AllKinds ELSE {"u8", "i8", "u16", "i16", "u64", "i32", "i128", "f64", "f32"})
    [] c.form = "rat" -> {None} \cup AnnOf({"f64", "r64", "u8"} \cup (IF Deep THEN {"f32", "i16", "i64"} ELSE {}))
    [] c.form = "cpx" -> {None}

SetAnn(c, a) == [c EXCEPT !.ann = a[1], !.kind = a[2]]

IntDecor(c) ==
       {[SetAnn(c, a) EXCEPT !.neg = n] : n \in BOOLEAN, a \in Anns(c)}
  \cup {[SetAnn(c, a) EXCEPT !.w = WithUS(c.w, m)] : m \in USModes(c.w), a \in {None, <<"sfx", "u8">>, <<"ann", "i16">>, <<"sfx", "f32">>}}
FltDecor(c) ==
       {[SetAnn(c, a) EXCEPT !.neg = n] : n \in BOOLEAN, a \in Anns(c)}
  \cup {[c EXCEPT !.w = WithUS(c.w, m)] : m \in USModes(c.w)}
  \cup {[c EXCEPT !.f = WithUS(c.f, m)] : m \in USModes(c.f)}
  \cup {[c EXCEPT !.w = WithUS(c.w, 1), !.f = WithUS(c.f, 1), !.neg = TRUE, !.ann = "ann", !.kind = "f32"] : m \in USModes(c.w) \cap USModes(c.f) \cap {1}}
ExpForms == {<<"e", FALSE>>, <<"E", FALSE>>, <<"e", TRUE>>}
SciDecor(c) ==
       {[c EXCEPT !.es = s, !.ec = x[1], !.ef = x[2], !.neg = n] : s \in 0..3, x \in ExpForms, n \in BOOLEAN}
  \cup {[SetAnn(c, a) EXCEPT !.es = s] : s \in {0, 2}, a \in Anns(c) \ {None}}
  \cup {[c EXCEPT !.es = s, !.e = WithUS(c.e, m)] : s \in {1, 2}, m \in USModes(c.e)}
  \cup {[c EXCEPT !.es = 2, !.w = WithUS(c.w, m)] : m \in USModes(c.w)}
  \cup {[c EXCEPT !.es = 0, !.f = WithUS(c.f, m)] : m \in USModes(c.f)}
BasDecor(c) ==
       {[SetAnn(c, a) EXCEPT !.neg = n, !.uc = u] : n \in BOOLEAN, a \in Anns(c),
           u \in (IF c.base = 16 /\ \E i \in 1..Len(c.w) : c.w[i] > 9 THEN BOOLEAN ELSE {FALSE})}
  \cup {[SetAnn(c, a) EXCEPT !.w = WithUS(c.w, m)] : m \in USModes(c.w) \cap {1, 2}, a \in {None, <<"ann", "u16">>}}
RatDecor(c) ==
       {[SetAnn(c, a) EXCEPT !.neg = n] : n \in BOOLEAN, a \in Anns(c)}
  \cup {[c EXCEPT !.w = WithUS(c.w, m)] : m \in USModes(c.w)}
  \cup {[c EXCEPT !.q = WithUS(c.q, m)] : m \in USModes(c.q)}
CpxDecor(c) ==
  IF c.hasre THEN {[c EXCEPT !.neg = n, !.isg = s, !.unit = u] : n \in BOOLEAN, s \in {1, 2}, u \in {"i", "j"}}
  ELSE {[c EXCEPT !.neg = n, !.unit = u] : n \in BOOLEAN, u \in {"i", "j"}}
(* anchored literals: every wide kind as annotation, unsigned ones also as suffix; 0d/0x also bare (i64).   *)
(* "min"/"n53" are spelled with a leading minus.  A based spelling whose magnitude exceeds the i64 range    *)
(* is only generated where the annotated kind holds it (u64/u128/i128 max).                                  *)
BigDecor(c) ==
  LET anns == (IF c.pfx THEN {None} ELSE {})
              \cup AnnOf(WideKinds)
              \cup (IF c.pfx THEN {} ELSE SfxOf(WideKinds \cap Unsigned))
              \cup (IF c.anc \in {"p53", "n53"} /\ ~c.pfx THEN {None} ELSE {})
      ok(a) == LET k == IF a[1] = "none" THEN (IF c.pfx THEN "i64" ELSE "f64") ELSE a[2] IN
               /\ (c.anc \in {"max", "min"}) => k \in WideKinds
               /\ (c.anc = "min") => k \notin Unsigned
  IN {SetAnn(c, a) : a \in {b \in anns : ok(b)}}

Decor(c) ==
  CASE c.form = "int" -> IntDecor(c) [] c.form = "flt" -> FltDecor(c) [] c.form = "sci" -> SciDecor(c)
    [] c.form = "bas" -> BasDecor(c) [] c.form = "rat" -> RatDecor(c) [] c.form = "cpx" -> CpxDecor(c)
    [] c.form = "big" -> BigDecor(c)

Dummy == [stage |-> 0, l |-> L0]
Init == cs = Dummy
Next == \/ cs.stage = 0 /\ cs' \in {[stage |-> 1, l |-> c] : c \in Cores}
        \/ cs.stage = 1 /\ cs' \in {[stage |-> 2, l |-> x] : x \in Decor(cs.l)}
Spec == Init /\ [][Next]_cs
Done == cs.stage = 2
Lit == cs.l

(* ------------------------------------------------------------------ expectation *)
AnyUS(l) == HasUS(l.w) \/ HasUS(l.f) \/ HasUS(l.e) \/ HasUS(l.q) \/ HasUS(l.qf)
IsZero(l) == l.form # "big" /\ Denote(l).ok /\ Denote(l).re.n = 0

(* kind annotations the documents give for a literal form (number.mec 2.1-2.2, specification 4.2):  *)
(* any numeric kind on a decimal integer (1234<i32>, 42<f32>, 42u8), float kinds and r64 on floats /   *)
(* scientific literals (3.14<f32>, 2.5e3<f32>; 4.2.2 lists f32 f64 r64 for fractional numbers),        *)
(* integer kinds on based literals (0xFF<u32>, 0d1000<u64>).  Other combinations (a rational with an  *)
(* annotation, 0x10<r64>, 1.0<u8>) depend on which conversions exist - C12's subject - and are free.   *)
Documented(l) ==
  \/ l.ann = "none"
  \/ l.form \in {"int", "big"}
  \/ l.form \in {"flt", "sci"} /\ KindTab[l.kind].c \in {"flt", "rat"}
  \/ l.form = "bas" /\ l.kind \in IntKinds

(* must the spelling be accepted?  Not where the value does not fit (clamp or reject), not for        *)
(* spellings outside the grammar of 4.2 that the parser happens to read (underscores inside based    *)
(* literals, a signed-kind suffix), not for "minus zero" in an unsigned kind, and not for an          *)
(* undocumented form/annotation combination.  Where acceptance is free a returned value must still    *)
(* be the denoted one.                                                                                *)
Must(l) ==
  LET ex == Expected(l) IN
  /\ l.form = "big" \/ Denote(l).ok
  /\ ex.exp \in {"exact", "nearest"}
  /\ ~(l.form = "bas" /\ AnyUS(l))
  /\ ~(l.ann = "sfx" /\ l.kind \in IntKinds \ Unsigned)
  /\ ~(l.neg /\ KindOf(l) \in Unsigned /\ IsZero(l))
  /\ Documented(l)

(* why acceptance is left free (reported in the evidence) *)
Why(l) ==
  IF l.form # "big" /\ ~Denote(l).ok THEN "zero-denominator"
  ELSE IF Expected(l).exp \notin {"exact", "nearest"} THEN "does-not-fit"
  ELSE IF l.form = "bas" /\ AnyUS(l) THEN "underscore-in-based"
  ELSE IF l.ann = "sfx" /\ l.kind \in IntKinds \ Unsigned THEN "signed-kind-suffix"
  ELSE IF l.neg /\ KindOf(l) \in Unsigned /\ IsZero(l) THEN "minus-zero-unsigned"
  ELSE IF ~Documented(l) THEN "undocumented-annotation"
  ELSE "must"

AnnTxt(l) == IF l.ann = "none" THEN "plain" ELSE l.ann \o ":" \o l.kind
BaseTxt(l) == IF l.pfx THEN (CASE l.base = 16 -> "0x" [] l.base = 8 -> "0o" [] l.base = 2 -> "0b" [] l.base = 10 -> "0d") ELSE "dec"
Sig(l) ==
  IF l.form = "sci" /\ ~l.hasf THEN "C13/Denote/scientific-integer-mantissa"
  ELSE IF l.form # "big" /\ ~Denote(l).ok THEN "C13/rat/zero-denominator"
  ELSE IF l.form = "cpx" THEN "C13/cpx/" \o (IF l.hasre THEN "re-im" ELSE "im") \o (IF l.neg THEN "/neg" ELSE "")
  ELSE "C13/" \o l.form \o (IF l.form \in {"bas", "big"} THEN "/" \o BaseTxt(l) ELSE "") \o "/" \o AnnTxt(l)
       \o "/" \o Expected(l).side \o (IF l.neg /\ KindOf(l) \in IntKinds THEN "/neg" ELSE "")

QJ(v) == [n |-> v.n, d |-> v.d]
CaseJson(l) ==
  LET den == IF l.form = "big" THEN [ok |-> TRUE, re |-> QZero, im |-> QZero] ELSE Denote(l)
      ex  == IF l.form = "big" \/ den.ok THEN Expected(l)
             ELSE [exp |-> "reject", n |-> 0, d |-> 1, n2 |-> 0, side |-> "zero-denominator", anc |-> "none"] IN
  [lit |-> l, ok |-> den.ok, re |-> QJ(den.re), im |-> QJ(den.im), kind |-> KindOf(l),
   exp |-> IF den.ok THEN ex.exp ELSE "reject", en |-> ex.n, ed |-> ex.d, en2 |-> ex.n2, eanc |-> ex.anc,
   must |-> Must(l), why |-> Why(l), sig |-> Sig(l)]

(* ------------------------------------------------------------------ model-level laws *)
Exact == Done /\ Lit.form # "big"

(* the loop-shaped scan computes the declarative denotation *)
HornerEqFold == Exact => DenoteK(Lit) = Denote(Lit)

(* underscores do not change the denotation *)
StripLit(l) == [l EXCEPT !.w = Strip(l.w), !.f = Strip(l.f), !.e = Strip(l.e), !.q = Strip(l.q), !.qf = Strip(l.qf)]
UnderscoreFree == Exact => /\ Denote(StripLit(Lit)) = Denote(Lit)
                           /\ Expected(StripLit(Lit)) = Expected(Lit)

(* a based literal denotes what the decimal literal of the same number denotes; digits round-trip *)
BasedEqDecimal == (Exact /\ Lit.form = "bas") =>
  LET v == Whole(Lit.w, Lit.base) IN
  /\ Denote([L0 EXCEPT !.form = "int", !.w = ToDigits(v, 10), !.neg = Lit.neg]) = Denote(Lit)
  /\ Whole(ToDigits(v, Lit.base), Lit.base) = v
  /\ Whole(ToDigits(v, 10), 10) = v

(* values are reduced fractions; the sign is the leading minus; a rational times its denominator is its numerator *)
Reduced == Exact =>
  LET dn == Denote(Lit) IN
  dn.ok => /\ dn.re.d > 0 /\ GCD(Abs(dn.re.n), dn.re.d) = 1
           /\ dn.im.d > 0 /\ GCD(Abs(dn.im.n), dn.im.d) = 1
           /\ (Lit.form # "cpx") => Denote([Lit EXCEPT !.neg = ~Lit.neg]).re = QNeg(dn.re)
           /\ (Lit.form = "rat") => QMul(dn.re, Q(Whole(Lit.q, 10), 1)) = Q((IF Lit.neg THEN -1 ELSE 1) * Whole(Lit.w, 10), 1)

(* m e k = m * 10^k, m e -k = m / 10^k; e0 is the mantissa itself; the ".0" and the letter are immaterial *)
SciLaw == (Exact /\ Lit.form = "sci") =>
  LET m == Denote([Lit EXCEPT !.form = "flt", !.e = <<>>, !.es = 0]).re
      k == Whole(Lit.e, 10)
      v == Denote(Lit).re IN
  /\ IF ExpDown(Lit) THEN QMul(v, Q(IPow(10, k), 1)) = m ELSE v = QMul(m, Q(IPow(10, k), 1))
  /\ (k = 0) => v = m
  /\ Denote([Lit EXCEPT !.ef = ~Lit.ef, !.ec = "E"]) = Denote(Lit)

(* Fit never invents a value: exact results are the denotation and lie in the kind; clamps are the  *)
(* bound on the side the value lies; the two admissible integers enclose a fraction                   *)
FitLaw == Exact =>
  LET dn == Denote(Lit)
      K == KindTab[KindOf(Lit)]
      ex == Expected(Lit) IN
  (dn.ok /\ Lit.form # "cpx") =>
     /\ ex.exp \in {"exact", "nearest"} => (ex.n = dn.re.n /\ ex.d = dn.re.d)
     /\ (ex.exp = "exact" /\ K.c = "int") => (dn.re.d = 1 /\ dn.re.n >= K.lo /\ dn.re.n <= K.hi)
     /\ ex.exp = "clamp" => ((ex.n = K.hi /\ dn.re.n > K.hi) \/ (ex.n = K.lo /\ dn.re.n < K.lo))
     /\ ex.exp = "nearint" => (ex.n <= ex.n2 /\ ex.n2 - ex.n <= 1 /\ ex.n >= K.lo /\ ex.n2 <= K.hi)

Emit == Done => PrintT(<<"CASE", ToJson(CaseJson(Lit))>>)
=============================================================================
