SPECIFICATION Spec
INVARIANTS RoundTripInv WrongSlotInv Emit
CHECK_DEADLOCK FALSE
