------------------------------- MODULE MC_G06 -------------------------------
(* Bounded instance of MechOutline: every document of up to MaxLen blocks (a title only as the first block).  TLC checks that    *)
(* the two definitions of the element list agree and the structural laws hold, and emits every document with its structure.      *)
EXTENDS MechOutline, TLC, Json

CONSTANTS MaxLen, Kinds, TightMax    \* blocks at positions 2..TightMax may follow their predecessor without a blank line

VARIABLE doc
vars == <<doc>>

Init == doc = <<>>
Next == /\ Len(doc) < MaxLen
        /\ \E k \in Kinds \cup (IF doc = <<>> THEN {"T"} ELSE {}) :
             \E t \in (IF doc # <<>> /\ Len(doc) < TightMax THEN BOOLEAN ELSE {FALSE}) :
               /\ doc' = Append(doc, BlkT(k, Len(doc) + 1, t))
               /\ Specified(IF HasTitle(doc') THEN Tail(doc') ELSE doc')
Spec == Init /\ [][Next]_vars

S == Structure(doc)
ElementsAgree == \A n \in 1..Len(Split(Body(doc))) : ElementsD(Split(Body(doc))[n].bl) = ElementsL(Split(Body(doc))[n].bl, 1, <<>>)
NothingLost == Preserves(doc)
SectionLaw ==
  /\ Len(SelectSeq(S.secs, LAMBDA s : s.sub # 0)) = Len(SelectSeq(Body(doc), LAMBDA b : b.k = "H2"))
  /\ Len(SelectSeq(S.secs, LAMBDA s : s.sub # 0)) <= Len(SelectSeq(RawBody(doc), LAMBDA b : b.k = "H2"))   \* an absorbed subtitle starts no section
  /\ \A n \in 1..Len(S.secs) : (S.secs[n].sub = 0) => n = 1                       \* only the first section can lack a subtitle
  /\ \A n \in 1..Len(S.secs) : \A e \in 1..Len(S.secs[n].els) : S.secs[n].els[e].k \notin {"H2", "T"}
MergeLaw ==
  \A n \in 1..Len(S.secs) : \A e \in 1..(Len(S.secs[n].els) - 1) :
    ~(S.secs[n].els[e].k \in Mergeable /\ S.secs[n].els[e].k = S.secs[n].els[e + 1].k)      \* no two adjacent elements that should have merged
TocLaw == Len(Toc(doc)) = Len(SelectSeq(Body(doc), LAMBDA b : b.k = "H2"))

Emit == doc # <<>> => PrintT(<<"CASE", ToJson([doc |-> doc, title |-> S.title, secs |-> S.secs, toc |-> Toc(doc)])>>)
=============================================================================
