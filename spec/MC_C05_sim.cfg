SPECIFICATION Spec
CONSTANTS
  Names <- NamesT
  LitPool <- LitsFull
  ActKinds = {"Define", "DefineFromVar", "Assign", "AssignFromVar", "IndexAssign", "OpAssign", "FieldAssign", "TupleElemAssign", "Eval", "Destructure", "DestructureTooMany", "DestructureVar", "OpAssignVar", "FailingCall"}
  MaxScalar = 9
INVARIANT EmitState
CHECK_DEADLOCK FALSE
