SPECIFICATION Spec
CONSTANTS
  Names <- NamesT
  LitPool <- LitsFull
  MaxScalar = 9
INVARIANT EmitState
CHECK_DEADLOCK FALSE
