------------------------------- MODULE MC_C20 -------------------------------
(* Bounded instance of MechInclude: every file system over Files with the slot   *)
(* alphabet below; the stack machine runs to completion on each; at the end the   *)
(* outcome is compared with the declarative characterisation and emitted.         *)
EXTENDS MechInclude, TLC, Json

CONSTANTS Slots,      \* function file -> number of slots
          NlChoice    \* files whose trailing-newline flag is enumerated (others end with a newline)

VARIABLE stage
vars == <<fsys, stack, out, status, stage>>

Files == FileNames
OrderQuick == <<"a", "b", "c">>
OrderThorough == <<"a", "b", "c", "d">>
SlotsQuick == [a |-> 2, b |-> 1, c |-> 1]
SlotsQuick2 == [a |-> 2, b |-> 2, c |-> 1]
SlotsThorough == [a |-> 2, b |-> 2, c |-> 2, d |-> 1]
Root == "a"

(* a slot expands to 1..3 lines; the alphabet depends on the file's role so that the *)
(* bounded instance stays small: the root gets every construct, leaves only a few    *)
CONSTANT Rich   \* files with the rich alphabet
SlotAlphabet(f) ==
  IF f = Root
  THEN {<<"text">>, <<"brace">>} \cup {<<"inc", t>> : t \in Files \cup {Missing}}
       \cup {<<"fenced", t>> : t \in Files \ {f}} \cup {<<"unclosed", t>> : t \in Files \ {f}}
  ELSE IF f \in Rich
  THEN {<<"text">>} \cup {<<"inc", t>> : t \in Files \cup {Missing}} \cup {<<"fenced", t>> : t \in Files \ {f, Root}}
  ELSE {<<"text">>, <<"inc", Root>>, <<"inc", Missing>>} \cup {<<"inc", t>> : t \in Rich}

SlotLines(f, s, sl) ==
  LET tok(j) == "T" \o f \o ToString(s) \o ToString(j) IN
  CASE sl[1] = "text"     -> <<Line("text", tok(1), TRUE)>>
    [] sl[1] = "inc"      -> <<Line("inc", sl[2], TRUE)>>
    [] sl[1] = "fenced"   -> <<Line("open", "B", TRUE), Line("inc", sl[2], TRUE), Line("close", "B", TRUE)>>
    [] sl[1] = "unclosed" -> <<Line("open", "W", TRUE), Line("close", "B", TRUE), Line("inc", sl[2], TRUE)>>
    [] sl[1] = "brace"    -> <<Line("brace", "{6 * 7}", TRUE)>>

RECURSIVE Flatten(_, _, _)
Flatten(f, slots, s) == IF s > Len(slots) THEN <<>> ELSE SlotLines(f, s, slots[s]) \o Flatten(f, slots, s + 1)

SetLastNl(lines, nl) == IF lines = <<>> THEN lines ELSE [lines EXCEPT ![Len(lines)] = [@ EXCEPT !.nl = nl]]

SlotSeqs(f) == [1..Slots[f] -> SlotAlphabet(f)]
FileContents(f) ==
  {SetLastNl(Flatten(f, ss, 1), nl) : ss \in SlotSeqs(f), nl \in (IF f \in NlChoice THEN BOOLEAN ELSE {TRUE})}

AllFs == [Files -> UNION {FileContents(f) : f \in Files}]
GoodFs(fs) == \A f \in Files : fs[f] \in FileContents(f)

(* stages 0..N-1 pick the content of one file each (root first); stage N runs the machine *)
CONSTANT FileOrder
N == Len(FileOrder)
Init == /\ stage = 0
        /\ fsys = [f \in Files |-> <<>>]
        /\ stack = <<>> /\ out = <<>> /\ status = "idle"
Pick == /\ stage < N
        /\ \E c \in FileContents(FileOrder[stage + 1]) : fsys' = [fsys EXCEPT ![FileOrder[stage + 1]] = c]
        /\ stage' = stage + 1
        /\ IF stage + 1 = N
           THEN stack' = <<Frame(Root)>> /\ out' = <<>> /\ status' = "run"
           ELSE UNCHANGED <<stack, out, status>>
Run == stage = N /\ MNext /\ UNCHANGED stage
Next == Pick \/ Run
Spec == Init /\ [][Next]_vars
(* liveness: "loading always terminates" - under weak fairness of the loader's steps every behaviour reaches a verdict *)
LiveSpec == Spec /\ WF_vars(Next)

Finished == stage = N /\ MDone

(* --------------------------------------------------------------- properties *)
ActiveIsStack == stage = N => (StackDistinct /\ DepthBounded)

(* machine = declarative characterisation *)
Agreement == Finished =>
  LET cyc == HasCycle(fsys, Root)
      mis == HasMissing(fsys, Root) IN
  /\ (status = "ok") <=> (~cyc /\ ~mis)
  /\ status = "cycle" => cyc
  /\ status = "missing" => mis
  /\ status = "ok" => out = ExpandD(fsys, Root, Cardinality(Files) + 1)

Terminates == stage = N => Len(out) <= 200
EventuallyFinished == <>Finished


CaseJson ==
  [fs |-> fsys, status |-> status, out |-> out,
   cyc |-> HasCycle(fsys, Root), mis |-> HasMissing(fsys, Root)]
Emit == Finished => PrintT(<<"CASE", ToJson(CaseJson)>>)
=============================================================================
