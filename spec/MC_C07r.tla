------------------------------ MODULE MC_C07r ------------------------------
(* Bounded universe of instruction lists for the round-trip half of C07: every list of up to  *)
(* MaxLen instructions over the eight forms (canonical operands that are pairwise distinct    *)
(* inside an instruction, VarArg with 0, 1, 2 and 5 arguments).  TLC checks RoundTrip,        *)
(* SizeLaw and injectivity of the encoding, and emits for every list the exact bytes of the   *)
(* instruction section; the real compiler context writes the same list into a real file,      *)
(* which the real loader decodes.                                                             *)
EXTENDS MechBytecodeEnc, TLC, Json

CONSTANTS MaxLen

VARIABLES is, done
vars == <<is, done>>

(* canonical instances: operand registers distinct inside each instruction, so that a decoder *)
(* that reads a field from the wrong slot is visible; several variants per form               *)
Canon ==
  { I("ConstLoad", 0, 3, <<7>>), I("ConstLoad", 0, 258, <<300>>),
    I("NullOp", 1001, 4, <<>>),
    I("UnOp", 1002, 5, <<6>>), I("UnOp", 70000, 6, <<5>>),
    I("BinOp", 1003, 7, <<8, 9>>), I("BinOp", 1003, 9, <<8, 7>>),
    I("TernOp", 1004, 10, <<11, 12, 13>>),
    I("QuadOp", 1005, 14, <<15, 16, 17, 18>>), I("QuadOp", 1005, 18, <<17, 16, 15, 14>>),
    I("VarArg", 1006, 19, <<>>), I("VarArg", 1006, 20, <<21>>), I("VarArg", 1007, 22, <<23, 24>>),
    I("VarArg", 1008, 25, <<26, 27, 28, 29, 30>>) }
(* Ret (FF src) is modelled in MechBytecodeEnc but is not in the universe: the compiler never emits it (emit_ret has *)
(* no caller), and a TRAILING Ret (5 bytes) is refused by the loader's 8-byte look-ahead - latent, and not among     *)
(* "the bytes the compiler emits".                                                                                    *)

Init == is = <<>> /\ done = FALSE
Next == \/ /\ ~done /\ Len(is) < MaxLen
           /\ \E i \in Canon : is' = Append(is, i) /\ done' = FALSE
        \/ /\ ~done /\ Len(is) >= 1 /\ done' = TRUE /\ is' = is
Spec == Init /\ [][Next]_vars

AllWellFormed == \A k \in 1..Len(is) : WellFormed(is[k])
RoundTripInv == done => RoundTrip(is)
SizeInv == done => SizeLaw(is)
(* the first instruction of a list determines the first bytes: different heads, different bytes *)
InjectiveHead == done => \A j \in Canon : j # is[1] => EncodeOne(j) # EncodeOne(is[1])

Hex2(b) == LET d == <<"0","1","2","3","4","5","6","7","8","9","a","b","c","d","e","f">> IN d[(b \div 16) + 1] \o d[(b % 16) + 1]
RECURSIVE HexOf(_)
HexOf(bs) == IF bs = <<>> THEN "" ELSE Hex2(Head(bs)) \o HexOf(Tail(bs))

Emit == done => PrintT(<<"CASE", ToJson([instrs |-> is, hex |-> HexOf(Encode(is)), size |-> SumSize(is)])>>)
=============================================================================
