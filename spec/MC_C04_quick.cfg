SPECIFICATION Spec
CONSTANTS
  Shapes <- ShapesQuick
  FullMaskDim = 3
  VecDim = 3
  Ops <- OpsAll
INVARIANTS Frame WrittenIsSource KernelEq ReadBack ShapeKept Emit
CHECK_DEADLOCK FALSE
