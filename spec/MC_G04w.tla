------------------------------- MODULE MC_G04w -------------------------------
(* Bounded instance of MechWatcher: two registered-or-not files, two texts, at most three modifications. *)
EXTENDS MechWatcher, TLC
SiblingDef == [p \in Paths |-> None]
=============================================================================
