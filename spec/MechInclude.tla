---------------------------- MODULE MechInclude ----------------------------
(***************************************************************************)
(* Source includes (C20).  A file is a sequence of lines; a line is         *)
(*   [k |-> "text", t |-> token]          ordinary text                     *)
(*   [k |-> "inc",  t |-> target]         stand-alone {target.mec} line     *)
(*   [k |-> "open", t |-> marker]         code-fence opener  (``` or ~~~)   *)
(*   [k |-> "close", t |-> marker]        a line that closes that fence     *)
(*   [k |-> "brace", t |-> token]         other stand-alone brace text      *)
(* plus nl (does the line end with a newline).  target is a file name or    *)
(* "missing".  Output is a sequence of pieces (tokens and "NL"); an include *)
(* line outside fences is replaced by the expansion of its target followed  *)
(* by the include line's own newline; everything else is copied.            *)
(*                                                                         *)
(* Two definitions: the explicit stack machine the implementation follows   *)
(* (active set = files on the stack) and a declarative characterisation     *)
(* (reachability in the live include graph); TLC checks they agree.         *)
(***************************************************************************)
EXTENDS MechIncludeMachine

(* ---------------------------------------------------- live include lines *)
(* fence state after the first i lines of a file: "" outside, else the marker *)
RECURSIVE FenceAfter(_, _)
FenceAfter(lines, i) ==
  IF i = 0 THEN ""
  ELSE LET f == FenceAfter(lines, i - 1)
           l == lines[i] IN
       IF f = "" THEN (IF l.k = "open" THEN l.t ELSE "")
       ELSE (IF l.k = "close" /\ l.t = f THEN "" ELSE f)

Live(lines, i) == lines[i].k = "inc" /\ FenceAfter(lines, i - 1) = ""
Targets(fs, f) == {fs[f][i].t : i \in {j \in 1..Len(fs[f]) : Live(fs[f], j)}}

(* files reachable from f through live include lines (f included) *)
RECURSIVE ReachN(_, _, _)
ReachN(fs, S, n) ==
  IF n = 0 THEN S
  ELSE ReachN(fs, S \cup UNION {Targets(fs, g) \ {Missing} : g \in S}, n - 1)
Reach(fs, f) == ReachN(fs, {f}, Cardinality(FileNames))

HasMissing(fs, f) == \E g \in Reach(fs, f) : Missing \in Targets(fs, g)
(* g is on a cycle of the live include graph *)
OnCycle(fs, g) == \E h \in Targets(fs, g) \ {Missing} : g \in Reach(fs, h)
HasCycle(fs, f) == \E g \in Reach(fs, f) : OnCycle(fs, g)

(* ------------------------------------------------- declarative expansion *)
(* defined when the reachable graph is acyclic and nothing is missing      *)
RECURSIVE ExpandD(_, _, _)
ExpandLines(fs, f, depth) ==
  LET lines == fs[f]
      RECURSIVE Go(_)
      Go(i) == IF i > Len(lines) THEN <<>>
               ELSE (IF Live(lines, i)
                     THEN ExpandD(fs, lines[i].t, depth - 1) \o (IF lines[i].nl THEN <<"NL">> ELSE <<>>)
                     ELSE Raw(f, i, lines[i])) \o Go(i + 1)
  IN Go(1)
ExpandD(fs, f, depth) == IF depth = 0 THEN <<"DEPTH">> ELSE ExpandLines(fs, f, depth)

=============================================================================
