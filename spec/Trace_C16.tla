------------------------------ MODULE Trace_C16 ------------------------------
(* Trace validation for C16 (impl -> spec): the interpreter's own [trace][fn] / [trace][match]     *)
(* events of calls of user-defined functions, converted to ndjson by areas/c16.py, are replayed    *)
(* against MechMatch.  The function definition is the FIRST record of each run ("Def": arms,       *)
(* number of arguments, the call that was made), so the arms are interpreted, not hard-coded.      *)
(*                                                                                                 *)
(*   Def   {nargs, arms, call:[values], bcast, enumfn, variants}                                   *)
(*   Enter {a:[values|opq]}            a frame is entered with these arguments                      *)
(*   Test  {arm, ok, a:[values|opq]}   arm `arm` was tested against the current arguments          *)
(*   Tail  {arm}                       the selected arm is a tail call: loop with new arguments     *)
(*   Out   {arm, v}                    the selected arm's body was evaluated to v                   *)
(*   Exit  {v}                         the frame returns v                                          *)
(*   Err   {}                          the call statement returned an error                         *)
(*   Reset {}                          end of run                                                   *)
(*                                                                                                 *)
(* Checked event by event: arms are tested in index order from 0; the logged verdict of every test  *)
(* equals Applies(arm, arguments); the first success is FirstMatch and no later arm is tested; the  *)
(* body value equals Eval in the model's bindings; nested calls enter with arguments of a call site *)
(* of the selected body; a tail call loops with the model's new arguments; an error is accepted     *)
(* only where the model has no arm (or a non-exhaustive enum function, see MC_C16.Outcome).         *)
EXTENDS MechMatch, Json, IOUtils, TLC

Rec == ndJsonDeserialize(IOEnv.TRACE)

VARIABLES l, def, pend, stack, st
vars == <<l, def, pend, stack, st>>

NoDef == [nargs |-> 1, arms |-> <<>>, bcast |-> FALSE, enumfn |-> FALSE, variants |-> <<>>]
Frame(val) == [val |-> val, k |-> 0, sel |-> 0, hasout |-> FALSE, out |-> 0]

(* an observed value is either a fully parsed value record or opaque (matrices, enums: the trace     *)
(* prints only their addresses)                                                                     *)
ObsEq(o, m) == o.t = "opq" \/ o = m
ObsArgsEq(a, xs) == Len(a) = Len(xs) /\ \A i \in 1..Len(a) : ObsEq(a[i], xs[i])
(* observed argument list against the value the arms are matched with *)
ObsValEq(a, val, nargs) ==
  IF nargs = 1 THEN Len(a) = 1 /\ ObsEq(a[1], val)
  ELSE Len(a) = nargs /\ \A i \in 1..nargs : a[i].t = "opq" \/ (a[i].t = "n" /\ a[i].n = val.e[i])

(* top-level calls the run has to make: one, or one per element for a broadcast call *)
Calls(r) == IF r.bcast THEN [i \in 1..Len(r.call[1].e) |-> <<NV(r.call[1].e[i])>>] ELSE <<r.call>>
Remove(s, i) == SubSeq(s, 1, i - 1) \o SubSeq(s, i + 1, Len(s))
Top == stack[Len(stack)]
Pop == SubSeq(stack, 1, Len(stack) - 1)
ReplaceTop(f) == Append(Pop, f)
VariantSet == {def.variants[i] : i \in 1..Len(def.variants)}
Ev(name) == l <= Len(Rec) /\ Rec[l].ev = name

Init == l = 1 /\ def = NoDef /\ pend = <<>> /\ stack = <<>> /\ st = "idle"

DefA == /\ Ev("Def") /\ st = "idle"
        /\ def' = Rec[l] /\ pend' = Calls(Rec[l]) /\ stack' = <<>> /\ st' = "run" /\ l' = l + 1

EnterTop == /\ Ev("Enter") /\ st = "run" /\ stack = <<>>
            /\ \E i \in 1..Len(pend) :
                 /\ ObsArgsEq(Rec[l].a, pend[i])
                 /\ Len(pend[i]) = def.nargs
                 /\ stack' = <<Frame(ArgVal(def, pend[i]))>>
                 /\ pend' = Remove(pend, i)
            /\ UNCHANGED <<def, st>> /\ l' = l + 1

EnterNested == /\ Ev("Enter") /\ st = "run" /\ stack # <<>>
               /\ Top.sel # 0 /\ ~Top.hasout
               /\ LET arm == def.arms[Top.sel] IN
                  /\ ~IsTailArm(def, arm)
                  /\ \E xs \in CallSites(def, arm.body, ArmEnv(def, Top.sel, Top.val)) :
                       /\ ObsArgsEq(Rec[l].a, xs)
                       /\ stack' = Append(stack, Frame(ArgVal(def, xs)))
               /\ UNCHANGED <<def, pend, st>> /\ l' = l + 1

TestA == /\ Ev("Test") /\ st = "run" /\ stack # <<>>
         /\ Top.sel = 0                                   \* no arm has been selected yet: no test after a success
         /\ Rec[l].arm = Top.k                            \* arms are tested in index order from 0
         /\ Top.k < Len(def.arms)
         /\ ObsValEq(Rec[l].a, Top.val, def.nargs)
         /\ Rec[l].ok = Applies(def.arms[Top.k + 1], Top.val)
         /\ Rec[l].ok => FirstMatch(def.arms, Top.val) = Top.k + 1
         /\ stack' = ReplaceTop([Top EXCEPT !.k = Top.k + 1, !.sel = IF Rec[l].ok THEN Top.k + 1 ELSE 0])
         /\ UNCHANGED <<def, pend, st>> /\ l' = l + 1

TailA == /\ Ev("Tail") /\ st = "run" /\ stack # <<>>
         /\ Top.sel # 0 /\ Rec[l].arm = Top.sel - 1
         /\ LET arm == def.arms[Top.sel] IN
            /\ IsTailArm(def, arm)
            /\ stack' = ReplaceTop(Frame(ArgVal(def, EvalArgs(def, arm.body.args, ArmEnv(def, Top.sel, Top.val)))))
         /\ UNCHANGED <<def, pend, st>> /\ l' = l + 1

OutA == /\ Ev("Out") /\ st = "run" /\ stack # <<>>
        /\ Top.sel # 0 /\ ~Top.hasout /\ Rec[l].arm = Top.sel - 1
        /\ LET arm == def.arms[Top.sel] IN
           /\ ~IsTailArm(def, arm)
           /\ Rec[l].v = Eval(def, arm.body, ArmEnv(def, Top.sel, Top.val))
        /\ stack' = ReplaceTop([Top EXCEPT !.hasout = TRUE, !.out = Rec[l].v])
        /\ UNCHANGED <<def, pend, st>> /\ l' = l + 1

ExitA == /\ Ev("Exit") /\ st = "run" /\ stack # <<>>
         /\ Top.hasout /\ Rec[l].v = Top.out
         /\ stack' = Pop
         /\ UNCHANGED <<def, pend, st>> /\ l' = l + 1

(* an error ends the statement: legal when every arm of the current frame has been tested without   *)
(* success, or (functions over an enum) when the arms are non-exhaustive and nothing was tested     *)
ErrA == /\ Ev("Err") /\ st = "run" /\ stack # <<>>
        /\ \/ Top.sel = 0 /\ Top.k = Len(def.arms) /\ FirstMatch(def.arms, Top.val) = NoArm
           \/ Top.sel = 0 /\ Top.k = 0 /\ def.enumfn /\ ~Exhaustive(def.arms, Top.val, VariantSet)
        /\ stack' = <<>> /\ pend' = <<>>
        /\ UNCHANGED <<def, st>> /\ l' = l + 1

ResetA == /\ Ev("Reset") /\ st = "run" /\ stack = <<>> /\ pend = <<>>
          /\ st' = "idle" /\ def' = NoDef /\ UNCHANGED <<pend, stack>> /\ l' = l + 1

Next == DefA \/ EnterTop \/ EnterNested \/ TestA \/ TailA \/ OutA \/ ExitA \/ ErrA \/ ResetA
Spec == Init /\ [][Next]_vars

TraceAccepted ==
  IF TLCGet("stats").diameter - 1 = Len(Rec) THEN TRUE
  ELSE Print(<<"MSG", ToJson([unmatched |-> TLCGet("stats").diameter, ev |-> Rec[TLCGet("stats").diameter]])>>, FALSE)
=============================================================================
