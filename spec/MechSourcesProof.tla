------------------------- MODULE MechSourcesProof -------------------------
(* Unbounded safety of the source registry, proved with TLAPS: for ANY set of paths and texts (any number of files), in every    *)
(* state reachable by add / reload / add_code / write / remove the registry invariants of MechSources hold:                     *)
(*   Coherent         source, tree and html of every path describe the same text,                                               *)
(*   IndexRegistered  the index entry is a registered source,                                                                   *)
(*   IndexNonEmpty    a non-empty registry has an index,                                                                        *)
(*   IndexClaimed     once a top-level index file is registered, the index is an index file.                                    *)
(* TLC checks them on the bounded sessions of MC_G04 and on every observed execution (Trace_G04); this proof removes the bound. *)
(* The actions are restated on the variables and each is proved EQUAL to the effect function the bounded instance and the       *)
(* trace specification use (lemmas *Refines), so the theorem is about the same specification.                                   *)
EXTENDS MechSources, TLAPS

ASSUME Consts == /\ ReloadLag = FALSE
                 /\ None \notin Texts /\ Empty \notin Texts /\ None \notin Paths
                 /\ IndexNames \subseteq Paths /\ HtmlPaths \subseteq Paths

Inv == TypeOK /\ Coherent /\ IndexRegistered /\ IndexNonEmpty /\ IndexClaimed

AddA(p) == /\ fs[p] # None
           /\ src' = [src EXCEPT ![p] = fs[p]]
           /\ tree' = [tree EXCEPT ![p] = TreeOf(p, fs[p])]
           /\ html' = [html EXCEPT ![p] = fs[p]]
           /\ idx' = (IF idx = None THEN p ELSE IF p \in IndexNames THEN p ELSE idx)
           /\ UNCHANGED <<fs, codes>>
ReloadA(p) == /\ fs[p] # None /\ src[p] # None
              /\ src' = [src EXCEPT ![p] = fs[p]]
              /\ tree' = [tree EXCEPT ![p] = TreeOf(p, fs[p])]
              /\ html' = [html EXCEPT ![p] = fs[p]]
              /\ UNCHANGED <<fs, idx, codes>>
CodeA(t) == codes' = codes \cup {t} /\ UNCHANGED <<fs, src, tree, html, idx>>
WriteA(p, t) == fs' = [fs EXCEPT ![p] = t] /\ UNCHANGED <<src, tree, html, idx, codes>>
RemoveA(p) == fs' = [fs EXCEPT ![p] = None] /\ UNCHANGED <<src, tree, html, idx, codes>>
FailA == UNCHANGED svars

PNext == \/ \E p \in Paths : AddA(p) \/ ReloadA(p) \/ RemoveA(p)
         \/ \E p \in Paths, t \in Texts : WriteA(p, t)
         \/ \E t \in Texts : CodeA(t)
         \/ FailA
PSpec == SInit /\ [][PNext]_svars

(* ------------------------------------------------------------------ the restated actions ARE the effect functions *)
Becomes(s) == fs' = s.fs /\ src' = s.src /\ tree' = s.tree /\ html' = s.html /\ idx' = s.idx /\ codes' = s.codes

LEMMA AddRefines == ASSUME NEW p \in Paths, TypeOK, fs[p] # None
                    PROVE AddA(p) <=> (EffAdd(St, p).r = "ok" /\ Becomes(EffAdd(St, p).s))
  BY DEF AddA, EffAdd, St, Becomes, NewIdx, TypeOK

LEMMA ReloadRefines == ASSUME NEW p \in Paths, TypeOK, fs[p] # None, src[p] # None
                       PROVE ReloadA(p) <=> (EffReload(St, p).r = "ok" /\ Becomes(EffReload(St, p).s))
  BY Consts DEF ReloadA, EffReload, EffReloadWith, St, Becomes, TypeOK

LEMMA FailRefines == ASSUME NEW p \in Paths, TypeOK
                     PROVE /\ fs[p] = None => (EffAdd(St, p).r = "fail" /\ (Becomes(EffAdd(St, p).s) <=> FailA))
                           /\ (fs[p] = None \/ src[p] = None) => (EffReload(St, p).r = "fail" /\ (Becomes(EffReload(St, p).s) <=> FailA))
  BY Consts DEF EffAdd, EffReload, EffReloadWith, St, Becomes, FailA, svars

(* ------------------------------------------------------------------ the invariant is inductive *)
LEMMA InitInv == SInit => Inv
  BY Consts DEF SInit, Inv, TypeOK, Coherent, CoherentS, St, IndexRegistered, IndexNonEmpty, IndexClaimed, Registered, TreeOf

LEMMA AddInv == ASSUME Inv, NEW p \in Paths, AddA(p) PROVE Inv'
  <1> USE Consts DEF Inv, TypeOK, Coherent, CoherentS, St, IndexRegistered, IndexNonEmpty, IndexClaimed, Registered, TreeOf, AddA
  <1>1. TypeOK' OBVIOUS
  <1>2. Coherent' OBVIOUS
  <1>3. IndexRegistered' OBVIOUS
  <1>4. IndexNonEmpty' OBVIOUS
  <1>5. IndexClaimed' OBVIOUS
  <1> QED BY <1>1, <1>2, <1>3, <1>4, <1>5

LEMMA ReloadInv == ASSUME Inv, NEW p \in Paths, ReloadA(p) PROVE Inv'
  <1> USE Consts DEF Inv, TypeOK, Coherent, CoherentS, St, IndexRegistered, IndexNonEmpty, IndexClaimed, Registered, TreeOf, ReloadA
  <1>1. TypeOK' OBVIOUS
  <1>2. Coherent' OBVIOUS
  <1>3. IndexRegistered' OBVIOUS
  <1>4. IndexNonEmpty' OBVIOUS
  <1>5. IndexClaimed' OBVIOUS
  <1> QED BY <1>1, <1>2, <1>3, <1>4, <1>5

LEMMA EnvInv == ASSUME Inv, NEW p \in Paths, NEW t \in Texts, WriteA(p, t) \/ RemoveA(p) \/ CodeA(t) \/ FailA PROVE Inv'
  BY Consts DEF Inv, TypeOK, Coherent, CoherentS, St, IndexRegistered, IndexNonEmpty, IndexClaimed, Registered, TreeOf, WriteA, RemoveA, CodeA, FailA, svars

THEOREM Safety == PSpec => []Inv
  <1>1. SInit => Inv BY InitInv
  <1>2. Inv /\ [PNext]_svars => Inv'
    <2> SUFFICES ASSUME Inv, [PNext]_svars PROVE Inv' OBVIOUS
    <2>1. CASE \E p \in Paths : AddA(p) BY <2>1, AddInv
    <2>2. CASE \E p \in Paths : ReloadA(p) BY <2>2, ReloadInv
    <2>3. CASE \E p \in Paths : RemoveA(p)
      <3> PICK p \in Paths : RemoveA(p) BY <2>3
      <3> QED BY EnvInv, Consts DEF Inv, TypeOK, Coherent, CoherentS, St, IndexRegistered, IndexNonEmpty, IndexClaimed, Registered, TreeOf, RemoveA
    <2>4. CASE \E p \in Paths, t \in Texts : WriteA(p, t) BY <2>4, EnvInv
    <2>5. CASE \E t \in Texts : CodeA(t)
      <3> PICK t \in Texts : CodeA(t) BY <2>5
      <3> QED BY Consts DEF Inv, TypeOK, Coherent, CoherentS, St, IndexRegistered, IndexNonEmpty, IndexClaimed, Registered, TreeOf, CodeA
    <2>6. CASE FailA \/ UNCHANGED svars
      BY <2>6, Consts DEF Inv, TypeOK, Coherent, CoherentS, St, IndexRegistered, IndexNonEmpty, IndexClaimed, Registered, TreeOf, FailA, svars
    <2> QED BY <2>1, <2>2, <2>3, <2>4, <2>5, <2>6 DEF PNext
  <1> QED BY <1>1, <1>2, PTL DEF PSpec
=============================================================================
