SPECIFICATION Spec
CONSTANTS
  Names <- NamesT
  LitPool <- LitsAnnot
  ActKinds = {"Define", "DefineFromVarAnnot", "Assign", "IndexAssign", "OpAssign", "Eval"}
  MaxScalar = 6
VIEW View
INVARIANT TypeOK
PROPERTIES ImmutableStable NoInterference FailureAtomic NamesMonotone
ACTION_CONSTRAINT EmitEdge
CHECK_DEADLOCK FALSE
