SPECIFICATION Spec
CONSTANTS
  Names = {"a", "b", "c"}
  MaxLen = 3
  Lits = {1, 5}
  Incs = {1, 2}
INVARIANTS StepAdditive NoAssignIdempotent PlanReflectsProgram Emit
CHECK_DEADLOCK FALSE
