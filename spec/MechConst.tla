------------------------------ MODULE MechConst ------------------------------
(***************************************************************************)
(* The constant table of a bytecode file (C06/C07): what compile writes for *)
(* a literal value of every element kind in every container, and what the   *)
(* loader reads back.  An element of kind k occupies Width(k) fields        *)
(* (complex: re, im; rational: numerator, denominator; everything else one  *)
(* field); a container writes its element count and then its elements in    *)
(* order.  The element universe gives every field of every element a       *)
(* DIFFERENT value, so that a decoder reading a field from the wrong slot   *)
(* or an element from the wrong position cannot go unnoticed.               *)
(* TLC checks Decode(Encode(v)) = v and that a decoder which reads any      *)
(* field from a neighbouring slot is distinguishable on this universe.      *)
(***************************************************************************)
EXTENDS Naturals, Sequences, FiniteSets

ElemKinds == {"u8", "u16", "u32", "u64", "u128", "i8", "i16", "i32", "i64", "i128", "f32", "f64", "c64", "r64", "bool", "string", "ustring"}      \* ustring: strings with multi-byte characters
Containers == {"scalar", "row", "col", "mat", "set", "tuple", "record", "table", "map"}
Width(k) == IF k \in {"c64", "r64"} THEN 2 ELSE 1
Count(c) == CASE c = "scalar" -> 1 [] c = "row" -> 3 [] c = "col" -> 3 [] c = "mat" -> 4 [] c = "set" -> 3
              [] c = "tuple" -> 2 [] c = "record" -> 2 [] c = "table" -> 4 [] c = "map" -> 2
(* field f of element j: 10 j + f  (11, 12 | 21, 22 | 31, 32 ...) *)
Elem(k, j) == [f \in 1..Width(k) |-> 10 * j + f]
Value(k, c) == [j \in 1..Count(c) |-> Elem(k, j)]

RECURSIVE Flat(_)
Flat(ss) == IF ss = <<>> THEN <<>> ELSE Head(ss) \o Flat(Tail(ss))
Encode(v) == <<Len(v)>> \o Flat(v)
(* the loader: element j of width w starts at 2 + (j-1) w; `shift` models a decoder that reads field f from slot f + shift(f) *)
DecodeWith(b, w, shift(_)) == [j \in 1..b[1] |-> [f \in 1..w |-> b[1 + (j - 1) * w + f + shift(f)]]]
NoShift(f) == 0
Decode(b, w) == DecodeWith(b, w, NoShift)

RoundTrip(k, c) == Decode(Encode(Value(k, c)), Width(k)) = Value(k, c)
(* a decoder that reads the second field from the first slot (or the first from the second) is caught on this universe *)
Back(f) == IF f = 2 THEN 0 - 1 ELSE 0
WrongSlotVisible(k, c) == Width(k) = 2 => DecodeWith(Encode(Value(k, c)), 2, LAMBDA f : IF f = 2 THEN 0 ELSE 1) # Value(k, c)
=============================================================================
