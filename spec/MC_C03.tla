------------------------------- MODULE MC_C03 -------------------------------
(* Bounded instance of MechIndex for C03 (reads): enumerates every          *)
(* (shape, index form(s), index values) case, checks the model-level laws   *)
(* and emits one JSON case per state for replay against the interpreter.    *)
EXTENDS MechIndex, TLC, Json

CONSTANTS Shapes,      \* set of <<r, c>>
          FullMaskDim, \* dims up to which every mask is enumerated
          VecDim       \* dims up to which every index pair is enumerated

VARIABLE cs

ShapesQuick == {<<1,1>>, <<1,2>>, <<2,1>>, <<2,2>>, <<1,3>>, <<3,1>>, <<2,3>>, <<3,2>>, <<3,3>>}
ShapesThorough == ShapesQuick \cup {<<1,4>>, <<4,1>>, <<2,4>>, <<4,2>>, <<3,4>>, <<4,3>>, <<4,4>>, <<1,7>>, <<7,1>>, <<5,6>>}

Seq2(S) == {<<a, b>> : a \in S, b \in S}

VecPool(dim) ==
  (IF dim <= VecDim THEN Seq2(0..(dim + 1))
   ELSE {<<1, dim>>, <<dim, 1>>, <<2, 2>>, <<0, 1>>, <<1, dim + 1>>, <<dim, dim - 1>>, <<dim + 1, dim + 1>>})
  \cup {<<i>> : i \in {1, dim}}
  \cup (IF dim >= 3 THEN {<<dim, 1, dim>>, [k \in 1..dim |-> dim + 1 - k], <<1, 2, dim + 1>>} ELSE {})
  \* full-length index vectors that start at 1 and end at dim but are NOT 1..dim (a repeat, an interior exchange, an interior
  \* out-of-range entry): endpoint-and-length tests do not prove the identity; plus full-length vectors with repeats
  \cup (IF dim >= 3 THEN {[k \in 1..dim |-> IF k = dim THEN dim ELSE IF k = 1 THEN 1 ELSE 1],
                          [k \in 1..dim |-> IF k = 1 THEN 1 ELSE dim],
                          [k \in 1..dim |-> IF k = 2 THEN dim + 1 ELSE IF k = dim THEN dim ELSE IF k = 1 THEN 1 ELSE k],
                          [k \in 1..dim |-> IF k = 2 THEN 0 ELSE IF k = dim THEN dim ELSE IF k = 1 THEN 1 ELSE k],
                          [k \in 1..dim |-> IF k = 1 THEN 1 ELSE k - 1]} ELSE {})
  \cup (IF dim >= 4 THEN {[k \in 1..dim |-> IF k = 2 THEN 3 ELSE IF k = 3 THEN 2 ELSE k]} ELSE {})

RangeSeq(a, b) == [k \in 1..(b - a + 1) |-> a + k - 1]
RangePool(dim) ==
  {RangeSeq(a, b) : a \in 0..dim, b \in 1..(dim + 1)} \ {<<>>}

AllMasks(n) == [1..n -> BOOLEAN]
MaskPool(dim) ==
  (IF dim <= FullMaskDim THEN AllMasks(dim)
   ELSE {[k \in 1..dim |-> k % 2 = 1], [k \in 1..dim |-> k = dim], [k \in 1..dim |-> TRUE],
         [k \in 1..dim |-> FALSE], [k \in 1..dim |-> k \in {1, dim}], [k \in 1..dim |-> k % 3 = 0]})
  \cup {[k \in 1..(dim + 1) |-> TRUE]}
  \cup (IF dim > 1 THEN {[k \in 1..(dim - 1) |-> TRUE]} ELSE {})

Forms(dim) ==
       {FS(i) : i \in 0..(dim + 1)}
  \cup {FV(s) : s \in VecPool(dim)}
  \cup {FR(s) : s \in {t \in RangePool(dim) : Len(t) >= 1}}
  \cup {FA}
  \cup {FM(mk) : mk \in MaskPool(dim)}

(* Staged enumeration (stage 0 -> 1 -> 2) so that TLC's workers share the work: *)
(* stage 1 fixes shape and first form, stage 2 the complete case.               *)
Dummy == [stage |-> 0, nd |-> 1, r |-> 1, c |-> 1, f1 |-> FA, f2 |-> FA]
Partials ==
  UNION {
       {[stage |-> 1, nd |-> 1, r |-> sh[1], c |-> sh[2], f1 |-> f, f2 |-> FA] : f \in Forms(sh[1] * sh[2])}
  \cup {[stage |-> 1, nd |-> 2, r |-> sh[1], c |-> sh[2], f1 |-> f, f2 |-> FA] : f \in Forms(sh[1])}
  : sh \in Shapes}
Completes(k) ==
  IF k.nd = 1 THEN {[k EXCEPT !.stage = 2]}
  ELSE {[k EXCEPT !.stage = 2, !.f2 = g] : g \in Forms(k.c)}

Cls(f) == IF f.f \in {"v", "r"} /\ Len(f.ix) = 1 THEN f.f \o "1" ELSE f.f
Storage(r, c) == IF r = 1 /\ c = 1 THEN "one" ELSE IF r = 1 THEN "row" ELSE IF c = 1 THEN "col" ELSE "mat"

(* Forms the access dispatch of the pinned tree implements, per storage class  *)
(* (transcribed from `subscript()` in src/interpreter/src/expressions.rs and   *)
(* confirmed by calibration; DESIGN.md Appendix A).  A supported form must     *)
(* return the exact value; any other form may be rejected but must never       *)
(* return a wrong value.                                                       *)
Sup1 == [mat |-> {"s", "v", "r", "a", "m"}, row |-> {"s", "v", "r", "m"}, col |-> {"s", "v", "r", "m"}, one |-> {"s"}]
Sup2 == [mat |-> {<<"s","s">>, <<"s","v">>, <<"v","s">>, <<"v","v">>, <<"s","a">>, <<"a","s">>,
                  <<"v","a">>, <<"a","v">>, <<"r","r">>, <<"m","a">>, <<"a","m">>, <<"m","m">>,
                  <<"s","r">>, <<"r","s">>},
         row |-> {<<"s","s">>, <<"a","v">>, <<"a","m">>},
         col |-> {<<"s","s">>, <<"a","v">>},
         one |-> {<<"s","s">>}]
Supported(k) ==
  IF k.nd = 1 THEN Cls(k.f1) \in Sup1[Storage(k.r, k.c)]
  ELSE <<Cls(k.f1), Cls(k.f2)>> \in Sup2[Storage(k.r, k.c)]

Result(k) == IF k.nd = 1 THEN Select1(Mat(k.r, k.c), k.f1) ELSE Select2(Mat(k.r, k.c), k.f1, k.f2)

EmptyMask(f) == f.f = "m" /\ \A q \in 1..Len(f.mask) : ~f.mask[q]
BadMask(f, dim) == f.f = "m" /\ Len(f.mask) # dim
BadIndex(f, dim) == f.f \in {"s", "v", "r"} /\ \E q \in 1..Len(f.ix) : f.ix[q] \notin 1..dim

(* A selection through an all-false mask addresses nothing and returns nothing: the   *)
(* property constrains which ELEMENTS come back, so such cases are unconstrained.     *)
Expect(k) ==
  LET res == Result(k) IN
  IF EmptyMask(k.f1) \/ (k.nd = 2 /\ EmptyMask(k.f2)) THEN "free"
  ELSE IF ~res.ok THEN "reject"
  ELSE IF res.r * res.c = 0 THEN "free"
  ELSE IF Supported(k) THEN "exact" ELSE "free"

(* why the reference model rejects: used as the model-side signature of a miss *)
Why(k) ==
  IF k.nd = 1
  THEN (IF BadMask(k.f1, k.r * k.c) THEN "mask-length" ELSE IF BadIndex(k.f1, k.r * k.c) THEN "index-range" ELSE "none")
  ELSE (IF BadIndex(k.f1, k.r) \/ BadIndex(k.f2, k.c) THEN "index-range"
        ELSE IF BadMask(k.f1, k.r) \/ BadMask(k.f2, k.c) THEN "mask-length" ELSE "none")

Sig(k) == "C03/" \o Storage(k.r, k.c) \o "/" \o Cls(k.f1) \o (IF k.nd = 2 THEN "," \o Cls(k.f2) ELSE "")

CaseJson(k) ==
  LET res == Result(k) IN
  [nd |-> k.nd, r |-> k.r, c |-> k.c, f1 |-> k.f1, f2 |-> k.f2,
   exp |-> Expect(k), sig |-> Sig(k), why |-> Why(k),
   res |-> [scalar |-> res.scalar, r |-> res.r, c |-> res.c, d |-> res.d]]

Init == cs = Dummy
Next == \/ cs.stage = 0 /\ cs' \in Partials
        \/ cs.stage = 1 /\ cs' \in Completes(cs)
Done == cs.stage = 2
Spec == Init /\ [][Next]_cs

(* ------------------------------------------------------- model-level laws *)
KernelEq == (Done /\ cs.nd = 2) => Select2K(Mat(cs.r, cs.c), cs.f1, cs.f2) = Select2(Mat(cs.r, cs.c), cs.f1, cs.f2)

OutOfRangeRejects == Done =>
 (LET bad(f, dim) == (f.f \in {"s","v","r"} /\ \E q \in 1..Len(f.ix) : f.ix[q] \notin 1..dim)
                     \/ (f.f = "m" /\ Len(f.mask) # dim) IN
  ((cs.nd = 1 /\ bad(cs.f1, cs.r * cs.c)) \/ (cs.nd = 2 /\ (bad(cs.f1, cs.r) \/ bad(cs.f2, cs.c))))
    <=> ~Result(cs).ok)

ShapeLaw == LET res == Result(cs) IN (Done /\ res.ok) => (Len(res.d) = res.r * res.c /\ \A q \in 1..Len(res.d) : res.d[q] \in 1..(cs.r * cs.c))

AllIsFlatten == (Done /\ cs.nd = 1 /\ cs.f1.f = "a") => Result(cs).d = Iota(cs.r * cs.c)

(* x[i,j] agrees with linear indexing x[(j-1)*r+i] *)
LinearAgrees ==
  (Done /\ cs.nd = 2 /\ cs.f1.f = "s" /\ cs.f2.f = "s" /\ Result(cs).ok) =>
     Result(cs).d = Select1(Mat(cs.r, cs.c), FS(Lin(cs.r, cs.f1.ix[1], cs.f2.ix[1]))).d

Emit == Done => PrintT(<<"CASE", ToJson(CaseJson(cs))>>)
=============================================================================
