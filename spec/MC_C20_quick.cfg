SPECIFICATION Spec
CONSTANTS
  FileNames = {"a", "b", "c"}
  Slots <- SlotsQuick
  NlChoice = {}
  Rich = {"b"}
  FileOrder <- OrderQuick
INVARIANTS ActiveIsStack Agreement Terminates Emit
CHECK_DEADLOCK FALSE
