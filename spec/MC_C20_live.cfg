SPECIFICATION LiveSpec
CONSTANTS
  FileNames = {"a", "b", "c"}
  Slots <- SlotsQuick
  NlChoice = {}
  Rich = {"b"}
  FileOrder <- OrderQuick
INVARIANTS ActiveIsStack Agreement Terminates
PROPERTY EventuallyFinished
CHECK_DEADLOCK FALSE
