------------------------------- MODULE MC_C12 -------------------------------
(* Bounded instance of MechConvert for C12.  Three case families:                              *)
(*   conv     (source class, target class, entry point, form, values[, option target])         *)
(*   reshape  (r, c) -> (r2, c2) for all shapes up to MaxElems elements, with or without a      *)
(*            simultaneous kind change                                                          *)
(*   set      matrix -> set over small alphabets (repeats in every position)                    *)
(*   anc      values anchored at the bounds of every integer kind (Max_b + o, Min_b + o, kept    *)
(*            symbolic) between all ordered pairs of the ten integer kinds and f32 / f64          *)
(* Checks the model-level laws (widen-then-narrow identity, idempotence, an independent        *)
(* characterisation of truncate-and-clamp, reshape definitions agree and differ from row-major, *)
(* set laws) and emits every case for replay against the interpreter.                           *)
EXTENDS MechConvert, TLC, Json

CONSTANTS MatForms,    \* matrix forms <<name, r, c>> used by the conv family (the scalar form is always present)
          MaxElems,    \* reshape: shapes with r*c <= MaxElems
          UneqDiff,    \* reshape: unequal element counts are enumerated when they differ by at most this
          SetFull,     \* set: shapes up to this many elements get every filling over a 3-letter alphabet
          ExtraPool    \* further pool values (sequence of scalars)

VARIABLE cs

FormsQuick    == {<<"r", 1, 3>>, <<"c", 3, 1>>, <<"m", 2, 2>>}
FormsThorough == FormsQuick \cup {<<"m", 2, 3>>, <<"r", 1, 5>>, <<"m", 3, 3>>}
ScalarForm == <<"s", 1, 1>>

Wide == 100000000
Cls == [u8  |-> IntClass(0, 255),      i8  |-> IntClass(-128, 127),
        u16 |-> IntClass(0, 65535),    i16 |-> IntClass(-32768, 32767),
        uw  |-> IntClass(0, Wide),     iw  |-> IntClass(-Wide, Wide),       \* u32 u64 u128 / i32 i64 i128
        f32 |-> F32Class, f64 |-> F64Class, rat |-> RatClass, cpx |-> CpxClass,
        str |-> StrClass, bool |-> BoolClass]
ClassNames == {"u8", "i8", "u16", "i16", "uw", "iw", "f32", "f64", "rat", "cpx", "str", "bool"}
NumCore == {"u8", "i8", "u16", "i16", "uw", "iw", "f32", "f64"}
Entries == {"deflit", "defvar", "litann", "varann"}

PoolSeq == << IntV(0), IntV(1), IntV(-1), Num(3, 2), Num(-3, 2), Num(3, 4), IntV(127), IntV(128), IntV(255),
              IntV(256), IntV(300), IntV(-129), IntV(32767), IntV(65536), Num(-37, 10), Num(37, 10),
              IntV(-128), IntV(32768), IntV(-32768), IntV(-32769), IntV(65535), Num(511, 2), Num(-1, 2), Num(1, 3),
              Num(-257, 2), Num(131071, 2), Num(-65537, 2) >> \o ExtraPool
ExtraNone == <<>>
ExtraThorough == << Num(309, 4), Num(-401, 2), IntV(12345), IntV(-20000), IntV(40000), Num(8001, 8), IntV(200), IntV(-100),
                    Num(-1023, 4), IntV(70000), Num(255, 2), Num(7, 3) >>      \* arbitrary interior values
StrSeq  == << StrV("12"), StrV("abc"), StrV("1.5") >>
BoolSeq == << BoolV(TRUE), BoolV(FALSE) >>

(* values a source variable of the class can hold (floats: also the nearest float to 3.7 / -3.7) *)
InSrc(cl, v) == IF IsFloat(cl) THEN Dyadic(v) \/ v.d = 10 ELSE Holds(cl, v)
SrcTab == [cn \in ClassNames |->
  IF cn = "str" THEN StrSeq ELSE IF cn = "bool" THEN BoolSeq
  ELSE SelectSeq(PoolSeq, LAMBDA v : InSrc(Cls[cn], v))]
SrcSeq(cn) == SrcTab[cn]

Shapes == {<<r, c>> : r \in 1..MaxElems, c \in 1..MaxElems}
ShapesUpTo == {sh \in Shapes : sh[1] * sh[2] <= MaxElems}
AbsDiff(a, b) == IF a > b THEN a - b ELSE b - a

SetShapesFull == {sh \in {<<1, 2>>, <<2, 1>>, <<1, 3>>, <<3, 1>>, <<2, 2>>, <<1, 4>>, <<2, 3>>} : sh[1] * sh[2] <= SetFull}
SetShapesBig  == {<<2, 3>>, <<3, 2>>, <<3, 3>>, <<1, 6>>, <<4, 2>>}
SetPatterns(n) ==   \* fillings of the larger shapes: all equal, all distinct, period 2 / 3, equal ends, one odd element
  { [p \in 1..n |-> 1], [p \in 1..n |-> p], [p \in 1..n |-> ((p - 1) % 2) + 1], [p \in 1..n |-> ((p - 1) % 3) + 1],
    [p \in 1..n |-> IF p \in {1, n} THEN 1 ELSE p], [p \in 1..n |-> IF p = n THEN 2 ELSE 1],
    [p \in 1..n |-> (n - p) \div 2 + 1] }

AncKinds == IntKindSet \cup {"f32", "f64"}
AncVals == {Anc(b, "max", o) : b \in IntKindSet, o \in {-1, 0, 1}} \cup {Anc(b, "min", o) : b \in {k \in IntKindSet : SignedKind(k)}, o \in {-1, 0, 1}}

Blank == [stage |-> 0, fam |-> "none", src |-> "u8", dst |-> "u8", entry |-> "deflit", form |-> ScalarForm, off |-> 0,
          opt |-> FALSE, r |-> 1, c |-> 1, r2 |-> 1, c2 |-> 1, conv |-> FALSE, d |-> <<>>, x |-> Anc("u8", "zero", 0)]
Dummy == Blank

Partials ==
       {[Blank EXCEPT !.stage = 1, !.fam = "conv", !.src = s, !.dst = t, !.entry = e] : s \in ClassNames, t \in ClassNames, e \in Entries}
  \cup {[Blank EXCEPT !.stage = 1, !.fam = "reshape", !.r = sh[1], !.c = sh[2]] : sh \in ShapesUpTo}
  \cup {[Blank EXCEPT !.stage = 1, !.fam = "set", !.r = sh[1], !.c = sh[2]] : sh \in SetShapesFull \cup SetShapesBig}
  \cup {[Blank EXCEPT !.stage = 1, !.fam = "anc", !.src = s, !.dst = t, !.entry = "defvar"] : s \in AncKinds, t \in AncKinds}

Offsets(cn, n) == {o \in 0..(Len(SrcSeq(cn)) - 1) : o % n = 0}
Completes(k) ==
  CASE k.fam = "conv" ->
         (IF k.entry = "litann" THEN {} ELSE
            UNION {{[k EXCEPT !.stage = 2, !.form = f, !.off = o] : o \in Offsets(k.src, f[2] * f[3])} : f \in MatForms})
         \cup {[k EXCEPT !.stage = 2, !.form = ScalarForm, !.off = o] : o \in Offsets(k.src, 1)}
         \cup (IF k.entry \in {"deflit", "defvar"}
               THEN {[k EXCEPT !.stage = 2, !.form = ScalarForm, !.off = o, !.opt = TRUE] : o \in Offsets(k.src, 1)} ELSE {})
    [] k.fam = "reshape" ->
         {[k EXCEPT !.stage = 2, !.r2 = sh[1], !.c2 = sh[2], !.conv = cv, !.entry = e]
            : sh \in {s2 \in ShapesUpTo : AbsDiff(s2[1] * s2[2], k.r * k.c) <= UneqDiff}, cv \in BOOLEAN, e \in {"deflit", "defvar"}}
    [] k.fam = "anc" -> {[k EXCEPT !.stage = 2, !.x = x] : x \in {y \in AncVals : HoldsAnc(k.src, y)}}
    [] k.fam = "set" ->
         IF k.r * k.c <= SetFull /\ <<k.r, k.c>> \in SetShapesFull
         THEN {[k EXCEPT !.stage = 2, !.d = f] : f \in [1..(k.r * k.c) -> 1..3]}
         ELSE {[k EXCEPT !.stage = 2, !.d = f] : f \in SetPatterns(k.r * k.c)}

Init == cs = Dummy
Next == \/ cs.stage = 0 /\ cs' \in Partials
        \/ cs.stage = 1 /\ cs' \in Completes(cs)
Spec == Init /\ [][Next]_cs
Done == cs.stage = 2
IsConv == Done /\ cs.fam = "conv"
IsReshape == Done /\ cs.fam = "reshape"
IsSet == Done /\ cs.fam = "set"
IsAnc == Done /\ cs.fam = "anc"

(* ------------------------------------------------------------------ conv *)
Elems(k) == LET sq == SrcSeq(k.src)
                n == k.form[2] * k.form[3]
            IN [p \in 1..n |-> sq[((k.off + p - 1) % Len(sq)) + 1]]
SrcMat(k) == [r |-> k.form[2], c |-> k.form[3], d |-> Elems(k)]
Converted(k) == ConvertMat(SrcMat(k), Cls[k.src], Cls[k.dst])

(* acceptance.                                                                                       *)
(*   "reject"  no such conversion (string -> number / bool, number -> bool): an error                *)
(*   "must"    the conversion must exist: all ordered pairs of the integer and float kinds, through  *)
(*             annotated definitions in every form and through annotated literals / references for   *)
(*             scalars (convert/scalar.rs, convert/mat_to_mat.rs have an arm for each of them at the *)
(*             pinned commit), and every numeric kind to ITSELF (no conversion is needed at all)     *)
(*   "closure" a matrix of numbers: must be accepted iff the scalar conversion of the same kind pair *)
(*             is accepted ("converting a matrix converts every element by the same rule"); the      *)
(*             scalar acceptance is learned from the scalar case of the same pair                    *)
(*   "free"    elsewhere (pairs with r64 / c64, option targets, annotated matrix references, bool /  *)
(*             string sources): an error is allowed ("a kind with no conversion") but an accepted    *)
(*             conversion must still be right                                                        *)
Acc(k) ==
  IF Converted(k).d[1].st = "reject" THEN "reject"
  ELSE IF k.opt THEN "free"
  ELSE IF k.entry = "varann" /\ k.form[1] # "s" THEN "free"
  ELSE IF k.src \in NumCore /\ k.dst \in NumCore THEN "must"
  ELSE IF k.src = k.dst /\ k.src \in {"rat", "cpx"} THEN "must"
  ELSE IF k.form[1] # "s" /\ IsNumeric(Cls[k.src]) /\ IsNumeric(Cls[k.dst]) THEN "closure"
  ELSE "free"

(* every element is kept exactly by a numeric conversion: then converting the result back to the source *)
(* kind must give the source again (law WidenNarrow below)                                               *)
ValueKept(k) == IsNumeric(Cls[k.src]) /\ IsNumeric(Cls[k.dst]) /\ \A p \in 1..Len(Elems(k)) : Converted(k).d[p] = Exact(Elems(k)[p])

ConvSig(k) == "C12/conv/" \o k.src \o ">" \o k.dst \o "/" \o k.entry \o "/" \o k.form[1] \o (IF k.opt THEN "/opt" ELSE "")

(* ---------------------------------------------------------------- reshape *)
Iota(n) == [p \in 1..n |-> p]
RSrc(k) == [r |-> k.r, c |-> k.c, d |-> Iota(k.r * k.c)]
Reshaped(k) == Reshape(RSrc(k), k.r2, k.c2)
IsVec(r, c) == r = 1 \/ c = 1

(* -------------------------------------------------------------------- set *)
SSrc(k) == [r |-> k.r, c |-> k.c, d |-> k.d]

SetToSeq(S) == LET RECURSIVE F(_)
                   F(T) == IF T = {} THEN <<>> ELSE LET x == CHOOSE x \in T : \A y \in T : x <= y IN <<x>> \o F(T \ {x})
               IN F(S)

CaseJson(k) ==
  CASE k.fam = "conv" ->
         [fam |-> "conv", src |-> k.src, dst |-> k.dst, entry |-> k.entry, form |-> k.form[1], r |-> k.form[2], c |-> k.form[3],
          opt |-> k.opt, off |-> k.off, L |-> Elems(k), res |-> Converted(k).d, acc |-> Acc(k), sig |-> ConvSig(k),
          back |-> ValueKept(k), backacc |-> Acc([k EXCEPT !.src = k.dst, !.dst = k.src, !.entry = "defvar"])]
    [] k.fam = "reshape" ->
         [fam |-> "reshape", r |-> k.r, c |-> k.c, r2 |-> k.r2, c2 |-> k.c2, conv |-> k.conv, entry |-> k.entry,
          ok |-> Reshaped(k).ok, d |-> Reshaped(k).d,
          sig |-> "C12/reshape/" \o (IF Reshaped(k).ok THEN "equal-count" ELSE "different-count") \o (IF k.conv THEN "/conv" ELSE "") \o "/" \o k.entry]
    [] k.fam = "anc" ->
         LET res == ConvertAnc(k.x, k.src, k.dst) IN
         [fam |-> "anc", src |-> k.src, dst |-> k.dst, x |-> k.x, res |-> res, acc |-> "must",
          back |-> (res = ExactA(k.x)), sig |-> "C12/bound/" \o k.src \o ">" \o k.dst]
    [] k.fam = "set" ->
         [fam |-> "set", r |-> k.r, c |-> k.c, d |-> k.d, set |-> SetToSeq(ToSet(SSrc(k))), sig |-> "C12/set"]

(* ------------------------------------------------------- model-level laws *)
(* widening and narrowing back is the identity, value by value ...                              *)
WidenNarrow == (IsConv /\ ~cs.opt /\ IsNumeric(Cls[cs.src]) /\ IsNumeric(Cls[cs.dst])) =>
  \A p \in 1..Len(Elems(cs)) :
    LET v == Elems(cs)[p]
        r1 == Convert(v, Cls[cs.src], Cls[cs.dst]) IN
    (r1.st = "exact" /\ r1.v = v) => Convert(v, Cls[cs.dst], Cls[cs.src]) = Exact(v)

(* ... and pair by pair: wherever widening src -> dst is exact for every source value, the round trip is the identity *)
Widens(s, t) == \A q \in 1..Len(SrcSeq(s)) : Convert(SrcSeq(s)[q], Cls[s], Cls[t]) = Exact(SrcSeq(s)[q])
WidenNarrowPairs == (cs.stage = 1 /\ cs.fam = "conv" /\ Widens(cs.src, cs.dst)) =>
  \A q \in 1..Len(SrcSeq(cs.src)) :
    LET v == SrcSeq(cs.src)[q] IN Convert(Convert(v, Cls[cs.src], Cls[cs.dst]).v, Cls[cs.dst], Cls[cs.src]) = Exact(v)
(* the expected widenings really are widenings (guards the pool and the class table) *)
ExpectedWidenings == cs.stage = 1 =>
  /\ Widens("u8", "u16") /\ Widens("u8", "i16") /\ Widens("u8", "uw") /\ Widens("u8", "iw") /\ Widens("u8", "f32") /\ Widens("u8", "f64")
  /\ Widens("i8", "i16") /\ Widens("i8", "iw") /\ Widens("i8", "f32") /\ Widens("i8", "f64")
  /\ Widens("u16", "uw") /\ Widens("u16", "iw") /\ Widens("i16", "iw") /\ Widens("u16", "f64") /\ Widens("i16", "f32")
  /\ Widens("uw", "rat") /\ Widens("iw", "rat") /\ Widens("u8", "rat")
  /\ ~Widens("i8", "u8") /\ ~Widens("u8", "i8") /\ ~Widens("u16", "u8") /\ ~Widens("f64", "u8") /\ ~Widens("i8", "uw") /\ ~Widens("f64", "f32")
  /\ \A s \in ClassNames \ {"f32", "f64"} : Widens(s, s)

(* converting twice to the same kind changes nothing *)
Idempotent == IsConv =>
  \A p \in 1..Len(Elems(cs)) :
    LET r1 == Convert(Elems(cs)[p], Cls[cs.src], Cls[cs.dst]) IN
    r1.st = "exact" => Convert(r1.v, Cls[cs.dst], Cls[cs.dst]) = Exact(r1.v)

(* float -> integer, characterised without \div: the result is an integer of the target range; a value   *)
(* beyond an end of the range gives that end; otherwise the result is the integer between 0 and v that   *)
(* is less than one away from v                                                                           *)
TruncClampLaw == (IsConv /\ IsFloat(Cls[cs.src]) /\ Cls[cs.dst].c = "int") =>
  \A p \in 1..Len(Elems(cs)) :
    LET v == Elems(cs)[p]
        cl == Cls[cs.dst]
        res == Convert(v, Cls[cs.src], cl) IN
    /\ res.st = "exact" /\ res.v.d = 1 /\ res.v.n >= cl.lo /\ res.v.n <= cl.hi
    /\ (v.n >= cl.hi * v.d) => res.v.n = cl.hi
    /\ (v.n <= cl.lo * v.d) => res.v.n = cl.lo
    /\ (v.n > cl.lo * v.d /\ v.n < cl.hi * v.d) =>
          IF v.n >= 0 THEN res.v.n * v.d <= v.n /\ v.n < (res.v.n + 1) * v.d
          ELSE res.v.n * v.d >= v.n /\ v.n > (res.v.n - 1) * v.d

(* a representable number is never changed and never rejected, whatever the numeric source kind *)
RepresentableIsKept == (IsConv /\ IsNumeric(Cls[cs.src]) /\ IsNumeric(Cls[cs.dst])) =>
  \A p \in 1..Len(Elems(cs)) :
    LET v == Elems(cs)[p] IN
    (Holds(Cls[cs.src], v) /\ Holds(Cls[cs.dst], v)) => Convert(v, Cls[cs.src], Cls[cs.dst]) = Exact(v)

(* no conversion exists exactly for string -> number/bool and number -> bool; rejection is per kind pair *)
RejectTable == IsConv =>
  /\ (Acc(cs) = "reject") <=> ((cs.src = "str" /\ cs.dst # "str") \/ (cs.dst = "bool" /\ cs.src \notin {"bool", "str"}) \/ (cs.src = "str" /\ cs.dst = "bool"))
  /\ \A p \in 1..Len(Elems(cs)) : (Converted(cs).d[p].st = "reject") <=> (Acc(cs) = "reject")

MatrixShapeKept == IsConv => (Converted(cs).r = cs.form[2] /\ Converted(cs).c = cs.form[3] /\ Len(Converted(cs).d) = cs.form[2] * cs.form[3])

(* the three definitions of reshape agree; the column-major sequence is preserved; a row-major reshape differs *)
ReshapeDefsAgree == IsReshape =>
  /\ ReshapeD(RSrc(cs), cs.r2, cs.c2) = Reshaped(cs)
  /\ ReshapeK(RSrc(cs), cs.r2, cs.c2) = Reshaped(cs)
  /\ Reshaped(cs).ok <=> (cs.r * cs.c = cs.r2 * cs.c2)
  /\ Reshaped(cs).ok => Reshaped(cs).d = Iota(cs.r * cs.c)
ReshapeNotRowMajor == (IsReshape /\ Reshaped(cs).ok /\ <<cs.r, cs.c>> # <<cs.r2, cs.c2>> /\ ~(IsVec(cs.r, cs.c) /\ IsVec(cs.r2, cs.c2))) =>
  ReshapeRowMajor(RSrc(cs), cs.r2, cs.c2).d # Reshaped(cs).d
(* reshaping there and back is the identity *)
ReshapeRoundTrip == (IsReshape /\ Reshaped(cs).ok) =>
  Reshape([r |-> cs.r2, c |-> cs.c2, d |-> Reshaped(cs).d], cs.r, cs.c).d = RSrc(cs).d

SetLaws == IsSet =>
  LET S == ToSet(SSrc(cs)) IN
  /\ \A p \in 1..Len(cs.d) : cs.d[p] \in S
  /\ \A x \in S : \E p \in 1..Len(cs.d) : cs.d[p] = x
  /\ Cardinality(S) <= Len(cs.d)
  /\ Len(SetToSeq(S)) = Cardinality(S)

(* ---- anchored boundary values *)
(* the symbolic reasoning agrees with exact arithmetic wherever both apply: bounds of the 8 / 16 bit kinds *)
SmallKinds == {"i8", "u8", "i16", "u16"}
MaxOf(b) == CASE b = "i8" -> 127 [] b = "u8" -> 255 [] b = "i16" -> 32767 [] b = "u16" -> 65535
MinOf(b) == CASE b = "i8" -> -128 [] b = "u8" -> 0 [] b = "i16" -> -32768 [] b = "u16" -> 0
Inst(x) == CASE x.side = "zero" -> IntV(x.o) [] x.side = "max" -> IntV(MaxOf(x.b) + x.o) [] x.side = "min" -> IntV(MinOf(x.b) + x.o)
ClassOf(k) == IF k \in {"u32", "u64", "u128"} THEN Cls["uw"] ELSE IF k \in {"i32", "i64", "i128"} THEN Cls["iw"] ELSE Cls[k]
AncAgreesWithExact == (IsAnc /\ cs.x.b \in SmallKinds) =>
  LET ra == ConvertAnc(cs.x, cs.src, cs.dst)
      re == Convert(Inst(cs.x), ClassOf(cs.src), ClassOf(cs.dst)) IN
  /\ ra.st = re.st
  /\ ra.st = "exact" => Inst(ra.v) = re.v
  /\ HoldsAnc(cs.src, cs.x) = Holds(ClassOf(cs.src), Inst(cs.x))
  /\ HoldsAnc(cs.dst, cs.x) = Holds(ClassOf(cs.dst), Inst(cs.x))
(* widen-then-narrow and idempotence on anchored values; a float -> integer result is always in range *)
AncLaws == IsAnc =>
  LET ra == ConvertAnc(cs.x, cs.src, cs.dst) IN
  /\ (ra = ExactA(cs.x)) => ConvertAnc(cs.x, cs.dst, cs.src) = ExactA(cs.x)
  /\ ra.st = "exact" => (HoldsAnc(cs.dst, ra.v) /\ ConvertAnc(ra.v, cs.dst, cs.dst) = ExactA(ra.v))
  /\ (FloatKind(cs.src) /\ ~FloatKind(cs.dst)) => ra.st = "exact"
  /\ (HoldsAnc(cs.dst, cs.x)) => ra = ExactA(cs.x)

Emit == Done => PrintT(<<"CASE", ToJson(CaseJson(cs))>>)
=============================================================================
