SPECIFICATION Spec
CONSTANTS FileNames = {"a", "b", "c", "d"}
INVARIANT TraceStackDistinct
CONSTRAINT Track
POSTCONDITION TraceAccepted
CHECK_DEADLOCK FALSE
