SPECIFICATION Spec
CONSTANTS
  N = 4
  OneLen = 6
  MaxLen = 4
  CompLen = 3
  NBig = 8
  BigN = 40
  BigM = 40
INVARIANTS KernelEq AlgebraLaws CompKernel CompLaws Emit
CHECK_DEADLOCK FALSE
