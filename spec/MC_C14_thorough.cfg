SPECIFICATION Spec
CONSTANTS
  N = 4
  OneLen = 6
  MaxLen = 4
  CompLen = 3
  BigN = 60
  BigM = 50
INVARIANTS KernelEq AlgebraLaws CompKernel CompLaws Emit
CHECK_DEADLOCK FALSE
