----------------------------- MODULE MechSyntax -----------------------------
(***************************************************************************)
(* Abstract syntax universe for C08: an AST is a statement form applied to  *)
(* an expression tree of bounded depth.  An expression node is              *)
(*   [f |-> form, kids |-> <<...>>]                                          *)
(* with the arity of every form fixed by Arity.  The universe of depth <= 2  *)
(* is: every form at the root with every combination of child shapes.       *)
(* The properties are stated over formatter round-trip records              *)
(*   [reparses, same_tree, idempotent]                                       *)
(* RoundTrip: the formatted text parses again to the same tree (positions    *)
(* and insignificant whitespace erased); Idempotent: formatting the          *)
(* formatted text gives the same text.                                       *)
(***************************************************************************)
EXTENDS Naturals, Sequences, FiniteSets

Leaf0 == {"int", "float", "str", "bool", "hex", "rat", "sci", "typed", "annot", "atom", "empty", "var"}
Unary == {"neg", "not", "paren", "transpose", "call1", "callnamed", "idx", "idxall", "rowidx", "kindannot", "dotfield"}
BinOps == {"add", "sub", "mul", "div", "mod", "pow", "lt", "le", "gt", "ge", "eq", "ne", "and", "or", "xor", "matmul"}
Binary == BinOps \cup {"row", "col", "mat", "tuple", "set", "record", "call2", "idx2", "idxrange", "range", "rangeincl", "rangestep", "map", "table"}
Forms == Leaf0 \cup Unary \cup Binary
Arity(f) == IF f \in Leaf0 THEN 0 ELSE IF f \in Unary THEN 1 ELSE 2

Node(f, kids) == [f |-> f, kids |-> kids]
(* child shapes used below the root *)
ChildForms == {Node("int", <<>>), Node("var", <<>>), Node("str", <<>>),
               Node("neg", <<Node("int", <<>>)>>),
               Node("paren", <<Node("add", <<Node("var", <<>>), Node("int", <<>>)>>)>>),
               Node("call1", <<Node("var", <<>>)>>),
               Node("mul", <<Node("var", <<>>), Node("int", <<>>)>>)}

StmtForms == {"expr", "def", "mutdef", "kinddef", "assign", "opassign", "idxassign", "commented"}

RoundTrip(r) == r.reparses /\ r.same_tree
Idempotent(r) == r.reparses => r.idempotent
=============================================================================
