----------------------------- MODULE MechSyntax -----------------------------
(***************************************************************************)
(* Abstract syntax universe for C08: an AST is a statement form applied to  *)
(* an expression tree of bounded depth.  An expression node is              *)
(*   [f |-> form, kids |-> <<...>>]                                          *)
(* with the arity of every form fixed by Arity.  The universe of depth <= 2  *)
(* is: every form at the root with every combination of child shapes.       *)
(* The properties are stated over formatter round-trip records              *)
(*   [reparses, same_tree, idempotent]                                       *)
(* RoundTrip: the formatted text parses again to the same tree (positions    *)
(* and insignificant whitespace erased); Idempotent: formatting the          *)
(* formatted text gives the same text.                                       *)
(***************************************************************************)
EXTENDS Naturals, Sequences, FiniteSets

Leaf0 == {"int", "float", "str", "bool", "hex", "rat", "sci", "typed", "annot", "atom", "empty", "var"}
Unary == {"neg", "not", "paren", "transpose", "call1", "callnamed", "idx", "idxall", "rowidx", "kindannot", "dotfield"}
BinOps == {"add", "sub", "mul", "div", "mod", "pow", "lt", "le", "gt", "ge", "eq", "ne", "and", "or", "xor", "matmul"}
Binary == BinOps \cup {"row", "col", "mat", "tuple", "set", "record", "call2", "idx2", "idxrange", "range", "rangeincl", "rangestep", "map", "table"}
Forms == Leaf0 \cup Unary \cup Binary
Arity(f) == IF f \in Leaf0 THEN 0 ELSE IF f \in Unary THEN 1 ELSE 2

Node(f, kids) == [f |-> f, kids |-> kids]
(* child shapes used below the root *)
ChildForms == {Node("int", <<>>), Node("var", <<>>), Node("str", <<>>),
               Node("neg", <<Node("int", <<>>)>>),
               Node("paren", <<Node("add", <<Node("var", <<>>), Node("int", <<>>)>>)>>),
               Node("call1", <<Node("var", <<>>)>>),
               Node("mul", <<Node("var", <<>>), Node("int", <<>>)>>)}

StmtForms == {"expr", "def", "mutdef", "kinddef", "assign", "opassign", "idxassign", "commented"}

(* ---- kind annotations: a kind is [k |-> form, kids |-> <<...>>]; every form at the root and below *)
KLeaf == {"f64", "u8", "i64", "string", "bool", "any", "empty", "atom", "custom", "r64"}
KUnary == {"mat", "mat13", "matd3", "mat3d", "matdd", "mat3", "matd", "set", "set3", "setd", "opt", "kindof"}
KBinary == {"tuple", "map", "table", "table3", "record"}
KForms == KLeaf \cup KUnary \cup KBinary
KArity(f) == IF f \in KLeaf THEN 0 ELSE IF f \in KUnary THEN 1 ELSE 2
KNode(f, kids) == [k |-> f, kids |-> kids]
KChildren == {KNode("f64", <<>>), KNode("u8", <<>>), KNode("string", <<>>), KNode("any", <<>>),
              KNode("mat", <<KNode("u8", <<>>)>>), KNode("matd3", <<KNode("f64", <<>>)>>), KNode("setd", <<KNode("u8", <<>>)>>),
              KNode("opt", <<KNode("u8", <<>>)>>), KNode("tuple", <<KNode("u8", <<>>), KNode("f64", <<>>)>>)}
(* where a kind can be written *)
KContexts == {"vardef", "mutvardef", "kinddefine", "exprannot", "litannot", "fnarg", "fnout", "enumpayload", "tablecol", "assignannot"}

RoundTrip(r) == r.reparses /\ r.same_tree
Idempotent(r) == r.reparses => r.idempotent
=============================================================================
