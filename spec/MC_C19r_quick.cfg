SPECIFICATION Spec
CONSTANTS
  Names = {"a", "b"}
  MaxLen = 3
  Lits = {1}
  Incs = {2}
  StepNs = {99, 0, 2}
  OneIx = {1, 2, 3}
  OneNs = {1, 2}
INVARIANTS StepAdditive SinglesCompose ImplPlanOrder NoAssignFixed Emit
PROPERTIES ErrInert QueryInert ClearFresh OnlyClearForgets StepKeepsShape
CHECK_DEADLOCK FALSE
