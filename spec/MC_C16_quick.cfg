SPECIFICATION Spec
CONSTANTS
  MaxLen = 3
  FibMax = 15
  CountBig = 50000
  Big = FALSE
INVARIANTS KernelEq FirstIsLeast SwapLaw NonOverlapPerm RecLaw RecSanity InScope Emit
CHECK_DEADLOCK FALSE
