SPECIFICATION Spec
CONSTANTS
  MaxLen = 3
  FibMax = 15
  CountBig = 50000
INVARIANTS KernelEq FirstIsLeast SwapLaw NonOverlapPerm RecLaw RecSanity Emit
CHECK_DEADLOCK FALSE
