------------------------------- MODULE MC_C19 -------------------------------
(* Bounded instance of MechPlan: every valid program of up to MaxLen statements  *)
(* over Names (a behaviour = a program being typed statement by statement).      *)
(* Checks StepAdditive / NoAssignIdempotent / PureCellsStable on the model and    *)
(* emits, per program, the expected store after interpretation and after 1..3     *)
(* re-evaluations.                                                               *)
EXTENDS MechPlan, TLC, Json

CONSTANTS Names, MaxLen, Lits, Incs

VARIABLES m, prog
vars == <<m, prog>>

Exprs == {[e |-> "lit", k |-> k, m |-> "-", p |-> "-"] : k \in Lits}
    \cup {[e |-> "addk", k |-> k, m |-> x, p |-> "-"] : k \in Incs, x \in Names}
    \cup {[e |-> "addv", k |-> 0, m |-> x, p |-> y] : x \in Names, y \in Names}

Stmts == {[s |-> "def", n |-> n, mu |-> mu, e |-> e, k |-> 0] : n \in Names, mu \in BOOLEAN, e \in Exprs}
    \cup {[s |-> "asg", n |-> n, mu |-> FALSE, e |-> e, k |-> 0] : n \in Names, e \in Exprs}
    \cup {[s |-> "op", n |-> n, mu |-> FALSE, e |-> [e |-> "lit", k |-> 0, m |-> "-", p |-> "-"], k |-> k] : n \in Names, k \in Incs}

Init == /\ m = [cells |-> <<>>, plan |-> <<>>, env |-> [n \in Names |-> 0], mut |-> {}]
        /\ prog = <<>>
Next == /\ Len(prog) < MaxLen
        /\ \E st \in Stmts : /\ StmtOk(m, st)
                             /\ m' = Interp(m, st)
                             /\ prog' = Append(prog, st)
Spec == Init /\ [][Next]_vars

NoAssign == \A i \in 1..Len(prog) : ~IsAssignStmt(prog[i])

(* n single steps = one request for n steps (the model's StepN is that composition) *)
StepAdditive == \A n \in 0..3 : StepN(m.cells, m.plan, n + 1) = Step1(StepN(m.cells, m.plan, n), m.plan)
(* a program without assignment statements is a fixed point of re-evaluation *)
NoAssignIdempotent == NoAssign => Step1(m.cells, m.plan) = m.cells
(* the model's plan has an assignment step exactly when the program has an assignment statement *)
PlanReflectsProgram == NoAssign <=> ~HasAssign(m.plan)

CaseJson ==
  [prog |-> prog, noassign |-> NoAssign,
   s0 |-> Store(m, m.cells), s1 |-> Store(m, StepN(m.cells, m.plan, 1)),
   s2 |-> Store(m, StepN(m.cells, m.plan, 2)), s3 |-> Store(m, StepN(m.cells, m.plan, 3)),
   mut |-> m.mut, nplan |-> Len(m.plan)]
Emit == (Len(prog) > 0) => PrintT(<<"CASE", ToJson(CaseJson)>>)
=============================================================================
