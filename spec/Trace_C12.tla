------------------------------ MODULE Trace_C12 ------------------------------
(* Trace validation (impl -> spec) for the clause "converting a matrix converts every element by the same rule and     *)
(* keeps its shape" where the scalar rule itself is left open by the property (integer -> narrower integer, values      *)
(* outside the target range): whatever the scalar conversion does, the matrix conversion must do the same to every      *)
(* element.  A record holds one matrix conversion and the interpreter's own scalar conversions of the same elements:    *)
(*   {src, dst, r, c, ok, resr, resc, res: [token], scal: [token | "err"]}                                               *)
EXTENDS Naturals, Sequences, FiniteSets, Json, IOUtils, TLC

Tr == ndJsonDeserialize(IOEnv.TRACE)
VARIABLE l

(* the specification of a matrix conversion in terms of the scalar one: shape kept, element p converted alone *)
MatrixConv(scal, r, c) == [ok |-> \A p \in 1..Len(scal) : scal[p] # "err", r |-> r, c |-> c, d |-> scal]

Problems(e) ==
  LET m == MatrixConv(e.scal, e.r, e.c) IN
  IF ~m.ok THEN {}                          \* some element has no scalar conversion: the matrix form may be rejected
  ELSE IF ~e.ok THEN {"rejected-although-every-element-converts"}
  ELSE IF e.resr # m.r \/ e.resc # m.c THEN {"shape-not-kept"}
  ELSE IF e.res # m.d THEN {"element-differs-from-scalar-conversion"} ELSE {}

Init == l = 1
Next == /\ l <= Len(Tr) /\ l' = l + 1
        /\ LET bad == Problems(Tr[l]) IN IF bad = {} THEN TRUE ELSE PrintT(<<"MSG", ToJson([l |-> l, rules |-> bad])>>)
Spec == Init /\ [][Next]_l
TraceAccepted ==
  IF TLCGet("stats").diameter - 1 = Len(Tr) THEN TRUE
  ELSE Print(<<"MSG", ToJson([unconsumed |-> TLCGet("stats").diameter])>>, FALSE)
=============================================================================
