SPECIFICATION Spec
CONSTANTS
  Names = {"a", "b"}
  MaxLen = 2
  Lits = {7, 2}
  Ops2 = {"add", "sub", "mul"}
INVARIANTS Faithful StepFaithful Sizes Emit
CHECK_DEADLOCK FALSE
