------------------------------- MODULE MC_C11 -------------------------------
(* Bounded instance of MechConcat for C11: every tiling of an R x C result by 1..4 rows of   *)
(* 1..4 blocks (all compositions of the height and of the width of every row), plus every    *)
(* near-miss of such a tiling (one block one unit taller / shorter / wider / narrower, or of *)
(* a different kind).  Checks that the three definitions of the literal agree and the        *)
(* structural laws of a tiling, and emits every case for replay against the interpreter.     *)
EXTENDS MechConcat, TLC, Json

CONSTANTS Dims,        \* result shapes <<R, C>> (R, C <= 4) tiled by every composition of R and of C
          MutDim,      \* near-misses are derived from the tilings of results up to MutDim x MutDim
          BigShapes,   \* larger ("dynamic") results <<R, C>> ...
          BigHParts,   \* ... tiled by at most this many rows
          BigWParts    \* ... of at most this many blocks

VARIABLE cs

DimsQuick == {<<r, c>> : r \in 1..3, c \in 1..3} \cup {<<1, 4>>, <<2, 4>>, <<4, 1>>, <<4, 2>>}
DimsThorough == {<<r, c>> : r \in 1..4, c \in 1..4}
NoBig == {}
BigThorough == {<<5, 6>>, <<9, 2>>, <<2, 9>>, <<1, 7>>, <<7, 1>>}

(* compositions of n into 1..maxparts positive parts *)
RECURSIVE Comps(_, _)
Comps(n, maxparts) ==
  IF n = 0 THEN {<<>>}
  ELSE IF maxparts = 0 THEN {}
  ELSE UNION {{<<k>> \o t : t \in Comps(n - k, maxparts - 1)} : k \in 1..n}

(* a layout is a sequence of rows of <<h, w, k>> (block height, width, kind token) *)
TilingsOf(hs, wcomps) ==
  {[i \in 1..Len(hs) |-> [j \in 1..Len(ws[i]) |-> <<hs[i], ws[i][j], 0>>]] : ws \in [1..Len(hs) -> wcomps]}

Dummy == [stage |-> 0, hs |-> <<>>, C |-> 0, wp |-> 0, rows |-> <<>>]
Partials ==
       UNION {{[stage |-> 1, hs |-> h, C |-> sh[2], wp |-> 4, rows |-> <<>>] : h \in Comps(sh[1], 4)} : sh \in Dims}
  \cup UNION {{[stage |-> 1, hs |-> h, C |-> sh[2], wp |-> BigWParts, rows |-> <<>>] : h \in Comps(sh[1], BigHParts)} : sh \in BigShapes}
Tilings(k) ==
  {[stage |-> 2, hs |-> <<>>, C |-> 0, wp |-> 0, rows |-> t] : t \in TilingsOf(k.hs, Comps(k.C, k.wp))}

(* near-misses of a tiling: block (i, j) one unit off in height or width, or of another kind *)
Mutate(rows, i, j, mu) ==
  LET b == rows[i][j]
      nb == CASE mu = "h+" -> <<b[1] + 1, b[2], b[3]>>
              [] mu = "h-" -> <<b[1] - 1, b[2], b[3]>>
              [] mu = "w+" -> <<b[1], b[2] + 1, b[3]>>
              [] mu = "w-" -> <<b[1], b[2] - 1, b[3]>>
              [] mu = "k"  -> <<b[1], b[2], 1>>
  IN [rows EXCEPT ![i][j] = nb]
Mutations(rows, i, j) ==
  {"h+", "w+"} \cup (IF rows[i][j][1] > 1 THEN {"h-"} ELSE {}) \cup (IF rows[i][j][2] > 1 THEN {"w-"} ELSE {})
  \cup (IF Len(rows) > 1 \/ Len(rows[1]) > 1 THEN {"k"} ELSE {})
Mutants(k) ==
  UNION {UNION {{[stage |-> 3, hs |-> <<>>, C |-> 0, wp |-> 0, rows |-> Mutate(k.rows, i, j, mu)]
                   : mu \in Mutations(k.rows, i, j)} : j \in 1..Len(k.rows[i])} : i \in 1..Len(k.rows)}

(* double near-misses: two blocks of ONE row off in opposite directions (one taller, one shorter), so that the cells of the row  *)
(* still add up to a rectangle of the first block's height - an aggregate cell count cannot tell them from a valid row            *)
PairMutants(k) ==
  UNION {UNION {UNION {IF j1 # j2 /\ k.rows[i][j2][1] > 1
                       THEN {[stage |-> 3, hs |-> <<>>, C |-> 0, wp |-> 0, rows |-> Mutate(Mutate(k.rows, i, j1, "h+"), i, j2, "h-")]}
                       ELSE {}
                       : j2 \in 1..Len(k.rows[i])} : j1 \in 1..Len(k.rows[i])} : i \in 1..Len(k.rows)}

RECURSIVE LayHeight(_, _), RowW(_, _)
LayHeight(lay, i) == IF i = 0 THEN 0 ELSE LayHeight(lay, i - 1) + lay[i][1][1]
RowW(row, j) == IF j = 0 THEN 0 ELSE RowW(row, j - 1) + row[j][2]
LayH(lay) == LayHeight(lay, Len(lay))
LayW(lay) == RowW(lay[1], Len(lay[1]))

Init == cs = Dummy
Next == \/ cs.stage = 0 /\ cs' \in Partials
        \/ cs.stage = 1 /\ cs' \in Tilings(cs)
        \/ cs.stage = 2 /\ LayH(cs.rows) <= MutDim /\ LayW(cs.rows) <= MutDim /\ cs' \in (Mutants(cs) \cup PairMutants(cs))
Spec == Init /\ [][Next]_cs
Done == cs.stage \in {2, 3}

(* ---- blocks of a layout: block number b (reading order) holds the tokens base_b + 1 .. base_b + h*w *)
RECURSIVE CellsBefore(_, _, _)
CellsBefore(lay, i, j) ==      \* number of cells of the blocks before block (i, j) in reading order
  IF j > 1 THEN CellsBefore(lay, i, j - 1) + lay[i][j - 1][1] * lay[i][j - 1][2]
  ELSE IF i > 1 THEN CellsBefore(lay, i - 1, Len(lay[i - 1]) + 1)
  ELSE 0
Blocks(lay) ==
  [i \in 1..Len(lay) |-> [j \in 1..Len(lay[i]) |->
     LET b == lay[i][j]
         base == CellsBefore(lay, i, j)
     IN Block(b[1], b[2], b[3], [p \in 1..(b[1] * b[2]) |-> base + p])]]
NCells(lay) == CellsBefore(lay, Len(lay), Len(lay[Len(lay)]) + 1)

Result(k) == LiteralD(Blocks(k.rows))

ClsOf(b) == IF b[1] = 1 /\ b[2] = 1 THEN "s" ELSE IF b[1] = 1 THEN "r" ELSE IF b[2] = 1 THEN "c" ELSE "m"
RECURSIVE RowPat(_, _)
RowPat(row, j) == IF j > Len(row) THEN "" ELSE (IF j > 1 THEN "," ELSE "") \o ClsOf(row[j]) \o RowPat(row, j + 1)
RECURSIVE LayPat(_, _)
LayPat(lay, i) == IF i > Len(lay) THEN "" ELSE (IF i > 1 THEN ";" ELSE "") \o RowPat(lay[i], 1) \o LayPat(lay, i + 1)

Sig(k) == "C11/literal/" \o LayPat(k.rows, 1)

Flat(res) == [ok |-> res.ok, r |-> res.r, c |-> res.c, d |-> res.d]
CaseJson(k) ==
  LET bl == Blocks(k.rows)
      res == Result(k) IN
  [rows |-> k.rows, n |-> NCells(k.rows), mut |-> (k.stage = 3),
   exp |-> IF res.ok THEN "exact" ELSE "reject", why |-> Why(bl), sig |-> Sig(k), pat |-> LayPat(k.rows, 1),
   res |-> Flat(res),
   rowres |-> [i \in 1..Len(bl) |-> Flat(HorzCat(bl[i]))]]

(* ------------------------------------------------------- model-level laws *)
(* the three definitions of the literal agree (on valid and on invalid tilings) *)
DefsAgree == Done =>
  LET bl == Blocks(cs.rows) IN
  /\ Literal(bl) = LiteralD(bl)
  /\ LiteralK(bl) = LiteralD(bl)

KernelsAgree == Done =>
  LET bl == Blocks(cs.rows) IN
  \A i \in 1..Len(bl) : HorzCatK(bl[i]) = HorzCat(bl[i])

(* accepted exactly when the tiling is valid; every enumerated tiling (stage 2) is valid *)
ValidIffOk == Done => (Valid(Blocks(cs.rows)) <=> Result(cs).ok)
TilingsValid == cs.stage = 2 => Result(cs).ok
WhyConsistent == Done => ((Why(Blocks(cs.rows)) = "none") <=> Result(cs).ok)

(* a valid literal has the summed shape and contains every element of every block exactly once *)
ShapeLaw == (Done /\ Result(cs).ok) =>
  LET res == Result(cs)
      bl == Blocks(cs.rows) IN
  /\ res.r = SumR([i \in 1..Len(bl) |-> bl[i][1]], Len(bl))
  /\ res.c = SumC(bl[1], Len(bl[1]))
  /\ Len(res.d) = res.r * res.c
  /\ res.r * res.c = NCells(cs.rows)
  /\ {res.d[p] : p \in 1..Len(res.d)} = 1..NCells(cs.rows)

(* placement: the element at (ii, jj) of block (i, j) is found at the block's offset in the result *)
Placement == (Done /\ Result(cs).ok) =>
  LET res == Result(cs)
      bl == Blocks(cs.rows) IN
  \A i \in 1..Len(bl) : \A j \in 1..Len(bl[i]) :
    \A ii \in 1..bl[i][j].r : \A jj \in 1..bl[i][j].c :
      res.d[(ColOff(bl, i, j) + jj - 1) * res.r + RowOff(bl, i) + ii] = At(bl[i][j], ii, jj)

(* horizontal and vertical concatenation are transposes of each other *)
Transpose(b) == Block(b.c, b.r, b.k, [p \in 1..(b.r * b.c) |-> At(b, ((p - 1) \div b.c) + 1, ((p - 1) % b.c) + 1)])
Duality == Done =>
  LET bl == Blocks(cs.rows) IN
  \A i \in 1..Len(bl) :
    LET h == HorzCat(bl[i])
        v == VertCatK([j \in 1..Len(bl[i]) |-> Transpose(bl[i][j])]) IN
    /\ h.ok = v.ok
    /\ h.ok => Transpose(AsBlock(h)) = AsBlock(v)

Emit == Done => PrintT(<<"CASE", ToJson(CaseJson(cs))>>)
=============================================================================
