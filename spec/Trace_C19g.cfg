SPECIFICATION TraceSpec
CONSTANTS
  Names = {}
  Vals = {}
  MaxSteps = 0
POSTCONDITION TraceAccepted
CHECK_DEADLOCK FALSE
