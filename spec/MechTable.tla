------------------------------ MODULE MechTable ------------------------------
(***************************************************************************)
(* Reference semantics of Mech's table joins and row selection (C18).      *)
(*                                                                         *)
(* A table is [cols |-> sequence of distinct column names,                 *)
(*             rows |-> sequence of rows, a row = sequence of values].     *)
(* Values are positive integers; Empty (0) is the distinguished missing    *)
(* value an outer join puts into the columns of the absent side.           *)
(*                                                                         *)
(* The joins are the relational-algebra natural joins on ALL commonly      *)
(* named columns, as BAGS (multisets) of rows: every matching pair of rows *)
(* contributes one merged row, the outer joins add each unmatched row once *)
(* padded with Empty, semi/anti join filter the left table.  Result        *)
(* columns: the left columns followed by the right-only columns (semi and  *)
(* anti: the left columns).  A column is OPTIONAL in the result iff the    *)
(* operator can leave it missing: right-only columns under left/full       *)
(* outer join, left-only columns under right/full outer join.              *)
(*                                                                         *)
(* No shared column: every pair of rows matches (the conjunction over the  *)
(* empty set of shared columns is true), so inner and outer joins are the  *)
(* cross product.  This is also the observed and documented behaviour of   *)
(* the implementation (docs/reference/table.mec: "natural-join style").    *)
(*                                                                         *)
(* JoinK is an independently written nested-loop definition producing a    *)
(* SEQUENCE of rows; MC_C18 checks BagOfSeq(JoinK) = Join and the laws.    *)
(***************************************************************************)
EXTENDS Naturals, Sequences, FiniteSets, Bags, TLC

Empty == 0
Range(s) == {s[i] : i \in DOMAIN s}

Modes == {"inner", "left", "right", "full", "semi", "anti"}

NRows(T) == Len(T.rows)
Idx(T, n) == CHOOSE i \in DOMAIN T.cols : T.cols[i] = n
Has(T, n) == \E i \in DOMAIN T.cols : T.cols[i] = n
Cell(T, i, n) == T.rows[i][Idx(T, n)]

SharedCols(L, R) == {n \in Range(L.cols) : Has(R, n)}
RightOnly(L, R)  == SelectSeq(R.cols, LAMBDA n : ~Has(L, n))        \* in the right table's order
LeftOnlySet(L, R) == {n \in Range(L.cols) : ~Has(R, n)}

Matches(L, i, R, j) == \A n \in SharedCols(L, R) : Cell(L, i, n) = Cell(R, j, n)

OutCols(L, R, mode) == IF mode \in {"semi", "anti"} THEN L.cols ELSE L.cols \o RightOnly(L, R)
OptCols(L, R, mode) ==
  CASE mode = "left"  -> Range(RightOnly(L, R))
    [] mode = "right" -> LeftOnlySet(L, R)
    [] mode = "full"  -> Range(RightOnly(L, R)) \cup LeftOnlySet(L, R)
    [] OTHER -> {}

(* rows of the result, as sequences aligned with OutCols *)
Merged(L, i, R, j) == L.rows[i] \o [k \in 1..Len(RightOnly(L, R)) |-> Cell(R, j, RightOnly(L, R)[k])]
LeftPad(L, i, R)   == L.rows[i] \o [k \in 1..Len(RightOnly(L, R)) |-> Empty]
RightPad(L, R, j)  == [k \in 1..Len(L.cols) |-> IF Has(R, L.cols[k]) THEN Cell(R, j, L.cols[k]) ELSE Empty]
                      \o [k \in 1..Len(RightOnly(L, R)) |-> Cell(R, j, RightOnly(L, R)[k])]

(* ------------------------------------------------------------- declarative *)
(* the bag { f(x) : x \in I } with multiplicities *)
BagOf(I, f(_)) == [r \in {f(x) : x \in I} |-> Cardinality({x \in I : f(x) = r})]
BagOfSeq(s) == BagOf(DOMAIN s, LAMBDA i : s[i])

MatchPairs(L, R) == {p \in (1..NRows(L)) \X (1..NRows(R)) : Matches(L, p[1], R, p[2])}
LeftMatched(L, R)  == {i \in 1..NRows(L) : \E j \in 1..NRows(R) : Matches(L, i, R, j)}
RightMatched(L, R) == {j \in 1..NRows(R) : \E i \in 1..NRows(L) : Matches(L, i, R, j)}
LeftUnmatched(L, R)  == (1..NRows(L)) \ LeftMatched(L, R)
RightUnmatched(L, R) == (1..NRows(R)) \ RightMatched(L, R)

InnerBag(L, R)    == BagOf(MatchPairs(L, R), LAMBDA p : Merged(L, p[1], R, p[2]))
LeftPadBag(L, R)  == BagOf(LeftUnmatched(L, R), LAMBDA i : LeftPad(L, i, R))
RightPadBag(L, R) == BagOf(RightUnmatched(L, R), LAMBDA j : RightPad(L, R, j))

Join(L, R, mode) ==
  CASE mode = "inner" -> InnerBag(L, R)
    [] mode = "left"  -> InnerBag(L, R) (+) LeftPadBag(L, R)
    [] mode = "right" -> InnerBag(L, R) (+) RightPadBag(L, R)
    [] mode = "full"  -> InnerBag(L, R) (+) LeftPadBag(L, R) (+) RightPadBag(L, R)
    [] mode = "semi"  -> BagOf(LeftMatched(L, R), LAMBDA i : L.rows[i])
    [] mode = "anti"  -> BagOf(LeftUnmatched(L, R), LAMBDA i : L.rows[i])

(* -------------------------------------------------- nested-loop shaped (K) *)
RECURSIVE MatchesOfK(_, _, _, _)
MatchesOfK(L, i, R, j) ==     \* right row numbers matching left row i, ascending, scanning from j
  IF j > NRows(R) THEN <<>>
  ELSE (IF Matches(L, i, R, j) THEN <<j>> ELSE <<>>) \o MatchesOfK(L, i, R, j + 1)

RowsForLeftK(L, i, R, mode) ==
  LET ms == MatchesOfK(L, i, R, 1) IN
  CASE mode = "semi" -> IF ms # <<>> THEN <<L.rows[i]>> ELSE <<>>
    [] mode = "anti" -> IF ms = <<>> THEN <<L.rows[i]>> ELSE <<>>
    [] OTHER -> IF ms = <<>>
                THEN (IF mode \in {"left", "full"} THEN <<LeftPad(L, i, R)>> ELSE <<>>)
                ELSE [k \in 1..Len(ms) |-> Merged(L, i, R, ms[k])]

RECURSIVE LeftLoopK(_, _, _, _)
LeftLoopK(L, i, R, mode) ==
  IF i > NRows(L) THEN <<>> ELSE RowsForLeftK(L, i, R, mode) \o LeftLoopK(L, i + 1, R, mode)

RECURSIVE SeenK(_, _, _, _)
SeenK(L, i, R, j) ==          \* does some left row from i on match right row j
  IF i > NRows(L) THEN FALSE ELSE IF Matches(L, i, R, j) THEN TRUE ELSE SeenK(L, i + 1, R, j)
RECURSIVE RightLoopK(_, _, _)
RightLoopK(L, R, j) ==
  IF j > NRows(R) THEN <<>>
  ELSE (IF SeenK(L, 1, R, j) THEN <<>> ELSE <<RightPad(L, R, j)>>) \o RightLoopK(L, R, j + 1)

JoinK(L, R, mode) ==
  LeftLoopK(L, 1, R, mode) \o (IF mode \in {"right", "full"} THEN RightLoopK(L, R, 1) ELSE <<>>)

(* ---------------------------------------------------------- row selection *)
ValidIndex(T, i) == i \in 1..NRows(T)
SelectRow(T, i) == T.rows[i]
ValidVector(T, ix) == \A k \in DOMAIN ix : ValidIndex(T, ix[k])
SelectVector(T, ix) == [k \in 1..Len(ix) |-> T.rows[ix[k]]]
ValidMask(T, m) == Len(m) = NRows(T)
TrueBefore(m, k) == Cardinality({q \in 1..k : m[q]})
SelectMask(T, m) ==    \* the row selected in position p is the row k that is the p-th true entry
  [p \in 1..TrueBefore(m, Len(m)) |-> T.rows[CHOOSE k \in 1..Len(m) : m[k] /\ TrueBefore(m, k) = p]]
RECURSIVE SelectMaskK(_, _, _)
SelectMaskK(T, m, k) ==
  IF k > Len(m) THEN <<>> ELSE (IF m[k] THEN <<T.rows[k]>> ELSE <<>>) \o SelectMaskK(T, m, k + 1)

(* ------------------------------------------------------------------- laws *)
BagSize(B) == BagCardinality(B)
ProjectLeft(L, row) == SubSeq(row, 1, Len(L.cols))

KernelAgrees(L, R) == \A mode \in Modes : BagOfSeq(JoinK(L, R, mode)) = Join(L, R, mode)

JoinLaws(L, R) ==
  LET inner == Join(L, R, "inner")  left == Join(L, R, "left")  right == Join(L, R, "right")
      full == Join(L, R, "full")    semi == Join(L, R, "semi")  anti == Join(L, R, "anti") IN
  /\ inner \sqsubseteq left /\ left \sqsubseteq full
  /\ inner \sqsubseteq right /\ right \sqsubseteq full
  /\ semi (+) anti = BagOfSeq(L.rows)                         \* semi and anti partition the left table
  /\ BagToSet(semi) = {ProjectLeft(L, r) : r \in BagToSet(inner)}    \* inner = semi expanded by the matches
  /\ BagSize(inner) = Cardinality(MatchPairs(L, R))
  /\ BagSize(left)  = BagSize(inner) + Cardinality(LeftUnmatched(L, R))
  /\ BagSize(right) = BagSize(inner) + Cardinality(RightUnmatched(L, R))
  /\ BagSize(full)  = BagSize(left) + BagSize(right) - BagSize(inner)
  /\ BagSize(semi) + BagSize(anti) = NRows(L)
  /\ BagSize(left) >= NRows(L) /\ BagSize(right) >= NRows(R)
  /\ SharedCols(L, R) = {} => BagSize(inner) = NRows(L) * NRows(R)          \* cross product
  /\ \A mode \in Modes : \A row \in BagToSet(Join(L, R, mode)) :
        /\ Len(row) = Len(OutCols(L, R, mode))
        /\ \A k \in 1..Len(row) : row[k] = Empty => OutCols(L, R, mode)[k] \in OptCols(L, R, mode)
  \* Empty precisely in the unmatched rows: merged rows hold no Empty; a padded row holds Empty in exactly
  \* the columns of the absent side
  /\ \A row \in BagToSet(inner) : \A k \in 1..Len(row) : row[k] # Empty
  /\ \A row \in BagToSet(LeftPadBag(L, R)) : \A k \in 1..Len(row) : (row[k] = Empty) <=> (k > Len(L.cols))
  /\ \A row \in BagToSet(RightPadBag(L, R)) :
        \A k \in 1..Len(row) : (row[k] = Empty) <=> (k <= Len(L.cols) /\ L.cols[k] \in LeftOnlySet(L, R))
=============================================================================
