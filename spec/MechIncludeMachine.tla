------------------------ MODULE MechIncludeMachine ------------------------
(***************************************************************************)
(* The include loader as an explicit stack machine (C20): one frame per    *)
(* file being expanded (line index, fence state, the pending newline of    *)
(* the include line that entered the next file); the active set is the set *)
(* of files on the stack.  Kept free of recursive operators so that the    *)
(* proof module MechIncludeProof (TLAPS) can extend it.  MechInclude adds   *)
(* the declarative characterisation and the line vocabulary's meaning.      *)
(***************************************************************************)
EXTENDS Naturals, Sequences, FiniteSets, TLC

CONSTANTS FileNames      \* names of the files that exist
Missing == "missing"

Line(k, t, nl) == [k |-> k, t |-> t, nl |-> nl]
(* a copied line appears in the output as its identity "L_<file>_<index>" (the binding maps it *)
(* back to the exact text of that line), followed by "NL" if the line ends with a newline      *)
Raw(f, i, l) == IF l.nl THEN <<"L_" \o f \o "_" \o ToString(i), "NL">> ELSE <<"L_" \o f \o "_" \o ToString(i)>>

(* ----------------------------------------------------- the stack machine *)
VARIABLES fsys, stack, out, status
mvars == <<fsys, stack, out, status>>

Frame(f) == [file |-> f, i |-> 1, fence |-> "", pendnl |-> FALSE]
Active == {stack[j].file : j \in 1..Len(stack)}

MInit(fs, root) == /\ fsys = fs
                   /\ stack = <<Frame(root)>>
                   /\ out = <<>>
                   /\ status = "run"

Top == stack[Len(stack)]
SetTop(fr) == [stack EXCEPT ![Len(stack)] = fr]

(* finish a file: pop, and emit the pending newline of the include line that entered it *)
Exit ==
  /\ status = "run" /\ Len(stack) > 0 /\ Top.i > Len(fsys[Top.file])
  /\ LET rest == SubSeq(stack, 1, Len(stack) - 1) IN
     IF rest = <<>> THEN /\ stack' = <<>> /\ status' = "ok" /\ out' = out
     ELSE LET par == rest[Len(rest)] IN
          /\ out' = IF par.pendnl THEN Append(out, "NL") ELSE out
          /\ stack' = [rest EXCEPT ![Len(rest)] = [par EXCEPT !.pendnl = FALSE]]
          /\ status' = "run"
  /\ UNCHANGED fsys

(* process one line of the file on top of the stack *)
StepLine ==
  /\ status = "run" /\ Len(stack) > 0 /\ Top.i <= Len(fsys[Top.file])
  /\ LET fr == Top
         l == fsys[fr.file][fr.i]
         adv == [fr EXCEPT !.i = fr.i + 1] IN
     IF fr.fence # ""
     THEN /\ out' = out \o Raw(fr.file, fr.i, l)
          /\ stack' = SetTop(IF l.k = "close" /\ l.t = fr.fence THEN [adv EXCEPT !.fence = ""] ELSE adv)
          /\ status' = "run"
     ELSE IF l.k = "open"
     THEN /\ out' = out \o Raw(fr.file, fr.i, l) /\ stack' = SetTop([adv EXCEPT !.fence = l.t]) /\ status' = "run"
     ELSE IF l.k = "inc"
     THEN IF l.t = Missing THEN /\ status' = "missing" /\ UNCHANGED <<out, stack>>
          ELSE IF l.t \in Active THEN /\ status' = "cycle" /\ UNCHANGED <<out, stack>>
          ELSE /\ stack' = Append(SetTop([adv EXCEPT !.pendnl = l.nl]), Frame(l.t))
               /\ out' = out /\ status' = "run"
     ELSE /\ out' = out \o Raw(fr.file, fr.i, l) /\ stack' = SetTop(adv) /\ status' = "run"
  /\ UNCHANGED fsys

MNext == Exit \/ StepLine
MDone == status # "run"

(* invariants of the machine *)
StackDistinct == \A j, k \in 1..Len(stack) : j # k => stack[j].file # stack[k].file
DepthBounded == Len(stack) <= Cardinality(FileNames)
=============================================================================
