------------------------------- MODULE MC_C17 -------------------------------
(* Bounded instance of MechFsm for C17: a family of generated transition systems (1-3 working     *)
(* states + Done, 1-3 payload fields, every working state gets one arm shape from a menu and a    *)
(* target), array-pattern machines, literal-pattern machines and ill-formed declarations, each    *)
(* run on all small inputs.                                                                       *)
EXTENDS MechFsm, TLC, Json

CONSTANTS MaxSteps,    \* transition limit (the harness sets the interpreter's max_steps to the same value)
          NS,          \* numbers of working states generated
          NF,          \* numbers of payload fields generated
          Kinds3,      \* arm shapes used when there are three working states
          MVals,       \* values of the second machine argument
          WithRev,     \* also generate every machine (up to two working states) with its arms in reverse source order
          NF3          \* numbers of payload fields generated for machines with three working states

VARIABLE cs

MVq == <<0, 2>>
MVt == <<0, 1, 3>>

SN == <<"A", "B", "C">>
FN == <<"x", "y", "z">>
X == EVar("x")  Y == EVar("y")  Z == EVar("z")
Add(a, b) == EBin("add", a, b)
Sub(a, b) == EBin("sub", a, b)
L(n) == ELit(n)
Gt(a, n) == Cond("gt", a, L(n))
Ge(a, n) == Cond("ge", a, L(n))
Eq(a, n) == Cond("eq", a, L(n))

Vars(nf) == [i \in 1..nf |-> PV(FN[i])]
(* payload updates: every field that exists changes, fields are also exchanged (payload rebinding) *)
StepP(nf) == CASE nf = 1 -> <<X>> [] nf = 2 -> <<X, Add(Y, L(1))>> [] nf = 3 -> <<X, Z, Add(Y, L(1))>>
DecP(nf)  == CASE nf = 1 -> <<Sub(X, L(1))>> [] nf = 2 -> <<Sub(X, L(1)), Add(Y, X)>> [] nf = 3 -> <<Sub(X, L(1)), Add(Y, Z), Add(Z, L(1))>>
Dec2P(nf) == CASE nf = 1 -> <<Sub(X, L(2))>> [] nf = 2 -> <<Sub(X, L(2)), Add(Y, L(7))>> [] nf = 3 -> <<Sub(X, L(2)), Z, Y>>
Acc(nf)   == CASE nf = 1 -> X [] nf = 2 -> Y [] nf = 3 -> Add(Y, Z)
Done(e) == Target("Done", <<e>>)
To(tg, P, e) == IF tg = 0 THEN Done(e) ELSE Target(SN[tg], P)

ArmKinds == {"step", "dec", "first", "first2", "stuck", "wild", "gout", "out"}
GenArm(nf, s, kd, tg) ==
  LET S == SN[s] V == Vars(nf) A == Acc(nf) IN
  CASE kd = "step"   -> TransArm(S, V, To(tg, StepP(nf), Add(A, L(1))))
    [] kd = "dec"    -> GuardArm(S, V, <<GTrans(Gt(X, 0), To(tg, DecP(nf), Add(X, L(50)))), GTrans(Eq(X, 0), Done(A))>>)
    [] kd = "first"  -> GuardArm(S, V, <<GTrans(Gt(X, 0), To(tg, DecP(nf), Add(X, L(60)))), GTrans(Gt(X, 1), Done(L(99))),
                                         GTrans(Eq(X, 0), Done(Add(A, L(1))))>>)
    [] kd = "first2" -> GuardArm(S, V, <<GTrans(Gt(X, 1), To(tg, Dec2P(nf), Add(X, L(70)))), GTrans(Gt(X, 0), To(tg, DecP(nf), Add(X, L(71)))),
                                         GTrans(Eq(X, 0), Done(Add(A, L(2))))>>)
    [] kd = "stuck"  -> GuardArm(S, V, <<GTrans(Gt(X, 2), To(tg, DecP(nf), Add(X, L(80)))), GTrans(Eq(X, 0), Done(Add(A, L(3))))>>)
    [] kd = "wild"   -> GuardArm(S, V, <<GTrans(Gt(X, 1), To(tg, DecP(nf), Add(X, L(90)))), GTrans(CAny, Done(Add(A, L(4))))>>)
    [] kd = "gout"   -> GuardArm(S, V, <<GOut(Ge(X, 2), Add(A, L(5))), GTrans(Eq(X, 1), To(tg, DecP(nf), Add(X, L(95)))), GOut(Eq(X, 0), Add(A, L(6)))>>)
    [] kd = "out"    -> OutArm(S, V, Add(A, L(7)))
DoneArm == OutArm("Done", <<PV("out")>>, EVar("out"))
DoneDecl == [name |-> "Done", arity |-> 1, kinds |-> <<"u64">>]
Decl(name, kinds) == [name |-> name, arity |-> Len(kinds), kinds |-> kinds]
Reverse(s) == [i \in 1..Len(s) |-> s[Len(s) + 1 - i]]

(* g = [nf, ns, start, sp : <<<<kind, target>>, ..>>, rev] *)
GenMachine(g) ==
  LET arms == [s \in 1..g.ns |-> GenArm(g.nf, s, g.sp[s][1], g.sp[s][2])] \o <<DoneArm>> IN
  [name |-> "Gen",
   inputs |-> IF g.nf = 1 THEN <<"n">> ELSE <<"n", "m">>,
   inkinds |-> IF g.nf = 1 THEN <<"u64">> ELSE <<"u64", "u64">>,
   outkind |-> "u64",
   declared |-> [s \in 1..g.ns |-> [name |-> SN[s], arity |-> g.nf, kinds |-> [i \in 1..g.nf |-> "u64"]]] \o <<DoneDecl>>,
   start |-> Target(SN[g.start], CASE g.nf = 1 -> <<EVar("n")>> [] g.nf = 2 -> <<EVar("n"), EVar("m")>> [] g.nf = 3 -> <<EVar("n"), EVar("m"), L(3)>>),
   arms |-> IF g.rev THEN Reverse(arms) ELSE arms]
(* inputs as sequences (stable order in the emitted case): n in 0..4, m from MVals *)
GenInputs(nf) == IF nf = 1 THEN [i \in 1..5 |-> <<NV(i - 1)>>]
                 ELSE [i \in 1..(5 * Len(MVals)) |-> <<NV((i - 1) % 5), NV(MVals[((i - 1) \div 5) + 1])>>]

(* choices for one working state: "out" has no target *)
StateSpecs(ns, kinds) == {<<kd, tg>> : kd \in kinds \ {"out"}, tg \in 0..ns} \cup (IF "out" \in kinds THEN {<<"out", 0>>} ELSE {})
KindsFor(ns) == IF ns = 3 THEN Kinds3 ELSE ArmKinds

(* ------------------------------------------------------ array-pattern machines *)
XS == EVar("xs")
ArrMachine(which) ==
  LET mk(name, nf2, start, arms, decl) ==
        [name |-> name, inputs |-> <<"xs">>, inkinds |-> <<"[u64]">>, outkind |-> "u64",
         declared |-> decl \o <<DoneDecl>>, start |-> start, arms |-> arms \o <<DoneArm>>] IN
  CASE which = "sum" ->
         mk("Sum", 2, Target("Sum", <<XS, L(0)>>),
            <<TransArm("Sum", <<PCons("h", "r"), PV("acc")>>, Target("Sum", <<EVar("r"), Add(EVar("acc"), EVar("h"))>>)),
              TransArm("Sum", <<PNil, PV("acc")>>, Done(EVar("acc")))>>, <<Decl("Sum", <<"[u64]", "u64">>)>>)
    [] which = "sumrev" ->
         mk("SumR", 2, Target("Sum", <<XS, L(0)>>),
            <<TransArm("Sum", <<PNil, PV("acc")>>, Done(EVar("acc"))),
              TransArm("Sum", <<PCons("h", "r"), PV("acc")>>, Target("Sum", <<EVar("r"), Add(EVar("acc"), EVar("h"))>>))>>, <<Decl("Sum", <<"[u64]", "u64">>)>>)
    [] which = "ends" ->
         mk("Ends", 1, Target("Scan", <<XS>>),
            <<TransArm("Scan", <<PEnds("a", "b")>>, Done(Add(EVar("a"), EVar("b")))),
              TransArm("Scan", <<POne("a")>>, Done(EVar("a")))>>, <<Decl("Scan", <<"[u64]">>)>>)
    [] which = "max" ->
         mk("Max", 1, Target("Max", <<XS>>),
            <<GuardArm("Max", <<PCons2("a", "b", "t")>>,
                       <<GTrans(Cond("gt", EVar("a"), EVar("b")), Target("Max", <<EBin("cat", EVar("a"), EVar("t"))>>)),
                         GTrans(CAny, Target("Max", <<EBin("cat", EVar("b"), EVar("t"))>>))>>),
              TransArm("Max", <<POne("a")>>, Done(EVar("a")))>>, <<Decl("Max", <<"[u64]">>)>>)
    [] which = "len" ->
         mk("Len", 2, Target("Len", <<XS, L(0)>>),
            <<TransArm("Len", <<PCons("h", "r"), PV("k")>>, Target("Len", <<EVar("r"), Add(EVar("k"), L(1))>>)),
              TransArm("Len", <<PNil, PL(2)>>, Done(L(222))),
              TransArm("Len", <<PNil, PV("k")>>, Done(EVar("k")))>>, <<Decl("Len", <<"[u64]", "u64">>)>>)
    [] which = "swap" ->      \* the state is re-entered with its ends exchanged: the SUFFIX variable must be rebound every time
         mk("Swap", 2, Target("S", <<XS, L(3)>>),
            <<GuardArm("S", <<PEnds("a", "b"), PV("k")>>,
                       <<GTrans(Gt(EVar("k"), 0), Target("S", <<EBin("cat", EVar("b"), EVar("a")), Sub(EVar("k"), L(1))>>)),
                         GTrans(Eq(EVar("k"), 0), Done(Add(EVar("b"), EVar("b"))))>>)>>, <<Decl("S", <<"[u64]", "u64">>)>>)
    [] which = "twolast" ->   \* two different states both call their last element y
         mk("TwoLast", 1, Target("P", <<XS>>),
            <<TransArm("P", <<PEnds("x", "y")>>, Target("Q", <<EBin("cat", EVar("y"), EVar("x"))>>)),
              TransArm("Q", <<PEnds("p", "y")>>, Done(Add(EVar("y"), L(100))))>>, <<Decl("P", <<"[u64]">>), Decl("Q", <<"[u64]">>)>>)
    [] which = "argname" ->   \* the machine's input has the name of the suffix variable (the pattern variable shadows it)
         [name |-> "ArgName", inputs |-> <<"xs", "y">>, inkinds |-> <<"[u64]", "u64">>, outkind |-> "u64",
          declared |-> <<Decl("P", <<"[u64]">>), DoneDecl>>, start |-> Target("P", <<XS>>),
          arms |-> <<TransArm("P", <<PEnds("x", "y")>>, Done(Add(EVar("y"), EVar("x")))), DoneArm>>]
    [] which = "tail2" ->     \* two element patterns after the spread; the guard compares them, the result tells them apart
         mk("Tail2", 1, Target("T", <<XS>>),
            <<GuardArm("T", <<PTail2("a", "b")>>,
                       <<GTrans(Cond("gt", EVar("a"), EVar("b")), Done(Add(EVar("a"), L(100)))),
                         GTrans(CAny, Done(Add(EVar("b"), L(200))))>>),
              TransArm("T", <<POne("x")>>, Done(EVar("x")))>>, <<Decl("T", <<"[u64]">>)>>)
    [] which = "ends3" ->     \* first element and the last two: 3 * first + 2 * (last but one) + last
         mk("Ends3", 1, Target("E", <<XS>>),
            <<TransArm("E", <<PEnds3("f", "a", "b")>>, Done(Add(Add(Add(Add(EVar("f"), EVar("f")), EVar("f")), Add(EVar("a"), EVar("a"))), EVar("b")))),
              TransArm("E", <<PTail2("a", "b")>>, Done(Add(Add(EVar("a"), EVar("a")), EVar("b")))),
              TransArm("E", <<POne("x")>>, Done(EVar("x")))>>, <<Decl("E", <<"[u64]">>)>>)
ArrNames == {"sum", "sumrev", "ends", "max", "len", "swap", "twolast", "argname", "tail2", "ends3"}
ArrInputs == <<<<AV(<<3>>)>>, <<AV(<<1, 2>>)>>, <<AV(<<2, 1>>)>>, <<AV(<<1, 2, 3>>)>>, <<AV(<<3, 1, 2>>)>>, <<AV(<<2, 2, 1, 4>>)>>>>

(* literal payload patterns: arms of one state told apart by a literal, in both orders *)
LitMachine(which) ==
  LET zero == TransArm("Cnt", <<PV("a"), PL(0)>>, Done(EVar("a")))
      more == TransArm("Cnt", <<PV("a"), PV("k")>>, Target("Cnt", <<Add(EVar("a"), L(2)), Sub(EVar("k"), L(1))>>))
      arms == IF which = "lit" THEN <<zero, more>> ELSE <<more, zero>> IN
  [name |-> "Cnt", inputs |-> <<"n", "m">>, inkinds |-> <<"u64", "u64">>, outkind |-> "u64",
   declared |-> <<Decl("Cnt", <<"u64", "u64">>), DoneDecl>>,
   start |-> Target("Cnt", <<EVar("m"), EVar("n")>>), arms |-> arms \o <<DoneArm>>]
LitNames == {"lit", "litrev"}

(* ------------------------------------------------------------ scope machines *)
(* arms that READ A MACHINE ARGUMENT, listed after arms whose patterns bind a variable of the same name (and are     *)
(* tried and rejected first): an arm sees the machine's arguments and its own bindings, nothing of other arms          *)
ScopeMachine(which) ==
  CASE which = "scale" ->     \* n * m by repeated addition; the first arm's pattern variable n shadows the argument n
         [name |-> "Scale", inputs |-> <<"n", "m">>, inkinds |-> <<"u64", "u64">>, outkind |-> "u64",
          declared |-> <<Decl("Loop", <<"u64", "u64">>), DoneDecl>>,
          start |-> Target("Loop", <<L(0), EVar("m")>>),
          arms |-> <<TransArm("Loop", <<PV("n"), PL(0)>>, Done(EVar("n"))),
                     TransArm("Loop", <<PV("acc"), PV("k")>>, Target("Loop", <<Add(EVar("acc"), EVar("n")), Sub(EVar("k"), L(1))>>)),
                     DoneArm>>]
    [] which = "offset" ->    \* the output arm (pattern variable named like the argument n) is listed BEFORE the arm that reads n
         [name |-> "Offset", inputs |-> <<"n", "m">>, inkinds |-> <<"u64", "u64">>, outkind |-> "u64",
          declared |-> <<Decl("Walk", <<"u64">>), DoneDecl>>,
          start |-> Target("Walk", <<EVar("m")>>),
          arms |-> <<OutArm("Done", <<PV("n")>>, EVar("n")),
                     GuardArm("Walk", <<PV("i")>>, <<GTrans(Gt(EVar("i"), 0), Target("Walk", <<Sub(EVar("i"), L(1))>>)),
                                                    GTrans(Eq(EVar("i"), 0), Done(Add(EVar("n"), L(7))))>>)>>]
ScopeNames == {"scale", "offset"}

(* ------------------------------------------- machines of the repository's tests and documentation *)
V(x) == EVar(x)
RepoMachine(which) ==
  CASE which = "fib" ->      \* tests/interpreter.rs interpret_fsm_fibonacci_accepts_typed_input
         [name |-> "Fibonacci", inputs |-> <<"n">>, inkinds |-> <<"u64">>, outkind |-> "u64",
          declared |-> <<Decl("Compute", <<"u64", "u64", "u64">>), DoneDecl>>,
          start |-> Target("Compute", <<V("n"), L(0), L(1)>>),
          arms |-> <<GuardArm("Compute", <<PV("n"), PV("a"), PV("b")>>,
                              <<GTrans(Gt(V("n"), 0), Target("Compute", <<Sub(V("n"), L(1)), V("b"), Add(V("a"), V("b"))>>)),
                                GTrans(Eq(V("n"), 0), Done(V("a")))>>),
                     OutArm("Done", <<PV("n")>>, V("n"))>>]
    [] which = "traffic" ->  \* docs/reference/state-machine.mec
         LET phase(s, nxt) == GuardArm(s, <<PV("steps")>>, <<GTrans(Gt(V("steps"), 0), Target(nxt, <<Sub(V("steps"), L(1))>>)),
                                                            GTrans(Eq(V("steps"), 0), Done(L(0)))>>) IN
         [name |-> "TrafficLight", inputs |-> <<"steps">>, inkinds |-> <<"u64">>, outkind |-> "u64",
          declared |-> <<Decl("Red", <<"u64">>), Decl("Green", <<"u64">>), Decl("Yellow", <<"u64">>), DoneDecl>>,
          start |-> Target("Red", <<V("steps")>>),
          arms |-> <<phase("Red", "Green"), phase("Green", "Yellow"), phase("Yellow", "Red"), DoneArm>>]
    [] which = "turnstile" -> \* docs/reference/state-machine.mec
         [name |-> "Turnstile", inputs |-> <<"coins">>, inkinds |-> <<"u64">>, outkind |-> "u64",
          declared |-> <<Decl("Locked", <<"u64">>), Decl("Unlocked", <<"u64">>), Decl("Spinning", <<"u64">>), DoneDecl>>,
          start |-> Target("Locked", <<V("coins")>>),
          arms |-> <<GuardArm("Locked", <<PV("coins")>>, <<GTrans(Gt(V("coins"), 0), Target("Unlocked", <<Sub(V("coins"), L(1))>>)),
                                                          GTrans(Eq(V("coins"), 0), Done(L(0)))>>),
                     TransArm("Unlocked", <<PV("coins")>>, Target("Spinning", <<V("coins")>>)),
                     TransArm("Spinning", <<PV("coins")>>, Target("Locked", <<V("coins")>>)),
                     DoneArm>>]
    [] which = "door" ->     \* tests/interpreter.rs interpret_fsm_accepts_when_all_states_are_implemented
         [name |-> "Door", inputs |-> <<"n">>, inkinds |-> <<"u64">>, outkind |-> "u64",
          declared |-> <<Decl("Closed", <<"u64">>), Decl("Open", <<"u64">>), Decl("Locked", <<"u64">>)>>,
          start |-> Target("Closed", <<V("n")>>),
          arms |-> <<TransArm("Closed", <<PV("n")>>, Target("Locked", <<V("n")>>)),
                     TransArm("Locked", <<PV("n")>>, Target("Open", <<V("n")>>)),
                     OutArm("Open", <<PV("n")>>, V("n"))>>]
    [] which = "bubble" ->   \* tests/interpreter.rs interpret_fsm_bubble_sort_returns_typed_u64_matrix
         LET cat(a, b) == EBin("cat", V(a), V(b)) IN
         [name |-> "bubble-sort", inputs |-> <<"arr">>, inkinds |-> <<"[u64]">>, outkind |-> "[u64]",
          declared |-> <<Decl("Start", <<"[u64]">>), Decl("Pass", <<"[u64]", "[u64]", "u64">>), Decl("Next", <<"[u64]", "u64">>),
                         Decl("Reverse", <<"[u64]", "[u64]", "u64">>), Decl("Done", <<"[u64]">>)>>,
          start |-> Target("Start", <<V("arr")>>),
          arms |-> <<TransArm("Start", <<PV("arr")>>, Target("Pass", <<V("arr"), ENil, L(0)>>)),
                     GuardArm("Pass", <<PCons2("a", "b", "tail"), PV("acc"), PV("swaps")>>,
                              <<GTrans(Cond("gt", V("a"), V("b")), Target("Pass", <<cat("a", "tail"), cat("b", "acc"), Add(V("swaps"), L(1))>>)),
                                GTrans(CAny, Target("Pass", <<cat("b", "tail"), cat("a", "acc"), V("swaps")>>))>>),
                     TransArm("Pass", <<POne("x"), PV("acc"), PV("swaps")>>, Target("Next", <<cat("x", "acc"), V("swaps")>>)),
                     TransArm("Pass", <<PNil, PV("acc"), PV("swaps")>>, Target("Next", <<V("acc"), V("swaps")>>)),
                     TransArm("Next", <<PV("arr"), PV("swaps")>>, Target("Reverse", <<V("arr"), ENil, V("swaps")>>)),
                     TransArm("Reverse", <<PCons("x", "tail"), PV("acc"), PV("swaps")>>, Target("Reverse", <<V("tail"), cat("x", "acc"), V("swaps")>>)),
                     TransArm("Reverse", <<PNil, PV("acc"), PL(0)>>, Target("Done", <<V("acc")>>)),
                     TransArm("Reverse", <<PNil, PV("acc"), PV("swaps")>>, Target("Pass", <<V("acc"), ENil, L(0)>>)),
                     OutArm("Done", <<PV("arr")>>, V("arr"))>>]
RepoNames == {"fib", "traffic", "turnstile", "door", "bubble"}
RepoInputs(which) ==
  IF which = "bubble" THEN <<<<AV(<<3>>)>>, <<AV(<<1, 2>>)>>, <<AV(<<2, 1>>)>>, <<AV(<<3, 1, 2>>)>>, <<AV(<<2, 2, 1>>)>>, <<AV(<<5, 3, 8, 1>>)>>, <<AV(<<4, 3, 2, 1>>)>>>>
  ELSE [i \in 1..8 |-> <<NV(i - 1)>>]
(* the repository's machines run with a larger limit (a bubble sort of four elements takes ~60 steps) *)
MaxStepsOf(k) == IF k.fam = "repo" THEN 200 ELSE MaxSteps

(* ------------------------------------------------------ ill-formed declarations *)
CounterArms(tg) == <<GuardArm("A", <<PV("x")>>, <<GTrans(Gt(X, 0), Target(tg, <<Sub(X, L(1))>>)), GTrans(Eq(X, 0), Done(L(5)))>>)>>
IllBase == [name |-> "Ill", inputs |-> <<"n">>, inkinds |-> <<"u64">>, outkind |-> "u64",
            declared |-> <<Decl("A", <<"u64">>), DoneDecl>>,
            start |-> Target("A", <<EVar("n")>>), arms |-> CounterArms("A") \o <<DoneArm>>]
QArm == TransArm("Q", <<PV("x")>>, Done(X))
IllMachine(which) ==
  CASE which = "ok"                     -> IllBase
    [] which = "undeclared-target"      -> [IllBase EXCEPT !.arms = CounterArms("Q") \o <<DoneArm>>]
    [] which = "undeclared-target-arm"  -> [IllBase EXCEPT !.arms = CounterArms("Q") \o <<QArm, DoneArm>>]
    [] which = "undeclared-start"       -> [IllBase EXCEPT !.start = Target("Q", <<EVar("n")>>), !.arms = CounterArms("A") \o <<QArm, DoneArm>>]
    [] which = "no-arm-unused"          -> [IllBase EXCEPT !.declared = <<Decl("A", <<"u64">>), Decl("T", <<"u64">>), DoneDecl>>]
    [] which = "no-arm-target"          -> [IllBase EXCEPT !.declared = <<Decl("A", <<"u64">>), Decl("T", <<"u64">>), DoneDecl>>,
                                                            !.arms = CounterArms("T") \o <<DoneArm>>]
    [] which = "output-kind"            -> [IllBase EXCEPT !.outkind = "string"]
IllNames == {"ok", "undeclared-target", "undeclared-target-arm", "undeclared-start", "no-arm-unused", "no-arm-target", "output-kind"}
IllInputs == [i \in 1..3 |-> <<NV(i - 1)>>]
(* invocations with arguments of the wrong kind or number (machine "ok"); each is <<kinds, text tokens>> *)
BadCalls == <<<<"f64">>, <<"string">>, <<"u8">>, <<"[u64]">>, <<>>, <<"u64", "u64">>>>

(* ------------------------------------------------------------ enumeration *)
Dummy == [stage |-> 0, fam |-> "gen", g |-> [nf |-> 1, ns |-> 1, start |-> 1, sp |-> <<>>, rev |-> FALSE], which |-> ""]
Revs(ns) == IF WithRev /\ ns <= 2 THEN {FALSE, TRUE} ELSE {FALSE}
Partials ==
       UNION {UNION {{[Dummy EXCEPT !.stage = 1, !.g = [nf |-> nf, ns |-> ns, start |-> st, sp |-> <<s1>>, rev |-> FALSE]]
                       : st \in 1..ns, s1 \in StateSpecs(ns, KindsFor(ns))} : ns \in {x \in NS : x < 3 \/ nf \in NF3}} : nf \in NF}
  \cup {[Dummy EXCEPT !.stage = 1, !.fam = f] : f \in {"arr", "lit", "ill", "repo", "scope"}}
RECURSIVE SpecSeqs(_, _, _)
SpecSeqs(S, ns, kinds) == IF \A s \in S : Len(s) = ns THEN S
                          ELSE SpecSeqs({Append(s, x) : s \in S, x \in StateSpecs(ns, kinds)}, ns, kinds)
Completes(k) ==
  CASE k.fam = "gen" -> {[k EXCEPT !.stage = 2, !.g.sp = sp, !.g.rev = rv] : sp \in SpecSeqs({k.g.sp}, k.g.ns, KindsFor(k.g.ns)), rv \in Revs(k.g.ns)}
    [] k.fam = "arr" -> {[k EXCEPT !.stage = 2, !.which = w] : w \in ArrNames}
    [] k.fam = "lit" -> {[k EXCEPT !.stage = 2, !.which = w] : w \in LitNames}
    [] k.fam = "ill" -> {[k EXCEPT !.stage = 2, !.which = w] : w \in IllNames}
    [] k.fam = "repo" -> {[k EXCEPT !.stage = 2, !.which = w] : w \in RepoNames}
    [] k.fam = "scope" -> {[k EXCEPT !.stage = 2, !.which = w] : w \in ScopeNames}

Init == cs = Dummy
Next == \/ cs.stage = 0 /\ cs' \in Partials
        \/ cs.stage = 1 /\ cs' \in Completes(cs)
Spec == Init /\ [][Next]_cs
Done2 == cs.stage = 2

MachineOf(k) == CASE k.fam = "gen" -> GenMachine(k.g) [] k.fam = "arr" -> ArrMachine(k.which)
                  [] k.fam = "lit" -> LitMachine(k.which) [] k.fam = "ill" -> IllMachine(k.which)
                  [] k.fam = "repo" -> RepoMachine(k.which) [] k.fam = "scope" -> ScopeMachine(k.which)
InputsOf(k) == CASE k.fam = "gen" -> GenInputs(k.g.nf)
                 [] k.fam = "arr" /\ k.which = "argname" -> [i \in 1..Len(ArrInputs) |-> ArrInputs[i] \o <<NV(7)>>]
                 [] k.fam = "arr" -> ArrInputs
                 [] k.fam = "lit" -> [i \in 1..8 |-> <<NV((i - 1) % 4), NV(5 * ((i - 1) \div 4))>>] [] k.fam = "ill" -> IllInputs
                 [] k.fam = "repo" -> RepoInputs(k.which)
                 [] k.fam = "scope" -> [i \in 1..12 |-> <<NV((i - 1) % 4), NV(<<0, 2, 3>>[((i - 1) \div 4) + 1])>>]
InputSet(k) == {InputsOf(k)[i] : i \in 1..Len(InputsOf(k))}

KindOf(v) == IF v.t = "n" THEN "u64" ELSE "[u64]"
(* expectation for an invocation with well-kinded arguments:                                         *)
(*  "reject" an ill-formed declaration, or a machine that would return a value not of its declared   *)
(*           output kind, must be an error;  "out" the value;  "limit" TransitionLimit error;        *)
(*  "free"  where the property is silent: no guard holds (halt), arithmetic without result,          *)
(*           runs ending within one step of the limit                                                *)
Expect(m, args, ms) ==
  LET r == Run(m, args, ms) IN
  IF ~WellFormed(m) THEN [exp |-> "reject", why |-> IF UndeclaredTargets(m) # {} THEN "undeclared-target"
                                                      ELSE IF StatesWithoutArm(m) # {} THEN "state-without-arm" ELSE "undeclared-arm"]
  ELSE IF r.res = "out" /\ KindOf(r.v) # m.outkind THEN [exp |-> "reject", why |-> "output-kind"]
  ELSE IF r.res = "out" /\ r.steps >= ms - 1 THEN [exp |-> "free", why |-> "near-limit"]
  ELSE IF r.res = "out" THEN [exp |-> "out", why |-> ""]
  ELSE IF r.res = "limit" THEN [exp |-> "limit", why |-> ""]
  ELSE [exp |-> "free", why |-> r.res]

StateNames(path) == [i \in 1..Len(path) |-> path[i].state]
CallJson(m, args, ms) ==
  LET r == Run(m, args, ms) e == Expect(m, args, ms) IN
  [args |-> args, exp |-> e.exp, why |-> e.why, res |-> r.res, v |-> r.v, steps |-> r.steps, path |-> StateNames(r.path)]

Shape(k) == IF k.fam = "gen" THEN [s \in 1..k.g.ns |-> k.g.sp[s][1]] ELSE <<k.which>>
CaseJson(k) ==
  LET m == MachineOf(k) ins == InputsOf(k) IN
  [fam |-> k.fam, which |-> k.which, g |-> k.g, shape |-> Shape(k), machine |-> m, maxsteps |-> MaxStepsOf(k),
   wellformed |-> WellFormed(m),
   calls |-> [i \in 1..Len(ins) |-> CallJson(m, ins[i], MaxStepsOf(k))],
   badcalls |-> IF k.fam = "ill" /\ k.which = "ok" THEN [i \in 1..Len(BadCalls) |-> [kinds |-> BadCalls[i], ok |-> ArgsOk(m, BadCalls[i])]] ELSE <<>>]

(* ------------------------------------------------------- model-level laws *)
(* along every run the loop-shaped step equals the declarative one *)
PathOk(m, path) == \A i \in 1..Len(path) : StepK(m, path[i]) = Step(m, path[i])
KernelEq == Done2 => LET m == MachineOf(cs) IN \A a \in InputSet(cs) : PathOk(m, Run(m, a, MaxStepsOf(cs)).path)

(* every run ends in output, halt, limit or an arithmetic error; the path is a chain of Step *)
RunShape == Done2 =>
  LET m == MachineOf(cs) IN
  \A a \in InputSet(cs) :
    LET r == Run(m, a, MaxStepsOf(cs)) IN
    /\ r.res \in {"out", "halt", "limit", "err"}
    /\ r.steps <= MaxStepsOf(cs)
    /\ r.res = "limit" <=> (r.steps = MaxStepsOf(cs) /\ Len(r.path) = MaxStepsOf(cs) + 1)
    /\ \A i \in 1..(Len(r.path) - 1) : Step(m, r.path[i]).kind = "trans" /\ Step(m, r.path[i]).cfg = r.path[i + 1]
    /\ r.res = "out" => Step(m, r.path[Len(r.path)]).kind = "out" /\ Step(m, r.path[Len(r.path)]).v = r.v
    /\ r.res = "halt" => Step(m, r.path[Len(r.path)]).kind = "halt"

(* the selected candidate fires and no earlier candidate does (first guard wins) *)
FirstWins == Done2 =>
  LET m == MachineOf(cs) IN
  \A a \in InputSet(cs) :
    LET r == Run(m, a, MaxStepsOf(cs)) IN
    \A i \in 1..Len(r.path) :
      LET s == Step(m, r.path[i]) IN
      IF s.kind = "halt" THEN \A c \in Cands(m) : ~Fires(m, r.path[i], c)
      ELSE Fires(m, r.path[i], s.cand) /\ \A c \in Cands(m) : Before(c, s.cand) => ~Fires(m, r.path[i], c)

(* the generated and the fixed well-formed families are well-formed; the ill-formed ones are not (except "ok", "output-kind") *)
FamilyShape == Done2 => (WellFormed(MachineOf(cs)) <=> (cs.fam # "ill" \/ cs.which \in {"ok", "output-kind"}))

(* a terminating run never ends within one step of the limit (so "near-limit" stays unused) *)
LimitMargin == Done2 => \A a \in InputSet(cs) : LET r == Run(MachineOf(cs), a, MaxStepsOf(cs)) IN r.res = "out" => r.steps < MaxStepsOf(cs) - 1

(* the model reproduces what the repository's tests assert for its machines *)
RepoResults == (Done2 /\ cs.fam = "repo") =>
  LET m == MachineOf(cs) IN
  /\ cs.which = "fib" => Run(m, <<NV(7)>>, 200).v = NV(13)
  /\ cs.which = "door" => Run(m, <<NV(1)>>, 200).v = NV(1)
  /\ cs.which = "traffic" => Run(m, <<NV(6)>>, 200).v = NV(0)
  /\ cs.which = "bubble" => Run(m, <<AV(<<5, 3, 8, 1>>)>>, 200).v = AV(<<1, 3, 5, 8>>)

Emit == Done2 => PrintT(<<"CASE", ToJson(CaseJson(cs))>>)
=============================================================================
