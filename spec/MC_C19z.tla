------------------------------ MODULE MC_C19z ------------------------------
(* The "kernel zoo" for re-evaluation (C19): every (function family, operand shape, element kind) of the bounded   *)
(* universe below names one program WITHOUT assignments whose plan holds one step of that stdlib family in that      *)
(* storage form.  MechStepGen says such a program is a fixed point of re-evaluation, that n single steps equal one  *)
(* request for n, and that instances agree; each program is run on the real interpreter and its step events are      *)
(* validated by TLC (Trace_C19g).  Combinations the language does not accept simply produce no step events.          *)
EXTENDS Naturals, Sequences, TLC, Json

Families == {"add", "sub", "mul", "div", "mod", "pow", "neg", "lt", "ge", "eq", "ne", "and", "or", "xor", "not",
             "transpose", "matmul", "solve", "dot", "sumrow", "sumcol",
             "horz2", "horz3", "horz4", "horz5", "vert2", "vert3", "vert4", "vert5", "block22",
             "rng", "rngi", "rngs", "rngsi",
             "idx_s", "idx_v", "idx_r", "idx_a", "idx_m", "idx_ss", "idx_sa", "idx_as", "idx_vv", "idx_va", "idx_av", "idx_mm", "idx_ma",
             "conv_up", "conv_down", "reshape", "toset",
             "union", "inter", "diff", "symdiff", "subset", "superset", "member", "setcomp", "matcomp",
             "join_inner", "join_left", "join_right", "join_full", "join_semi", "join_anti", "tblsel_i", "tblsel_v", "tblsel_m", "tblcol",
             "strcat", "recfield", "tupaccess", "mapaccess", "sin", "max", "min", "fncall", "matchexpr", "scalar_bcast_l", "scalar_bcast_r",
             "row_bcast", "col_bcast"}
ShapesZ == {"scalar", "row3", "col3", "mat22", "mat23", "mat32", "mat44"}
KindsZ == {"f64", "u8", "i64", "bool", "string", "r64"}

VARIABLE z
InitZ == z = [stage |-> 0, fam |-> "add", shape |-> "scalar", kind |-> "f64"]
NextZ == z.stage = 0 /\ \E f \in Families, s \in ShapesZ, k \in KindsZ : z' = [stage |-> 1, fam |-> f, shape |-> s, kind |-> k]
SpecZ == InitZ /\ [][NextZ]_z
EmitZ == z.stage = 1 => PrintT(<<"CASE", ToJson([fam |-> z.fam, shape |-> z.shape, kind |-> z.kind])>>)
=============================================================================
