SPECIFICATION Spec
CONSTANTS
  Shapes <- ShapesThorough
  FullMaskDim = 4
  VecDim = 4
  Ops <- OpsAll
INVARIANTS Frame WrittenIsSource KernelEq ReadBack ShapeKept Emit
CHECK_DEADLOCK FALSE
