--------------------------- MODULE MechSessionGen ---------------------------
(***************************************************************************)
(* The interpreter session over OPAQUE values (C05, generic form).          *)
(*                                                                         *)
(* MechSession models six concrete value classes; this module abstracts     *)
(* from what a value is, so that it applies to every statement of every     *)
(* program the repository contains (all value kinds, all expression forms). *)
(* A value is a token; the specification does not compute values, it says   *)
(* WHERE a statement may change the state and when it must fail:            *)
(*                                                                         *)
(*   store : function from the defined names to value tokens                *)
(*   mut   : the set of mutable names                                       *)
(*   act   : the statement just executed  [kind, targets, mutable, from,    *)
(*           annotated, ok]                                                 *)
(*                                                                         *)
(* One action per statement kind; ANY statement may fail (its expression    *)
(* may be ill-kinded, out of range, ...), and a failing statement changes   *)
(* nothing.  `Violations` is the judge used by trace validation             *)
(* (Trace_C05g): the set of rules an observed step (s, mu) -e-> (s2, mu2)    *)
(* breaks.  TLC checks on the bounded instance that every step of THIS      *)
(* specification is accepted by the judge (JudgeAcceptsSpec), that steps    *)
(* outside it are rejected (mutated steps, MC_C05g), and the four action    *)
(* properties of C05.                                                       *)
(***************************************************************************)
EXTENDS Naturals, Sequences, FiniteSets, TLC

CONSTANTS Names, Vals

VARIABLES store, mut, act
vars == <<store, mut, act>>

Def(s, n) == n \in DOMAIN s
NoName == "-"

Ev(kind, targets, mutable, from, annotated, ok) ==
  [kind |-> kind, targets |-> targets, mutable |-> mutable, from |-> from, annotated |-> annotated, ok |-> ok]

EmptyStore == [n \in {} |-> NoName]

Init == /\ store = EmptyStore
        /\ mut = {}
        /\ act = Ev("Init", {}, FALSE, NoName, FALSE, TRUE)

(* ------------------------------------------------------------------ actions *)
(* n := v   /   ~n := v   (v is whatever the right-hand side evaluated to)      *)
DoDefine(n, flag, v) ==
  /\ ~Def(store, n)
  /\ store' = store @@ (n :> v)
  /\ mut' = IF flag THEN mut \cup {n} ELSE mut
  /\ act' = Ev("Define", {n}, flag, NoName, FALSE, TRUE)

(* n := m : the value of m is copied                                            *)
DoDefineFromVar(n, m, flag) ==
  /\ ~Def(store, n) /\ Def(store, m)
  /\ store' = store @@ (n :> store[m])
  /\ mut' = IF flag THEN mut \cup {n} ELSE mut
  /\ act' = Ev("Define", {n}, flag, m, FALSE, TRUE)

(* n = v, n[i] = v, n.f = v : only n changes, n must be defined and mutable      *)
DoAssign(kind, n, v) ==
  /\ Def(store, n) /\ n \in mut
  /\ store' = [store EXCEPT ![n] = v]
  /\ mut' = mut
  /\ act' = Ev(kind, {n}, FALSE, NoName, FALSE, TRUE)

(* (n1, n2) := (v1, v2) : both names new and distinct, defined immutable         *)
DoDestructure(n1, n2, v1, v2) ==
  /\ n1 # n2 /\ ~Def(store, n1) /\ ~Def(store, n2)
  /\ store' = store @@ (n1 :> v1) @@ (n2 :> v2)
  /\ mut' = mut
  /\ act' = Ev("Destructure", {n1, n2}, FALSE, NoName, FALSE, TRUE)

(* an expression statement, a function / kind / enum definition: no variable changes *)
DoEval(kind) ==
  /\ UNCHANGED <<store, mut>>
  /\ act' = Ev(kind, {}, FALSE, NoName, FALSE, TRUE)

(* any statement may fail; a failing statement changes nothing                    *)
DoFail(kind, targets) ==
  /\ UNCHANGED <<store, mut>>
  /\ act' = Ev(kind, targets, FALSE, NoName, FALSE, FALSE)

Next ==
  \/ \E n \in Names, v \in Vals, f \in BOOLEAN : DoDefine(n, f, v)
  \/ \E n \in Names, m \in Names, f \in BOOLEAN : DoDefineFromVar(n, m, f)
  \/ \E n \in Names, v \in Vals, k \in {"Assign", "OpAssign"} : DoAssign(k, n, v)
  \/ \E n1 \in Names, n2 \in Names, v1 \in Vals, v2 \in Vals : DoDestructure(n1, n2, v1, v2)
  \/ \E k \in {"Expression", "FunctionDefine"} : DoEval(k)
  \/ \E k \in {"Define", "Assign", "OpAssign", "Destructure", "Expression"}, T \in SUBSET Names :
        Cardinality(T) <= 2 /\ DoFail(k, T)

Spec == Init /\ [][Next]_vars

(* ------------------------------------------------------- properties (C05) *)
ImmutableStable == [][\A n \in DOMAIN store : n \notin mut => (Def(store', n) /\ store'[n] = store[n])]_vars
NoInterference  == [][\A n \in DOMAIN store : n \notin act'.targets => (Def(store', n) /\ store'[n] = store[n])]_vars
FailureAtomic   == [][~act'.ok => (store' = store /\ mut' = mut)]_vars
NamesMonotone   == [][\A n \in DOMAIN store : Def(store', n) /\ ((n \in mut) <=> (n \in mut'))]_vars
RejectsBadTargets ==
  [][/\ (act'.kind \in {"Define", "Destructure"} /\ \E n \in act'.targets : Def(store, n)) => ~act'.ok
     /\ (act'.kind \in {"Assign", "OpAssign"} /\ \E n \in act'.targets : (~Def(store, n) \/ n \notin mut)) => ~act'.ok]_vars
TypeOK == /\ DOMAIN store \subseteq Names
          /\ mut \subseteq DOMAIN store

(* ------------------------------------------------------------------ judge *)
(* The rules an observed step breaks.  e is an event record as above;          *)
(* (s, mu) the state before, (s2, mu2) the state observed after.               *)
Violations(s, mu, e, s2, mu2) ==
  LET T == e.targets
      D == DOMAIN s
      D2 == DOMAIN s2
      both == D \cap D2
      defk == e.kind \in {"Define", "Destructure"}
      asgk == e.kind \in {"Assign", "OpAssign"}
  IN   (IF ~e.ok /\ (s2 # s \/ mu2 # mu) THEN {"FailureAtomic"} ELSE {})
  \cup (IF \E n \in D : n \notin D2 THEN {"NamesMonotone"} ELSE {})
  \cup (IF \E n \in both : (n \in mu) # (n \in mu2) THEN {"MutabilityChanged"} ELSE {})
  \cup (IF \E n \in both : n \notin T /\ s2[n] # s[n] THEN {"NoInterference"} ELSE {})
  \cup (IF \E n \in both : n \notin mu /\ s2[n] # s[n] THEN {"ImmutableStable"} ELSE {})
  \cup (IF defk /\ e.ok /\ \E n \in T : n \in D THEN {"RedefinitionAccepted"} ELSE {})
  \cup (IF defk /\ e.ok /\ \E n \in T : n \notin D2 THEN {"DefineIncomplete"} ELSE {})
  \cup (IF asgk /\ e.ok /\ \E n \in T : n \notin D THEN {"AssignUndefinedAccepted"} ELSE {})
  \cup (IF asgk /\ e.ok /\ \E n \in T : n \in D /\ n \notin mu THEN {"AssignImmutableAccepted"} ELSE {})
  \cup (IF e.kind = "Define" /\ e.ok /\ \E n \in T \cap D2 : n \notin D /\ ((n \in mu2) # e.mutable) THEN {"DefineMutability"} ELSE {})
  \cup (IF e.kind = "Destructure" /\ e.ok /\ \E n \in T \cap D2 : n \notin D /\ n \in mu2 THEN {"DestructureMutability"} ELSE {})
  \cup (IF e.kind = "Define" /\ e.ok /\ ~e.annotated /\ e.from \in D /\ \E n \in T \cap D2 : n \notin D /\ s2[n] # s[e.from]
        THEN {"CopyLaw"} ELSE {})

(* every step of the specification is accepted by the judge *)
JudgeAcceptsSpec == [][Violations(store, mut, act', store', mut') = {}]_vars
=============================================================================
