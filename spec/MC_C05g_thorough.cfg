SPECIFICATION Spec
CONSTANTS
  Names = {"a", "b", "c"}
  Vals = {"v1", "v2"}
INVARIANT TypeOK
PROPERTY ImmutableStable
PROPERTY NoInterference
PROPERTY FailureAtomic
PROPERTY NamesMonotone
PROPERTY RejectsBadTargets
PROPERTY JudgeAcceptsSpec
PROPERTY JudgeRejectsMutants
CHECK_DEADLOCK FALSE
