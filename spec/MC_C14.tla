------------------------------- MODULE MC_C14 -------------------------------
(* Bounded instance of MechSet for C14.  Families of cases:                        *)
(*   "one"  a written sequence (order and repeats matter to the implementation,    *)
(*          not to the model): the set it denotes, its size, membership of every   *)
(*          universe element, and every one-generator comprehension shape;         *)
(*   "two"  a PAIR of written sequences: all eight binary operators/relations and  *)
(*          (for the shorter pairs) every two-generator comprehension shape;       *)
(*   "big"  thorough only: pseudo-randomly drawn pairs of 5-6 element sequences    *)
(*          over a universe of 6 ids (sets of up to 6 elements), operators only.   *)
(* Invariants check the loop-shaped definitions against the declarative ones and   *)
(* the algebraic laws on every enumerated case; Emit prints the case for replay.   *)
EXTENDS MechSet, Json

CONSTANTS N,        \* universe 1..N of element ids of the exhaustive families
          OneLen,   \* max length of the written sequence in family "one"
          MaxLen,   \* max length of each written sequence in family "two"
          NBig,     \* size of the element universe of family "big" (sets of up to NBig distinct elements)
          CompLen,  \* pairs with both lengths <= CompLen also carry the comprehension shapes
          BigN, BigM  \* family "big": BigN first sequences, BigM second sequences each

VARIABLE cs

Seqs(n) == UNION {[1..k -> 1..N] : k \in 0..n}

(* the 2-tuples behind the element ids when the element kind is a tuple kind; the *)
(* components are ids 1..3 of a component universe (used by the pattern shapes)     *)
TupleOf == << <<1, 2>>, <<2, 1>>, <<2, 3>>, <<3, 3>>, <<3, 1>>, <<1, 1>> >>
CompDom == 1..3

ElSrc(s) == [i \in 1..Len(s) |-> <<s[i]>>]
TpSrc(s) == [i \in 1..Len(s) |-> TupleOf[s[i]]]

(* ------------------------------------------------------ comprehension shapes *)
(* dom "el": variables range over element ids (works for every element kind);   *)
(* dom "tp": sources are sets of 2-tuples, patterns destructure them.            *)
(* need: what the concrete kind must support: any | eq (== and !=) | ord (< ...) *)
(*       | num (+)                                                               *)
Shape(id, dom, need, quals, y) == [id |-> id, dom |-> dom, need |-> need, quals |-> quals, y |-> y]

OneShapes(sa) ==
  LET A == Gen(<<"x">>, ElSrc(sa), "A")
      T == Gen(<<"a", "b">>, TpSrc(sa), "A")
      D == Gen(<<"a", "a">>, TpSrc(sa), "A") IN
     << Shape("o1", "el", "any", <<A>>, YVar("x")),
        Shape("o5", "el", "any", <<A>>, YTup("x", "x")),
        Shape("o6", "el", "any", <<A>>, YConst(2)),
        Shape("o7", "el", "num", <<A>>, YSum("x", "x")),
        Shape("o4a", "el", "ord", <<A, FltC(">=", "x", 2), FltC("!=", "x", 3)>>, YVar("x")),
        Shape("o4b", "el", "ord", <<A, FltC(">=", "x", 1), FltC("!=", "x", 4)>>, YVar("x")),
        Shape("o9", "el", "ord", <<A, FltC("<", "x", 4), FltC(">", "x", 1)>>, YVar("x")),
        Shape("o8a", "el", "eq", <<A, FltC("==", "x", 1)>>, YVar("x")),
        Shape("o8b", "el", "eq", <<A, FltC("==", "x", 3)>>, YVar("x")),
        Shape("t1", "tp", "tup", <<T>>, YVar("a")),
        Shape("t2", "tp", "tup", <<T>>, YTup("b", "a")),
        Shape("t3", "tp", "tup", <<D>>, YVar("a")),
        Shape("t4a", "tp", "tup", <<T, FltC("==", "b", 2)>>, YVar("a")),
        Shape("t4b", "tp", "tup", <<T, FltC("==", "b", 3)>>, YVar("a")),
        Shape("t5", "tp", "tup", <<T, FltV("<", "a", "b")>>, YTup("a", "b")),
        Shape("t6", "tp", "tup", <<T>>, YSum("a", "b")),
        Shape("t7", "tp", "tup", <<T, FltV("!=", "a", "b"), FltC("<=", "a", 2)>>, YVar("b")) >>
  \o [c \in 1..4 |-> Shape("o2", "el", "eq", <<A, FltC("!=", "x", c)>>, YVar("x"))]
  \o [c \in 1..3 |-> Shape("o3", "el", "ord", <<A, FltC(">", "x", c)>>, YVar("x"))]

TwoShapes(sa, sb) ==
  LET A  == Gen(<<"x">>, ElSrc(sa), "A")
      B  == Gen(<<"y">>, ElSrc(sb), "B")
      Bx == Gen(<<"x">>, ElSrc(sb), "B")
      P  == Gen(<<"a", "b">>, TpSrc(sa), "A")
      Q  == Gen(<<"b", "c">>, TpSrc(sb), "B")
      Qi == Gen(<<"b", "a">>, TpSrc(sb), "B")
      Qs == Gen(<<"a", "b">>, TpSrc(sb), "B")
      Qc == Gen(<<"c", "b">>, TpSrc(sb), "B")
      Qd == Gen(<<"c", "d">>, TpSrc(sb), "B") IN
  << Shape("p1", "el", "any", <<A, B>>, YTup("x", "y")),
     Shape("p2", "el", "any", <<A, Bx>>, YVar("x")),
     Shape("p3", "el", "eq", <<A, B, FltV("==", "x", "y")>>, YVar("x")),
     Shape("p4", "el", "eq", <<A, B, FltV("!=", "x", "y")>>, YTup("x", "y")),
     Shape("p5a", "el", "ord", <<A, B, FltV("<", "x", "y"), FltC("!=", "y", 3)>>, YTup("x", "y")),
     Shape("p5b", "el", "ord", <<A, FltC("!=", "x", 1), B, FltV("<", "x", "y")>>, YTup("x", "y")),
     Shape("p6", "el", "eq", <<A, B, FltV("!=", "x", "y")>>, YVar("x")),
     Shape("p7", "el", "any", <<A, B>>, YVar("y")),
     Shape("p8", "el", "num", <<A, B>>, YSum("x", "y")),
     Shape("p9", "el", "ord", <<A, B, FltV("<=", "x", "y"), FltV("<=", "y", "x")>>, YVar("x")),
     Shape("p10", "el", "ord", <<A, B, FltV(">", "x", "y")>>, YTup("y", "x")),
     Shape("q1", "tp", "tup", <<P, Q>>, YTup("a", "c")),
     Shape("q2", "tp", "tup", <<P, Q, FltV("!=", "a", "c")>>, YTup("a", "c")),
     Shape("q3", "tp", "tup", <<P, Qi>>, YVar("a")),
     Shape("q4", "tp", "tup", <<P, Qs>>, YTup("a", "b")),
     Shape("q5", "tp", "tup", <<P, Qc, FltV("<", "a", "c")>>, YVar("b")),
     Shape("q6", "tp", "tup", <<P, Qd, FltV("==", "b", "c"), FltC("!=", "d", 3)>>, YTup("a", "d")) >>

ResOf(sh) == Comprehension(sh.quals, sh.y, IF sh.dom = "el" THEN 1..N ELSE CompDom)

(* ------------------------------------------------------------- enumeration *)
Lcg(x) == (75 * x + 74) % 65537
RECURSIVE LcgN(_, _)
LcgN(x, n) == IF n = 0 THEN x ELSE LcgN(Lcg(x), n - 1)
BigSeq(seed) ==
  LET len == 5 + ((LcgN(seed, 1) \div 11) % 5) IN
  [i \in 1..len |-> ((LcgN(seed, 1 + i) \div 7) % NBig) + 1]

Dummy == [stage |-> 0, fam |-> "one", a |-> <<>>, b |-> <<>>, k |-> 0]
Partials ==
       {[stage |-> 1, fam |-> "one", a |-> s, b |-> <<>>, k |-> 0] : s \in Seqs(OneLen)}
  \cup {[stage |-> 1, fam |-> "two", a |-> s, b |-> <<>>, k |-> 0] : s \in Seqs(MaxLen)}
  \cup {[stage |-> 1, fam |-> "big", a |-> BigSeq(1000 + 37 * k), b |-> <<>>, k |-> k] : k \in 1..BigN}
Completes(c) ==
  CASE c.fam = "one" -> {[c EXCEPT !.stage = 2]}
    [] c.fam = "two" -> {[c EXCEPT !.stage = 2, !.b = s] : s \in Seqs(MaxLen)}
    [] c.fam = "big" -> {[c EXCEPT !.stage = 2, !.b = BigSeq(20000 + 101 * c.k + 13 * j)] : j \in 1..BigM}

Init == cs = Dummy
Next == \/ cs.stage = 0 /\ cs' \in Partials
        \/ cs.stage = 1 /\ cs' \in Completes(cs)
Spec == Init /\ [][Next]_cs
Done == cs.stage = 2

HasComps(c) == c.fam = "two" /\ Len(c.a) <= CompLen /\ Len(c.b) <= CompLen
ShapesOf(c) == IF c.fam = "one" THEN OneShapes(c.a) ELSE IF HasComps(c) THEN TwoShapes(c.a, c.b) ELSE <<>>

CompJson(sh) ==
  [id |-> sh.id, dom |-> sh.dom, need |-> sh.need, y |-> sh.y,
   quals |-> [i \in DOMAIN sh.quals |-> [q |-> sh.quals[i].q, pat |-> sh.quals[i].pat, n |-> sh.quals[i].n, f |-> sh.quals[i].f]],
   res |-> ResOf(sh)]

CaseJson(c) ==
  LET A == FromWritten(c.a)
      B == FromWritten(c.b)
      U == IF c.fam = "big" THEN 6 ELSE N
      shapes == ShapesOf(c) IN
  [fam |-> c.fam, a |-> c.a, b |-> c.b, u |-> U, exp |-> "exact",
   sig |-> "C14/" \o c.fam,
   A |-> A, B |-> B, sizeA |-> Size(A), sizeB |-> Size(B),
   mem |-> [e \in 1..U |-> ElementOf(e, A)],
   union |-> Union(A, B), inter |-> Inter(A, B), diff |-> Diff(A, B), sym |-> SymDiff(A, B),
   sub |-> Subset(A, B), sup |-> Superset(A, B), psub |-> PSubset(A, B), psup |-> PSuperset(A, B),
   comps |-> [i \in DOMAIN shapes |-> CompJson(shapes[i])]]

(* ------------------------------------------------------- model-level laws *)
KernelEq == Done => KernelAgrees(cs.a, cs.b)
AlgebraLaws == Done => Algebra(cs.a, cs.b)

CompKernel == Done =>
  LET shapes == ShapesOf(cs) IN
  \A i \in DOMAIN shapes :
     LET k == ComprehensionK(shapes[i].quals, shapes[i].y) IN
     NoDup(k) /\ Range(k) = ResOf(shapes[i])

(* comprehension shapes against the operators and against direct set-builder definitions *)
Named(shapes, id) == ResOf(shapes[CHOOSE i \in DOMAIN shapes : shapes[i].id = id])
Wrap(S) == {<<e>> : e \in S}
CompLaws == Done =>
  LET A == FromWritten(cs.a)
      B == FromWritten(cs.b)
      TA == {TupleOf[e] : e \in A}
      TB == {TupleOf[e] : e \in B}
      sh == ShapesOf(cs) IN
  /\ cs.fam = "one" =>
       /\ Named(sh, "o1") = Wrap(A)
       /\ Named(sh, "o5") = {<<e, e>> : e \in A}
       /\ Named(sh, "o6") = (IF A = {} THEN {} ELSE {<<2>>})
       /\ Named(sh, "o7") = {<<2 * e>> : e \in A}
       /\ Named(sh, "o4a") = Wrap({e \in A : e >= 2 /\ e # 3})
       /\ Named(sh, "o9") = Wrap(A \cap {2, 3})
       /\ Named(sh, "o8a") = Wrap(A \cap {1})
       /\ Named(sh, "t1") = {<<t[1]>> : t \in TA}
       /\ Named(sh, "t2") = {<<t[2], t[1]>> : t \in TA}
       /\ Named(sh, "t3") = {<<t[1]>> : t \in {u \in TA : u[1] = u[2]}}
       /\ Named(sh, "t5") = {t \in TA : t[1] < t[2]}
       /\ Named(sh, "t6") = {<<t[1] + t[2]>> : t \in TA}
  /\ HasComps(cs) =>
       /\ Named(sh, "p1") = {<<x, y>> : x \in A, y \in B}
       /\ Named(sh, "p2") = Wrap(Inter(A, B))
       /\ Named(sh, "p3") = Wrap(Inter(A, B))
       /\ Named(sh, "p9") = Wrap(Inter(A, B))
       /\ Named(sh, "p4") = {<<x, y>> : x \in A, y \in B} \ {<<e, e>> : e \in 1..N}
       /\ Named(sh, "p6") = Wrap({x \in A : B \ {x} # {}})
       /\ Named(sh, "p7") = (IF A = {} THEN {} ELSE Wrap(B))
       /\ Named(sh, "p8") = {<<x + y>> : x \in A, y \in B}
       /\ Named(sh, "p10") = {<<y, x>> : x \in A, y \in B} \cap {t \in (1..N) \X (1..N) : t[2] > t[1]}
       /\ Named(sh, "q1") = {<<p[1], q[2]>> : p \in TA, q \in TB} \cap
                            {t \in CompDom \X CompDom : \E m \in CompDom : <<t[1], m>> \in TA /\ <<m, t[2]>> \in TB}
       /\ Named(sh, "q3") = {<<t[1]>> : t \in {u \in TA : <<u[2], u[1]>> \in TB}}
       /\ Named(sh, "q4") = TA \cap TB

Emit == Done => PrintT(<<"CASE", ToJson(CaseJson(cs))>>)
=============================================================================
