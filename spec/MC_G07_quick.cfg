SPECIFICATION Spec
CONSTANTS
  Words = {"cd", "clc", "clear", "docs", "d", "help", "h", "load", "ls", "plan", "p", "quit", "q", "step", "symbols", "s", "whos", "w", "code", "c",
           "stepx", "clearx", "sx", "px", "hx", "zap", "cdx", "steps", "lsd", "wh", ""}
  ArgPool <- ArgPoolDef
  Terms = {"", "n", "rn"}
  Gaps = {1, 2}
INVARIANTS TermIrrelevant ShortLaw NoPrefixCommands Emit
CHECK_DEADLOCK FALSE
