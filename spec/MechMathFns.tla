----------------------------- MODULE MechMathFns -----------------------------
(* Named functions of the standard library whose results are exact on rationals (machines/math: rounding, arithmetic,   *)
(* root; machines/compare: max, min; machines/combinatorics: n-choose-k; machines/string: concat), specified on the      *)
(* exact-rational scalar of MechScalar.  Every function is given twice - declaratively (the characterising inequality    *)
(* or equation) and operationally (the usual integer-division formula) - and TLC checks that the two agree on the whole  *)
(* bounded domain before a case is emitted.  Functions of matrices are the elementwise map of the scalar function        *)
(* (MapFn), except n-choose-k of a vector, which lists the k-element combinations as columns in lexicographic order.     *)
EXTENDS MechScalar, FiniteSets

Q(n, d) == Num(n, d)
QAdd(a, b) == Num(a.n * b.d + b.n * a.d, a.d * b.d)
QSub(a, b) == Num(a.n * b.d - b.n * a.d, a.d * b.d)
QMul(a, b) == Num(a.n * b.n, a.d * b.d)
QDiv(a, b) == Num(a.n * b.d, a.d * b.n)
QLe(a, b) == ~Less(b, a)
QAbs(a) == Num(Abs(a.n), a.d)
Sign(a) == IF a.n < 0 THEN -1 ELSE IF a.n > 0 THEN 1 ELSE 0

(* ---------------------------------------------------------------- rounding: operational (integer division) *)
FloorI(a) == a.n \div a.d                       \* TLA+ \div rounds towards minus infinity (d > 0)
CeilI(a)  == -((-a.n) \div a.d)
TruncI(a) == IF a.n >= 0 THEN FloorI(a) ELSE CeilI(a)
RoundI(a) == Sign(a) * ((2 * Abs(a.n) + a.d) \div (2 * a.d))            \* half away from zero
RoundEvenI(a) == LET f == FloorI(a)
                     twice == 2 * (a.n - f * a.d)                       \* 2 * fractional part * d
                 IN IF twice < a.d THEN f
                    ELSE IF twice > a.d THEN f + 1
                    ELSE IF f % 2 = 0 THEN f ELSE f + 1

(* ---------------------------------------------------------------- rounding: declarative *)
IsFloor(a, k) == QLe(IntV(k), a) /\ Less(a, IntV(k + 1))
IsCeil(a, k)  == Less(IntV(k - 1), a) /\ QLe(a, IntV(k))
IsTrunc(a, k) == IF a.n >= 0 THEN IsFloor(a, k) ELSE IsCeil(a, k)
Dist(a, k) == QAbs(QSub(a, IntV(k)))
IsNearest(a, k) == \A j \in {k - 1, k + 1} : QLe(Dist(a, k), Dist(a, j))
Tie(a, k) == Dist(a, k) = Q(1, 2)
IsRound(a, k) == IsNearest(a, k) /\ (Tie(a, k) => Abs(k) > Abs(TruncI(a)) \/ a.n = 0)     \* ties away from zero
IsRoundEven(a, k) == IsNearest(a, k) /\ (Tie(a, k) => k % 2 = 0)                          \* ties to even

(* ---------------------------------------------------------------- arithmetic helpers *)
FmodQ(x, y) == QSub(x, QMul(y, IntV(TruncI(QDiv(x, y)))))               \* sign of x, |r| < |y|
RemainderQ(x, y) == QSub(x, QMul(y, IntV(RoundEvenI(QDiv(x, y)))))      \* IEEE remainder: |r| <= |y| / 2
CopySignQ(x, y) == IF y.n < 0 THEN Num(-Abs(x.n), x.d) ELSE QAbs(x)
MaxQ(a, b) == IF Less(a, b) THEN b ELSE a
MinQ(a, b) == IF Less(b, a) THEN b ELSE a

(* ---------------------------------------------------------------- binomial coefficients: two definitions *)
RECURSIVE Fact(_)
Fact(n) == IF n = 0 THEN 1 ELSE n * Fact(n - 1)
ChooseF(n, k) == IF k > n THEN 0 ELSE Fact(n) \div (Fact(k) * Fact(n - k))
RECURSIVE ChooseP(_, _)
ChooseP(n, k) == IF k = 0 THEN 1 ELSE IF n = 0 THEN 0 ELSE ChooseP(n - 1, k - 1) + ChooseP(n - 1, k)   \* Pascal
(* the multiplicative loop the implementation family uses: prod_{i=1..k} (n - k + i) / i, exact at every step *)
RECURSIVE ChooseM(_, _, _, _)
ChooseM(n, k, i, acc) == IF i > k THEN acc ELSE ChooseM(n, k, i + 1, (acc * (n - k + i)) \div i)
ChooseL(n, k) == IF k > n THEN 0 ELSE ChooseM(n, k, 1, 1)

(* combinations of the positions 1..n taken k at a time, as increasing sequences, in lexicographic order *)
IncSeqs(n, k) == {s \in [1..k -> 1..n] : \A i \in 1..(k - 1) : s[i] < s[i + 1]}
LexLess(s, t) == \E i \in DOMAIN s : s[i] < t[i] /\ \A j \in 1..(i - 1) : s[j] = t[j]
RECURSIVE SortLex(_)
SortLex(S) == IF S = {} THEN <<>>
              ELSE LET m == CHOOSE s \in S : \A t \in S \ {s} : LexLess(s, t) IN <<m>> \o SortLex(S \ {m})
Combos(n, k) == SortLex(IncSeqs(n, k))

(* perfect powers *)
IsSqrt(x, r) == r.n >= 0 /\ QMul(r, r) = x
IsCbrt(x, r) == QMul(QMul(r, r), r) = x

(* ---------------------------------------------------------------- the function table *)
Unary == {"floor", "ceil", "trunc", "round", "roundeven", "rint", "abs"}
Binary == {"fmod", "remainder", "copysign", "max", "min"}

UnaryFn(f, a) ==
  CASE f = "floor" -> IntV(FloorI(a))
    [] f = "ceil" -> IntV(CeilI(a))
    [] f = "trunc" -> IntV(TruncI(a))
    [] f = "round" -> IntV(RoundI(a))
    [] f \in {"roundeven", "rint"} -> IntV(RoundEvenI(a))
    [] f = "abs" -> QAbs(a)

BinaryFn(f, x, y) ==
  CASE f = "fmod" -> FmodQ(x, y)
    [] f = "remainder" -> RemainderQ(x, y)
    [] f = "copysign" -> CopySignQ(x, y)
    [] f = "max" -> MaxQ(x, y)
    [] f = "min" -> MinQ(x, y)

(* a function of a matrix is the elementwise map (the pairing of two operands is MechBroadcast's) *)
MapFn(f, xs) == [i \in DOMAIN xs |-> UnaryFn(f, xs[i])]
=============================================================================
