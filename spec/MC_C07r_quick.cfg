SPECIFICATION Spec
CONSTANTS
  MaxLen = 2
INVARIANTS AllWellFormed RoundTripInv SizeInv InjectiveHead Emit
CHECK_DEADLOCK FALSE
