---------------------------- MODULE MechBytecode ----------------------------
(***************************************************************************)
(* Compilation of the evaluation plan to bytecode, loading and running it   *)
(* in a fresh machine (C06).  Implementation-shaped:                        *)
(*  - values live in cells; a plan step is [op, out, args] over cells;      *)
(*  - Compile walks the plan: every cell gets a register on first use (the  *)
(*    step's out first, then its arguments in order); before each step one  *)
(*    ConstLoad per operand loads the cell's CURRENT value from a fresh     *)
(*    constant; then one instruction [op, dst, srcs] follows;               *)
(*  - Load/Run: registers are filled by the ConstLoads, the plan is rebuilt  *)
(*    over registers, the result is the register of the last instruction;   *)
(*  - Step re-solves the rebuilt plan.                                      *)
(* Laws checked by TLC: Faithful (run result = interpreter result),         *)
(* StepFaithful (one re-evaluation of the loaded program = one              *)
(* re-evaluation of the original, cell by cell through the register map).   *)
(***************************************************************************)
EXTENDS Naturals, Integers, Sequences, FiniteSets

N(v) == [t |-> "num", n |-> v, s |-> "", b |-> FALSE]
S(x) == [t |-> "str", n |-> 0, s |-> x, b |-> FALSE]
B(x) == [t |-> "bool", n |-> 0, s |-> "", b |-> x]

Step(op, out, args) == [op |-> op, out |-> out, args |-> args]

ArithOps == {"add", "sub", "mul"}
Bin(op, a, b) == CASE op = "add" -> a + b [] op = "sub" -> a - b [] op = "mul" -> a * b

Solve(cells, s) ==
  CASE s.op \in ArithOps -> [cells EXCEPT ![s.out] = N(Bin(s.op, cells[s.args[1]].n, cells[s.args[2]].n))]
    [] s.op = "assign" -> [cells EXCEPT ![s.out] = cells[s.args[1]]]
    [] s.op \in {"addassign", "subassign", "mulassign"} ->
         [cells EXCEPT ![s.out] = N(Bin(CASE s.op = "addassign" -> "add" [] s.op = "subassign" -> "sub" [] OTHER -> "mul",
                                        cells[s.out].n, cells[s.args[1]].n))]
    [] s.op = "vardef" -> cells                          \* a variable definition has nothing to recompute
    [] s.op = "neg" -> [cells EXCEPT ![s.out] = N(0 - cells[s.args[1]].n)]

RECURSIVE RunFrom(_, _, _)
RunFrom(cells, plan, i) == IF i > Len(plan) THEN cells ELSE RunFrom(Solve(cells, plan[i]), plan, i + 1)
Step1(cells, plan) == RunFrom(cells, plan, 1)

(* ------------------------------------------------------------ interpretation *)
(* operand o == [k |-> "lit", v, n |-> ""] | [k |-> "var", v |-> 0, n]           *)
OperandOk(m, o) == IF o.k = "lit" THEN TRUE ELSE m.env[o.n] # 0
OperandCell(m, o) ==
  IF o.k = "lit" THEN [m |-> [m EXCEPT !.cells = Append(m.cells, N(o.v))], c |-> Len(m.cells) + 1]
  ELSE [m |-> m, c |-> m.env[o.n]]

Push(m, s) == [m EXCEPT !.cells = Solve(m.cells, s), !.plan = Append(m.plan, s)]
NewCell(m, v) == [m |-> [m EXCEPT !.cells = Append(m.cells, v)], c |-> Len(m.cells) + 1]

(* value of an expression e == [op, l, r] (op = "" : the single operand l; op = "neg": -l) *)
ExprOk(m, e) == OperandOk(m, e.l) /\ (IF e.op \in ArithOps THEN OperandOk(m, e.r) ELSE TRUE)
EvalExpr(m, e) ==
  LET a == OperandCell(m, e.l) IN
  IF e.op = "" THEN a
  ELSE IF e.op = "neg"
  THEN LET o == NewCell(a.m, N(0)) IN [m |-> Push(o.m, Step("neg", o.c, <<a.c>>)), c |-> o.c]
  ELSE LET b == OperandCell(a.m, e.r)
           o == NewCell(b.m, N(0)) IN
       [m |-> Push(o.m, Step(e.op, o.c, <<a.c, b.c>>)), c |-> o.c]

(* n := e / ~n := e : the name is bound to the result cell; a vardef step records name and mutability *)
StmtOk(m, st) ==
  CASE st.s = "def" -> m.env[st.n] = 0 /\ ExprOk(m, st.e) /\ ~(st.e.op = "" /\ st.e.l.k = "var")
    [] st.s = "asg" -> m.env[st.n] # 0 /\ st.n \in m.mut /\ ExprOk(m, st.e)
    [] st.s = "opa" -> m.env[st.n] # 0 /\ st.n \in m.mut /\ ExprOk(m, st.e)
    [] st.s = "eval" -> ExprOk(m, st.e) /\ st.e.op # ""
Interp(m, st) ==
  LET r == EvalExpr(m, st.e) IN
  CASE st.s = "def" ->
         LET nm == NewCell(r.m, S(st.n))
             mu == NewCell(nm.m, B(st.mu))
             m2 == Push(mu.m, Step("vardef", r.c, <<nm.c, mu.c>>)) IN
         [m2 EXCEPT !.env = [m2.env EXCEPT ![st.n] = r.c], !.mut = IF st.mu THEN m2.mut \cup {st.n} ELSE m2.mut]
    [] st.s = "asg" -> Push(r.m, Step("assign", r.m.env[st.n], <<r.c>>))
    [] st.s = "opa" -> Push(r.m, Step(st.aop, r.m.env[st.n], <<r.c>>))
    [] st.s = "eval" -> r.m

(* --------------------------------------------------------------- compilation *)
CLoad(dst, cid) == [k |-> "const", op |-> "", dst |-> dst, srcs |-> <<cid>>]
Instr(op, dst, srcs) == [k |-> "op", op |-> op, dst |-> dst, srcs |-> srcs]

(* compile state: regs : cell -> register + 1 (0 = none), nreg, consts, code *)
RECURSIVE CompileOperands(_, _, _, _), CompileSteps(_, _, _, _)
CompileOperands(cs, cells, ops, i) ==
  IF i > Len(ops) THEN cs
  ELSE LET c == ops[i]
           fresh == cs.regs[c] = 0
           r == IF fresh THEN cs.nreg ELSE cs.regs[c] - 1
           cs2 == [cs EXCEPT !.regs = IF fresh THEN [cs.regs EXCEPT ![c] = cs.nreg + 1] ELSE cs.regs,
                             !.nreg = IF fresh THEN cs.nreg + 1 ELSE cs.nreg,
                             !.consts = Append(cs.consts, cells[c]),
                             !.code = Append(cs.code, CLoad(r, Len(cs.consts)))] IN
       CompileOperands(cs2, cells, ops, i + 1)
CompileSteps(cs, cells, plan, i) ==
  IF i > Len(plan) THEN cs
  ELSE LET s == plan[i]
           cs2 == CompileOperands(cs, cells, <<s.out>> \o s.args, 1)
           reg(c) == cs2.regs[c] - 1 IN
       CompileSteps([cs2 EXCEPT !.code = Append(cs2.code, Instr(s.op, reg(s.out), [q \in 1..Len(s.args) |-> reg(s.args[q])]))],
                    cells, plan, i + 1)
Compile(m) ==
  CompileSteps([regs |-> [c \in 1..Len(m.cells) |-> 0], nreg |-> 0, consts |-> <<>>, code |-> <<>>], m.cells, m.plan, 1)

(* ------------------------------------------------------------- load and run *)
RECURSIVE LoadRegs(_, _, _, _)
LoadRegs(regs, code, consts, i) ==
  IF i > Len(code) THEN regs
  ELSE LoadRegs(IF code[i].k = "const" THEN [regs EXCEPT ![code[i].dst + 1] = consts[code[i].srcs[1] + 1]] ELSE regs, code, consts, i + 1)
Loaded(p) ==
  LET ops == SelectSeq(p.code, LAMBDA ins : ins.k = "op") IN
  [cells |-> LoadRegs([r \in 1..p.nreg |-> N(0)], p.code, p.consts, 1),
   plan |-> [q \in 1..Len(ops) |-> Step(ops[q].op, ops[q].dst + 1, [j \in 1..Len(ops[q].srcs) |-> ops[q].srcs[j] + 1])]]
RunResult(p) == LET l == Loaded(p) IN l.cells[l.plan[Len(l.plan)].out]
=============================================================================
