SPECIFICATION Spec
CONSTANTS
  Names <- NamesQ
  LitPool <- LitsPart
  ActKinds = {"Define", "AssignFromPart", "Assign", "Eval"}
  MaxScalar = 7
VIEW View
INVARIANT TypeOK
PROPERTIES ImmutableStable NoInterference FailureAtomic NamesMonotone
ACTION_CONSTRAINT EmitEdge
CHECK_DEADLOCK FALSE
