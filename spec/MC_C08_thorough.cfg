SPECIFICATION Spec
CONSTANTS
  StmtSet <- StmtForms
  RootForms <- Forms
INVARIANTS WellFormed Emit
CHECK_DEADLOCK FALSE
