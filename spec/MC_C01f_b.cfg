SPECIFICATION Spec
CONSTANTS
  P = 4
  Emin <- EminB
  Emax = 0
INVARIANTS Agree InSet ExactKept SignSym Commutes HalfUlp Emit
CHECK_DEADLOCK FALSE
