----------------------------- MODULE MechScalar -----------------------------
(***************************************************************************)
(* Exact scalar semantics of Mech's arithmetic, comparison and logical     *)
(* operators on the part of the value domain TLC can represent exactly:    *)
(* rationals n/d (integers, dyadic floats, r64 fractions), booleans and    *)
(* strings.  A scalar is the uniform record [t, n, d, b, s].               *)
(*                                                                         *)
(* A kind class describes which rationals a kind represents:               *)
(*   [c |-> "int", lo, hi]   integers in lo..hi  (u8, i8, and "wide" kinds *)
(*                           whose real bounds exceed every pool value)    *)
(*   [c |-> "flt"]           dyadic rationals (exact in f32 and f64 for    *)
(*                           the magnitudes used here)                     *)
(*   [c |-> "rat"]           every rational                                *)
(* ScalarOp returns [def, v]: def = FALSE where the property leaves the    *)
(* result unspecified (not representable, inexact, division by zero,       *)
(* operator not defined for the kind); then only consistency is demanded.  *)
(***************************************************************************)
EXTENDS Naturals, Integers, Sequences

Abs(x) == IF x < 0 THEN -x ELSE x
RECURSIVE GCD(_, _)
GCD(a, b) == IF b = 0 THEN a ELSE GCD(b, a % b)

Num(n, d) == LET g == GCD(Abs(n), Abs(d))
                 s == IF d < 0 THEN -1 ELSE 1
             IN [t |-> "num", n |-> (s * n) \div g, d |-> (s * d) \div g, b |-> FALSE, s |-> ""]
IntV(n)  == [t |-> "num", n |-> n, d |-> 1, b |-> FALSE, s |-> ""]
BoolV(x) == [t |-> "bool", n |-> 0, d |-> 1, b |-> x, s |-> ""]
StrV(x)  == [t |-> "str", n |-> 0, d |-> 1, b |-> FALSE, s |-> x]
Undef   == [def |-> FALSE, v |-> IntV(0)]
Def(x)  == [def |-> TRUE, v |-> x]

IntClass(lo, hi) == [c |-> "int", lo |-> lo, hi |-> hi]
FltClass == [c |-> "flt", lo |-> 0, hi |-> 0]
RatClass == [c |-> "rat", lo |-> 0, hi |-> 0]

IsPow2(x) == x \in {1, 2, 4, 8, 16, 32, 64, 128, 256, 512, 1024}

Representable(cls, q) ==
  CASE cls.c = "int" -> q.d = 1 /\ q.n >= cls.lo /\ q.n <= cls.hi
    [] cls.c = "flt" -> IsPow2(q.d)
    [] cls.c = "rat" -> TRUE

Fit(cls, q) == IF Representable(cls, q) THEN Def(q) ELSE Undef

RECURSIVE IPow(_, _)
IPow(a, k) == IF k = 0 THEN 1 ELSE a * IPow(a, k - 1)

ArithOps == {"+", "-", "*", "/", "%", "^"}
CmpOps   == {"==", "!=", "<", "<=", ">", ">="}
LogicOps == {"&&", "||", "xor"}

Less(a, b) == a.n * b.d < b.n * a.d

ScalarOp(op, cls, a, b) ==
  CASE op = "+" -> Fit(cls, Num(a.n * b.d + b.n * a.d, a.d * b.d))
    [] op = "-" -> Fit(cls, Num(a.n * b.d - b.n * a.d, a.d * b.d))
    [] op = "*" -> Fit(cls, Num(a.n * b.n, a.d * b.d))
    [] op = "/" -> IF b.n = 0 THEN Undef ELSE Fit(cls, Num(a.n * b.d, a.d * b.n))
    [] op = "%" -> IF a.d = 1 /\ b.d = 1 /\ a.n >= 0 /\ b.n > 0 /\ cls.c # "rat"
                   THEN Fit(cls, IntV(a.n % b.n)) ELSE Undef
    [] op = "^" -> IF a.d = 1 /\ b.d = 1 /\ b.n >= 0 /\ b.n <= 6 /\ cls.c \in {"flt", "int"}
                   THEN Fit(cls, IntV(IPow(a.n, b.n))) ELSE Undef
    [] op = "==" -> Def(BoolV(a = b))
    [] op = "!=" -> Def(BoolV(a # b))
    [] op = "<"  -> IF a.t = "num" THEN Def(BoolV(Less(a, b))) ELSE Undef
    [] op = "<=" -> IF a.t = "num" THEN Def(BoolV(~Less(b, a))) ELSE Undef
    [] op = ">"  -> IF a.t = "num" THEN Def(BoolV(Less(b, a))) ELSE Undef
    [] op = ">=" -> IF a.t = "num" THEN Def(BoolV(~Less(a, b))) ELSE Undef
    [] op = "&&" -> Def(BoolV(a.b /\ b.b))
    [] op = "||" -> Def(BoolV(a.b \/ b.b))
    [] op = "xor" -> Def(BoolV(a.b # b.b))

UnaryOp(op, cls, a) ==
  CASE op = "neg" -> IF cls.c = "int" /\ cls.lo = 0 THEN Undef ELSE Fit(cls, Num(-a.n, a.d))
    [] op = "not" -> Def(BoolV(~a.b))

=============================================================================
