---------------------------- MODULE MechBytefile ----------------------------
(***************************************************************************)
(* Bytecode files (C07): layout, fault taxonomy and the loader's verdict.   *)
(*                                                                         *)
(* Layout.  A file is header (129 bytes) ++ features ++ types ++ constant   *)
(* table ++ constant blob ++ symbols ++ instructions ++ dictionary ++ CRC   *)
(* trailer (4 bytes).  LayoutInv states what every EMITTED file satisfies;   *)
(* it is checked by TLC on the header scalars of every emitted program.     *)
(*                                                                         *)
(* Faults.  [kind, region, width, value, fixcrc]:                            *)
(*   trunc   cut the file inside the region (any length < total)            *)
(*   flip    one flipped bit inside the region                              *)
(*   burst   `width` <= 32 consecutive bits xor-ed (first and last set)     *)
(*   append  extra bytes after the trailer                                  *)
(*   set     a header length/offset/count field overwritten with a          *)
(*           boundary value, checksum RECOMPUTED (fixcrc)                   *)
(*   raw     arbitrary bytes                                                *)
(* Verdict.  The CRC-32 trailer detects every burst of at most 32 bits and   *)
(* every change of length, so trunc / flip / burst / append must be          *)
(* REJECTED; no fault whatsoever may make the loader, the constant decoder   *)
(* or run_program panic, hang or allocate without bound ("nocrash").         *)
(***************************************************************************)
EXTENDS Naturals, Sequences, FiniteSets

HeaderSize == 129
TrailerSize == 4

(* header as a record of naturals (all the loader's scalars) *)
LayoutInv(h, total) ==
  /\ h.version = 1
  /\ h.feature_off = HeaderSize
  /\ h.feature_off + 4 + 8 * h.feature_count = h.types_off
  /\ h.types_off < h.const_tbl_off
  /\ h.const_tbl_len = 24 * h.const_count
  /\ h.const_tbl_off + h.const_tbl_len = h.const_blob_off
  /\ h.const_blob_off + h.const_blob_len <= h.symbols_off
  /\ h.symbols_off + h.symbols_len <= h.instr_off
  /\ h.instr_off + h.instr_len <= h.dict_off
  /\ h.dict_off + h.dict_len + TrailerSize = total
  /\ h.instr_count >= 1 /\ h.reg_count >= 1
  /\ h.nconst = h.const_count /\ h.ninstr = h.instr_count

Regions == {"magic", "version", "counts", "offsets", "lengths", "features", "types", "const-table", "const-blob",
            "symbols", "instrs", "dict", "trailer"}
HeaderFields == {"reg_count", "instr_count", "feature_count", "feature_off", "types_count", "types_off", "const_count",
                 "const_tbl_off", "const_tbl_len", "const_blob_off", "const_blob_len", "symbols_len", "symbols_off",
                 "instr_off", "instr_len", "dict_off", "dict_len"}
BoundaryValues == {"zero", "one", "len-1", "len", "len+1", "2^31", "2^32-1", "2^63", "2^64-1", "x2", "half"}
BurstWidths == {2, 7, 8, 9, 16, 31, 32}

Fault(k, r, w, f, v, fix) == [kind |-> k, region |-> r, width |-> w, field |-> f, value |-> v, fixcrc |-> fix]

Faults ==
       {Fault("trunc", r, 0, "-", "-", FALSE) : r \in Regions}
  \cup {Fault("flip", r, 1, "-", "-", FALSE) : r \in Regions}
  \cup {Fault("burst", r, w, "-", "-", FALSE) : r \in Regions, w \in BurstWidths}
  \cup {Fault("append", "trailer", 0, "-", "-", FALSE)}
  \cup {Fault("set", "header", 0, f, v, TRUE) : f \in HeaderFields, v \in BoundaryValues}
  \cup {Fault("set", "const-table", 0, f, v, TRUE) : f \in {"entry.type_id", "entry.enc", "entry.offset", "entry.length"}, v \in BoundaryValues}
  \cup {Fault("set", "instrs", 0, f, v, TRUE) : f \in {"byte"}, v \in {"zero", "one", "2^32-1", "x2"}}
  \cup {Fault("raw", "-", 0, "-", "-", FALSE), Fault("raw", "-", 0, "-", "-", TRUE)}

MustReject(f) == f.kind \in {"trunc", "flip", "burst", "append"}
Verdict(f) == IF MustReject(f) THEN "reject" ELSE "nocrash"
=============================================================================
