------------------------------- MODULE MC_G03 -------------------------------
(* Bounded instance of MechSetMore for growth area G03.  Staged enumeration:          *)
(*   stage 0 -> 1  an element kind and a WRITTEN sequence a over the ids of that kind  *)
(*                 (order and repeats matter to the implementation, not to the model); *)
(*                 family "big": a pseudo-randomly drawn sequence of 5-9 ids out of 6  *)
(*   stage 1 -> 2  one function application on it (fn) seen under one aspect (asp):    *)
(*     unary   powerset (value, size = 2^n, powerset of the powerset, mutable operand) *)
(*             size (of a variable, of a literal, of a mutable variable)               *)
(*     element insert / remove with every element e of the universe (value, applied    *)
(*             twice, size, undone by the opposite function, membership of e in the    *)
(*             result, mutable operands), not-element-of (symbol, word); elem-var: the *)
(*             element is a variable next to a LITERAL set (insert, remove, not-       *)
(*             element-of, element-of; keyed G03/<fn>/any/elem-var)                    *)
(*             cross-kind: the element is a value of ANOTHER kind                      *)
(*     binary  with every written sequence b: cartesian-product (value, size,          *)
(*             membership of every pair of the universe, (A x B) x A, mutable),        *)
(*             disjoint, equals (also of the two powersets), not-equals,               *)
(*             proper-subset / proper-superset (symbol, second symbol, word),          *)
(*             complement (docs: set/complement(U, A)), B element of powerset(A),      *)
(*             insert / remove folded over the elements of b                           *)
(*             cross-kind: B is a set of another element kind                          *)
(* One CASE line per (kind, a, fn, asp, b / e).  sig = G03/<fn>/<kind>/<asp>-<class>,  *)
(* class = how the operands relate (empty / present / fresh / equal / psub / ...);     *)
(* every case whose evaluation inserts into an empty set: G03/insert/<kind>/into-empty *)
EXTENDS MechSetMore, Json

CONSTANTS Kinds,        \* element kinds (names; the area module maps (kind, id) to concrete values and spellings)
          CrossKinds,   \* kinds used as "the other kind" of the cross-kind aspects
          N,            \* ids 1..N for every kind but bool (2 ids)
          ULen,         \* max written length: unary family
          ELen,         \* max written length: element family
          BLen,         \* max written length of each sequence: binary family
          XLen,         \* max written length of each sequence: cross-kind binary family
          TwiceMax,     \* powerset of the powerset for sets of up to TwiceMax elements
          BigKinds, BigN, BigM   \* family big: for each kind in BigKinds, BigN first sequences with BigM second sequences each

VARIABLE cs

KN(k) == IF k = "bool" THEN 2 ELSE N
NBig  == 6
Seqs(n, len) == UNION {[1..k -> 1..n] : k \in 0..len}
Max(x, y) == IF x > y THEN x ELSE y
TopLen == Max(ULen, Max(ELen, BLen))

Lcg(x) == (75 * x + 74) % 65537
RECURSIVE LcgN(_, _)
LcgN(x, n) == IF n = 0 THEN x ELSE LcgN(Lcg(x), n - 1)
BigSeq(seed) ==
  LET len == 5 + ((LcgN(seed, 1) \div 11) % 5) IN
  [i \in 1..len |-> ((LcgN(seed, 1 + i) \div 7) % NBig) + 1]

(* ------------------------------------------------------------------ cases *)
Op(fn, asp, b, e, k2) == [fn |-> fn, asp |-> asp, b |-> b, e |-> e, k2 |-> k2]
XAsp == "cross-kind"          \* the operand B / the element e is read in kind k2 # kind

UnaryOps(k, a) ==
  IF Len(a) > ULen THEN {}
  ELSE      {Op("powerset", asp, <<>>, 0, k) : asp \in {"value", "size", "mutable"}}
       \cup {Op("size", asp, <<>>, 0, k) : asp \in {"value", "literal", "mutable"}}
       \cup (IF Cardinality(Range(a)) <= TwiceMax THEN {Op("powerset", "twice", <<>>, 0, k)} ELSE {})

ElemOps(k, a) ==
  IF Len(a) > ELen THEN {}
  ELSE      {Op("insert", asp, <<>>, e, k) : asp \in {"value", "idempotent", "size", "then-remove", "member", "mutable"}, e \in 1..KN(k)}
       \cup {Op("remove", asp, <<>>, e, k) : asp \in {"value", "idempotent", "size", "then-insert", "member", "mutable"}, e \in 1..KN(k)}
       \cup {Op("not-element-of", asp, <<>>, e, k) : asp \in {"symbol", "word"}, e \in 1..KN(k)}
       (* the element is given as a VARIABLE and the set as a literal (every other aspect: literal element, or both variables) *)
       \cup {Op(fn, "elem-var", <<>>, e, k) : fn \in {"insert", "remove", "not-element-of", "element-of"}, e \in 1..KN(k)}
       (* an empty set has no element kind: the cross-kind aspects need a non-empty A *)
       \cup (IF a = <<>> THEN {} ELSE {Op(fn, XAsp, <<>>, 1, k2) : fn \in {"insert", "remove", "not-element-of"}, k2 \in CrossKinds \ {k}})

BinFns ==
       {<<"cartesian-product", asp>> : asp \in {"value", "size", "member", "nested", "mutable"}}
  \cup {<<"disjoint", asp>> : asp \in {"value", "mutable"}}
  \cup {<<"equals", asp>> : asp \in {"value", "of-powersets", "mutable"}}
  \cup {<<"not-equals", "value">>, <<"complement", "value">>, <<"powerset", "member">>, <<"insert", "fold">>, <<"remove", "fold">>}
  \cup {<<fn, asp>> : fn \in {"proper-subset", "proper-superset"}, asp \in {"symbol", "symbol2", "word"}}

BinOps(k, a) ==
  (IF Len(a) > BLen THEN {}
   ELSE {Op(f[1], f[2], b, 0, k) : f \in BinFns, b \in Seqs(KN(k), BLen)})
  \cup
  (IF Len(a) > XLen THEN {}
   ELSE UNION {{Op(fn, XAsp, b, 0, k2) : fn \in {"cartesian-product", "disjoint", "equals"}, b \in Seqs(KN(k2), XLen)}
                 : k2 \in CrossKinds \ {k}})

BigOps(c) ==
  {Op(f[1], f[2], BigSeq(20000 + 101 * c.n + 13 * j), 0, c.kind)
     : f \in {<<"cartesian-product", "value">>, <<"cartesian-product", "size">>, <<"disjoint", "value">>, <<"equals", "value">>,
              <<"equals", "of-powersets">>, <<"insert", "fold">>, <<"remove", "fold">>, <<"powerset", "member">>,
              <<"proper-subset", "symbol">>, <<"proper-superset", "symbol">>},
       j \in 1..BigM}
  \cup {Op("powerset", asp, <<>>, 0, c.kind) : asp \in {"value", "size"}}
  \cup {Op(fn, "value", <<>>, e, c.kind) : fn \in {"insert", "remove"}, e \in 1..NBig}

NoOp  == Op("-", "-", <<>>, 0, "-")
Dummy == [stage |-> 0, fam |-> "std", kind |-> "-", a |-> <<>>, n |-> 0, o |-> NoOp]
Partials ==
       {[stage |-> 1, fam |-> "std", kind |-> k, a |-> s, n |-> 0, o |-> NoOp] : k \in Kinds \ {"bool"}, s \in Seqs(N, TopLen)}
  \cup (IF "bool" \in Kinds THEN {[stage |-> 1, fam |-> "std", kind |-> "bool", a |-> s, n |-> 0, o |-> NoOp] : s \in Seqs(2, TopLen)} ELSE {})
  \cup {[stage |-> 1, fam |-> "big", kind |-> k, a |-> BigSeq(1000 + 37 * n), n |-> n, o |-> NoOp] : k \in BigKinds, n \in 1..BigN}
Completes(c) ==
  IF c.fam = "big" THEN {[c EXCEPT !.stage = 2, !.o = o] : o \in BigOps(c)}
  ELSE {[c EXCEPT !.stage = 2, !.o = o] : o \in UnaryOps(c.kind, c.a) \cup ElemOps(c.kind, c.a) \cup BinOps(c.kind, c.a)}

Init == cs = Dummy
Next == \/ cs.stage = 0 /\ cs' \in Partials
        \/ cs.stage = 1 /\ cs' \in Completes(cs)
Spec == Init /\ [][Next]_cs
Done == cs.stage = 2

(* ------------------------------------------------------------ expectations *)
Universe(c) == IF c.fam = "big" THEN NBig ELSE KN(c.kind)
ProbePairs(n) == [i \in 1..(n * n) |-> <<((i - 1) \div n) + 1, ((i - 1) % n) + 1>>]

Unary   == {"value", "size", "twice", "mutable", "literal"}
IsElem(o) == o.e # 0
IsCross(o, c) == o.k2 # c.kind

UClass(A) == IF A = {} THEN "empty" ELSE "nonempty"
EClass(A, e) == IF A = {} THEN "empty" ELSE IF e \in A THEN "present" ELSE "fresh"
BClass(A, B) ==
  CASE A = {} /\ B = {} -> "both-empty"
    [] A = {}           -> "left-empty"
    [] B = {}           -> "right-empty"
    [] A = B            -> "equal"
    [] PSubset(A, B)    -> "psub"
    [] PSuperset(A, B)  -> "psup"
    [] Disjoint(A, B)   -> "disjoint"
    [] OTHER            -> "overlap"
XClass(A, B) ==
  CASE A = {} /\ B = {} -> "both-empty"
    [] A = {}           -> "left-empty"
    [] B = {}           -> "right-empty"
    [] OTHER            -> "nonempty"

X(exp, rk, res) == [exp |-> exp, rk |-> rk, res |-> res]
(* rk: set (of ids) | setset | setsetset | pairs | npairs | bool | nat | bools | hset (A read in kind, e in k2) *)
Expect(c) ==
  LET o == c.o  fn == o.fn  asp == o.asp  e == o.e
      A == FromWritten(c.a)  B == FromWritten(o.b) IN
  IF IsCross(o, c) THEN
    CASE fn = "insert"            -> X("free", "hset", [A |-> A, e |-> e])                   \* a value of another kind: nothing written says it is accepted; if it is, the result holds A and e
      [] fn = "remove"            -> X("free", "set", A)                                      \* Remove(Tag(k, A), <<k2, e>>) = Tag(k, A)
      [] fn = "not-element-of"    -> X("free", "bool", <<c.o.k2, e>> \notin Tag(c.kind, A))
      [] fn = "cartesian-product" -> X("exact", "pairs", Product(A, B))
      [] fn = "disjoint"          -> X("free", "bool", Disjoint(Tag(c.kind, A), Tag(o.k2, B)))
      [] fn = "equals"            -> X("free", "bool", Equals(Tag(c.kind, A), Tag(o.k2, B)))
  ELSE
    CASE fn = "powerset" /\ asp \in {"value", "mutable"} -> X("exact", "setset", Powerset(A))
      [] fn = "powerset" /\ asp = "size"    -> X("exact", "nat", Size(Powerset(A)))
      [] fn = "powerset" /\ asp = "twice"   -> X("exact", "setsetset", Powerset(Powerset(A)))
      [] fn = "powerset" /\ asp = "member"  -> X("exact", "bool", B \in Powerset(A))
      [] fn = "size"                        -> X("exact", "nat", Size(A))
      [] fn = "insert" /\ asp \in {"value", "mutable", "elem-var"} -> X("exact", "set", Insert(A, e))
      [] fn = "insert" /\ asp = "idempotent"  -> X("exact", "set", Insert(Insert(A, e), e))
      [] fn = "insert" /\ asp = "size"        -> X("exact", "nat", Size(Insert(A, e)))
      [] fn = "insert" /\ asp = "then-remove" -> X("exact", "set", Remove(Insert(A, e), e))
      [] fn = "insert" /\ asp = "member"      -> X("exact", "bool", ElementOf(e, Insert(A, e)))
      [] fn = "insert" /\ asp = "fold"        -> X("exact", "set", FoldInsert(A, o.b, 1))
      [] fn = "remove" /\ asp \in {"value", "mutable", "elem-var"} -> X("exact", "set", Remove(A, e))
      [] fn = "remove" /\ asp = "idempotent"  -> X("exact", "set", Remove(Remove(A, e), e))
      [] fn = "remove" /\ asp = "size"        -> X("exact", "nat", Size(Remove(A, e)))
      [] fn = "remove" /\ asp = "then-insert" -> X("exact", "set", Insert(Remove(A, e), e))
      [] fn = "remove" /\ asp = "member"      -> X("exact", "bool", ElementOf(e, Remove(A, e)))
      [] fn = "remove" /\ asp = "fold"        -> X("exact", "set", FoldRemove(A, o.b, 1))
      [] fn = "not-element-of"                -> X("exact", "bool", NotElementOf(e, A))
      [] fn = "element-of"                    -> X("exact", "bool", ElementOf(e, A))
      [] fn = "cartesian-product" /\ asp \in {"value", "mutable"} -> X("exact", "pairs", Product(A, B))
      [] fn = "cartesian-product" /\ asp = "size"   -> X("exact", "nat", Size(Product(A, B)))
      [] fn = "cartesian-product" /\ asp = "member" ->
           X("exact", "bools", [i \in 1..(Universe(c) * Universe(c)) |-> ProbePairs(Universe(c))[i] \in Product(A, B)])
      [] fn = "cartesian-product" /\ asp = "nested" -> X("exact", "npairs", Product(Product(A, B), A))
      [] fn = "disjoint"                      -> X("exact", "bool", Disjoint(A, B))
      [] fn = "equals" /\ asp \in {"value", "mutable"} -> X("exact", "bool", Equals(A, B))
      [] fn = "equals" /\ asp = "of-powersets" -> X("exact", "bool", Equals(Powerset(A), Powerset(B)))
      [] fn = "not-equals"                    -> X("exact", "bool", NotEquals(A, B))
      [] fn = "complement"                    -> X("exact", "set", Complement(A, B))
      [] fn = "proper-subset"                 -> X("exact", "bool", PSubset(A, B))
      [] fn = "proper-superset"               -> X("exact", "bool", PSuperset(A, B))

(* of-powersets: the two stored orders decide whether the known order-dependent hash of nested sets (C14) is in play *)
Reordered(c) == FromWritten(c.a) = FromWritten(c.o.b) /\ FromWrittenK(c.a) # FromWrittenK(c.o.b)

ClassOf(c) ==
  LET o == c.o  A == FromWritten(c.a)  B == FromWritten(o.b) IN
  IF IsCross(o, c) THEN (IF IsElem(o) THEN UClass(A) ELSE XClass(A, B))
  ELSE IF o.asp = "elem-var" THEN "any"
  ELSE IF IsElem(o) THEN EClass(A, o.e)
  ELSE IF o.asp \in Unary /\ o.fn \in {"powerset", "size"} THEN UClass(A)
  ELSE IF o.asp = "of-powersets" /\ Reordered(c) THEN "equal-reordered"
  ELSE IF o.fn = "powerset" /\ o.asp = "member" THEN (IF Subset(B, A) THEN "subset" ELSE "not-subset")
  ELSE BClass(A, B)

(* the evaluation of the case applies set/insert to an EMPTY set (whatever the aspect): one family *)
IntoEmpty(c) ==
  LET o == c.o  A == FromWritten(c.a) IN
  /\ ~IsCross(o, c)
  /\ \/ o.fn = "insert" /\ o.asp \in {"value", "idempotent", "size", "then-remove", "member", "mutable"} /\ A = {}
     \/ o.fn = "insert" /\ o.asp = "fold" /\ A = {} /\ o.b # <<>>
     \/ o.fn = "remove" /\ o.asp = "then-insert" /\ Remove(A, o.e) = {}

(* elem-var is an aspect of the FORM of the call (which operand is a variable), not of the element values: keyed with kind "any" *)
Sig(c) == IF IntoEmpty(c) THEN "G03/insert/" \o c.kind \o "/into-empty"
          ELSE IF c.o.asp = "elem-var" THEN "G03/" \o c.o.fn \o "/any/elem-var"
          ELSE "G03/" \o c.o.fn \o "/" \o c.kind \o "/" \o c.o.asp \o "-" \o ClassOf(c)

CaseJson(c) ==
  LET x == Expect(c) IN
  [fam |-> c.fam, fn |-> c.o.fn, asp |-> c.o.asp, kind |-> c.kind, k2 |-> c.o.k2, a |-> c.a, b |-> c.o.b, e |-> c.o.e,
   u |-> Universe(c), A |-> FromWritten(c.a), B |-> FromWritten(c.o.b), cls |-> ClassOf(c),
   exp |-> x.exp, rk |-> x.rk, res |-> x.res, sig |-> Sig(c)]

(* ------------------------------------------------------- model-level laws *)
(* once per written sequence / pair / (sequence, element): the case that carries the plain value of the function *)
KernelU == cs.stage = 1 => (UnaryKernel(cs.a) /\ UnaryLaws(cs.a))
KernelE == (Done /\ cs.o.fn = "insert" /\ cs.o.asp = "value") =>
              (ElemKernel(cs.a, cs.o.e) /\ ElemLaws(cs.a, cs.o.e, 1..Universe(cs)))
KernelP == (Done /\ cs.o.fn = "cartesian-product" /\ cs.o.asp = "value") => (PairKernel(cs.a, cs.o.b) /\ PairLaws(cs.a, cs.o.b))

(* what a case expects is what the loop-shaped definitions compute, and the aspects that replay a law expect what the law says *)
Expects == Done =>
  LET o == cs.o  x == Expect(cs)
      A == FromWritten(cs.a)  B == FromWritten(o.b)
      a == FromWrittenK(cs.a) b == FromWrittenK(o.b) IN
  /\ x.exp \in {"exact", "free"}
  /\ x.rk \in {"set", "setset", "setsetset", "pairs", "npairs", "bool", "nat", "bools", "hset"}
  /\ (o.fn = "powerset" /\ o.asp = "value") => x.res = SetsOf(PowersetK(a))
  /\ (o.fn = "powerset" /\ o.asp = "size") => x.res = Pow2(Len(a))
  /\ (o.fn = "powerset" /\ o.asp = "twice") => Cardinality(x.res) = Pow2(Pow2(Len(a)))
  /\ (o.fn = "powerset" /\ o.asp = "member") => x.res = SubsetK(b, a)
  /\ (o.fn = "size") => x.res = Len(a)
  /\ (o.fn = "insert" /\ o.asp = "value" /\ ~IsCross(o, cs)) => x.res = Range(InsertK(a, o.e))
  /\ (o.fn = "insert" /\ o.asp = "idempotent") => x.res = Insert(A, o.e)
  /\ (o.fn = "insert" /\ o.asp = "then-remove" /\ o.e \notin A) => x.res = A
  /\ (o.fn = "insert" /\ o.asp = "member") => x.res = TRUE
  /\ (o.fn = "insert" /\ o.asp = "fold") => x.res = Union(A, B)
  /\ (o.fn = "remove" /\ o.asp = "value" /\ ~IsCross(o, cs)) => x.res = Range(RemoveK(a, o.e))
  /\ (o.fn = "remove" /\ o.asp = "idempotent") => x.res = Remove(A, o.e)
  /\ (o.fn = "remove" /\ o.asp = "then-insert" /\ o.e \in A) => x.res = A
  /\ (o.fn = "remove" /\ o.asp = "member") => x.res = FALSE
  /\ (o.fn = "remove" /\ o.asp = "fold") => x.res = Diff(A, B)
  /\ (o.fn = "cartesian-product" /\ o.asp \in {"value", "mutable"}) => x.res = Range(ProductK(a, b))
  /\ (o.fn = "cartesian-product" /\ o.asp = "size") => x.res = Len(a) * Len(b)
  /\ (o.fn = "cartesian-product" /\ o.asp = "nested") => Cardinality(x.res) = Len(a) * Len(b) * Len(a)
  /\ (o.fn = "cartesian-product" /\ IsCross(o, cs)) => Cardinality(x.res) = Len(a) * Len(b)
  /\ (o.fn = "disjoint" /\ ~IsCross(o, cs)) => x.res = DisjointK(a, b)
  /\ (o.fn = "disjoint" /\ IsCross(o, cs)) => x.res = TRUE
  /\ (o.fn = "equals" /\ ~IsCross(o, cs)) => x.res = EqualsK(a, b)
  /\ (o.fn = "equals" /\ IsCross(o, cs)) => x.res = (a = <<>> /\ b = <<>>)
  /\ (o.fn = "not-equals") => x.res = ~EqualsK(a, b)
  /\ (o.fn = "complement") => x.res = Range(DiffK(a, b))
  /\ (o.fn = "proper-subset") => x.res = PSubsetK(a, b)
  /\ (o.fn = "proper-superset") => x.res = PSupersetK(a, b)
  /\ (o.fn = "not-element-of" /\ ~IsCross(o, cs)) => x.res = ~Has(a, o.e)
  /\ (o.fn = "element-of") => x.res = Has(a, o.e)
  /\ (o.asp = "elem-var" /\ o.fn \in {"insert", "remove"}) => x.res = (IF o.fn = "insert" THEN Range(InsertK(a, o.e)) ELSE Range(RemoveK(a, o.e)))
  /\ IntoEmpty(cs) => (x.exp = "exact" /\ x.rk \in {"set", "nat", "bool"})
  /\ (o.fn \in {"remove", "not-element-of"} /\ IsCross(o, cs)) => x.res = (IF o.fn = "remove" THEN A ELSE TRUE)

Emit == Done => PrintT(<<"CASE", ToJson(CaseJson(cs))>>)
=============================================================================
