SPECIFICATION Spec
CONSTANTS
  FileNames = {"a", "b", "c"}
  Slots <- SlotsQuick2
  NlChoice = {"c"}
  Rich = {"b"}
  FileOrder <- OrderQuick
INVARIANTS ActiveIsStack Agreement Terminates Emit
CHECK_DEADLOCK FALSE
