SPECIFICATION Spec
CONSTANTS
  MaxLen = 3
  TightMax = 3
  Kinds = {"H2", "H3", "H4", "P", "C", "L", "Q", "I", "F"}
INVARIANTS ElementsAgree NothingLost SectionLaw MergeLaw TocLaw Emit
CHECK_DEADLOCK FALSE
