SPECIFICATION Spec
CONSTANTS
  MaxLen = 3
INVARIANTS AllWellFormed RoundTripInv SizeInv InjectiveHead Emit
CHECK_DEADLOCK FALSE
