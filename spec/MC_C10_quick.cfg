SPECIFICATION Spec
CONSTANTS
  Names = {"a", "b"}
  MaxBlocks = 3
  FenceNames = {"p", "q"}
INVARIANTS Compositional ProseInert Isolation ErrorContained Emit
CHECK_DEADLOCK FALSE
