--------------------------- MODULE MechReplSyntax ---------------------------
(* The command language of the REPL as it is DOCUMENTED (docs/getting-started/repl.mec and the `:help` table of src/lib.rs),      *)
(* against which src/syntax/src/repl.rs (parse_repl_command) is checked.                                                         *)
(*                                                                                                                              *)
(* A line is  ":" word (blank+ argument)* terminator  with terminator one of "", "\n", "\r\n" (what a terminal delivers on       *)
(* the supported platforms).  The WORD decides the command - a full name or its documented short form - and nothing else:        *)
(* a word that is no command name is not a command, whatever command name it begins with; the terminator never matters.          *)
(* Every command has an argument range; `:step` takes an optional count and (undocumented, but implemented and used by the       *)
(* REPL layer specification MechRepl) an optional `#i` plan index before it.                                                     *)
EXTENDS Naturals, Sequences

(* documented name -> command, minimum and maximum number of arguments (99: any number) *)
Cmd(c, lo, hi) == [c |-> c, lo |-> lo, hi |-> hi]
Table ==
  [cd |-> Cmd("Cd", 1, 1), clc |-> Cmd("Clc", 0, 0), clear |-> Cmd("Clear", 0, 1), docs |-> Cmd("Docs", 0, 99), d |-> Cmd("Docs", 0, 99),
   help |-> Cmd("Help", 0, 0), h |-> Cmd("Help", 0, 0), load |-> Cmd("Load", 1, 99), ls |-> Cmd("Ls", 0, 1),
   plan |-> Cmd("Plan", 0, 0), p |-> Cmd("Plan", 0, 0), quit |-> Cmd("Quit", 0, 0), q |-> Cmd("Quit", 0, 0),
   step |-> Cmd("Step", 0, 2), symbols |-> Cmd("Symbols", 0, 1), s |-> Cmd("Symbols", 0, 1),
   whos |-> Cmd("Whos", 0, 99), w |-> Cmd("Whos", 0, 99), code |-> Cmd("Code", 0, 99), c |-> Cmd("Code", 0, 99)]
Names == DOMAIN Table

IsCount(a) == a \in {"0", "1", "3", "10"}
IsIndex(a) == a \in {"#1", "#2"}
StepArgsOk(args) ==
  \/ args = <<>>
  \/ Len(args) = 1 /\ IsCount(args[1])
  \/ Len(args) = 2 /\ IsIndex(args[1]) /\ IsCount(args[2])

(* a symbol search pattern is a word of letters and digits; `:docs` takes the rest of the line as the name, `:whos` any number  *)
(* of patterns (the implementation is more liberal than the documentation there, which is no defect)                            *)
IsWord(a) == a \in {"x", "y", "3", "10", "0", "1"}

(* the documented meaning of a line: [ok, c, args] *)
NoCmd == [ok |-> FALSE, c |-> "-", args |-> <<>>]
Meaning(word, args) ==
  IF word \notin Names THEN NoCmd
  ELSE LET e == Table[word] IN
       IF Len(args) < e.lo \/ Len(args) > e.hi THEN NoCmd
       ELSE IF e.c = "Step" /\ ~StepArgsOk(args) THEN NoCmd
       ELSE IF e.c = "Symbols" /\ args # <<>> /\ ~IsWord(args[1]) THEN NoCmd
       ELSE [ok |-> TRUE, c |-> e.c, args |-> args]

(* ---------------------------------------------------------------- the same as a decision procedure over the characters: *)
(* longest-match on the word, as a hand-written recogniser would do it (prefix tags tried in an order that puts a name before   *)
(* every name it is a prefix of would be WRONG: "s" before "step", "c" before "cd" / "clc" / "clear", "p" before "plan")        *)
PrefixOf(a, b) == Len(a) <= Len(b) /\ SubSeq(b, 1, Len(a)) = a
=============================================================================
