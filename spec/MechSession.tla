---------------------------- MODULE MechSession ----------------------------
(* The interpreter session as a state machine over the pure transition function *)
(* Effect of MechSessionBase: variables, statement alphabet, Next, properties.  *)
EXTENDS MechSessionBase

CONSTANTS LitPool, MaxScalar, ActKinds

VARIABLES store, mut, act
vars == <<store, mut, act>>

Defined(n) == store[n] # Undef

Init == /\ store = [n \in Names |-> Undef]
        /\ mut = {}
        /\ act = A("Init", NoName, NoName, Undef, 0, FALSE, TRUE)

(* the statement alphabet of the bounded model *)
AllActs ==
       {A("Define", n, NoName, v, 0, mu, TRUE) : n \in Names, v \in LitPool, mu \in BOOLEAN}
  \cup {A("DefineFromVar", n, m, Undef, 0, mu, TRUE) : n \in Names, m \in Names, mu \in BOOLEAN}
  \cup {A("DefineFromVarAnnot", n, m, Undef, i, mu, TRUE) : n \in Names, m \in Names, mu \in BOOLEAN, i \in 1..3}
  \cup {A("Assign", n, NoName, v, 0, FALSE, TRUE) : n \in Names, v \in {Sc(6), Mat(3, 4)}}
  \cup {A("AssignFromVar", n, m, Undef, 0, FALSE, TRUE) : n \in Names, m \in Names}
  \cup {A("IndexAssign", n, NoName, Undef, i, FALSE, TRUE) : n \in Names, i \in {1, 3}}
  \cup {A(nm, n, NoName, Undef, 0, FALSE, TRUE) : nm \in {"OpAssign", "FieldAssign", "TupleElemAssign", "Eval"}, n \in Names}
  \cup {A("OpAssignVar", n, m, Undef, i, FALSE, TRUE) : n \in Names, m \in Names, i \in 1..3}
  \cup {A("AssignFromPart", n, m, Undef, i, FALSE, TRUE) : n \in Names, m \in Names, i \in 1..4}
  \cup {A(nm, n, m, Undef, 0, FALSE, TRUE) : nm \in {"Destructure", "DestructureTooMany"}, n \in Names, m \in Names}
  \cup {[A("DestructureVar", n, m, Undef, 0, FALSE, TRUE) EXCEPT !.k = k] : n \in Names, m \in Names, k \in Names}
  \cup {A("FailingCall", n, NoName, Undef, i, FALSE, TRUE) : n \in Names, i \in 0..9}   \* i = spelling (lib/sessionlib.py)

Alphabet == {a \in AllActs : a.a \in ActKinds}

(* statements that make no sense syntactically or would leave the bounded value pool *)
Sensible(a) ==
  /\ a.a \in {"DefineFromVar", "DefineFromVarAnnot", "AssignFromVar", "Destructure", "DestructureTooMany", "DestructureVar"} => a.n # a.m
  /\ a.a = "DestructureVar" => a.k \notin {a.n, a.m}
  /\ (a.a = "OpAssign" /\ Effect(store, mut, a).ok) => \A q \in 1..Len(store[a.n].d) : store[a.n].d[q] < MaxScalar
  /\ (a.a = "OpAssignVar" /\ Effect(store, mut, a).ok) =>
        LET r == Effect(store, mut, a).store[a.n].d IN Len(r) <= 4 /\ \A q \in 1..Len(r) : r[q] \in 0..MaxScalar
  /\ ~Unspecified(store, a)

Do(a) ==
  LET e == Effect(store, mut, a) IN
  /\ act' = [a EXCEPT !.ok = e.ok]
  /\ store' = e.store
  /\ mut' = e.mut

Next == \E a \in Alphabet : Sensible(a) /\ Do(a)

Spec == Init /\ [][Next]_vars

(* ----------------------------------------------------------- properties (C05) *)
Target == {act'.n} \cup (IF act'.a \in {"Destructure", "DestructureTooMany", "DestructureVar"} THEN {act'.m} ELSE {})

(* a defined immutable name keeps its value whatever statement follows *)
ImmutableStable == [][\A n \in Names : (Defined(n) /\ n \notin mut) => store'[n] = store[n]]_vars
(* a statement changes only its target name(s) *)
NoInterference == [][\A n \in Names : n \notin Target => store'[n] = store[n]]_vars
(* a failing statement changes nothing *)
FailureAtomic == [][~act'.ok => (store' = store /\ mut' = mut)]_vars
(* names are never undefined again, mutability is fixed at definition *)
NamesMonotone == [][\A n \in Names : Defined(n) => (store'[n] # Undef /\ ((n \in mut) <=> (n \in mut')))]_vars
TypeOK == /\ \A n \in Names : store[n].cls \in {"undef", "sc", "mat", "rec", "tup", "set", "tbl"}
          /\ mut \subseteq {n \in Names : Defined(n)}
=============================================================================
