SPECIFICATION Spec
CONSTANTS
  N = 4
  OneLen = 4
  MaxLen = 3
  CompLen = 2
  BigN = 0
  BigM = 0
INVARIANTS KernelEq AlgebraLaws CompKernel CompLaws Emit
CHECK_DEADLOCK FALSE
