SPECIFICATION Spec
CONSTANTS
  N = 4
  OneLen = 4
  MaxLen = 3
  CompLen = 2
  NBig = 8
  BigN = 5
  BigM = 3
INVARIANTS KernelEq AlgebraLaws CompKernel CompLaws Emit
CHECK_DEADLOCK FALSE
