SPECIFICATION Spec
CONSTANTS
  Nums <- NumsQuick
  Dens = {1, 2, 4}
  YNums <- YNumsQuick
  YDens = {1, 2}
  ChooseMax = 8
  ComboMax = 5
  RootMax = 7
INVARIANTS RoundingAgrees RoundingLaws FmodLaws RemainderLaws CopySignLaws MaxMinLaws ChooseAgrees CombosLaws RootLaws Emit
CHECK_DEADLOCK FALSE
