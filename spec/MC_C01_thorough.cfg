SPECIFICATION Spec
CONSTANTS
  ShapeSet <- ShapesThorough
  MatFills = {0, 1, 2}
INVARIANTS KernelEqDecl ShapeLaw Algebra Emit
CHECK_DEADLOCK FALSE
