SPECIFICATION Spec
CONSTANTS
  MatForms <- FormsThorough
  MaxElems = 16
  UneqDiff = 16
  ExtraPool <- ExtraThorough
  SetFull = 6
INVARIANTS WidenNarrow WidenNarrowPairs ExpectedWidenings Idempotent TruncClampLaw RepresentableIsKept RejectTable MatrixShapeKept ReshapeDefsAgree ReshapeNotRowMajor ReshapeRoundTrip SetLaws AncAgreesWithExact AncLaws Emit
CHECK_DEADLOCK FALSE
