------------------------------ MODULE Trace_C09 ------------------------------
(* Trace validation for C09: a trace is a concatenation of parses; each starts with a *)
(* "Parse" record (the outcome) followed by the "Loop" progress events of that parse.  *)
(* Violations are reported (MSG lines) and the monitor continues with the next event.  *)
EXTENDS MechParse, Json, IOUtils, TLC

Tr == ndJsonDeserialize(IOEnv.TRACE)

VARIABLES l, seen, cur
tvars == <<l, seen, cur>>

TraceInit == l = 1 /\ seen = <<>> /\ cur = 0

Report(kind, e) == PrintT(<<"MSG", ToJson([l |-> l, kind |-> kind, pid |-> e.pid])>>)

TraceStep ==
  /\ l <= Len(Tr)
  /\ l' = l + 1
  /\ LET e == Tr[l] IN
     IF e.ev = "Parse"
     THEN /\ (IF OutcomeOK(e) THEN TRUE ELSE Report("outcome", e))
          /\ seen' = <<>> /\ cur' = e.pid
     ELSE /\ (IF ProgressOK(seen, e) THEN TRUE ELSE Report("progress", e))
          /\ seen' = Observe(seen, e) /\ cur' = cur

TraceSpec == TraceInit /\ [][TraceStep]_tvars

TraceAccepted ==
  IF TLCGet("stats").diameter - 1 = Len(Tr) THEN TRUE
  ELSE Print(<<"MSG", ToJson([unconsumed |-> TLCGet("stats").diameter])>>, FALSE)
=============================================================================
