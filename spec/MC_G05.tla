------------------------------- MODULE MC_G05 -------------------------------
(* Bounded instance of MechMathFns: every function on every argument (pair) of the pools below.  TLC checks that the    *)
(* operational and the declarative definition of every function agree and the algebraic laws hold, then emits the case.  *)
EXTENDS MechMathFns, TLC, Json

CONSTANTS Nums, Dens, YNums, YDens, ChooseMax, ComboMax, RootMax

NumsQuick == {-9, -7, -6, -5, -4, -3, -2, -1, 0, 1, 2, 3, 4, 5, 6, 7, 9, 10}
YNumsQuick == {-3, -2, -1, 1, 2, 3, 5}
NumsThorough == {-25, -17, -13, -11, -10, -9, -8, -7, -6, -5, -4, -3, -2, -1, 0, 1, 2, 3, 4, 5, 6, 7, 8, 9, 10, 11, 13, 15, 17, 21, 25}
YNumsThorough == {-7, -5, -3, -2, -1, 1, 2, 3, 5, 7}

VARIABLE cs
vars == <<cs>>

Pool == {Q(n, d) : n \in Nums, d \in Dens}
YPool == {Q(n, d) : n \in YNums, d \in YDens} \ {IntV(0)}
Zero == IntV(0)
NoSeq == <<>>

Case(fam, f, x, y, k, r, m) == [fam |-> fam, f |-> f, x |-> x, y |-> y, k |-> k, r |-> r, m |-> m]

Cases ==
       {Case("unary", f, x, Zero, 0, UnaryFn(f, x), NoSeq) : f \in Unary, x \in Pool}
  \cup {Case("binary", f, x, y, 0, BinaryFn(f, x, y), NoSeq) : f \in Binary, x \in Pool, y \in YPool}
  \cup {Case("choose", "n-choose-k", IntV(n), IntV(k), 0, IntV(ChooseF(n, k)), NoSeq) : n \in 0..ChooseMax, k \in 0..ChooseMax}
  \cup UNION {{Case("combos", "n-choose-k", IntV(n), IntV(k), k, IntV(ChooseF(n, k)), Combos(n, k)) : k \in 1..n} : n \in 1..ComboMax}
  \cup {Case("sqrt", "sqrt", QMul(r, r), Zero, 0, r, NoSeq) : r \in {Q(n, d) : n \in 0..RootMax, d \in {1, 2}}}
  \cup {Case("cbrt", "cbrt", QMul(QMul(r, r), r), Zero, 0, r, NoSeq) : r \in {Q(n, d) : n \in (-RootMax)..RootMax, d \in {1, 2}}}

Init == cs \in Cases
Next == UNCHANGED cs
Spec == Init /\ [][Next]_vars

(* ------------------------------------------------------------------ laws (each guarded by its family) *)
U(f) == cs.fam = "unary" /\ cs.f = f
B(f) == cs.fam = "binary" /\ cs.f = f
RoundingAgrees ==
  /\ U("floor") => IsFloor(cs.x, cs.r.n)
  /\ U("ceil") => IsCeil(cs.x, cs.r.n)
  /\ U("trunc") => IsTrunc(cs.x, cs.r.n)
  /\ U("round") => IsRound(cs.x, cs.r.n)
  /\ (U("roundeven") \/ U("rint")) => IsRoundEven(cs.x, cs.r.n)
RoundingLaws ==
  cs.fam = "unary" =>
    /\ CeilI(cs.x) - FloorI(cs.x) = (IF cs.x.d = 1 THEN 0 ELSE 1)
    /\ FloorI(cs.x) <= TruncI(cs.x) /\ TruncI(cs.x) <= CeilI(cs.x)
    /\ RoundI(cs.x) = -RoundI(Num(-cs.x.n, cs.x.d))                       \* odd
    /\ RoundEvenI(cs.x) = -RoundEvenI(Num(-cs.x.n, cs.x.d))               \* odd
    /\ (RoundI(cs.x) # RoundEvenI(cs.x) => 2 * Abs(cs.x.n) % (2 * cs.x.d) = cs.x.d)   \* they differ only at ties
    /\ FloorI(cs.x) = -CeilI(Num(-cs.x.n, cs.x.d))
    /\ QAbs(cs.x) = MaxQ(cs.x, Num(-cs.x.n, cs.x.d))
FmodLaws ==
  B("fmod") => /\ Less(QAbs(cs.r), QAbs(cs.y))
               /\ (cs.r.n # 0 => Sign(cs.r) = Sign(cs.x))
               /\ QAdd(QMul(cs.y, IntV(TruncI(QDiv(cs.x, cs.y)))), cs.r) = cs.x
RemainderLaws ==
  B("remainder") => /\ QLe(QMul(IntV(2), QAbs(cs.r)), QAbs(cs.y))
                    /\ QDiv(QSub(cs.x, cs.r), cs.y).d = 1                 \* x - r is an integer multiple of y
                    /\ BinaryFn("remainder", cs.x, Num(-cs.y.n, cs.y.d)) = cs.r      \* even in y
CopySignLaws ==
  B("copysign") => /\ QAbs(cs.r) = QAbs(cs.x)
                   /\ (cs.x.n # 0 => Sign(cs.r) = Sign(cs.y))
MaxMinLaws ==
  (B("max") \/ B("min")) =>
    /\ cs.r \in {cs.x, cs.y}
    /\ QAdd(MaxQ(cs.x, cs.y), MinQ(cs.x, cs.y)) = QAdd(cs.x, cs.y)
    /\ QLe(MinQ(cs.x, cs.y), MaxQ(cs.x, cs.y))
    /\ MaxQ(cs.x, cs.y) = MaxQ(cs.y, cs.x) /\ MinQ(cs.x, cs.y) = MinQ(cs.y, cs.x)
ChooseAgrees ==
  cs.fam = "choose" => /\ ChooseF(cs.x.n, cs.y.n) = ChooseP(cs.x.n, cs.y.n)
                       /\ ChooseF(cs.x.n, cs.y.n) = ChooseL(cs.x.n, cs.y.n)
                       /\ (cs.y.n <= cs.x.n => ChooseF(cs.x.n, cs.y.n) = ChooseF(cs.x.n, cs.x.n - cs.y.n))
CombosLaws ==
  cs.fam = "combos" => /\ Len(cs.m) = cs.r.n                               \* as many columns as the binomial coefficient
                       /\ \A i \in 1..(Len(cs.m) - 1) : LexLess(cs.m[i], cs.m[i + 1])
                       /\ {cs.m[i] : i \in 1..Len(cs.m)} = IncSeqs(cs.x.n, cs.k)
RootLaws ==
  /\ cs.fam = "sqrt" => IsSqrt(cs.x, cs.r)
  /\ cs.fam = "cbrt" => IsCbrt(cs.x, cs.r)

QJ(q) == [n |-> q.n, d |-> q.d]
Emit == PrintT(<<"CASE", ToJson([fam |-> cs.fam, f |-> cs.f, x |-> QJ(cs.x), y |-> QJ(cs.y), k |-> cs.k, r |-> QJ(cs.r),
                                  m |-> cs.m, sig |-> "G05/" \o cs.f])>>)
=============================================================================
