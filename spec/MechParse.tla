------------------------------ MODULE MechParse ------------------------------
(***************************************************************************)
(* Totality of the parser (C09), stated over what a parse lets us observe:  *)
(*  - its outcome record                                                    *)
(*      [len, outcome, n, ranges, lw, fmt]                                   *)
(*    outcome \in {"tree","report"} (never "panic"); a report is non-empty,  *)
(*    every range <<r1,c1,r2,c2>> lies within the source as the parser sees  *)
(*    it (lw = display width of every line) and start <= end (fmt records    *)
(*    whether rendering the report succeeded: informational, the property    *)
(*    speaks about the parser only);                                         *)
(*  - the progress log of its hand-written loops (hook H1): events           *)
(*      [site, inst, cursor, len]                                            *)
(*    The termination argument: within one loop instance the cursor never    *)
(*    decreases, is bounded by len, and is not observed unchanged three      *)
(*    times in a row (so the number of iterations is at most 2*(len+1)).     *)
(***************************************************************************)
EXTENDS Naturals, Sequences, FiniteSets

LexLE(r1, c1, r2, c2) == r1 < r2 \/ (r1 = r2 /\ c1 <= c2)

RangeWithin(rg, lw) ==
  /\ rg[1] >= 1 /\ rg[3] >= 1 /\ rg[2] >= 1 /\ rg[4] >= 1
  /\ rg[1] <= Len(lw) /\ rg[3] <= Len(lw)
  /\ rg[2] <= lw[rg[1]] + 2 /\ rg[4] <= lw[rg[3]] + 2      \* a column may point just past the line end (exclusive end)
  /\ LexLE(rg[1], rg[2], rg[3], rg[4])

OutcomeOK(o) ==
  /\ o.outcome \in {"tree", "report"}
  /\ o.outcome = "report" => (/\ o.n >= 1
                              /\ \A k \in 1..Len(o.ranges) : RangeWithin(o.ranges[k], o.lw))

(* progress monitor: seen[inst] = <<last cursor, how many times in a row>> *)
ProgressOK(seen, e) ==
  /\ e.cursor <= e.len
  /\ e.inst \in DOMAIN seen => (/\ e.cursor >= seen[e.inst][1]
                                /\ (e.cursor = seen[e.inst][1] => seen[e.inst][2] < 2))
Observe(seen, e) ==
  IF e.inst \in DOMAIN seen /\ seen[e.inst][1] = e.cursor
  THEN [seen EXCEPT ![e.inst] = <<e.cursor, seen[e.inst][2] + 1>>]
  ELSE [i \in DOMAIN seen \cup {e.inst} |-> IF i = e.inst THEN <<e.cursor, 1>> ELSE seen[i]]
=============================================================================
