SPECIFICATION Spec
INVARIANTS Monotone Widening Emit
CHECK_DEADLOCK FALSE
