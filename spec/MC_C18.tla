------------------------------- MODULE MC_C18 -------------------------------
(* Bounded instance of MechTable for C18.  Families of cases:                      *)
(*   "join" every pair of tables over every column layout (1..MaxCols columns per  *)
(*          side, 0..2 of them shared by NAME, in different positions on the two   *)
(*          sides), 0..MaxRows rows (0..MaxRows3 when a side has 3 columns), cell   *)
(*          values from {1,2} so that duplicate keys, duplicate rows and            *)
(*          many-to-many matches occur; all six joins are computed per pair;        *)
(*   "big"  thorough only: pseudo-random pairs with 4-5 rows;                       *)
(*   "sel"  row selection from a table of 1..SelRows rows by index (incl. 0 and     *)
(*          n+1), index vector, range and logical mask.                             *)
EXTENDS MechTable, Integers, Json

CONSTANTS MaxCols, MaxRows, MaxRows3, SelRows, BigN, BigM

VARIABLE cs

Vals == 1..2
Min(a, b) == IF a < b THEN a ELSE b

Keys == <<"k1", "k2">>
As   == <<"a1", "a2", "a3">>
Bs   == <<"b1", "b2", "b3">>
Rotate(s) == IF Len(s) <= 1 THEN s ELSE Tail(s) \o <<Head(s)>>
Reverse(s) == [i \in 1..Len(s) |-> s[Len(s) + 1 - i]]

(* column layouts: shared columns k*, left-only a*, right-only b*; the shared columns sit *)
(* at different positions (and in a different relative order) on the two sides              *)
Layouts ==
  UNION { UNION { UNION {
    LET lb == SubSeq(Keys, 1, s) \o SubSeq(As, 1, nl - s)
        rb == SubSeq(Keys, 1, s) \o SubSeq(Bs, 1, nr - s) IN
    IF nl >= 3 \/ nr >= 3 THEN { <<lb, rb>>, <<Rotate(lb), Reverse(rb)>> }
    ELSE { <<lb, rb>>, <<Rotate(lb), rb>>, <<lb, Reverse(rb)>>, <<Rotate(lb), Reverse(rb)>> }
    : s \in 0..Min(2, Min(nl, nr)) } : nr \in 1..MaxCols } : nl \in 1..MaxCols }

RowBound(lay) == IF Len(lay[1]) >= 3 \/ Len(lay[2]) >= 3 THEN MaxRows3 ELSE MaxRows
TablesOver(cols, maxrows) ==
  {[cols |-> cols, rows |-> rs] : rs \in UNION {[1..r -> [1..Len(cols) -> Vals]] : r \in 0..maxrows}}

(* selection forms *)
FS(i)  == [f |-> "s", ix |-> <<i>>, mask |-> <<>>]
FV(ix) == [f |-> "v", ix |-> ix, mask |-> <<>>]
FR(a, b) == [f |-> "r", ix |-> [k \in 1..(b - a + 1) |-> a + k - 1], mask |-> <<>>]
FM(m)  == [f |-> "m", ix |-> <<>>, mask |-> m]
NoForm == [f |-> "-", ix |-> <<>>, mask |-> <<>>]
SelTable(n) == [cols |-> <<"k1", "a1">>, rows |-> [i \in 1..n |-> <<((i - 1) % 2) + 1, ((i - 1) \div 2) + 1>>]]
SelForms(n) ==
       {FS(i) : i \in 0..(n + 1)}
  \cup {FV(<<i, j>>) : i \in 0..(n + 1), j \in 0..(n + 1)}
  \cup {FV(<<i, j, k>>) : i \in 1..n, j \in 1..n, k \in 1..n}
  \cup {FR(p[1], p[2]) : p \in {q \in (1..n) \X (1..(n + 1)) : q[2] > q[1]}}
  \cup {FM(m) : m \in [1..n -> BOOLEAN]}
EmptyTable == [cols |-> <<"k1">>, rows |-> <<>>]

(* pseudo-random tables for family "big" *)
Lcg(x) == (75 * x + 74) % 65537
RECURSIVE LcgN(_, _)
LcgN(x, n) == IF n = 0 THEN x ELSE LcgN(Lcg(x), n - 1)
BigTable(cols, seed) ==
  LET nr == 4 + ((LcgN(seed, 1) \div 11) % 2)
      nc == Len(cols) IN
  [cols |-> cols, rows |-> [i \in 1..nr |-> [c \in 1..nc |-> ((LcgN(seed, 1 + (i - 1) * nc + c) \div 7) % 2) + 1]]]
LayoutSeq == << << <<"k1", "a1">>, <<"k1", "b1">> >>,
                << <<"k1", "k2", "a1">>, <<"k2", "b1", "k1">> >>,
                << <<"a1", "k1">>, <<"b1", "b2", "k1">> >>,
                << <<"k1", "k2">>, <<"k2", "k1">> >>,
                << <<"a1", "a2">>, <<"b1">> >>,
                << <<"k1", "a1", "a2">>, <<"k1">> >> >>

Dummy == [stage |-> 0, fam |-> "join", L |-> EmptyTable, R |-> EmptyTable, f |-> NoForm, k |-> 0]
Partials ==
       UNION {{[stage |-> 1, fam |-> "join", L |-> t, R |-> [cols |-> lay[2], rows |-> <<>>], f |-> NoForm, k |-> 0]
                 : t \in TablesOver(lay[1], RowBound(lay))} : lay \in Layouts}
  \cup {[stage |-> 1, fam |-> "sel", L |-> SelTable(n), R |-> EmptyTable, f |-> NoForm, k |-> 0] : n \in 1..SelRows}
  \cup {LET lay == LayoutSeq[((k - 1) % Len(LayoutSeq)) + 1] IN
        [stage |-> 1, fam |-> "big", L |-> BigTable(lay[1], 500 + 41 * k), R |-> [cols |-> lay[2], rows |-> <<>>], f |-> NoForm, k |-> k]
          : k \in 1..BigN}
Completes(c) ==
  CASE c.fam = "join" -> {[c EXCEPT !.stage = 2, !.R = t] : t \in TablesOver(c.R.cols, RowBound(<<c.L.cols, c.R.cols>>))}
    [] c.fam = "sel"  -> {[c EXCEPT !.stage = 2, !.f = g] : g \in SelForms(NRows(c.L))}
    [] c.fam = "big"  -> {[c EXCEPT !.stage = 2, !.R = BigTable(c.R.cols, 30000 + 97 * c.k + 29 * j)] : j \in 1..BigM}

Init == cs = Dummy
Next == \/ cs.stage = 0 /\ cs' \in Partials
        \/ cs.stage = 1 /\ cs' \in Completes(cs)
Spec == Init /\ [][Next]_cs
Done == cs.stage = 2
IsJoin(c) == c.fam \in {"join", "big"}

JoinJson(L, R, mode) == [cols |-> OutCols(L, R, mode), opt |-> OptCols(L, R, mode), rows |-> JoinK(L, R, mode)]

SelOk(c) ==
  CASE c.f.f \in {"s", "v", "r"} -> ValidVector(c.L, c.f.ix)
    [] c.f.f = "m" -> ValidMask(c.L, c.f.mask)
SelRowsOf(c) ==
  IF ~SelOk(c) THEN <<>>
  ELSE IF c.f.f = "m" THEN SelectMask(c.L, c.f.mask) ELSE SelectVector(c.L, c.f.ix)
(* a selection that addresses no existing row must not return rows; selecting nothing     *)
(* (all-false mask) is unconstrained except that whatever comes back must be right        *)
(* A one-element mask (like a one-element index vector) is a 1x1 matrix, which the code base    *)
(* treats as a scalar everywhere (DESIGN.md Appendix A, class v1/r1 of C03): acceptance free.  *)
SelExpect(c) ==
  IF ~SelOk(c) THEN "reject"
  ELSE IF SelRowsOf(c) = <<>> THEN "free"
  ELSE IF c.f.f = "m" /\ Len(c.f.mask) = 1 THEN "free"
  ELSE "exact"

CaseJson(c) ==
  IF IsJoin(c)
  THEN [fam |-> c.fam, L |-> c.L, R |-> c.R, exp |-> "exact",
        shared |-> Cardinality(SharedCols(c.L, c.R)),
        sig |-> "C18/join/shared=" \o ToString(Cardinality(SharedCols(c.L, c.R))),
        res |-> [inner |-> JoinJson(c.L, c.R, "inner"), left |-> JoinJson(c.L, c.R, "left"),
                 right |-> JoinJson(c.L, c.R, "right"), full |-> JoinJson(c.L, c.R, "full"),
                 semi |-> JoinJson(c.L, c.R, "semi"), anti |-> JoinJson(c.L, c.R, "anti")]]
  ELSE [fam |-> c.fam, L |-> c.L, f |-> c.f, exp |-> SelExpect(c), sig |-> "C18/select/" \o c.f.f,
        rows |-> SelRowsOf(c)]

(* ------------------------------------------------------- model-level laws *)
KernelEq == (Done /\ IsJoin(cs)) => KernelAgrees(cs.L, cs.R)
Laws     == (Done /\ IsJoin(cs)) => JoinLaws(cs.L, cs.R)
(* the right outer join is the left outer join of the swapped operands, up to column order *)
AsRowSets(T, cols, rows) == BagOf(DOMAIN rows, LAMBDA i : {<<cols[k], rows[i][k]>> : k \in DOMAIN cols})
Mirror == (Done /\ IsJoin(cs)) =>
  /\ AsRowSets(cs.L, OutCols(cs.L, cs.R, "right"), JoinK(cs.L, cs.R, "right"))
       = AsRowSets(cs.R, OutCols(cs.R, cs.L, "left"), JoinK(cs.R, cs.L, "left"))
  /\ AsRowSets(cs.L, OutCols(cs.L, cs.R, "inner"), JoinK(cs.L, cs.R, "inner"))
       = AsRowSets(cs.R, OutCols(cs.R, cs.L, "inner"), JoinK(cs.R, cs.L, "inner"))
  /\ AsRowSets(cs.L, OutCols(cs.L, cs.R, "full"), JoinK(cs.L, cs.R, "full"))
       = AsRowSets(cs.R, OutCols(cs.R, cs.L, "full"), JoinK(cs.R, cs.L, "full"))
  /\ OptCols(cs.L, cs.R, "right") = OptCols(cs.R, cs.L, "left")
SelLaws == (Done /\ cs.fam = "sel") =>
  /\ cs.f.f = "m" /\ SelOk(cs) => SelectMask(cs.L, cs.f.mask) = SelectMaskK(cs.L, cs.f.mask, 1)
  /\ cs.f.f = "m" /\ SelOk(cs) =>
        SelectMask(cs.L, cs.f.mask) = SelectVector(cs.L, SelectSeq([k \in 1..Len(cs.f.mask) |-> k], LAMBDA k : cs.f.mask[k]))
  /\ SelOk(cs) => \A p \in DOMAIN SelRowsOf(cs) : SelRowsOf(cs)[p] \in Range(cs.L.rows)

Emit == Done => PrintT(<<"CASE", ToJson(CaseJson(cs))>>)
=============================================================================
