------------------------------- MODULE MC_C06 -------------------------------
(* Bounded instance of MechBytecode: every valid program of up to MaxLen statements; *)
(* checks Faithful / StepFaithful / size laws and emits the expected instruction     *)
(* stream, constants, run result and re-evaluation result of every program.           *)
EXTENDS MechBytecode, TLC, Json

CONSTANTS Names, MaxLen, Lits, Ops2

VARIABLES m, prog
vars == <<m, prog>>

Lit(v) == [k |-> "lit", v |-> v, n |-> ""]
Var(n) == [k |-> "var", v |-> 0, n |-> n]
Operands == {Lit(v) : v \in Lits} \cup {Var(n) : n \in Names}
E(op, l, r) == [op |-> op, l |-> l, r |-> r]
Exprs == {E("", l, Lit(0)) : l \in Operands} \cup {E(op, l, r) : op \in Ops2, l \in Operands, r \in Operands}
       \cup {E("neg", Var(n), Lit(0)) : n \in Names}
Stm(s, n, mu, e, aop) == [s |-> s, n |-> n, mu |-> mu, e |-> e, aop |-> aop]
Stmts == {Stm("def", n, mu, e, "") : n \in Names, mu \in BOOLEAN, e \in Exprs}
    \cup {Stm("asg", n, FALSE, E("", l, Lit(0)), "") : n \in Names, l \in Operands}
    \cup {Stm("opa", n, FALSE, E("", l, Lit(0)), aop) : n \in Names, l \in {Lit(v) : v \in Lits}, aop \in {"addassign", "subassign", "mulassign"}}
    \cup {Stm("eval", "-", FALSE, e, "") : e \in {x \in Exprs : x.op # ""}}

Init == /\ m = [cells |-> <<>>, plan |-> <<>>, env |-> [n \in Names |-> 0], mut |-> {}]
        /\ prog = <<>>
Next == /\ Len(prog) < MaxLen
        /\ \E st \in Stmts : StmtOk(m, st) /\ m' = Interp(m, st) /\ prog' = Append(prog, st)
Spec == Init /\ [][Next]_vars

HasPlan == Len(m.plan) > 0
P == Compile(m)

(* the loaded program returns what the interpreter computed (the out of the last plan step) *)
Faithful == HasPlan => RunResult(P) = m.cells[m.plan[Len(m.plan)].out]
(* one re-evaluation of the loaded program = one re-evaluation of the original, through the register map *)
StepFaithful == HasPlan =>
  LET l == Loaded(P)
      a == Step1(l.cells, l.plan)
      b == Step1(m.cells, m.plan) IN
  \A c \in 1..Len(m.cells) : P.regs[c] # 0 => a[P.regs[c]] = b[c]
(* one register per distinct cell used, one instruction per step, one constant per operand occurrence *)
Sizes == HasPlan =>
  /\ P.nreg = Cardinality({c \in 1..Len(m.cells) : P.regs[c] # 0})
  /\ Len(SelectSeq(P.code, LAMBDA ins : ins.k = "op")) = Len(m.plan)
  /\ Len(P.consts) = Len(SelectSeq(P.code, LAMBDA ins : ins.k = "const"))

CaseJson ==
  LET l == Loaded(P)
      st == Step1(l.cells, l.plan) IN
  [prog |-> prog, code |-> P.code, consts |-> P.consts, nreg |-> P.nreg,
   result |-> RunResult(P), stepped |-> st[l.plan[Len(l.plan)].out]]
Emit == HasPlan => PrintT(<<"CASE", ToJson(CaseJson)>>)
=============================================================================
