SPECIFICATION Spec
CONSTANTS
  OpsAlphabet = {"+", "-", "*", "/", "%", "**", "^", "<", "==", "&&", "||"}
  MaxOps = 3
  Unaries = {"none", "neg"}
INVARIANTS ClimbEqDecl Faithful Shape Emit
CHECK_DEADLOCK FALSE
