SPECIFICATION Spec
CONSTANTS
  OpsAlphabet = {"+", "-", "*", "/", "^", "<", "==", "&&", "||"}
  MaxOps = 3
INVARIANTS ClimbEqDecl Faithful Shape Emit
CHECK_DEADLOCK FALSE
