------------------------------- MODULE MC_G01 -------------------------------
(* Bounded instance of MechMatrixOps for growth area G01 (matrix algebra and reductions):      *)
(* staged enumeration of (operator, operand shapes, filling); checks loop-shaped = declarative *)
(* and the algebraic laws on every enumerated operand tuple, checks that the fillings make a   *)
(* wrong pairing of cells visible, and emits every case (inputs, expected result, expectation  *)
(* class, signature) for replay against the interpreter.                                       *)
EXTENDS MechMatrixOps, TLC, Json

CONSTANTS ShapeSet,    \* set of <<r, c>>
          ChainDims,   \* dimensions used for the three-factor products (A ** B) ** C, A ** (B ** C)
          FillSet,     \* fillings
          RouteFills   \* fillings for which the operands are also materialised through the law-justified routes (see Route)

VARIABLE cs

ShapesQuick    == {<<r, c>> : r \in 1..3, c \in 1..3}
ShapesThorough == {<<r, c>> : r \in 1..4, c \in 1..4} \cup {<<1, 5>>, <<5, 1>>}    \* 1x5 / 5x1: the dynamically sized vector storage

P == <<2, 3, 5, 7, 11, 13, 17, 19, 23, 29, 31, 37, 41, 43, 47, 53, 59, 61, 67, 71, 73, 79, 83, 89, 97, 101, 103, 107, 109, 113, 127, 131,
       137, 139, 149, 151, 157, 163, 167, 173>>

(* fillings: cell p (column-major position) of the first / second / third operand; q = the binary exponent.   *)
(* All cells of an operand are pairwise distinct and depend on the position, the operands differ from each     *)
(* other, so every wrong pairing (transposed operand, swapped operands, row/column confusion, a dropped or     *)
(* repeated k) changes the result - see Discriminating.                                                        *)
(*   prime  distinct primes          iota   1,2,3,.. / 2,3,4,.. (small: results fit u8 up to 3x3)               *)
(*   neg    primes with mixed signs  dyad   odd numerators over 2 resp. 4 (floats only), mixed signs            *)
(*   prime2 other primes             sq     p*p+1 / 3p+2                                                        *)
AVal(f, p) ==
  CASE f = "prime"  -> P[p]
    [] f = "iota"   -> p
    [] f = "neg"    -> IF p % 2 = 0 THEN -P[p] ELSE P[p]
    [] f = "dyad"   -> IF p % 3 = 0 THEN -P[p + 1] ELSE P[p + 1]
    [] f = "prime2" -> P[p + 7]
    [] f = "sq"     -> p * p + 1
BVal(f, p) ==
  CASE f = "prime"  -> P[p + 16]
    [] f = "iota"   -> p + 1
    [] f = "neg"    -> IF p % 3 = 0 THEN -P[p + 16] ELSE P[p + 16]
    [] f = "dyad"   -> IF p % 2 = 0 THEN -P[p + 5] ELSE P[p + 5]
    [] f = "prime2" -> P[p + 24]
    [] f = "sq"     -> 3 * p + 2
CVal(f, p) ==
  CASE f = "prime"  -> P[p + 3]
    [] f = "iota"   -> p + 2
    [] f = "neg"    -> IF p % 2 = 1 THEN -P[p + 2] ELSE P[p + 2]
    [] f = "dyad"   -> P[p + 1]
    [] f = "prime2" -> P[p + 11]
    [] f = "sq"     -> 2 * p + 3
AQ(f) == IF f = "dyad" THEN 1 ELSE 0
BQ(f) == IF f = "dyad" THEN 2 ELSE 0
CQ(f) == IF f = "dyad" THEN 1 ELSE 0

Fill(sh, V(_, _), q, f) == Mat(sh[1], sh[2], q, [p \in 1..(sh[1] * sh[2]) |-> V(f, p)])

UnaryOps   == {"transpose", "tt", "sumrow", "sumcol", "sumcolT", "sumrowT", "total", "idr", "idl"}
BinaryOps  == {"matmul", "dot"}
ConfOps    == {"mmt", "tmm"}            \* (A ** B)'  and  B' ** A'  on conformable pairs
TernaryOps == {"chainl", "chainr"}      \* (A ** B) ** C  and  A ** (B ** C)
ChainShapes == {<<r, c>> : r \in ChainDims, c \in ChainDims}

(* Operand routes.  The value of an operator depends only on the VALUE of its operands (shape, kind, cells), not on the   *)
(* expression that computed them.  Each route is an expression whose value is A by a law of MechMatrixOps (Identity,      *)
(* Involution): replaying a case with an operand materialised through a route must give the same result.                  *)
(*   lit   the literal                      idl   I ** A                    tidl  (I ** A')'          tt  (A')'           *)
(*   pv    (1 x 1 only)  ([1] ** [a 0]) ** [1; 0]        pr   (1 x 1 only)  [a 0] ** ([1] ** [1 0])'                      *)
Pad(A) == Mat(1, 2, A.q, <<A.d[1], 0>>)
E1Row  == Mat(1, 2, 0, <<1, 0>>)
E1Col  == Mat(2, 1, 0, <<1, 0>>)
Route(rt, A) ==
  CASE rt = "lit"  -> Ok(A)
    [] rt = "idl"  -> MatMul(Id(A.r), A)
    [] rt = "tidl" -> LET x == MatMul(Id(A.c), Transpose(A)) IN IF x.ok THEN Ok(Transpose(x.m)) ELSE NoMat
    [] rt = "tt"   -> Ok(Transpose(Transpose(A)))
    [] rt = "pv"   -> Chain(MatMul(Id(1), Pad(A)), E1Col, TRUE)
    [] rt = "pr"   -> MatMul(Pad(A), Transpose(MatMul(Id(1), E1Row).m))
RoutesFor(sh) ==
  IF sh[1] = 1 /\ sh[2] = 1 THEN {"lit", "pv", "pr"}
  ELSE IF sh[1] = 1 THEN {"lit", "idl"}
  ELSE IF sh[2] = 1 THEN {"lit", "tidl"}
  ELSE {"lit", "tt"}
RoutedOps == {"matmul", "dot", "transpose", "sumrow", "sumcol"}
RoutesOf(op, sh, f) == IF op \in RoutedOps /\ f \in RouteFills THEN RoutesFor(sh) ELSE {"lit"}

Dummy == [stage |-> 0, op |-> "matmul", ls |-> <<1, 1>>, rs |-> <<1, 1>>, ts |-> <<1, 1>>, fill |-> "iota", ra |-> "lit", rb |-> "lit"]
Partials ==
       UNION {{[Dummy EXCEPT !.stage = 1, !.op = o, !.ls = l, !.fill = f, !.ra = a] : a \in RoutesOf(o, l, f)}
              : o \in UnaryOps \cup BinaryOps \cup ConfOps, l \in ShapeSet, f \in FillSet}
  \cup {[Dummy EXCEPT !.stage = 1, !.op = o, !.ls = l, !.fill = f] : o \in TernaryOps, l \in ChainShapes, f \in FillSet}
Completes(k) ==
  IF k.op \in UnaryOps THEN {[k EXCEPT !.stage = 2]}
  ELSE IF k.op \in BinaryOps THEN UNION {{[k EXCEPT !.stage = 2, !.rs = r, !.rb = b] : b \in RoutesOf(k.op, r, k.fill)} : r \in ShapeSet}
  ELSE IF k.op \in ConfOps THEN {[k EXCEPT !.stage = 2, !.rs = r] : r \in {s \in ShapeSet : s[1] = k.ls[2]}}
  ELSE UNION {{[k EXCEPT !.stage = 2, !.rs = r, !.ts = t] : t \in {s \in ChainShapes : s[1] = r[2]}}
              : r \in {s \in ChainShapes : s[1] = k.ls[2]}}

Init == cs = Dummy
Next == \/ cs.stage = 0 /\ cs' \in Partials
        \/ cs.stage = 1 /\ cs' \in Completes(cs)
Spec == Init /\ [][Next]_cs
Done == cs.stage = 2

LOp(k) == Fill(k.ls, AVal, AQ(k.fill), k.fill)
ROp(k) == Fill(k.rs, BVal, BQ(k.fill), k.fill)
TOp(k) == Fill(k.ts, CVal, CQ(k.fill), k.fill)

Arity(op) == IF op \in UnaryOps THEN 1 ELSE IF op \in TernaryOps THEN 3 ELSE 2

(* the expected result, uniformly [ok, sc, m]: sc = TRUE for a scalar (then m is 1 x 1) *)
Res(x)   == [ok |-> x.ok, sc |-> FALSE, m |-> x.m]
ResM(m)  == [ok |-> TRUE, sc |-> FALSE, m |-> m]
ResS(s)  == [ok |-> s.ok, sc |-> TRUE, m |-> IF s.ok THEN Mat(1, 1, s.q, <<s.n>>) ELSE Mat(0, 0, 0, <<>>)]

Result(k) ==
  LET A == LOp(k)
      B == ROp(k)
      C == TOp(k) IN
  CASE k.op = "matmul"    -> Res(MatMul(A, B))
    [] k.op = "transpose" -> ResM(Transpose(A))
    [] k.op = "tt"        -> ResM(Transpose(Transpose(A)))
    [] k.op = "sumrow"    -> ResM(SumRow(A))
    [] k.op = "sumcol"    -> ResM(SumCol(A))
    [] k.op = "sumcolT"   -> ResM(Transpose(SumCol(Transpose(A))))
    [] k.op = "sumrowT"   -> ResM(Transpose(SumRow(Transpose(A))))
    [] k.op = "total"     -> ResM(SumRow(SumCol(A)))
    [] k.op = "idr"       -> Res(MatMul(A, Id(A.c)))
    [] k.op = "idl"       -> Res(MatMul(Id(A.r), A))
    [] k.op = "dot"       -> ResS(Dot(A, B))
    [] k.op = "mmt"       -> LET x == MatMul(A, B) IN IF x.ok THEN ResM(Transpose(x.m)) ELSE Res(x)
    [] k.op = "tmm"       -> Res(MatMul(Transpose(B), Transpose(A)))
    [] k.op = "chainl"    -> Res(Chain(MatMul(A, B), C, TRUE))
    [] k.op = "chainr"    -> Res(Chain(MatMul(B, C), A, FALSE))

(* expectation class.  matrix/dot: the documentation (machines/matrix/docs/dot.mec) defines the value for two vectors and shows  *)
(* two rows and two columns; for matrix operands it contradicts itself ("always a scalar" / "a matrix for matrix inputs ...      *)
(* corresponds to matrix multiplication"), and it is silent about a row with a column: those are "free".                        *)
Expect(k) ==
  LET A == LOp(k)
      B == ROp(k) IN
  IF k.op = "dot"
  THEN (IF IsVector(A) /\ A.r = B.r /\ A.c = B.c THEN "exact"
        ELSE IF IsVector(A) /\ IsVector(B) /\ Len(A.d) # Len(B.d) THEN "reject"
        ELSE "free")
  ELSE IF Result(k).ok THEN "exact" ELSE "reject"

ShapeStr(sh) == ToString(sh[1]) \o "x" \o ToString(sh[2])
Sig(k) == "G01/" \o k.op \o "/" \o ShapeStr(k.ls)
          \o (IF Arity(k.op) >= 2 THEN "," \o ShapeStr(k.rs) ELSE "")
          \o (IF Arity(k.op) = 3 THEN "," \o ShapeStr(k.ts) ELSE "")
          \o (IF k.ra # "lit" \/ k.rb # "lit" THEN "/via/" \o k.ra \o (IF Arity(k.op) >= 2 THEN "," \o k.rb ELSE "") ELSE "")

CaseJson(k) ==
  LET res == Result(k) IN
  [op |-> k.op, ar |-> Arity(k.op), ls |-> k.ls, rs |-> k.rs, ts |-> k.ts, fill |-> k.fill, ra |-> k.ra, rb |-> k.rb,
   A |-> LOp(k), B |-> ROp(k), C |-> TOp(k), At |-> Transpose(LOp(k)), Bt |-> Transpose(ROp(k)),
   exp |-> Expect(k), sig |-> Sig(k),
   res |-> [sc |-> res.sc, r |-> res.m.r, c |-> res.m.c, q |-> res.m.q, d |-> res.m.d]]

(* ------------------------------------------------------- model-level laws *)
A0 == LOp(cs)
B0 == ROp(cs)
C0 == TOp(cs)

KernelEqDecl  == Done => LoopEqDecl(A0, B0)
Shapes        == Done => ShapeLaws(A0, B0)
TransposeLaw  == Done => (Involution(A0) /\ Involution(B0))
ProductTLaw   == Done => ProductTranspose(A0, B0)
SumLaw        == Done => (SumDuality(A0) /\ SumDuality(B0))
IdentityLaw   == Done => (Identity(A0) /\ Identity(B0))
DotLaw        == Done => (DotIsProduct(A0, B0) /\ (Dot(A0, B0).ok <=> (A0.r = B0.r /\ A0.c = B0.c)))
AssocLaw      == (Done /\ cs.op \in TernaryOps) =>
                   /\ Associative(A0, B0, C0)
                   /\ MatMulK(MatMulK(A0, B0).m, C0) = MatMul(A0, MatMul(B0, C0).m)      \* also across the two definitions
                   /\ Result(cs).ok

(* every route computes the operand itself *)
RouteLaw      == Done =>
  /\ \A rt \in RoutesFor(cs.ls) \cup {"idl", "tidl", "tt"} : Route(rt, A0) = Ok(A0)
  /\ \A rt \in RoutesFor(cs.rs) \cup {"idl", "tidl", "tt"} : Route(rt, B0) = Ok(B0)
  /\ cs.ra \in RoutesFor(cs.ls) /\ cs.rb \in RoutesFor(cs.rs)

(* the two sides of each law that is replayed as a composite expression are the same expected value *)
CompositeLaw  == Done =>
  /\ cs.op = "tmm" => Result(cs) = Result([cs EXCEPT !.op = "mmt"])
  /\ cs.op = "chainr" => Result(cs) = Result([cs EXCEPT !.op = "chainl"])
  /\ cs.op = "sumcolT" => Result(cs) = Result([cs EXCEPT !.op = "sumrow"])
  /\ cs.op = "sumrowT" => Result(cs) = Result([cs EXCEPT !.op = "sumcol"])
  /\ cs.op = "tt" => Result(cs).m = A0
  /\ cs.op \in {"idr", "idl"} => Result(cs) = ResM(A0)

(* the fillings tell a right implementation from the usual wrong ones *)
Injective(s) == \A p, r \in 1..Len(s) : p # r => s[p] # s[r]
Hadamard(A, B) == [p \in 1..Len(A.d) |-> A.d[p] * B.d[p]]
Discriminating == Done =>
  /\ Injective(A0.d) /\ Injective(B0.d) /\ Injective(C0.d)
  /\ (A0.r = A0.c /\ A0.r >= 2) => (SumRow(A0).d # SumCol(A0).d /\ Transpose(A0) # A0)
  /\ (cs.op = "matmul" /\ A0.r = A0.c /\ B0.r = B0.c /\ A0.r = B0.r /\ A0.r >= 2) =>
        LET x == MatMul(A0, B0).m IN
        /\ x # MatMul(B0, A0).m
        /\ x # MatMul(Transpose(A0), B0).m
        /\ x # MatMul(A0, Transpose(B0)).m
        /\ x # Transpose(x)
        /\ x.d # Hadamard(A0, B0)
  /\ (cs.op = "matmul" /\ Result(cs).ok /\ Result(cs).m.r >= 2 /\ Result(cs).m.c >= 2) =>
        Result(cs).m.d # Transpose(Result(cs).m).d          \* writing the result row-major instead of column-major is visible

Emit == Done => PrintT(<<"CASE", ToJson(CaseJson(cs))>>)
=============================================================================
