SPECIFICATION Spec
CONSTANTS
  MaxSize = 4
  RecOrd = 6
  MapOrd = 6
  TblOrd = 3
  TblSize = 4
  TblFull = 3
  Rows = {1, 2, 3, 5}
INVARIANTS WellFormed Kernel ConstrInv OrderInv Writes Pairs PairsTbl RowSets Dups Expects Emit
CHECK_DEADLOCK FALSE
