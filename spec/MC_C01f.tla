------------------------------ MODULE MC_C01f ------------------------------
(* Bounded instance of MechFloat: a miniature binary format; every operation on every pair of finite values. *)
(* TLC checks declarative = algorithmic rounding and emits each case; the harness's implementation of RoundA  *)
(* (arbitrary precision) must reproduce every emitted case before it is used as the binary32 / binary64 oracle. *)
EXTENDS MechFloat, TLC, Json

CONSTANTS P, Emin, Emax
EminA == -2
EminB == -3
F == [p |-> P, emin |-> Emin, emax |-> Emax]
Vals == Finite(F)
Ops == {"+", "-", "*", "/"}

VARIABLE cs
Dummy == [stage |-> 0, op |-> "+", a |-> Q(0, 1), b |-> Q(0, 1)]
Init == cs = Dummy
Next == \/ /\ cs.stage = 0
           /\ \E op \in Ops, a \in Vals : cs' = [stage |-> 1, op |-> op, a |-> a, b |-> Q(0, 1)]
        \/ /\ cs.stage = 1
           /\ \E b \in Vals : cs' = [cs EXCEPT !.stage = 2, !.b = b]
Spec == Init /\ [][Next]_cs

Done == cs.stage = 2 /\ Defined(cs.op, cs.a, cs.b)
Ex == Exact(cs.op, cs.a, cs.b)

Agree == (Done /\ ~Overflows(F, Ex)) => RoundD(F, Ex) = RoundA(F, Ex)
InSet == (Done /\ ~Overflows(F, Ex)) => RoundA(F, Ex) \in Vals
ExactKept == (Done /\ Ex \in Vals) => RoundA(F, Ex) = Ex
SignSym == Done => RoundA(F, QNeg(Ex)) = QNeg(RoundA(F, Ex))
Commutes == (Done /\ cs.op \in {"+", "*"}) => FloatOp(F, cs.op, cs.a, cs.b) = FloatOp(F, cs.op, cs.b, cs.a)
(* the error is at most half a unit in the last place of the result's binade (no closer value exists) *)
HalfUlp == (Done /\ ~Overflows(F, Ex)) =>
             \A w \in Vals : QLeq(Dist(Ex, RoundA(F, Ex)), Dist(Ex, w))

CaseJson == [p |-> P, emin |-> Emin, emax |-> Emax, op |-> cs.op, a |-> cs.a, b |-> cs.b,
             ovf |-> Overflows(F, Ex), r |-> IF Overflows(F, Ex) THEN Q(0, 1) ELSE RoundA(F, Ex)]
Emit == Done => PrintT(<<"CASE", ToJson(CaseJson)>>)
=============================================================================
