------------------------------- MODULE MC_C13h -------------------------------
(* Scientific literals with a half-integer exponent (1.0e-2.5, 2.5E1.5, .5e+0.5): every mantissa of the pool x every whole  *)
(* exponent part x every sign spelling.  TLC checks the laws of HalfExpSquare (reciprocity of the two signs, monotonicity   *)
(* in k) and emits every case with the rational the square of the value must equal.                                        *)
EXTENDS MechLiteral, TLC, Json

CONSTANTS Mants, Ks

MantsDef == {<<<<1>>, <<0>>>>, <<<<2>>, <<5>>>>, <<<<>>, <<5>>>>, <<<<4>>, <<0>>>>, <<<<1, 2>>, <<2, 5>>>>, <<<<9>>, <<5>>>>}

VARIABLE cs
Cases == {[w |-> m[1], f |-> m[2], k |-> k, es |-> es, cap |-> cap] : m \in Mants, k \in Ks, es \in 0..3, cap \in BOOLEAN}
Dummy == [w |-> <<>>, f |-> <<>>, k |-> 0, es |-> 9, cap |-> FALSE]
Init == cs = Dummy
Next == cs = Dummy /\ cs' \in Cases
Spec == Init /\ [][Next]_cs

Done == cs.es # 9
M(c) == Mantissa(c.w, c.f, 10)
Down(c) == c.es \in {2, 3}
Sq(c) == HalfExpSquare(M(c), c.k, Down(c))

(* the value with the negative exponent times the value with the positive one is m^2: the squares multiply to m^4 *)
Small == M(cs).n <= 5 /\ M(cs).d <= 2 /\ cs.k <= 1
Reciprocal == (Done /\ Small) => QMul(HalfExpSquare(M(cs), cs.k, TRUE), HalfExpSquare(M(cs), cs.k, FALSE)) = QMul(QMul(M(cs), M(cs)), QMul(M(cs), M(cs)))
(* one more unit of exponent is a factor 100 of the square *)
StepLaw == (Done /\ Small) => HalfExpSquare(M(cs), cs.k + 1, FALSE) = QMul(Sq([cs EXCEPT !.es = 0]), Q(100, 1))
(* sanity: 1.0e0.5 squared is 10 *)
ASSUME HalfExpSquare(Q(1, 1), 0, FALSE) = Q(10, 1)
ASSUME HalfExpSquare(Q(2, 1), 1, TRUE) = Q(4, 1000)

Emit == Done => PrintT(<<"CASE", ToJson([w |-> cs.w, f |-> cs.f, k |-> cs.k, es |-> cs.es, cap |-> cs.cap, sq |-> Sq(cs)])>>)
=============================================================================
