------------------------------ MODULE MC_C12p ------------------------------
(* Float -> integer conversion far beyond TLC's integers (C12): the source is +-2^e (exactly representable in f32  *)
(* and f64), the target every integer kind.  "Truncates toward zero and clamps to the target range" is decided      *)
(* symbolically on exponents:  2^e fits an unsigned kind of b bits iff e < b, a signed one iff e < b - 1;           *)
(* -2^e fits a signed kind iff e <= b - 1 and is clamped to 0 by an unsigned kind.  The result is                   *)
(*   [st |-> "exact"]  (the value itself)   |  "max"  |  "min"  |  "zero".                                          *)
(* Laws checked by TLC: the result is monotone in e, and a kind with more bits never clamps where a narrower kind   *)
(* of the same signedness keeps the value.  Every case is replayed as a scalar and inside a matrix.                 *)
EXTENDS Naturals, Sequences, TLC, Json

IntKinds == {"u8", "u16", "u32", "u64", "u128", "i8", "i16", "i32", "i64", "i128"}
Bits(k) == CASE k \in {"u8", "i8"} -> 8 [] k \in {"u16", "i16"} -> 16 [] k \in {"u32", "i32"} -> 32 [] k \in {"u64", "i64"} -> 64 [] OTHER -> 128
Signed(k) == k \in {"i8", "i16", "i32", "i64", "i128"}
Exps == {0, 6, 7, 8, 15, 16, 30, 31, 32, 33, 62, 63, 64, 65, 100, 126, 127, 128, 130}
ExpsF32 == {e \in Exps : e <= 126}        \* 2^127 is the largest power of two below f32::MAX; keep a margin

Conv(e, neg, k) ==
  IF ~neg THEN (IF (Signed(k) /\ e < Bits(k) - 1) \/ (~Signed(k) /\ e < Bits(k)) THEN "exact" ELSE "max")
  ELSE IF ~Signed(k) THEN "zero"
  ELSE IF e <= Bits(k) - 1 THEN "exact" ELSE "min"

VARIABLE c
Cases == {[e |-> e, neg |-> n, src |-> s, dst |-> d, form |-> f] : e \in Exps, n \in BOOLEAN, s \in {"f64", "f32"}, d \in IntKinds, f \in {"scalar", "row", "col", "mat"}}
Init == c = [stage |-> 0, e |-> 0, neg |-> FALSE, src |-> "f64", dst |-> "u8", form |-> "scalar"]
Next == c.stage = 0 /\ \E k \in {x \in Cases : x.src = "f32" => x.e \in ExpsF32} : c' = [stage |-> 1, e |-> k.e, neg |-> k.neg, src |-> k.src, dst |-> k.dst, form |-> k.form]
Spec == Init /\ [][Next]_c
Done == c.stage = 1

(* monotone: a larger magnitude never un-clamps *)
Monotone == Done => \A e2 \in Exps : (e2 >= c.e /\ Conv(c.e, c.neg, c.dst) \in {"max", "min"}) => Conv(e2, c.neg, c.dst) = Conv(c.e, c.neg, c.dst)
(* widening never clamps what the narrower kind keeps *)
Widening == Done => \A k2 \in IntKinds : (Signed(k2) = Signed(c.dst) /\ Bits(k2) >= Bits(c.dst) /\ Conv(c.e, c.neg, c.dst) = "exact") => Conv(c.e, c.neg, k2) = "exact"
Emit == Done => PrintT(<<"CASE", ToJson([e |-> c.e, neg |-> c.neg, src |-> c.src, dst |-> c.dst, form |-> c.form, res |-> Conv(c.e, c.neg, c.dst)])>>)
=============================================================================
