----------------------------- MODULE MechMatch -----------------------------
(***************************************************************************)
(* Reference semantics of Mech's ordered pattern arms (C16): function match *)
(* arms and match expressions.                                              *)
(*                                                                         *)
(* Values (uniform record [t, n, e, tag]):                                  *)
(*   NV(n)      scalar u64 n                                                *)
(*   TV(<<..>>) tuple of scalars            AV(<<..>>) row vector of scalars *)
(*   EV(tag, <<p>>) / EV(tag, <<>>)  enum variant with / without payload    *)
(* Patterns (uniform record [k, c, v, s, suf, sp, tag]); components of a    *)
(* tuple / array / variant pattern are "simple" patterns [k, c, v]          *)
(* (literal c, variable v, wildcard).                                       *)
(* An arm is [pat, guard, body]; guards come from {none, a > c, a > b,      *)
(* a == b} over variables bound by the pattern; bodies are small expression *)
(* trees (lit, var, add, sub, mul, mod, self call).                         *)
(*                                                                         *)
(* Matches / Binds are the declarative definition; MatchK is written the    *)
(* way a matcher loops (left to right, stop at the first failing component, *)
(* bindings made so far are kept).  MC_C16 checks that they agree.          *)
(***************************************************************************)
EXTENDS Naturals, Integers, Sequences, FiniteSets

(* ---------------------------------------------------------------- values *)
NV(n) == [t |-> "n", n |-> n, e |-> <<>>, tag |-> ""]
TV(s) == [t |-> "tup", n |-> 0, e |-> s, tag |-> ""]
AV(s) == [t |-> "arr", n |-> 0, e |-> s, tag |-> ""]
EV(tag, s) == [t |-> "enum", n |-> 0, e |-> s, tag |-> tag]

(* -------------------------------------------------------------- patterns *)
SLit(c) == [k |-> "lit", c |-> c, v |-> ""]
SVar(v) == [k |-> "var", c |-> 0, v |-> v]
SWild   == [k |-> "wild", c |-> 0, v |-> ""]

PLit(c) == [k |-> "lit", c |-> c, v |-> "", s |-> <<>>, suf |-> <<>>, sp |-> "none", tag |-> ""]
PVar(v) == [k |-> "var", c |-> 0, v |-> v, s |-> <<>>, suf |-> <<>>, sp |-> "none", tag |-> ""]
PWild   == [k |-> "wild", c |-> 0, v |-> "", s |-> <<>>, suf |-> <<>>, sp |-> "none", tag |-> ""]
PTup(s) == [k |-> "tup", c |-> 0, v |-> "", s |-> s, suf |-> <<>>, sp |-> "none", tag |-> ""]
(* array pattern: prefix components, spread "none" (exact length) | "anon" ( ... ) | "rest" ( | v ), suffix *)
PArr(pre, sp, rest, suf) == [k |-> "arr", c |-> 0, v |-> rest, s |-> pre, suf |-> suf, sp |-> sp, tag |-> ""]
PEnum(tag, s) == [k |-> "enum", c |-> 0, v |-> "", s |-> s, suf |-> <<>>, sp |-> "none", tag |-> tag]

(* ---------------------------------------------------------- environments *)
(* a sequence of bindings [v, val]; the family has no repeated variables   *)
Bound(env, x)  == \E i \in 1..Len(env) : env[i].v = x
(* the LAST binding of a name wins: a pattern variable shadows a parameter / outer variable of the same name *)
Lookup(env, x) == env[CHOOSE i \in 1..Len(env) : env[i].v = x /\ \A j \in (i + 1)..Len(env) : env[j].v # x].val
Bind(env, x, val) == Append(env, [v |-> x, val |-> val])
EnvSet(env) == {env[i] : i \in 1..Len(env)}

(* ----------------------------------------------- declarative match + bind *)
SMatches(sp, x) == sp.k = "lit" => x = sp.c
SBinds(sp, x)   == IF sp.k = "var" THEN <<[v |-> sp.v, val |-> NV(x)]>> ELSE <<>>

RECURSIVE SeqBinds(_, _, _, _)
SeqBinds(subs, xs, off, i) ==
  IF i > Len(subs) THEN <<>> ELSE SBinds(subs[i], xs[off + i]) \o SeqBinds(subs, xs, off, i + 1)

Matches(p, val) ==
  CASE p.k = "wild" -> TRUE
    [] p.k = "var"  -> TRUE
    [] p.k = "lit"  -> val.t = "n" /\ val.n = p.c
    [] p.k = "tup"  -> /\ val.t = "tup"
                       /\ Len(val.e) = Len(p.s)
                       /\ \A i \in 1..Len(p.s) : SMatches(p.s[i], val.e[i])
    [] p.k = "arr"  -> /\ val.t = "arr"
                       /\ Len(val.e) >= Len(p.s) + Len(p.suf)
                       /\ (p.sp = "none" => Len(val.e) = Len(p.s) + Len(p.suf))
                       /\ \A i \in 1..Len(p.s) : SMatches(p.s[i], val.e[i])
                       /\ \A i \in 1..Len(p.suf) : SMatches(p.suf[i], val.e[Len(val.e) - Len(p.suf) + i])
    [] p.k = "enum" -> /\ val.t = "enum"
                       /\ val.tag = p.tag
                       /\ Len(val.e) = Len(p.s)
                       /\ \A i \in 1..Len(p.s) : SMatches(p.s[i], val.e[i])

(* bindings of a matching pattern: every variable is bound to the part it stands for *)
Binds(p, val) ==
  CASE p.k = "var"  -> <<[v |-> p.v, val |-> val]>>
    [] p.k = "tup"  -> SeqBinds(p.s, val.e, 0, 1)
    [] p.k = "enum" -> SeqBinds(p.s, val.e, 0, 1)
    [] p.k = "arr"  -> SeqBinds(p.s, val.e, 0, 1)
                       \o SeqBinds(p.suf, val.e, Len(val.e) - Len(p.suf), 1)
                       \o (IF p.sp = "rest"
                           THEN <<[v |-> p.v, val |-> AV(SubSeq(val.e, Len(p.s) + 1, Len(val.e) - Len(p.suf)))]>>
                           ELSE <<>>)
    [] OTHER -> <<>>

(* ------------------------------------------------ loop-shaped match + bind *)
RECURSIVE SeqK(_, _, _, _, _)
SeqK(subs, xs, off, i, env) ==
  IF i > Len(subs) THEN [ok |-> TRUE, env |-> env]
  ELSE IF subs[i].k = "lit" /\ xs[off + i] # subs[i].c THEN [ok |-> FALSE, env |-> env]
  ELSE SeqK(subs, xs, off, i + 1, IF subs[i].k = "var" THEN Bind(env, subs[i].v, NV(xs[off + i])) ELSE env)

MatchK(p, val) ==
  CASE p.k = "wild" -> [ok |-> TRUE, env |-> <<>>]
    [] p.k = "var"  -> [ok |-> TRUE, env |-> <<[v |-> p.v, val |-> val]>>]
    [] p.k = "lit"  -> [ok |-> (val.t = "n" /\ val.n = p.c), env |-> <<>>]
    [] p.k = "tup"  -> IF val.t # "tup" \/ Len(val.e) # Len(p.s) THEN [ok |-> FALSE, env |-> <<>>]
                       ELSE SeqK(p.s, val.e, 0, 1, <<>>)
    [] p.k = "enum" -> IF val.t # "enum" \/ val.tag # p.tag \/ Len(val.e) # Len(p.s) THEN [ok |-> FALSE, env |-> <<>>]
                       ELSE SeqK(p.s, val.e, 0, 1, <<>>)
    [] p.k = "arr"  -> IF val.t # "arr" \/ Len(val.e) < Len(p.s) + Len(p.suf) THEN [ok |-> FALSE, env |-> <<>>]
                       ELSE LET a == SeqK(p.s, val.e, 0, 1, <<>>) IN
                            IF ~a.ok THEN a
                            ELSE LET b == SeqK(p.suf, val.e, Len(val.e) - Len(p.suf), 1, a.env) IN
                                 IF ~b.ok THEN b
                                 ELSE IF p.sp = "none" /\ Len(val.e) # Len(p.s) + Len(p.suf) THEN [ok |-> FALSE, env |-> b.env]
                                 ELSE IF p.sp = "rest"
                                      THEN [ok |-> TRUE, env |-> Bind(b.env, p.v, AV(SubSeq(val.e, Len(p.s) + 1, Len(val.e) - Len(p.suf))))]
                                      ELSE b

(* ---------------------------------------------------------------- guards *)
GNone       == [g |-> "none", a |-> "", b |-> "", c |-> 0]
GGtC(a, c)  == [g |-> "gtc", a |-> a, b |-> "", c |-> c]     \* a > c
GGt(a, b)   == [g |-> "gt", a |-> a, b |-> b, c |-> 0]       \* a > b
GEq(a, b)   == [g |-> "eq", a |-> a, b |-> b, c |-> 0]       \* a == b

GuardVars(g) == CASE g.g = "none" -> {} [] g.g = "gtc" -> {g.a} [] OTHER -> {g.a, g.b}
GuardHolds(g, env) ==
  CASE g.g = "none" -> TRUE
    [] g.g = "gtc"  -> Lookup(env, g.a).n > g.c
    [] g.g = "gt"   -> Lookup(env, g.a).n > Lookup(env, g.b).n
    [] g.g = "eq"   -> Lookup(env, g.a).n = Lookup(env, g.b).n

(* ---------------------------------------------------------------- bodies *)
ELit(c)        == [op |-> "lit", c |-> c]
EVar(v)        == [op |-> "var", v |-> v]
EBin(op, l, r) == [op |-> op, l |-> l, r |-> r]         \* add sub mul mod
ECall(args)    == [op |-> "call", args |-> args]        \* call of the function being defined

Arm(p, g, b) == [pat |-> p, guard |-> g, body |-> b]

(* an arm applies to a value: its pattern matches and its guard is true in the arm's bindings *)
Applies(arm, val) == Matches(arm.pat, val) /\ GuardHolds(arm.guard, Binds(arm.pat, val))

NoArm == 0
(* declarative: the least index that applies *)
FirstMatch(arms, val) ==
  IF \E i \in 1..Len(arms) : Applies(arms[i], val)
  THEN CHOOSE i \in 1..Len(arms) : Applies(arms[i], val) /\ \A j \in 1..(i - 1) : ~Applies(arms[j], val)
  ELSE NoArm

(* loop-shaped: scan in source order, stop at the first arm whose pattern matched and guard passed *)
RECURSIVE Scan(_, _, _)
Scan(arms, val, i) ==
  IF i > Len(arms) THEN NoArm
  ELSE LET m == MatchK(arms[i].pat, val) IN
       IF m.ok /\ GuardHolds(arms[i].guard, m.env) THEN i ELSE Scan(arms, val, i + 1)

(* the arms tested before (and including) the selected one; all of them when none applies *)
Tested(arms, val) == LET f == FirstMatch(arms, val) IN IF f = NoArm THEN Len(arms) ELSE f

(* ------------------------------------------------------------- functions *)
(* def = [nargs, arms]; the value the arms are matched against: the argument itself for one      *)
(* argument, the arguments "with tuple-style structure" for several                               *)
ArgVal(def, xs) ==
  CASE def.nargs = 1 -> xs[1]
    [] def.nargs = 2 -> TV(<<xs[1].n, xs[2].n>>)
    [] def.nargs = 3 -> TV(<<xs[1].n, xs[2].n, xs[3].n>>)

(* the scope an arm's body is evaluated in: the parameters of a two-argument function (inp, inq), or the outer       *)
(* variable inq = 7 of the session for one-argument definitions and match expressions, then the arm's own pattern     *)
(* bindings (EVERY arm starts from the same outer scope: nothing bound by an arm that was tried before is visible)    *)
ParamEnv(def, val) == IF "params" \in DOMAIN def /\ Len(def.params) > 0      \* a definition with declared input names: bound to the CURRENT arguments
                      THEN [i \in 1..Len(def.params) |-> [v |-> def.params[i], val |-> NV(val.e[i])]]
                      ELSE IF def.nargs = 2 THEN <<[v |-> "inp", val |-> NV(val.e[1])], [v |-> "inq", val |-> NV(val.e[2])]>>
                      ELSE <<[v |-> "inq", val |-> NV(7)]>>
ArmEnv(def, i, val) == ParamEnv(def, val) \o Binds(def.arms[i].pat, val)

RECURSIVE Eval(_, _, _), CallVal(_, _), EvalArgs(_, _, _)
(* argument values as an explicit tuple (a tuple is evaluated once; a function constructor would be   *)
(* re-evaluated by TLC at every application, which is exponential along a recursion)                  *)
EvalArgs(def, as, env) ==
  CASE Len(as) = 1 -> <<NV(Eval(def, as[1], env))>>
    [] Len(as) = 2 -> <<NV(Eval(def, as[1], env)), NV(Eval(def, as[2], env))>>
    [] Len(as) = 3 -> <<NV(Eval(def, as[1], env)), NV(Eval(def, as[2], env)), NV(Eval(def, as[3], env))>>
Eval(def, e, env) ==
  CASE e.op = "lit" -> e.c
    [] e.op = "var" -> Lookup(env, e.v).n
    [] e.op = "add" -> Eval(def, e.l, env) + Eval(def, e.r, env)
    [] e.op = "sub" -> Eval(def, e.l, env) - Eval(def, e.r, env)
    [] e.op = "mul" -> Eval(def, e.l, env) * Eval(def, e.r, env)
    [] e.op = "mod" -> Eval(def, e.l, env) % Eval(def, e.r, env)
    [] e.op = "call" -> CallVal(def, EvalArgs(def, e.args, env))
(* value of a call with scalar results; -1 stands for "no arm matches" (an error) *)
CallVal(def, xs) ==
  LET val == ArgVal(def, xs)
      i == FirstMatch(def.arms, val) IN
  IF i = NoArm THEN -1 ELSE Eval(def, def.arms[i].body, ArmEnv(def, i, val))

(* deviation (iv) of DESIGN.md C16, named: an arm whose body is a call of the function itself with *)
(* the same number of arguments is a tail call (a loop step), any other recursion is a nested call *)
IsTailArm(def, arm) == arm.body.op = "call" /\ Len(arm.body.args) = def.nargs

(* call sites directly inside an expression (nested calls made while evaluating a body) *)
RECURSIVE CallSites(_, _, _)
CallSites(def, e, env) ==
  CASE e.op \in {"lit", "var"} -> {}
    [] e.op = "call" -> {EvalArgs(def, e.args, env)}
                        \cup UNION {CallSites(def, e.args[i], env) : i \in 1..Len(e.args)}
    [] OTHER -> CallSites(def, e.l, env) \cup CallSites(def, e.r, env)

(* outcome of calling a function: wrong arity is an error, no arm is an error *)
CallOutcome(def, xs) ==
  IF Len(xs) # def.nargs THEN [kind |-> "reject", v |-> 0, arm |-> 0]
  ELSE LET val == ArgVal(def, xs)
           i == FirstMatch(def.arms, val) IN
       IF i = NoArm THEN [kind |-> "noarm", v |-> 0, arm |-> 0]
       ELSE [kind |-> "val", v |-> Eval(def, def.arms[i].body, ArmEnv(def, i, val)), arm |-> i]

(* a single-argument scalar function applied to a matrix: the matrix of the results *)
Broadcast(def, xs) == [i \in 1..Len(xs) |-> CallOutcome(def, <<NV(xs[i])>>)]

(* ------------------------------------------------------ match expressions *)
(* Deviations the implementation makes deliberately in match EXPRESSIONS (read in match_expression  *)
(* and patterns.rs), named here rather than idealised away; the property does not define them, so   *)
(* MC_C16 generates no case in which they apply (invariant InScope) - they are "free":               *)
(*  (i)   OptionGuard: a pattern that is a non-variable expression evaluating to a boolean acts as a *)
(*        guard instead of being compared with the source (applies only to boolean-valued patterns); *)
(*  (ii)  KindAgreement: after an arm is selected, every other applicable non-wildcard arm's body is *)
(*        evaluated once and must have the same kind (MatchArmKindMismatch otherwise);               *)
(*  (iii) OptionSource: when the source is or contains the empty value the wildcard arm is consulted *)
(*        before the ordered scan (coalescing);                                                      *)
(*  (iv)  tail calls: see IsTailArm above (function arms).                                           *)
DevOptionGuard(val)   == val.t = "bool"
DevOptionSource(val)  == val.t = "empty"
HasWild(arms) == \E i \in 1..Len(arms) : arms[i].pat.k = "wild"
ArmTags(arms) == {arms[i].pat.tag : i \in {j \in 1..Len(arms) : arms[j].pat.k = "enum"}}
(* a match must have a wildcard arm or name every variant of the enum of its source *)
Exhaustive(arms, val, variants) == HasWild(arms) \/ (val.t = "enum" /\ variants \subseteq ArmTags(arms))

MatchOutcome(arms, val, variants) ==
  IF ~Exhaustive(arms, val, variants) THEN [kind |-> "reject", v |-> 0, arm |-> 0]
  ELSE LET i == FirstMatch(arms, val) IN
       IF i = NoArm THEN [kind |-> "noarm", v |-> 0, arm |-> 0]
       ELSE [kind |-> "val", v |-> Eval([nargs |-> 1, arms |-> arms], arms[i].body, ArmEnv([nargs |-> 1, arms |-> arms], i, val)), arm |-> i]

(* classification used only for failure signatures: some arm carries a guard, its pattern does not *)
(* match, and the loop-shaped matcher stopped before binding every variable of the guard           *)
GuardUnbound(arms, val) ==
  \E i \in 1..Len(arms) :
     /\ arms[i].guard.g # "none"
     /\ ~MatchK(arms[i].pat, val).ok
     /\ \E x \in GuardVars(arms[i].guard) : ~Bound(MatchK(arms[i].pat, val).env, x)

(* ------------------------------------------------------------ recurrences *)
RECURSIVE Fact(_), Pow(_, _), Fib(_), Gcd(_, _), CountAcc(_, _), CountChunk(_, _)
Fact(n)   == IF n = 0 THEN 1 ELSE n * Fact(n - 1)
Pow(x, y) == IF y = 0 THEN 1 ELSE x * Pow(x, y - 1)
Fib(n)    == IF n = 0 THEN 0 ELSE IF n = 1 THEN 1 ELSE Fib(n - 1) + Fib(n - 2)
Gcd(a, b) == IF b = 0 THEN a ELSE Gcd(b, a % b)
CountAcc(n, acc) == IF n = 0 THEN acc ELSE CountAcc(n - 1, acc + 1)
(* the same recurrence unrolled 1000 steps at a time: TLC's evaluation cost grows with the square of *)
(* the recursion depth, so depth 50000 is evaluated as 50 nested runs of depth 1000                  *)
CountChunk(n, acc) == IF n <= 1000 THEN CountAcc(n, acc) ELSE CountChunk(n - 1000, CountAcc(1000, acc))
Countdown(n) == CountChunk(n, 0)

(* the same recurrences as Mech function definitions (arms interpreted by CallVal) *)
FactDef == [nargs |-> 1, arms |-> <<Arm(PLit(0), GNone, ELit(1)),
                                    Arm(PVar("n"), GNone, EBin("mul", EVar("n"), ECall(<<EBin("sub", EVar("n"), ELit(1))>>)))>>]
PowDef  == [nargs |-> 2, arms |-> <<Arm(PTup(<<SWild, SLit(0)>>), GNone, ELit(1)),
                                    Arm(PTup(<<SVar("x"), SVar("y")>>), GNone,
                                        EBin("mul", EVar("x"), ECall(<<EVar("x"), EBin("sub", EVar("y"), ELit(1))>>)))>>]
FibDef  == [nargs |-> 1, arms |-> <<Arm(PLit(0), GNone, ELit(0)), Arm(PLit(1), GNone, ELit(1)),
                                    Arm(PVar("n"), GNone, EBin("add", ECall(<<EBin("sub", EVar("n"), ELit(1))>>),
                                                                      ECall(<<EBin("sub", EVar("n"), ELit(2))>>)))>>]
GcdDef  == [nargs |-> 2, arms |-> <<Arm(PTup(<<SVar("a"), SLit(0)>>), GNone, EVar("a")),
                                    Arm(PTup(<<SVar("a"), SVar("b")>>), GNone,
                                        ECall(<<EVar("b"), EBin("mod", EVar("a"), EVar("b"))>>))>>]
(* countdown-acc(n, acc): tail recursion *)
CountDef == [nargs |-> 2, arms |-> <<Arm(PTup(<<SLit(0), SVar("acc")>>), GNone, EVar("acc")),
                                     Arm(PTup(<<SVar("n"), SVar("acc")>>), GNone,
                                         ECall(<<EBin("sub", EVar("n"), ELit(1)), EBin("add", EVar("acc"), ELit(1))>>))>>]
(* tail recursions whose arms READ THE DECLARED INPUT NAMES (the patterns bind nothing): every iteration must see the  *)
(* arguments of the current call, not those of the first one                                                            *)
CountUpDef == [nargs |-> 2, params |-> <<"n", "acc">>,
               arms |-> <<Arm(PTup(<<SLit(0), SWild>>), GNone, EVar("acc")),
                          Arm(PTup(<<SWild, SWild>>), GNone, ECall(<<EBin("sub", EVar("n"), ELit(1)), EBin("add", EVar("acc"), ELit(1))>>))>>]
GcdPDef == [nargs |-> 2, params |-> <<"a", "b">>,
            arms |-> <<Arm(PTup(<<SWild, SLit(0)>>), GNone, EVar("a")),
                       Arm(PTup(<<SWild, SWild>>), GNone, ECall(<<EVar("b"), EBin("mod", EVar("a"), EVar("b"))>>))>>]
PowAccDef == [nargs |-> 3, params |-> <<"x", "y", "acc">>,
              arms |-> <<Arm(PTup(<<SWild, SLit(0), SWild>>), GNone, EVar("acc")),
                         Arm(PTup(<<SWild, SWild, SWild>>), GNone, ECall(<<EVar("x"), EBin("sub", EVar("y"), ELit(1)), EBin("mul", EVar("acc"), EVar("x"))>>))>>]
(* fib-acc(n, a, b): tail recursive fibonacci *)
FibAccDef == [nargs |-> 3, arms |-> <<Arm(PTup(<<SLit(0), SVar("a"), SWild>>), GNone, EVar("a")),
                                      Arm(PTup(<<SVar("n"), SVar("a"), SVar("b")>>), GNone,
                                          ECall(<<EBin("sub", EVar("n"), ELit(1)), EVar("b"), EBin("add", EVar("a"), EVar("b"))>>))>>]

=============================================================================
