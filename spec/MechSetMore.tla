----------------------------- MODULE MechSetMore -----------------------------
(***************************************************************************)
(* Reference semantics of the set functions of machines/set that property  *)
(* C14 does not name (growth area G03):                                    *)
(*                                                                         *)
(*   set/powerset(A)             set/cartesian-product(A, B)               *)
(*   set/insert(A, e)            set/remove(A, e)                          *)
(*   set/disjoint(A, B)          set/equals(A, B)   set/not-equals(A, B)   *)
(*   set/complement(U, A)        set/size(A)                               *)
(*   proper subset / superset    not-element-of                            *)
(*                                                                         *)
(* As in MechSet an element is an abstract id, a set is a native TLA+ set  *)
(* of ids: the declarative definitions are the mathematical ones (SUBSET,  *)
(* \X, \cup {e}, \ {e}, ...).  A member of a cartesian product is the      *)
(* 2-tuple <<x, y>>, a member of a powerset is a set.                      *)
(*                                                                         *)
(* Independently written loop-shaped definitions work on the STORED form   *)
(* of a set (duplicate-free sequence in insertion order, MechSet suffix K) *)
(* the way an implementation iterates:                                     *)
(*   PowersetK   doubling loop (for every element: all subsets so far,     *)
(*               then all of them again with the element appended)         *)
(*   PowersetB   bit-mask loop (m = 0 .. 2^n - 1, element i iff bit i)     *)
(*   PowersetR   the with / without recursion of operations/powerset.rs    *)
(*   ProductK    two nested loops                                          *)
(*   RemoveK     shifting removal, DisjointK early-exit scan, EqualsK      *)
(*               length test + inclusion scan, FoldInsert / FoldRemove     *)
(* MC_G03 checks that they agree with the declarative definitions and that *)
(* the algebraic laws below hold on every enumerated input before the      *)
(* declarative definitions judge the interpreter.                          *)
(*                                                                         *)
(* Values of different element kinds are different values: Tag(k, A) is    *)
(* the set A of ids read in kind k; the cross-kind expectations are the    *)
(* plain definitions applied to tagged sets.                               *)
(***************************************************************************)
EXTENDS MechSet

(* ------------------------------------------------------------ declarative *)
Powerset(A)      == SUBSET A
Product(A, B)    == A \X B
Insert(A, e)     == A \cup {e}
Remove(A, e)     == A \ {e}
Disjoint(A, B)   == A \cap B = {}
Equals(A, B)     == A = B
NotEquals(A, B)  == A # B
Complement(U, A) == U \ A                 \* docs/ops/complement.mec: relative to an explicit universe, "equivalent to U \ A"

RECURSIVE Pow2(_)
Pow2(n) == IF n = 0 THEN 1 ELSE 2 * Pow2(n - 1)

Tag(k, A) == {<<k, i>> : i \in A}

(* ---------------------------------------------------------- loop-shaped (K) *)
(* doubling *)
RECURSIVE PowK(_, _, _)
PowK(a, i, acc) ==
  IF i > Len(a) THEN acc
  ELSE PowK(a, i + 1, acc \o [j \in 1..Len(acc) |-> Append(acc[j], a[i])])
PowersetK(a) == PowK(a, 1, << <<>> >>)

(* bit masks *)
Bit(m, i) == (m \div Pow2(i - 1)) % 2
RECURSIVE Pick(_, _, _)
Pick(a, m, i) == IF i > Len(a) THEN <<>> ELSE (IF Bit(m, i) = 1 THEN <<a[i]>> ELSE <<>>) \o Pick(a, m, i + 1)
PowersetB(a) == [m \in 1..Pow2(Len(a)) |-> Pick(a, m - 1, 1)]

(* with / without recursion (machines/set/src/operations/powerset.rs, before its sort by length) *)
RECURSIVE PowAux(_, _, _)
PowAux(s, unfinished, idx) ==
  IF idx > Len(s) THEN unfinished
  ELSE    PowAux(s, [j \in 1..Len(unfinished) |-> Append(unfinished[j], s[idx])], idx + 1)
       \o PowAux(s, unfinished, idx + 1)
PowersetR(s) == IF Len(s) = 0 THEN << <<>> >> ELSE PowAux(s, << <<s[1]>> >>, 2) \o PowAux(s, << <<>> >>, 2)

RECURSIVE ProdRow(_, _, _)
ProdRow(x, b, j) == IF j > Len(b) THEN <<>> ELSE << <<x, b[j]>> >> \o ProdRow(x, b, j + 1)
RECURSIVE ProdK(_, _, _)
ProdK(a, b, i) == IF i > Len(a) THEN <<>> ELSE ProdRow(a[i], b, 1) \o ProdK(a, b, i + 1)
ProductK(a, b) == ProdK(a, b, 1)

InsertK(a, e) == InsertIfAbsent(a, e)
RECURSIVE RemK(_, _, _)
RemK(a, e, i) == IF i > Len(a) THEN <<>> ELSE (IF a[i] = e THEN <<>> ELSE <<a[i]>>) \o RemK(a, e, i + 1)
RemoveK(a, e) == RemK(a, e, 1)

RECURSIVE DisjK(_, _, _)
DisjK(a, b, i) == IF i > Len(a) THEN TRUE ELSE IF Has(b, a[i]) THEN FALSE ELSE DisjK(a, b, i + 1)
DisjointK(a, b) == DisjK(a, b, 1)
EqualsK(a, b)   == Len(a) = Len(b) /\ SubsetK(a, b)

(* inserting / removing the elements of a written sequence one after the other *)
RECURSIVE FoldInsert(_, _, _)
FoldInsert(A, s, i) == IF i > Len(s) THEN A ELSE FoldInsert(Insert(A, s[i]), s, i + 1)
RECURSIVE FoldRemove(_, _, _)
FoldRemove(A, s, i) == IF i > Len(s) THEN A ELSE FoldRemove(Remove(A, s[i]), s, i + 1)

SetsOf(ss) == {Range(ss[i]) : i \in DOMAIN ss}      \* the sets stored by a sequence of stored sets

(* ------------------------------------------------------------------- laws *)
GoodPowerSeq(ps, a) ==
  /\ Len(ps) = Pow2(Len(a))
  /\ \A i \in DOMAIN ps : NoDup(ps[i])
  /\ Cardinality(SetsOf(ps)) = Len(ps)              \* no subset twice
  /\ SetsOf(ps) = Powerset(Range(a))

UnaryKernel(sa) ==
  LET a == FromWrittenK(sa) IN
  /\ GoodPowerSeq(PowersetK(a), a)
  /\ GoodPowerSeq(PowersetB(a), a)
  /\ GoodPowerSeq(PowersetR(a), a)
  /\ SetsOf(PowersetK(a)) = SetsOf(PowersetB(a)) /\ SetsOf(PowersetB(a)) = SetsOf(PowersetR(a))

UnaryLaws(sa) ==
  LET A == FromWritten(sa) P == Powerset(A) IN
  /\ Size(P) = Pow2(Size(A))
  /\ {} \in P /\ A \in P
  /\ UNION P = A
  /\ \A S \in P : Subset(S, A) /\ Size(S) <= Size(A)
  /\ \A k \in 0..Size(A) : \E S \in P : Size(S) = k
  /\ (P = {{}}) = (A = {})
  /\ Size(A) <= 3 => Size(Powerset(P)) = Pow2(Pow2(Size(A)))
  /\ Size(A) <= 3 => P \in Powerset(P) /\ {} \in Powerset(P) /\ {{}} \in Powerset(P)
  /\ Product(A, {}) = {} /\ Product({}, A) = {}
  /\ Size(Product(A, A)) = Size(A) * Size(A)
  /\ Disjoint(A, {}) /\ Disjoint(A, A) = (A = {})
  /\ Equals(A, A) /\ ~NotEquals(A, A) /\ ~PSubset(A, A) /\ ~PSuperset(A, A)
  /\ Complement(A, A) = {} /\ Complement(A, {}) = A

PairKernel(sa, sb) ==
  LET A == FromWritten(sa)  B == FromWritten(sb)
      a == FromWrittenK(sa) b == FromWrittenK(sb)
      pk == ProductK(a, b) IN
  /\ NoDup(pk) /\ Len(pk) = Len(a) * Len(b) /\ Range(pk) = Product(A, B)
  /\ DisjointK(a, b) = Disjoint(A, B) /\ DisjointK(b, a) = Disjoint(A, B)
  /\ EqualsK(a, b) = Equals(A, B)
  /\ FoldInsert(A, sb, 1) = Union(A, B) /\ FoldRemove(A, sb, 1) = Diff(A, B)
  /\ FoldInsert(A, b, 1) = Union(A, B)  /\ FoldRemove(A, b, 1) = Diff(A, B)

PairLaws(sa, sb) ==
  LET A == FromWritten(sa)  B == FromWritten(sb) IN
  /\ Size(Product(A, B)) = Size(A) * Size(B)
  /\ (Product(A, B) = {}) = (A = {} \/ B = {})
  /\ \A x \in A \cup B : \A y \in A \cup B : (<<x, y>> \in Product(A, B)) = (ElementOf(x, A) /\ ElementOf(y, B))
  /\ {<<p[2], p[1]>> : p \in Product(A, B)} = Product(B, A)
  /\ Inter(Product(A, B), Product(B, A)) = Product(Inter(A, B), Inter(A, B))
  /\ Product(A, Union(A, B)) = Union(Product(A, A), Product(A, B))
  /\ Product(Inter(A, B), B) = Inter(Product(A, B), Product(B, B))
  /\ (Product(A, B) = Product(B, A)) = (A = B \/ A = {} \/ B = {})
  /\ Disjoint(A, B) = (Inter(A, B) = {})
  /\ Disjoint(A, B) = Disjoint(B, A)
  /\ Disjoint(A, B) = (Size(Union(A, B)) = Size(A) + Size(B))
  /\ Disjoint(A, B) = (Diff(A, B) = A)
  /\ Disjoint(A, B) = (SymDiff(A, B) = Union(A, B))
  /\ Disjoint(Diff(A, B), B) /\ Disjoint(Diff(A, B), Inter(A, B))
  /\ Equals(A, B) = (Subset(A, B) /\ Superset(A, B))
  /\ Equals(A, B) = ~NotEquals(A, B) /\ Equals(A, B) = Equals(B, A)
  /\ Equals(A, B) = (SymDiff(A, B) = {})
  /\ Equals(A, B) = (Size(A) = Size(B) /\ Subset(A, B))
  /\ PSubset(A, B) = (Subset(A, B) /\ NotEquals(A, B))
  /\ PSuperset(A, B) = (Superset(A, B) /\ NotEquals(A, B))
  /\ PSuperset(A, B) = PSubset(B, A)
  /\ Subset(A, B) = (PSubset(A, B) \/ Equals(A, B)) /\ ~(PSubset(A, B) /\ Equals(A, B))
  /\ (Disjoint(A, B) /\ Subset(A, B)) = (A = {})
  /\ (B \in Powerset(A)) = Subset(B, A)
  /\ Powerset(Inter(A, B)) = Inter(Powerset(A), Powerset(B))
  /\ Subset(A, B) = Subset(Powerset(A), Powerset(B))
  /\ Equals(Powerset(A), Powerset(B)) = Equals(A, B)
  /\ Disjoint(A, B) = (Inter(Powerset(A), Powerset(B)) = {{}})
  /\ Complement(A, B) = Diff(A, B) /\ Complement(A, Complement(A, B)) = Inter(A, B)
  /\ Subset(B, A) => Union(B, Complement(A, B)) = A
  (* values of two different kinds are never equal *)
  /\ Disjoint(Tag("k", A), Tag("l", B))
  /\ Equals(Tag("k", A), Tag("l", B)) = (A = {} /\ B = {})
  /\ Size(Product(Tag("k", A), Tag("l", B))) = Size(A) * Size(B)

ElemKernel(sa, e) ==
  LET A == FromWritten(sa) a == FromWrittenK(sa) IN
  /\ NoDup(InsertK(a, e)) /\ Range(InsertK(a, e)) = Insert(A, e)
  /\ NoDup(RemoveK(a, e)) /\ Range(RemoveK(a, e)) = Remove(A, e)
  /\ Len(InsertK(a, e)) = Size(Insert(A, e)) /\ Len(RemoveK(a, e)) = Size(Remove(A, e))
  /\ RemoveK(InsertK(a, e), e) = RemoveK(a, e)
  /\ ~Has(a, e) => RemoveK(InsertK(a, e), e) = a

ElemLaws(sa, e, U) ==
  LET A == FromWritten(sa) IN
  /\ Insert(Insert(A, e), e) = Insert(A, e)                                  \* insert is idempotent
  /\ ElementOf(e, A) => Insert(A, e) = A
  /\ NotElementOf(e, A) => Remove(Insert(A, e), e) = A                        \* remove after insert of a fresh element is the identity
  /\ ElementOf(e, A) => Insert(Remove(A, e), e) = A
  /\ Remove(Insert(A, e), e) = Remove(A, e) /\ Insert(Remove(A, e), e) = Insert(A, e)
  /\ Remove(Remove(A, e), e) = Remove(A, e)
  /\ NotElementOf(e, A) => Remove(A, e) = A
  /\ ElementOf(e, Insert(A, e)) /\ NotElementOf(e, Remove(A, e))
  /\ NotElementOf(e, A) = ~ElementOf(e, A)
  /\ Size(Insert(A, e)) = Size(A) + (IF ElementOf(e, A) THEN 0 ELSE 1)
  /\ Size(Remove(A, e)) + (IF ElementOf(e, A) THEN 1 ELSE 0) = Size(A)
  /\ Insert(A, e) = Union(A, {e}) /\ Remove(A, e) = Diff(A, {e}) /\ Remove(A, e) = Complement(A, {e})
  /\ Subset(A, Insert(A, e)) /\ Subset(Remove(A, e), A)
  /\ PSubset(A, Insert(A, e)) = NotElementOf(e, A) /\ PSubset(Remove(A, e), A) = ElementOf(e, A)
  /\ Disjoint(A, {e}) = NotElementOf(e, A)
  /\ ElementOf(e, A) = ({e} \in Powerset(A))
  /\ Powerset(Insert(A, e)) = Union(Powerset(A), {Insert(S, e) : S \in Powerset(A)})
  /\ \A f \in U :
       /\ Insert(Insert(A, e), f) = Insert(Insert(A, f), e)
       /\ Remove(Remove(A, e), f) = Remove(Remove(A, f), e)
       /\ e # f => Insert(Remove(A, e), f) = Remove(Insert(A, f), e)
       /\ ElementOf(f, Insert(A, e)) = (f = e \/ ElementOf(f, A))
       /\ ElementOf(f, Remove(A, e)) = (f # e /\ ElementOf(f, A))
       /\ Product(Insert(A, e), {f}) = Insert(Product(A, {f}), <<e, f>>)
  (* an element of another kind is never in the set *)
  /\ Remove(Tag("k", A), <<"l", e>>) = Tag("k", A)
  /\ Size(Insert(Tag("k", A), <<"l", e>>)) = Size(A) + 1
=============================================================================
