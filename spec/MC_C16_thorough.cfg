SPECIFICATION Spec
CONSTANTS
  MaxLen = 4
  FibMax = 20
  CountBig = 50000
INVARIANTS KernelEq FirstIsLeast SwapLaw NonOverlapPerm RecLaw RecSanity Emit
CHECK_DEADLOCK FALSE
