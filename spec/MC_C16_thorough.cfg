SPECIFICATION Spec
CONSTANTS
  MaxLen = 4
  FibMax = 20
  CountBig = 50000
  Big = TRUE
INVARIANTS KernelEq FirstIsLeast SwapLaw NonOverlapPerm RecLaw RecSanity InScope Emit
CHECK_DEADLOCK FALSE
