----------------------------- MODULE MechFloat -----------------------------
(***************************************************************************)
(* IEEE-754 binary arithmetic as far as property C01 relies on it:         *)
(* "on scalars the operators agree ... with IEEE-754 arithmetic for        *)
(* floats".  A binary format is F = [p, emin, emax]: the finite values are  *)
(* +-m * 2^e with 0 <= m < 2^p and emin <= e <= emax (e is the exponent of  *)
(* the LAST mantissa bit, so subnormals are the values with e = emin and    *)
(* m < 2^(p-1)).  binary32 is [p |-> 24, emin |-> -149, emax |-> 104],     *)
(* binary64 is [p |-> 53, emin |-> -1074, emax |-> 971].                    *)
(*                                                                         *)
(* The basic operations + - * / return the exact rational result rounded   *)
(* to the nearest finite value, ties to the value with an even mantissa    *)
(* (roundTiesToEven); a result whose magnitude rounds beyond the largest   *)
(* finite value overflows (to an infinity - outside this module).          *)
(*                                                                         *)
(* Two definitions of rounding: RoundD, declarative (the nearest element   *)
(* of the value set, the even one of two nearest), and RoundA, the         *)
(* algorithm every implementation follows (pick the exponent, truncate,    *)
(* look at the remainder).  TLC checks on a miniature format that they     *)
(* agree; the conformance harness implements RoundA for arbitrary F over   *)
(* unbounded integers, is itself checked against every case TLC emits for  *)
(* the miniature format, and is then used at binary32 / binary64 as the    *)
(* oracle for the real interpreter's scalar results.                        *)
(* Rationals are pairs [n, d] with d > 0 in lowest terms.                   *)
(***************************************************************************)
EXTENDS Integers, Sequences, FiniteSets

Abs(x) == IF x < 0 THEN -x ELSE x
RECURSIVE GCD(_, _)
GCD(a, b) == IF b = 0 THEN a ELSE GCD(b, a % b)
Q(n, d) == LET g == GCD(Abs(n), Abs(d))
               s == IF d < 0 THEN -1 ELSE 1
           IN [n |-> (s * n) \div g, d |-> (s * d) \div g]
RECURSIVE Pow2(_)
Pow2(k) == IF k = 0 THEN 1 ELSE 2 * Pow2(k - 1)
(* m * 2^e as a rational *)
Scale(m, e) == IF e >= 0 THEN Q(m * Pow2(e), 1) ELSE Q(m, Pow2(-e))

QLess(a, b) == a.n * b.d < b.n * a.d
QLeq(a, b) == a.n * b.d <= b.n * a.d
QAbs(a) == [n |-> Abs(a.n), d |-> a.d]
QNeg(a) == [n |-> -a.n, d |-> a.d]
QSub(a, b) == Q(a.n * b.d - b.n * a.d, a.d * b.d)
QAdd(a, b) == Q(a.n * b.d + b.n * a.d, a.d * b.d)
QMul(a, b) == Q(a.n * b.n, a.d * b.d)
QDiv(a, b) == Q(a.n * b.d, a.d * b.n)       \* b.n # 0

(* ------------------------------------------------------------ value set *)
NonNeg(F) == {Scale(m, e) : m \in 0..(Pow2(F.p) - 1), e \in F.emin..F.emax}
Finite(F) == NonNeg(F) \cup {QNeg(v) : v \in NonNeg(F)}
MaxFinite(F) == Scale(Pow2(F.p) - 1, F.emax)

(* canonical mantissa of a non-negative value: the representation with the smallest exponent >= emin *)
Mantissas(F, v) == {m \in 0..(Pow2(F.p) - 1) : \E e \in F.emin..F.emax : Scale(m, e) = v}
CanonM(F, v) == CHOOSE m \in Mantissas(F, v) : \A k \in Mantissas(F, v) : k <= m
EvenValue(F, v) == CanonM(F, QAbs(v)) % 2 = 0

(* overflow threshold of roundTiesToEven: magnitudes at or beyond MaxFinite + half an ulp *)
Overflows(F, q) == ~QLess(QAbs(q), QAdd(MaxFinite(F), Scale(1, F.emax - 1)))

(* --------------------------------------------------- declarative rounding *)
Dist(q, v) == QAbs(QSub(q, v))
Nearest(F, q) == {v \in Finite(F) : \A w \in Finite(F) : QLeq(Dist(q, v), Dist(q, w))}
RoundD(F, q) ==
  LET near == Nearest(F, q) IN
  IF Cardinality(near) = 1 THEN CHOOSE v \in near : TRUE
  ELSE CHOOSE v \in near : EvenValue(F, v)

(* --------------------------------------------------- algorithmic rounding *)
(* exponent of the last kept bit: the smallest e >= emin with |q| < 2^(p+e) *)
RECURSIVE ExpOf(_, _, _)
ExpOf(F, a, e) == IF QLess(a, Scale(1, F.p + e)) \/ e >= F.emax THEN e ELSE ExpOf(F, a, e + 1)
RoundA(F, q) ==
  LET a == QAbs(q)
      e == ExpOf(F, a, F.emin)
      sc == QDiv(a, Scale(1, e))                   \* a / 2^e
      m == sc.n \div sc.d                          \* truncated mantissa
      rem2 == Q(2 * (sc.n - m * sc.d), sc.d)       \* twice the discarded fraction
      up == QLess(Q(1, 1), rem2) \/ (rem2 = Q(1, 1) /\ m % 2 = 1)
      r == Scale(IF up THEN m + 1 ELSE m, e)
  IN IF q.n < 0 THEN QNeg(r) ELSE r

(* ------------------------------------------------------- the operations *)
Exact(op, a, b) ==
  CASE op = "+" -> QAdd(a, b) [] op = "-" -> QSub(a, b) [] op = "*" -> QMul(a, b) [] op = "/" -> QDiv(a, b)
Defined(op, a, b) == op # "/" \/ b.n # 0
FloatOp(F, op, a, b) == RoundA(F, Exact(op, a, b))
=============================================================================
