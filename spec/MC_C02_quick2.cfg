SPECIFICATION Spec
CONSTANTS
  OpsAlphabet = {"+", "-", "*", "/", "%", "**", "^", "<", "<=", ">", ">=", "==", "!=", "&&", "||", "xor"}
  MaxOps = 2
  Unaries = {"none", "neg", "not", "tr"}
INVARIANTS ClimbEqDecl Faithful Shape Emit
CHECK_DEADLOCK FALSE
