SPECIFICATION Spec
CONSTANTS
  MaxCols = 3
  MaxRows = 3
  MaxRows3 = 2
  SelRows = 4
  BigN = 60
  BigM = 40
INVARIANTS KernelEq Laws Mirror SelLaws Emit
CHECK_DEADLOCK FALSE
