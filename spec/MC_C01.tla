------------------------------- MODULE MC_C01 -------------------------------
(* Bounded instance of MechBroadcast/MechScalar for C01: every operator x kind    *)
(* class x (lhs shape, rhs shape) x filling; checks kernel-shaped = declarative   *)
(* and algebraic sanity of the oracle, and emits every case for replay.           *)
EXTENDS MechBroadcast, TLC, Json

CONSTANTS ShapeSet,   \* set of <<sc, r, c>> with sc \in {0,1}
          MatFills    \* fillings used when an operand is a matrix

VARIABLE cs

ShapesQuick == {<<1,1,1>>, <<0,1,1>>, <<0,1,2>>, <<0,1,3>>, <<0,2,1>>, <<0,3,1>>, <<0,2,2>>, <<0,2,3>>, <<0,3,2>>, <<0,3,3>>}
ShapesThorough == ShapesQuick \cup {<<0,4,4>>, <<0,1,4>>, <<0,4,1>>, <<0,3,4>>, <<0,1,9>>, <<0,9,1>>, <<0,5,7>>}

Classes == [u8 |-> IntClass(0, 255), i8 |-> IntClass(-128, 127), uw |-> IntClass(0, 65535),
            iw |-> IntClass(-32768, 32767), flt |-> FltClass, rat |-> RatClass, bool |-> FltClass, str |-> FltClass]
NumClasses == {"u8", "i8", "uw", "iw", "flt", "rat"}

Cyc(s, p) == s[((p - 1) % Len(s)) + 1]

(* operand values: cell p of the lhs / rhs for (operator, class); chosen per operator so that *)
(* the operator is distinguishable from its neighbours and from its operand-swapped self and  *)
(* results stay representable in every class                                                  *)
Spread(cn, n) ==   \* the class's flavour of the integer n (same ordering, class-typical fractions)
  CASE cn = "flt" -> Num(2 * n + 1, 2)
    [] cn = "rat" -> Num(n, 3)
    [] OTHER -> IntV(n)

LV(op, cn, p) ==
  CASE op \in {"+", "-"} -> Spread(cn, 10 + 3 * p)
    [] op = "*" -> IF cn = "flt" THEN Num(2 * p + 3, 2) ELSE IF cn = "rat" THEN Num(p + 2, 3) ELSE IntV(p + 2)
    [] op = "/" -> IF cn = "rat" THEN Num(12 * p, 5) ELSE IntV(12 * (((p - 1) % 9) + 1))
    [] op = "%" -> IntV(7 + 5 * p)
    [] op = "^" -> IntV(Cyc(<<2, 3, 1, 4, 5>>, p))
    [] op \in CmpOps -> Spread(cn, Cyc(<<1, 2, 3, 4, 5, 6, 7, 8, 9>>, p))
    [] op = "neg" -> Spread(cn, Cyc(<<3, 0, 7, 12, 1>>, p))
RV(op, cn, p) ==
  CASE op = "+" -> IF cn = "flt" THEN Num(4 * p + 1, 4) ELSE IF cn = "rat" THEN Num(p + 1, 7) ELSE IntV(p + 1)
    [] op = "-" -> IF cn = "flt" THEN Num(4 * (((p - 1) % 9) + 1) + 1, 4) ELSE IF cn = "rat" THEN Num(p + 1, 7) ELSE IntV(((p - 1) % 9) + 2)
    [] op = "*" -> IF cn = "flt" THEN Num(Cyc(<<5, 3, 9, 7>>, p), 2) ELSE IF cn = "rat" THEN Num(Cyc(<<2, 3, 5, 4>>, p), 7) ELSE IntV(Cyc(<<2, 3, 5, 4>>, p))
    [] op = "/" -> IF cn = "rat" THEN Num(Cyc(<<2, 3, 4, 6, 1, 12>>, p), 7) ELSE IntV(Cyc(<<2, 3, 4, 6, 1, 12>>, p))
    [] op = "%" -> IntV(Cyc(<<2, 3, 5, 4, 7>>, p))
    [] op = "^" -> IntV(Cyc(<<2, 0, 3, 1>>, p))
    [] op \in CmpOps -> Spread(cn, Cyc(<<2, 2, 1, 5, 4, 7, 7, 9, 8>>, p))

BL(p) == BoolV(Cyc(<<TRUE, FALSE, TRUE, FALSE, FALSE, TRUE>>, p))
BR(p) == BoolV(Cyc(<<TRUE, TRUE, FALSE, FALSE, TRUE>>, p))
SL(p) == StrV(Cyc(<<"a", "b", "c", "d", "e">>, p))
SR(p) == StrV(Cyc(<<"a", "c", "c", "e", "d", "b">>, p))

(* SPECIAL operands: the identity and the absorbing element of every operator (0 and 1: x + 0, 0 * x, 1 * x, x / 1, 0 / x,    *)
(* 0 ^ x, 1 ^ x, x ^ 0, x ^ 1, 0 % x, x % 1) take every second and fifth position of an operand, and - through the fillings -    *)
(* also the position of the broadcast scalar.  Kernels that short-cut "trivial" operands are wrong exactly there (0 ^ 0 = 1).    *)
Special(op, left, which) ==
  CASE op = "/" /\ ~left -> IntV(1)                       \* never a zero divisor
    [] op = "%" /\ ~left -> IntV(1)
    [] op = "%" /\ left -> IntV(0)
    [] OTHER -> IntV(which)                               \* which = 0 at positions 2 mod 6, 1 at positions 5 mod 6
HasSpecial(op) == op \in {"+", "*", "/", "%", "^"}
LVs(op, cn, p) == IF HasSpecial(op) /\ p % 6 = 2 THEN Special(op, TRUE, 0)
                  ELSE IF HasSpecial(op) /\ p % 6 = 5 THEN Special(op, TRUE, 1) ELSE LV(op, cn, p)
RVs(op, cn, p) == IF HasSpecial(op) /\ p % 6 = 3 THEN Special(op, FALSE, 0)
                  ELSE IF HasSpecial(op) /\ p % 6 = 5 THEN Special(op, FALSE, 1) ELSE RV(op, cn, p)
LVal(op, cn, p) == IF cn = "bool" THEN BL(p) ELSE IF cn = "str" THEN SL(p) ELSE LVs(op, cn, p)
RVal(op, cn, p) == IF cn = "bool" THEN BR(p) ELSE IF cn = "str" THEN SR(p) ELSE RVs(op, cn, p)

Operand(sh, V(_), fill) ==
  IF sh[1] = 1 THEN Scalar(V(1 + fill))
  ELSE Matrix(sh[2], sh[3], [p \in 1..(sh[2] * sh[3]) |-> V(p + fill)])

OpCls ==  {<<o, k>> : o \in ArithOps \cup CmpOps, k \in NumClasses}
     \cup {<<o, "bool">> : o \in LogicOps \cup {"==", "!="}}
     \cup {<<o, "str">> : o \in {"==", "!="}}
UnOpCls == {<<"neg", k>> : k \in NumClasses} \cup {<<"not", "bool">>}

(* must the scalar form be accepted?  (the property's "on scalars the operators agree with ..."; *)
(* % and ^ exist only for some kinds in this code base, so their acceptance is left free)        *)
MustAccept(op, cn) ==
  \/ op \in {"+", "-", "*", "/"} \cup CmpOps /\ cn \in NumClasses
  \/ op \in LogicOps \cup {"==", "!=", "not"} /\ cn = "bool"
  \/ op \in {"==", "!="} /\ cn = "str"
  \/ op = "neg" /\ cn \in {"i8", "iw", "flt", "rat"}

Dummy == [stage |-> 0, un |-> FALSE, op |-> "+", cn |-> "flt", ls |-> <<1,1,1>>, rs |-> <<1,1,1>>, fill |-> 0]
Fills(ls, rs) == IF ls[1] = 1 /\ rs[1] = 1 THEN {0, 1, 2, 4} ELSE IF ls[1] = 1 \/ rs[1] = 1 THEN MatFills \cup {1, 4} ELSE MatFills
\* with a broadcast scalar the fillings 1 and 4 put the special operands (positions 2 and 5) into the scalar's place
Partials ==
       {[stage |-> 1, un |-> FALSE, op |-> oc[1], cn |-> oc[2], ls |-> l, rs |-> <<1,1,1>>, fill |-> 0] : oc \in OpCls, l \in ShapeSet}
  \cup {[stage |-> 1, un |-> TRUE, op |-> oc[1], cn |-> oc[2], ls |-> l, rs |-> <<1,1,1>>, fill |-> 0] : oc \in UnOpCls, l \in ShapeSet}
Completes(k) ==
  IF k.un THEN {[k EXCEPT !.stage = 2, !.fill = f] : f \in Fills(k.ls, k.ls)}
  ELSE UNION {{[k EXCEPT !.stage = 2, !.rs = r, !.fill = f] : f \in Fills(k.ls, r)} : r \in ShapeSet}

Init == cs = Dummy
Next == \/ cs.stage = 0 /\ cs' \in Partials
        \/ cs.stage = 1 /\ cs' \in Completes(cs)
Spec == Init /\ [][Next]_cs
Done == cs.stage = 2

LOp(k) == Operand(k.ls, LAMBDA p : LVal(k.op, k.cn, p), k.fill)
ROp(k) == Operand(k.rs, LAMBDA p : RVal(k.op, k.cn, p), k.fill)

Result(k) ==
  IF k.un
  THEN LET L == LOp(k) IN [ok |-> TRUE, sc |-> L.sc, r |-> L.r, c |-> L.c,
                           d |-> [p \in 1..Len(L.d) |-> UnaryOp(k.op, Classes[k.cn], L.d[p])]]
  ELSE Apply(k.op, Classes[k.cn], LOp(k), ROp(k))

IsOne(sh) == sh[1] = 0 /\ sh[2] = 1 /\ sh[3] = 1
How(k) == IF k.un THEN (IF k.ls[1] = 1 THEN "ss" ELSE "mm") ELSE BShape(LOp(k), ROp(k)).how

(* "reject": incompatible shapes must be an error.  "closure": accepted iff the scalar form of   *)
(* (op, kind) is accepted (ss itself: per MustAccept).  "free": acceptance unconstrained (1x1     *)
(* matrices against other shapes; matrix-with-vector forms) - but never a wrong value.            *)
Expect(k) ==
  LET h == How(k) IN
  IF ~k.un /\ (IsOne(k.ls) \/ IsOne(k.rs)) /\ k.ls # k.rs /\ k.ls[1] = 0 /\ k.rs[1] = 0 THEN "free"
  ELSE IF h = "no" THEN "reject"
  ELSE IF h = "ss" THEN (IF MustAccept(k.op, k.cn) THEN "accept" ELSE "free")
  ELSE IF h \in {"mm", "ms", "sm"} THEN "closure"
  ELSE "free"

Sig(k) == "C01/" \o k.op \o "/" \o k.cn \o "/" \o How(k)

CaseJson(k) ==
  LET res == Result(k) IN
  [un |-> k.un, op |-> k.op, cn |-> k.cn, ls |-> k.ls, rs |-> k.rs, fill |-> k.fill,
   L |-> LOp(k).d, R |-> IF k.un THEN <<>> ELSE ROp(k).d,
   exp |-> Expect(k), how |-> How(k), sig |-> Sig(k),
   res |-> [sc |-> res.sc, r |-> res.r, c |-> res.c, d |-> res.d]]

(* ------------------------------------------------------- model-level laws *)
KernelEqDecl == (Done /\ ~cs.un) => ApplyK(cs.op, Classes[cs.cn], LOp(cs), ROp(cs)) = Apply(cs.op, Classes[cs.cn], LOp(cs), ROp(cs))

ShapeLaw == (Done /\ ~cs.un) =>
  LET res == Result(cs)
      L == LOp(cs)
      R == ROp(cs) IN
  res.ok => /\ Len(res.d) = res.r * res.c
            /\ res.r = (IF L.r > R.r THEN L.r ELSE R.r)
            /\ res.c = (IF L.c > R.c THEN L.c ELSE R.c)

(* oracle sanity: commutativity, antisymmetry of the orders, De Morgan - on the enumerated operands *)
Algebra == (Done /\ ~cs.un) =>
  LET cl == Classes[cs.cn]
      a == LOp(cs).d[1]
      b == ROp(cs).d[1] IN
  /\ cs.op \in {"+", "*"} => ScalarOp(cs.op, cl, a, b) = ScalarOp(cs.op, cl, b, a)
  /\ cs.op = "<" => ScalarOp("<", cl, a, b).v = ScalarOp(">", cl, b, a).v
  /\ cs.op = "<=" => ScalarOp("<=", cl, a, b).v.b = ~ScalarOp(">", cl, a, b).v.b
  /\ cs.op = "==" => ScalarOp("==", cl, a, b).v.b = ~ScalarOp("!=", cl, a, b).v.b
  /\ cs.op = "&&" => ScalarOp("&&", cl, a, b).v.b = ~ScalarOp("||", cl, UnaryOp("not", cl, a).v, UnaryOp("not", cl, b).v).v.b
  /\ (cs.op = "-" /\ ScalarOp("-", cl, a, b).def /\ ScalarOp("+", cl, ScalarOp("-", cl, a, b).v, b).def)
                       => ScalarOp("+", cl, ScalarOp("-", cl, a, b).v, b).v = a

Emit == Done => PrintT(<<"CASE", ToJson(CaseJson(cs))>>)
=============================================================================
