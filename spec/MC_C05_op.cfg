SPECIFICATION Spec
CONSTANTS
  Names <- NamesQ
  LitPool <- LitsOp
  ActKinds = {"Define", "OpAssignVar", "OpAssign", "Eval"}
  MaxScalar = 7
VIEW View
INVARIANT TypeOK
PROPERTIES ImmutableStable NoInterference FailureAtomic NamesMonotone
ACTION_CONSTRAINT EmitEdge
CHECK_DEADLOCK FALSE
