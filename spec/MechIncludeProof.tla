------------------------- MODULE MechIncludeProof -------------------------
(***************************************************************************)
(* Unbounded safety of the include stack machine, proved with TLAPS: for   *)
(* ANY file system (any number of files and lines) the files on the stack  *)
(* are pairwise distinct in every reachable state.  This is the "active    *)
(* set" discipline behind C20's cycle detection: a file is entered only    *)
(* while it is not active, so an include chain can never be deeper than    *)
(* the number of files and expansion terminates.  TLC checks the same      *)
(* invariant on the bounded instances (MC_C20); this proof removes the     *)
(* bound.  Checked by `tlapm MechIncludeProof.tla` (bin/check C20          *)
(* --tier thorough runs it).                                               *)
(***************************************************************************)
EXTENDS MechIncludeMachine, TLAPS

FrameT == [file : STRING, i : Nat \ {0}, fence : STRING, pendnl : BOOLEAN]
LineT == [k : STRING, t : STRING, nl : BOOLEAN]
FsysOK == \A f \in STRING : fsys[f] \in Seq(LineT)
TypeOK == stack \in Seq(FrameT) /\ FsysOK
Inv == TypeOK /\ StackDistinct

MSpec == (\E fs, root : root \in STRING /\ MInit(fs, root)) /\ FsysOK /\ [][MNext]_mvars

LEMMA InitInv == ASSUME NEW fs, NEW root \in STRING, MInit(fs, root), FsysOK PROVE Inv
  BY DEF MInit, Inv, TypeOK, StackDistinct, Frame, FrameT

LEMMA ExitInv == ASSUME Inv, Exit PROVE Inv'
  <1> USE DEF Inv, TypeOK, FsysOK, StackDistinct, Top, FrameT
  <1>1. Len(stack) > 0 /\ fsys' = fsys BY DEF Exit
  <1> DEFINE rest == SubSeq(stack, 1, Len(stack) - 1)
  <1>2. rest \in Seq(FrameT) /\ Len(rest) = Len(stack) - 1 /\ \A j \in 1..Len(rest) : rest[j] = stack[j]
    BY <1>1
  <1>3. CASE rest = <<>>
    BY <1>3, <1>1 DEF Exit
  <1>4. CASE rest # <<>>
    <2> DEFINE par == rest[Len(rest)]
    <2>1. stack' = [rest EXCEPT ![Len(rest)] = [par EXCEPT !.pendnl = FALSE]]
      BY <1>4, <1>1 DEF Exit
    <2>2. Len(stack') = Len(rest) /\ \A j \in 1..Len(rest) : stack'[j].file = rest[j].file
      BY <2>1, <1>2
    <2>3. stack' \in Seq(FrameT)
      BY <2>1, <1>2
    <2> QED BY <2>2, <2>3, <1>2, <1>1
  <1> QED BY <1>3, <1>4

LEMMA StepInv == ASSUME Inv, StepLine PROVE Inv'
  <1> USE DEF Inv, TypeOK, FsysOK, StackDistinct, Top, SetTop, FrameT, LineT
  <1>0. Len(stack) > 0 /\ fsys' = fsys /\ Top.i <= Len(fsys[Top.file]) BY DEF StepLine
  <1> DEFINE fr == stack[Len(stack)]
             l == fsys[fr.file][fr.i]
             adv == [fr EXCEPT !.i = fr.i + 1]
  <1>1. fr \in FrameT /\ adv \in FrameT /\ adv.file = fr.file
    BY <1>0
  <1>2. l \in LineT
    BY <1>0, <1>1
  <1>3. ASSUME NEW x \in FrameT, x.file = fr.file, stack' = SetTop(x) PROVE Inv'
    <2>1. Len(stack') = Len(stack) /\ \A j \in 1..Len(stack) : stack'[j].file = stack[j].file
      BY <1>3, <1>0
    <2>2. stack' \in Seq(FrameT) BY <1>3, <1>0
    <2> QED BY <2>1, <2>2, <1>0
  <1>4. CASE fr.fence # ""
    <2>1. \E x \in FrameT : x.file = fr.file /\ stack' = SetTop(x)
      BY <1>4, <1>1, <1>2 DEF StepLine
    <2> QED BY <2>1, <1>3
  <1>5. CASE fr.fence = "" /\ l.k = "open"
    <2>1. \E x \in FrameT : x.file = fr.file /\ stack' = SetTop(x)
      BY <1>5, <1>1, <1>2 DEF StepLine
    <2> QED BY <2>1, <1>3
  <1>6. CASE fr.fence = "" /\ l.k # "open" /\ l.k # "inc"
    <2>1. stack' = SetTop(adv)
      BY <1>6 DEF StepLine
    <2> QED BY <2>1, <1>1, <1>3
  <1>7. CASE fr.fence = "" /\ l.k # "open" /\ l.k = "inc"
    <2>1. CASE l.t = Missing \/ l.t \in Active
      <3>1. stack' = stack BY <1>7, <2>1 DEF StepLine
      <3> QED BY <3>1, <1>0
    <2>2. CASE ~(l.t = Missing \/ l.t \in Active)
      <3> DEFINE base == SetTop([adv EXCEPT !.pendnl = l.nl])
      <3>1. stack' = Append(base, Frame(l.t))
        BY <1>7, <2>2 DEF StepLine
      <3>2. base \in Seq(FrameT) /\ Len(base) = Len(stack) /\ \A j \in 1..Len(stack) : base[j].file = stack[j].file
        BY <1>0, <1>1, <1>2
      <3>3. Frame(l.t) \in FrameT /\ Frame(l.t).file = l.t
        BY <1>2 DEF Frame
      <3>4. \A j \in 1..Len(stack) : stack[j].file # l.t
        BY <2>2 DEF Active
      <3>5. stack' \in Seq(FrameT) /\ Len(stack') = Len(stack) + 1
            /\ (\A j \in 1..Len(stack) : stack'[j].file = stack[j].file) /\ stack'[Len(stack) + 1].file = l.t
        BY <3>1, <3>2, <3>3
      <3> QED BY <3>4, <3>5, <1>0
    <2> QED BY <2>1, <2>2
  <1> QED BY <1>4, <1>5, <1>6, <1>7

THEOREM Safety == MSpec => []Inv
  <1>1. ASSUME Inv, [MNext]_mvars PROVE Inv'
    <2>1. CASE Exit BY <2>1, <1>1, ExitInv
    <2>2. CASE StepLine BY <2>2, <1>1, StepInv
    <2>3. CASE UNCHANGED mvars BY <2>3, <1>1 DEF mvars, Inv, TypeOK, FsysOK, StackDistinct
    <2> QED BY <2>1, <2>2, <2>3, <1>1 DEF MNext
  <1>2. MSpec => Inv
    BY InitInv DEF MSpec
  <1>3. FsysOK /\ [MNext]_mvars => FsysOK' BY DEF MNext, Exit, StepLine, FsysOK, mvars
  <1> QED BY <1>1, <1>2, PTL DEF MSpec
=============================================================================
