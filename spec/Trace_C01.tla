------------------------------ MODULE Trace_C01 ------------------------------
(* Trace validation (impl -> spec) for C01 on values the exact oracle does not cover (inexact floats): the property    *)
(* says that each element of a matrix result equals what the SAME operator yields on the corresponding scalar          *)
(* elements.  Every record holds one matrix evaluation and the table of the interpreter's own scalar results for all   *)
(* element pairs (opaque tokens: IEEE bit patterns); MechBroadcast says which pair belongs to which result position.   *)
(*   {op, kind, L: {sc, r, c}, R: {sc, r, c}, ok, res: {sc, r, c, d}, table: [[token]]}                                 *)
(* table[i][j] = token of  L.d[i] op R.d[j]  evaluated as scalars ("err" where the scalar form is rejected).            *)
EXTENDS MechBroadcast, Json, IOUtils, TLC

Tr == ndJsonDeserialize(IOEnv.TRACE)
VARIABLE l

Idx(m) == [sc |-> m.sc, r |-> m.r, c |-> m.c, d |-> [k \in 1..(m.r * m.c) |-> k]]

Problems(e) ==
  LET L == Idx(e.L)
      R == Idx(e.R)
      sh == BShape(L, R)
      cells == {p \in 1..(sh.r * sh.c) : TRUE}
      li(p) == Pick(L, ((p - 1) % sh.r) + 1, ((p - 1) \div sh.r) + 1)
      ri(p) == Pick(R, ((p - 1) % sh.r) + 1, ((p - 1) \div sh.r) + 1)
      allscalar == \A p \in cells : e.table[li(p)][ri(p)] # "err"
  IN IF ~sh.ok THEN {}                                   \* incompatible shapes are judged by the case replay
     ELSE IF ~e.ok THEN (IF allscalar THEN {"rejected-although-scalars-accepted"} ELSE {})
     ELSE (IF e.res.r # sh.r \/ e.res.c # sh.c \/ Len(e.res.d) # sh.r * sh.c THEN {"shape"}
           ELSE IF \E p \in cells : e.table[li(p)][ri(p)] # "err" /\ e.res.d[p] # e.table[li(p)][ri(p)]
                THEN {"element-differs-from-scalar-result"} ELSE {})

Init == l = 1
Next == /\ l <= Len(Tr)
        /\ l' = l + 1
        /\ LET bad == Problems(Tr[l]) IN
           IF bad = {} THEN TRUE ELSE PrintT(<<"MSG", ToJson([l |-> l, rules |-> bad])>>)
Spec == Init /\ [][Next]_l
TraceAccepted ==
  IF TLCGet("stats").diameter - 1 = Len(Tr) THEN TRUE
  ELSE Print(<<"MSG", ToJson([unconsumed |-> TLCGet("stats").diameter])>>, FALSE)
=============================================================================
