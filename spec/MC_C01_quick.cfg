SPECIFICATION Spec
CONSTANTS
  ShapeSet <- ShapesQuick
  MatFills = {0}
INVARIANTS KernelEqDecl ShapeLaw Algebra Emit
CHECK_DEADLOCK FALSE
