SPECIFICATION Spec
CONSTANTS
  Nums <- NumsThorough
  Dens = {1, 2, 4, 8}
  YNums <- YNumsThorough
  YDens = {1, 2, 4}
  ChooseMax = 12
  ComboMax = 6
  RootMax = 12
INVARIANTS RoundingAgrees RoundingLaws FmodLaws RemainderLaws CopySignLaws MaxMinLaws ChooseAgrees CombosLaws RootLaws Emit
CHECK_DEADLOCK FALSE
