------------------------------ MODULE MC_C19g ------------------------------
EXTENDS MechStepGen
OtherVal(v) == CHOOSE w \in Vals : w # v
(* a corrupted observation (one name gets another value) is flagged whenever the rule applies *)
JudgeRejectsMutants ==
  [][\A n \in Names :
        LET bad == [store' EXCEPT ![n] = OtherVal(store'[n])] IN
        \/ (act'.kind = "Step" /\ assigned)          \* unconstrained: the plan may do anything after an assignment
        \/ StepViolations(store, assigned, singles, base, act', bad) # {}]_svars
=============================================================================
