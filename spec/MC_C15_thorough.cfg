SPECIFICATION Spec
CONSTANTS
  Deep = TRUE
INVARIANTS LoopEqDecl Progression LastIsLargest Emptiness ExclVsIncl Closed UnitStep Emit
CHECK_DEADLOCK FALSE
