SPECIFICATION Spec
CONSTANTS
  MatForms <- FormsQuick
  MaxElems = 16
  UneqDiff = 1
  ExtraPool <- ExtraNone
  SetFull = 3
INVARIANTS WidenNarrow WidenNarrowPairs ExpectedWidenings Idempotent TruncClampLaw RepresentableIsKept RejectTable MatrixShapeKept ReshapeDefsAgree ReshapeNotRowMajor ReshapeRoundTrip SetLaws AncAgreesWithExact AncLaws Emit
CHECK_DEADLOCK FALSE
