SPECIFICATION Spec
CONSTANTS
  MaxSteps = 25
  NS = {1, 2, 3}
  NF = {1, 2, 3}
  Kinds3 = {"step", "dec", "first2", "out"}
  MVals <- MVt
  NF3 = {2}
  WithRev = TRUE
INVARIANTS KernelEq RunShape FirstWins FamilyShape LimitMargin RepoResults Emit
CHECK_DEADLOCK FALSE
