SPECIFICATION Spec
CONSTANTS
  Names <- NamesQ
  LitPool <- LitsFull
  ActKinds = {"Define", "DefineFromVar", "Assign", "AssignFromVar", "IndexAssign", "OpAssign", "FieldAssign", "TupleElemAssign", "Eval", "Destructure", "DestructureTooMany", "DestructureVar", "FailingCall"}
  MaxScalar = 7
VIEW View
INVARIANT TypeOK
PROPERTIES ImmutableStable NoInterference FailureAtomic NamesMonotone
ACTION_CONSTRAINT EmitEdge
CHECK_DEADLOCK FALSE
