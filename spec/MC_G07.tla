------------------------------- MODULE MC_G07 -------------------------------
(* Bounded instance of MechReplSyntax: every line  ":" word args terminator  over the pools below.  TLC checks the laws of the    *)
(* documented language (the terminator and the amount of blank space never matter; a short form means what its long form means)  *)
(* and emits every line with its documented meaning.                                                                             *)
EXTENDS MechReplSyntax, TLC, Json

CONSTANTS Words, ArgPool, Terms, Gaps

ArgPoolDef == {<<>>, <<"x">>, <<"3">>, <<"a.mec">>, <<"/d">>, <<"#2", "3">>, <<"a.mec", "b.mec">>, <<"x", "y">>, <<"#2">>, <<"3", "4">>, <<"math/sin">>, <<"10">>}

VARIABLE cs
Cases == {[w |-> w, args |-> a, t |-> t, g |-> g] : w \in Words, a \in ArgPool, t \in Terms, g \in Gaps}
Init == cs \in Cases
Next == UNCHANGED cs
Spec == Init /\ [][Next]_cs

M(c) == Meaning(c.w, c.args)
(* the meaning is a function of word and arguments only *)
TermIrrelevant == \A t \in Terms, g \in Gaps : M([cs EXCEPT !.t = t, !.g = g]) = M(cs)
(* a documented short form means exactly what its long form means *)
Short == [d |-> "docs", h |-> "help", p |-> "plan", q |-> "quit", s |-> "symbols", w |-> "whos", c |-> "code"]
ShortLaw == cs.w \in DOMAIN Short => (M(cs).ok = Meaning(Short[cs.w], cs.args).ok /\ M(cs).c = Meaning(Short[cs.w], cs.args).c)
(* a word that merely BEGINS with a command name is no command *)
NoPrefixCommands == cs.w \notin Names => ~M(cs).ok

Emit == PrintT(<<"CASE", ToJson([w |-> cs.w, args |-> cs.args, t |-> cs.t, g |-> cs.g, ok |-> M(cs).ok, c |-> M(cs).c])>>)
=============================================================================
