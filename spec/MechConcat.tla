----------------------------- MODULE MechConcat -----------------------------
(***************************************************************************)
(* Reference semantics of Mech matrix literals built by concatenation      *)
(* (C11):  [b11 b12 .. ; b21 .. ; ..]  places the blocks of every row side *)
(* by side and stacks the rows.                                            *)
(*                                                                         *)
(* A block is [r, c, k, d]: r x c elements, kind token k, d the column-    *)
(* major sequence of its elements.  A scalar is a 1 x 1 block.  Elements   *)
(* are opaque tokens (naturals): the binding maps tokens to concrete       *)
(* values of every element kind, so the model is kind-agnostic and a       *)
(* misplaced element is visible.                                           *)
(*                                                                         *)
(* Three independently written definitions of the literal:                 *)
(*   Literal   rows HorzCat'ed, row results VertCat'ed (compositional)     *)
(*   LiteralD  declarative: element (i,j) found through block offsets      *)
(*   LiteralK  loop/copy shaped: the copy kernels of the implementation    *)
(*             (CopyMat::copy_into / copy_into_row_major) writing into a   *)
(*             destination buffer at running offsets                       *)
(* A result is [ok, r, c, k, d]; ok = FALSE (Reject) for an invalid tiling *)
(***************************************************************************)
EXTENDS Naturals, Integers, Sequences, FiniteSets

Block(r, c, k, d) == [r |-> r, c |-> c, k |-> k, d |-> d]
At(b, i, j) == b.d[(j - 1) * b.r + i]

Reject  == [ok |-> FALSE, r |-> 0, c |-> 0, k |-> 0, d |-> <<>>]
Res(r, c, k, d) == [ok |-> TRUE, r |-> r, c |-> c, k |-> k, d |-> d]
AsBlock(res) == Block(res.r, res.c, res.k, res.d)

RECURSIVE SumC(_, _), SumR(_, _)
SumC(bs, n) == IF n = 0 THEN 0 ELSE SumC(bs, n - 1) + bs[n].c      \* total width of the first n blocks
SumR(bs, n) == IF n = 0 THEN 0 ELSE SumR(bs, n - 1) + bs[n].r      \* total height of the first n blocks

SameKind(bs) == \A q \in 1..Len(bs) : bs[q].k = bs[1].k

(* ------------------------------------------------------------ HorzCat *)
(* blocks side by side: heights (and kinds) must agree                   *)
HorzOk(bs) == Len(bs) >= 1 /\ SameKind(bs) /\ \A q \in 1..Len(bs) : bs[q].r = bs[1].r

HorzCat(bs) ==
  IF ~HorzOk(bs) THEN Reject
  ELSE LET R == bs[1].r
           C == SumC(bs, Len(bs)) IN
       Res(R, C, bs[1].k,
           [p \in 1..(R * C) |->
              LET i == ((p - 1) % R) + 1
                  j == ((p - 1) \div R) + 1
                  q == CHOOSE q \in 1..Len(bs) : SumC(bs, q - 1) < j /\ j <= SumC(bs, q)
              IN At(bs[q], i, j - SumC(bs, q - 1))])

(* ------------------------------------------------------------ VertCat *)
(* blocks on top of each other: widths (and kinds) must agree            *)
VertOk(bs) == Len(bs) >= 1 /\ SameKind(bs) /\ \A q \in 1..Len(bs) : bs[q].c = bs[1].c

VertCat(bs) ==
  IF ~VertOk(bs) THEN Reject
  ELSE LET R == SumR(bs, Len(bs))
           C == bs[1].c IN
       Res(R, C, bs[1].k,
           [p \in 1..(R * C) |->
              LET i == ((p - 1) % R) + 1
                  j == ((p - 1) \div R) + 1
                  q == CHOOSE q \in 1..Len(bs) : SumR(bs, q - 1) < i /\ i <= SumR(bs, q)
              IN At(bs[q], i - SumR(bs, q - 1), j)])

(* ------------------------------------------------------------ Literal *)
(* rows : sequence of rows, each a non-empty sequence of blocks          *)
Literal(rows) ==
  LET hr == [i \in 1..Len(rows) |-> HorzCat(rows[i])] IN
  IF Len(rows) = 0 \/ \E i \in 1..Len(rows) : ~hr[i].ok THEN Reject
  ELSE VertCat([i \in 1..Len(rows) |-> AsBlock(hr[i])])

(* validity of a tiling, stated directly on the written blocks *)
RowHeightsAgree(row) == \A q \in 1..Len(row) : row[q].r = row[1].r
RowWidth(row) == SumC(row, Len(row))
KindsAgree(rows) == \A i \in 1..Len(rows) : \A q \in 1..Len(rows[i]) : rows[i][q].k = rows[1][1].k
Valid(rows) ==
  /\ Len(rows) >= 1
  /\ \A i \in 1..Len(rows) : Len(rows[i]) >= 1 /\ RowHeightsAgree(rows[i])
  /\ \A i \in 1..Len(rows) : RowWidth(rows[i]) = RowWidth(rows[1])
  /\ KindsAgree(rows)

(* why a tiling is invalid (first reason in evaluation order: kinds, heights in a row, row widths) *)
Why(rows) ==
  IF ~KindsAgree(rows) THEN "kind"
  ELSE IF \E i \in 1..Len(rows) : ~RowHeightsAgree(rows[i]) THEN "height"
  ELSE IF \E i \in 1..Len(rows) : RowWidth(rows[i]) # RowWidth(rows[1]) THEN "width"
  ELSE "none"

(* declarative by block offsets: block (a, q) occupies rows RowOff(a)+1 .. RowOff(a)+h_a and      *)
(* columns ColOff(a, q)+1 .. ColOff(a, q)+w_aq of the result                                       *)
RECURSIVE RowOff(_, _)
RowOff(rows, a) == IF a = 1 THEN 0 ELSE RowOff(rows, a - 1) + rows[a - 1][1].r
ColOff(rows, a, q) == SumC(rows[a], q - 1)

LiteralD(rows) ==
  IF ~Valid(rows) THEN Reject
  ELSE LET m == Len(rows)
           R == RowOff(rows, m) + rows[m][1].r
           C == RowWidth(rows[1]) IN
       Res(R, C, rows[1][1].k,
           [p \in 1..(R * C) |->
              LET i == ((p - 1) % R) + 1
                  j == ((p - 1) \div R) + 1
                  a == CHOOSE a \in 1..m : RowOff(rows, a) < i /\ i <= RowOff(rows, a) + rows[a][1].r
                  q == CHOOSE q \in 1..Len(rows[a]) : ColOff(rows, a, q) < j /\ j <= ColOff(rows, a, q + 1)
              IN At(rows[a][q], i - RowOff(rows, a), j - ColOff(rows, a, q))])

(* ---------------------------------------------------- copy-shaped kernels *)
(* copy_into: the source's column-major elements go to dst[offset + 0 ..]; used by horizontal       *)
(* concatenation, where equal heights make every block a contiguous run of the destination.          *)
RECURSIVE CopyInto(_, _, _, _)
CopyInto(dst, src, offset, ix) ==          \* ix = 0-based source position, as in the Rust loop
  IF ix >= Len(src) THEN dst
  ELSE CopyInto([dst EXCEPT ![ix + offset + 1] = src[ix + 1]], src, offset, ix + 1)

RECURSIVE HorzLoop(_, _, _, _)
HorzLoop(dst, bs, q, offset) ==
  IF q > Len(bs) THEN dst
  ELSE HorzLoop(CopyInto(dst, bs[q].d, offset, 0), bs, q + 1, offset + Len(bs[q].d))

HorzCatK(bs) ==
  IF ~HorzOk(bs) THEN Reject
  ELSE LET R == bs[1].r
           C == SumC(bs, Len(bs)) IN
       Res(R, C, bs[1].k, HorzLoop([p \in 1..(R * C) |-> 0], bs, 1, 0))

(* copy_into_row_major: walks the source column-major and the destination with a stride of          *)
(* (dest_rows - src_rows) added at the end of every source column; the next block starts src_rows    *)
(* further down.  Used by vertical concatenation.                                                    *)
RECURSIVE CopyRowMajor(_, _, _, _, _, _)
CopyRowMajor(dst, src, srcRows, dstRows, offset, ix) ==
  IF ix >= Len(src) THEN dst
  ELSE CopyRowMajor([dst EXCEPT ![offset + 1] = src[ix + 1]], src, srcRows, dstRows,
                    offset + (IF (ix + 1) % srcRows = 0 THEN dstRows - srcRows ELSE 0) + 1, ix + 1)

RECURSIVE VertLoop(_, _, _, _, _)
VertLoop(dst, bs, dstRows, q, offset) ==
  IF q > Len(bs) THEN dst
  ELSE VertLoop(CopyRowMajor(dst, bs[q].d, bs[q].r, dstRows, offset, 0), bs, dstRows, q + 1, offset + bs[q].r)

VertCatK(bs) ==
  IF ~VertOk(bs) THEN Reject
  ELSE LET R == SumR(bs, Len(bs))
           C == bs[1].c IN
       Res(R, C, bs[1].k, VertLoop([p \in 1..(R * C) |-> 0], bs, R, 1, 0))

(* matrix(): evaluate every row with horzcat (stopping at the first failure), a single row is   *)
(* returned as it is, otherwise the row results are vertcat'ed                                   *)
LiteralK(rows) ==
  LET hr == [i \in 1..Len(rows) |-> HorzCatK(rows[i])] IN
  IF Len(rows) = 0 \/ \E i \in 1..Len(rows) : ~hr[i].ok THEN Reject
  ELSE IF Len(rows) = 1 THEN hr[1]
  ELSE VertCatK([i \in 1..Len(rows) |-> AsBlock(hr[i])])

=============================================================================
