SPECIFICATION TraceSpec
CONSTANTS
  Names = {}
  Vals = {}
POSTCONDITION TraceAccepted
CHECK_DEADLOCK FALSE
