SPECIFICATION Spec
CONSTANTS
  Names = {"a", "b"}
  Vals = {"v1", "v2"}
  MaxSteps = 2
PROPERTY JudgeAcceptsSpec
PROPERTY FixedPointNoAssign
PROPERTY JudgeRejectsMutants
CHECK_DEADLOCK FALSE
