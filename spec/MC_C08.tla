------------------------------- MODULE MC_C08 -------------------------------
(* Generator for C08: every root form x every combination of child shapes x statement forms. *)
EXTENDS MechSyntax, TLC, Json

CONSTANTS StmtSet, RootForms

VARIABLE ast

Dummy == [stage |-> 0, stmt |-> "expr", e |-> Node("int", <<>>)]
Init == ast = Dummy
Next ==
  \/ /\ ast.stage = 0
     /\ \E f \in RootForms, s \in StmtSet : ast' = [stage |-> 1, stmt |-> s, e |-> Node(f, <<>>)]
  \/ /\ ast.stage = 1
     /\ LET f == ast.e.f IN
        \/ Arity(f) = 0 /\ ast' = [ast EXCEPT !.stage = 2]
        \/ Arity(f) = 1 /\ \E a \in ChildForms : ast' = [ast EXCEPT !.stage = 2, !.e = Node(f, <<a>>)]
        \/ Arity(f) = 2 /\ \E a \in ChildForms, b \in ChildForms : ast' = [ast EXCEPT !.stage = 2, !.e = Node(f, <<a, b>>)]
Spec == Init /\ [][Next]_ast
Done == ast.stage = 2

WellFormed == Done => Len(ast.e.kids) = Arity(ast.e.f)
Emit == Done => PrintT(<<"CASE", ToJson([stmt |-> ast.stmt, e |-> ast.e])>>)
=============================================================================
