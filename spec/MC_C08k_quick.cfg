SPECIFICATION Spec
CONSTANTS
  Contexts = {"vardef", "kinddefine", "fnarg", "enumpayload"}
INVARIANTS WellFormed Emit
CHECK_DEADLOCK FALSE
