SPECIFICATION Spec
CONSTANTS
  Alpha = {0, 1, 5, 9}
  MaxLen = 4
  Deep = TRUE
INVARIANTS HornerEqFold UnderscoreFree BasedEqDecimal Reduced SciLaw FitLaw Emit
CHECK_DEADLOCK FALSE
