---------------------------- MODULE MechBroadcast ----------------------------
(***************************************************************************)
(* Elementwise application of a binary operator with Mech's broadcasting:  *)
(* equal shapes; a scalar with anything; a matrix with a column vector of  *)
(* matching rows or a row vector of matching columns.  An operand is       *)
(* [sc, r, c, d]: sc = TRUE for a true scalar (r = c = 1), d column-major. *)
(* Declarative definition plus the loop-shaped kernels the implementation  *)
(* dispatches to (one per storage-class pair); TLC checks they agree.      *)
(***************************************************************************)
EXTENDS MechScalar, FiniteSets

Scalar(v)      == [sc |-> TRUE, r |-> 1, c |-> 1, d |-> <<v>>]
Matrix(r, c, d) == [sc |-> FALSE, r |-> r, c |-> c, d |-> d]
At(m, i, j)    == m.d[(j - 1) * m.r + i]

(* result shape, or ok = FALSE when the shapes are incompatible *)
BShape(L, R) ==
  IF L.sc /\ R.sc THEN [ok |-> TRUE, sc |-> TRUE, r |-> 1, c |-> 1, how |-> "ss"]
  ELSE IF L.sc THEN [ok |-> TRUE, sc |-> FALSE, r |-> R.r, c |-> R.c, how |-> "sm"]
  ELSE IF R.sc THEN [ok |-> TRUE, sc |-> FALSE, r |-> L.r, c |-> L.c, how |-> "ms"]
  ELSE IF L.r = R.r /\ L.c = R.c THEN [ok |-> TRUE, sc |-> FALSE, r |-> L.r, c |-> L.c, how |-> "mm"]
  ELSE IF R.c = 1 /\ R.r = L.r /\ L.c > 1 /\ L.r > 1 THEN [ok |-> TRUE, sc |-> FALSE, r |-> L.r, c |-> L.c, how |-> "mv"]
  ELSE IF L.c = 1 /\ L.r = R.r /\ R.c > 1 /\ R.r > 1 THEN [ok |-> TRUE, sc |-> FALSE, r |-> R.r, c |-> R.c, how |-> "vm"]
  ELSE IF R.r = 1 /\ R.c = L.c /\ L.r > 1 /\ L.c > 1 THEN [ok |-> TRUE, sc |-> FALSE, r |-> L.r, c |-> L.c, how |-> "mr"]
  ELSE IF L.r = 1 /\ L.c = R.c /\ R.r > 1 /\ R.c > 1 THEN [ok |-> TRUE, sc |-> FALSE, r |-> R.r, c |-> R.c, how |-> "rm"]
  ELSE [ok |-> FALSE, sc |-> FALSE, r |-> 0, c |-> 0, how |-> "no"]

Pick(m, i, j) == IF m.sc THEN m.d[1]
                 ELSE At(m, IF m.r = 1 THEN 1 ELSE i, IF m.c = 1 THEN 1 ELSE j)

(* declarative: element (i,j) = op(L[i or 1, j or 1], R[i or 1, j or 1]) *)
Apply(op, cls, L, R) ==
  LET sh == BShape(L, R) IN
  [ok |-> sh.ok, sc |-> sh.sc, r |-> sh.r, c |-> sh.c,
   d |-> IF sh.ok THEN [p \in 1..(sh.r * sh.c) |->
            LET i == ((p - 1) % sh.r) + 1
                j == ((p - 1) \div sh.r) + 1
            IN ScalarOp(op, cls, Pick(L, i, j), Pick(R, i, j))]
         ELSE <<>>]

(* kernel-shaped: the loops of machines/*/src (vec, scalar-lhs, scalar-rhs, mat-vec, vec-mat, mat-row, row-mat) *)
RECURSIVE KVec(_, _, _, _, _), KSl(_, _, _, _, _), KSr(_, _, _, _, _), KCols(_, _, _, _, _, _), KRowsOf(_, _, _, _, _, _, _)
KVec(op, cls, ld, rd, p) == IF p > Len(ld) THEN <<>> ELSE <<ScalarOp(op, cls, ld[p], rd[p])>> \o KVec(op, cls, ld, rd, p + 1)
KSl(op, cls, l, rd, p)   == IF p > Len(rd) THEN <<>> ELSE <<ScalarOp(op, cls, l, rd[p])>> \o KSl(op, cls, l, rd, p + 1)
KSr(op, cls, ld, r, p)   == IF p > Len(ld) THEN <<>> ELSE <<ScalarOp(op, cls, ld[p], r)>> \o KSr(op, cls, ld, r, p + 1)
(* for each column j, for each row i: out[i,j] = f(i,j), with the vector operand indexed per `how` *)
KRowsOf(op, cls, L, R, how, j, i) ==
  LET rows == IF how \in {"mv", "mr"} THEN L.r ELSE R.r IN
  IF i > rows THEN <<>>
  ELSE LET a == CASE how = "mv" -> At(L, i, j) [] how = "mr" -> At(L, i, j) [] how = "vm" -> L.d[i] [] how = "rm" -> L.d[j]
           b == CASE how = "mv" -> R.d[i] [] how = "mr" -> R.d[j] [] how = "vm" -> At(R, i, j) [] how = "rm" -> At(R, i, j)
       IN <<ScalarOp(op, cls, a, b)>> \o KRowsOf(op, cls, L, R, how, j, i + 1)
KCols(op, cls, L, R, how, j) ==
  LET cols == IF how \in {"mv", "mr"} THEN L.c ELSE R.c IN
  IF j > cols THEN <<>> ELSE KRowsOf(op, cls, L, R, how, j, 1) \o KCols(op, cls, L, R, how, j + 1)

ApplyK(op, cls, L, R) ==
  LET sh == BShape(L, R) IN
  [ok |-> sh.ok, sc |-> sh.sc, r |-> sh.r, c |-> sh.c,
   d |-> CASE sh.how = "ss" -> <<ScalarOp(op, cls, L.d[1], R.d[1])>>
           [] sh.how = "sm" -> KSl(op, cls, L.d[1], R.d, 1)
           [] sh.how = "ms" -> KSr(op, cls, L.d, R.d[1], 1)
           [] sh.how = "mm" -> KVec(op, cls, L.d, R.d, 1)
           [] sh.how \in {"mv", "vm", "mr", "rm"} -> KCols(op, cls, L, R, sh.how, 1)
           [] OTHER -> <<>>]
=============================================================================
