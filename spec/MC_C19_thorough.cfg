SPECIFICATION Spec
CONSTANTS
  Names = {"a", "b", "c"}
  MaxLen = 4
  Lits = {1, 5}
  Incs = {1}
INVARIANTS StepAdditive NoAssignIdempotent PlanReflectsProgram Emit
CHECK_DEADLOCK FALSE
