----------------------------- MODULE MechWatcher -----------------------------
(* The file watcher over the source registry (src/mechfs.rs, MechFileSystem::watch_source + the reload thread): every            *)
(* modification of a registered file is an event; the reload thread consumes the events one by one and calls reload_source.      *)
(* The point of the watcher is a LIVENESS property: once the files stop changing, the registry (source, tree AND html) comes to   *)
(* describe what is on disk.  It holds for the specification (ReloadLag = FALSE) under weak fairness of the reload thread and     *)
(* FAILS for the implementation's stale-parse deviation (ReloadLag = TRUE): after the last event has been consumed the tree and  *)
(* the html of the file still describe the previous content, and nothing will ever reload it.  MC_G04w checks both.              *)
EXTENDS MechSources

VARIABLES pending,     \* the modification events not yet consumed (a set: events for one path coalesce)
          budget       \* how many more modifications the environment will make (finitely many)
wvars == <<svars, pending, budget>>

WInit == /\ SInit /\ pending = {} /\ budget \in 0..3

Apply(a) == fs' = a.s.fs /\ src' = a.s.src /\ tree' = a.s.tree /\ html' = a.s.html /\ idx' = a.s.idx /\ codes' = a.s.codes

(* the user registers a file (watch_source walks the directory once) *)
Register(p) == /\ src[p] = None /\ fs[p] # None
               /\ Apply(EffAdd(St, p)) /\ UNCHANGED <<pending, budget>>
(* the environment modifies a file; a registered file raises an event *)
Modify(p, t) == /\ budget > 0 /\ fs[p] # t
                /\ Apply(EffWrite(St, p, t))
                /\ pending' = IF src[p] # None THEN pending \cup {p} ELSE pending
                /\ budget' = budget - 1
(* the reload thread consumes one event *)
Consume(p) == /\ p \in pending
              /\ Apply(EffReload(St, p))
              /\ pending' = pending \ {p} /\ UNCHANGED budget
ConsumeSome == \E p \in Paths : Consume(p)

WNext == \/ \E p \in Paths : Register(p) \/ Consume(p)
         \/ \E p \in Paths, t \in Texts : Modify(p, t)
WSpec == WInit /\ [][WNext]_wvars /\ WF_wvars(ConsumeSome)

(* the registry describes the disk *)
UpToDate == \A p \in Paths : src[p] # None => (src[p] = fs[p] /\ tree[p] = TreeOf(p, fs[p]) /\ html[p] = fs[p])
(* once the files stop changing, the registry comes to describe what is on disk - and stays so *)
EventuallyUpToDate == <>[](UpToDate /\ pending = {})
(* safety: an event is pending for every registered file whose registered text differs from the disk *)
NoLostUpdate == \A p \in Paths : (src[p] # None /\ src[p] # fs[p]) => p \in pending
=============================================================================
