SPECIFICATION TraceSpec
CONSTANTS
  Names = {"a", "b", "c"}
  LitPool = {}
  ActKinds = {}
  MaxScalar = 1000000
POSTCONDITION TraceAccepted
CHECK_DEADLOCK FALSE
