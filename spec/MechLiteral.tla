----------------------------- MODULE MechLiteral -----------------------------
(***************************************************************************)
(* Denotation of Mech's numeric literals (specification.mec 4.2,           *)
(* reference/number.mec) on abstract token records.                        *)
(*                                                                         *)
(* A literal is the uniform record                                         *)
(*   form  "int" 12   "flt" 1.5 .5   "sci" 1.5e-3 1e3   "bas" 0x1F 0o7 0b1 *)
(*         0d12   "rat" 3/4   "cpx" 5i 3+4i   "big" (anchored, see below)  *)
(*   neg   leading minus                                                   *)
(*   w, f  whole / fraction digit tokens (0..15 = digit, US = underscore); *)
(*         hasf = a "." part is written (w may then be empty: .5)          *)
(*   base, pfx, uc    radix, "0d/0x/0o/0b" prefix written, upper-case hex  *)
(*   es, ec, e, ef    exponent sign (0 none 1 "+" 2 "-" 3 "+-"), letter,   *)
(*                    digits, written with ".0"                            *)
(*   q, qf, hasqf     denominator digits (rat) / imaginary part (cpx)      *)
(*   hasre, isg, unit complex: real part present, sign of the imaginary    *)
(*                    part (1 "+", 2 "-"), "i" | "j"                       *)
(*   ann, kind        "none" | "sfx" (5u8) | "ann" (5<u8>), kind name      *)
(*   anc, off         "big" literals: the digits spell Anchor(kind) + off  *)
(*                    for an anchor TLC cannot hold in 32 bits (kind max,  *)
(*                    kind min, 2^53); the replay instantiates the digits  *)
(*                                                                         *)
(* Denote(l) is the exact rational the spelling denotes (pair re/im for    *)
(* complex), computed declaratively (positional sum, right fold for the    *)
(* fraction); DenoteK is the independently written loop-shaped version     *)
(* (left-to-right Horner scan that skips underscores, repeated scaling by  *)
(* ten).  Fit(q, K) says what a kind K may make of the value q.            *)
(***************************************************************************)
EXTENDS Integers, Sequences

US  == 16                \* the underscore token
W31 == 2147483647        \* stands for "beyond every value the model enumerates"

Abs(x) == IF x < 0 THEN -x ELSE x
RECURSIVE GCD(_, _)
GCD(a, b) == IF b = 0 THEN a ELSE GCD(b, a % b)
RECURSIVE IPow(_, _)
IPow(a, k) == IF k = 0 THEN 1 ELSE a * IPow(a, k - 1)
RECURSIVE IsPow2(_)
IsPow2(x) == x = 1 \/ (x > 1 /\ x % 2 = 0 /\ IsPow2(x \div 2))

(* reduced fraction n/d, d > 0 *)
Q(n, d) == LET g == GCD(Abs(n), Abs(d))
               s == IF d < 0 THEN -1 ELSE 1
           IN [n |-> (s * n) \div g, d |-> (s * d) \div g]
QZero == [n |-> 0, d |-> 1]
QNeg(a) == [n |-> -a.n, d |-> a.d]
QMul(a, b) == Q(a.n * b.n, a.d * b.d)
Floor(a) == a.n \div a.d
Ceil(a)  == -((-a.n) \div a.d)

Strip(ts) == SelectSeq(ts, LAMBDA t : t # US)

L0 == [form |-> "int", neg |-> FALSE, w |-> <<>>, f |-> <<>>, hasf |-> FALSE, base |-> 10, pfx |-> FALSE, uc |-> FALSE,
       es |-> 0, ec |-> "e", e |-> <<>>, ef |-> FALSE, q |-> <<>>, qf |-> <<>>, hasqf |-> FALSE,
       hasre |-> FALSE, isg |-> 1, unit |-> "i", ann |-> "none", kind |-> "none", anc |-> "none", off |-> 0]

(* ---------------------------------------------------------- declarative *)
RECURSIVE PosSum(_, _, _)
PosSum(ds, b, i) == IF i > Len(ds) THEN 0 ELSE ds[i] * IPow(b, Len(ds) - i) + PosSum(ds, b, i + 1)
Whole(ts, b) == PosSum(Strip(ts), b, 1)                       \* sum of d_i * b^(n-i)

RECURSIVE FracR(_, _)                                          \* .d1 d2 .. = (d1 + .d2 ..) / 10
FracR(ds, i) == IF i > Len(ds) THEN QZero
                ELSE LET r == FracR(ds, i + 1) IN Q(ds[i] * r.d + r.n, r.d * 10)

Mantissa(w, f, b) == LET fr == FracR(Strip(f), 1) IN Q(Whole(w, b) * fr.d + fr.n, fr.d)
Scale10(m, k, down) == IF down THEN Q(m.n, m.d * IPow(10, k)) ELSE Q(m.n * IPow(10, k), m.d)
ExpDown(l) == l.es \in {2, 3}

(* A scientific literal may carry a FRACTIONAL exponent (specification 4.2.2).  With the fraction .5 the value             *)
(* m * 10^(+-(k + 1/2)) is irrational, but it is the positive real whose SQUARE is the rational below: that rational is   *)
(* what the specification states about such a literal, and what an observed value is judged by.                          *)
HalfExpSquare(m, k, down) == Scale10(QMul(m, m), 2 * k + 1, down)

Magnitude(l) ==
  CASE l.form \in {"int", "flt", "bas", "cpx"} -> Mantissa(l.w, l.f, l.base)
    [] l.form = "sci" -> Scale10(Mantissa(l.w, l.f, 10), Whole(l.e, 10), ExpDown(l))
    [] l.form = "rat" -> Q(Whole(l.w, 10), Whole(l.q, 10))

WellFormed(l) == ~(l.form = "rat" /\ Whole(l.q, 10) = 0)
ImNeg(l) == IF l.hasre THEN l.isg = 2 ELSE l.neg

Denote(l) ==
  IF ~WellFormed(l) THEN [ok |-> FALSE, re |-> QZero, im |-> QZero]
  ELSE IF l.form = "cpx"
  THEN [ok |-> TRUE,
        re |-> IF l.hasre THEN (IF l.neg THEN QNeg(Magnitude(l)) ELSE Magnitude(l)) ELSE QZero,
        im |-> IF ImNeg(l) THEN QNeg(Mantissa(l.q, l.qf, 10)) ELSE Mantissa(l.q, l.qf, 10)]
  ELSE [ok |-> TRUE, re |-> IF l.neg THEN QNeg(Magnitude(l)) ELSE Magnitude(l), im |-> QZero]

(* --------------------------------------------------------- loop-shaped *)
(* one left-to-right pass over the tokens: acc := acc*b + digit, the scale *)
(* grows by b per digit when cnt; an underscore is skipped in place        *)
RECURSIVE Scan(_, _, _, _, _, _)
Scan(ts, b, i, acc, sc, cnt) ==
  IF i > Len(ts) THEN <<acc, sc>>
  ELSE IF ts[i] = US THEN Scan(ts, b, i + 1, acc, sc, cnt)
  ELSE Scan(ts, b, i + 1, acc * b + ts[i], IF cnt THEN sc * b ELSE sc, cnt)

MantissaK(w, f, b) == LET a == Scan(w, b, 1, 0, 1, FALSE)
                          z == Scan(f, b, 1, a[1], 1, TRUE)
                      IN Q(z[1], z[2])
RECURSIVE Times10(_, _, _)
Times10(m, k, down) == IF k = 0 THEN m
                       ELSE Times10(IF down THEN Q(m.n, m.d * 10) ELSE Q(m.n * 10, m.d), k - 1, down)

MagnitudeK(l) ==
  CASE l.form \in {"int", "flt", "bas", "cpx"} -> MantissaK(l.w, l.f, l.base)
    [] l.form = "sci" -> Times10(MantissaK(l.w, l.f, 10), Scan(l.e, 10, 1, 0, 1, FALSE)[1], ExpDown(l))
    [] l.form = "rat" -> LET a == Scan(l.w, 10, 1, 0, 1, FALSE)[1]
                             b == Scan(l.q, 10, 1, 0, 1, FALSE)[1]
                         IN IF b = 0 THEN QZero ELSE Q(a, b)

DenoteK(l) ==
  IF l.form = "rat" /\ Scan(l.q, 10, 1, 0, 1, FALSE)[1] = 0 THEN [ok |-> FALSE, re |-> QZero, im |-> QZero]
  ELSE LET m == MagnitudeK(l)
           sm == IF l.neg THEN QNeg(m) ELSE m
       IN IF l.form = "cpx"
          THEN LET i == MantissaK(l.q, l.qf, 10) IN
               [ok |-> TRUE, re |-> IF l.hasre THEN sm ELSE QZero, im |-> IF ImNeg(l) THEN QNeg(i) ELSE i]
          ELSE [ok |-> TRUE, re |-> sm, im |-> QZero]

(* digits of v in base b (inverse of Whole) *)
RECURSIVE ToDigits(_, _)
ToDigits(v, b) == IF v < b THEN <<v>> ELSE Append(ToDigits(v \div b, b), v % b)

(* ------------------------------------------------------------------ kinds *)
(* c: "int" integers lo..hi, "flt" binary floats with mantissas below hi,   *)
(* "rat" every rational.  wide = bit width of the kinds whose true bounds   *)
(* TLC cannot hold: their lo/hi are W31 ("no enumerated small value reaches *)
(* them"); their real bounds are reached through anchored ("big") literals. *)
IntKind(lo, hi, wide) == [c |-> "int", lo |-> lo, hi |-> hi, wide |-> wide]
KindTab == [u8  |-> IntKind(0, 255, 0),          i8  |-> IntKind(-128, 127, 0),
            u16 |-> IntKind(0, 65535, 0),        i16 |-> IntKind(-32768, 32767, 0),
            u32 |-> IntKind(0, W31, 32),         i32 |-> IntKind(-W31, W31, 32),
            u64 |-> IntKind(0, W31, 64),         i64 |-> IntKind(-W31, W31, 64),
            u128 |-> IntKind(0, W31, 128),       i128 |-> IntKind(-W31, W31, 128),
            f32 |-> [c |-> "flt", lo |-> 0, hi |-> 16777216, wide |-> 0],
            f64 |-> [c |-> "flt", lo |-> 0, hi |-> 1073741824, wide |-> 0],
            r64 |-> [c |-> "rat", lo |-> 0, hi |-> 0, wide |-> 0]]
IntKinds == {"u8", "i8", "u16", "i16", "u32", "i32", "u64", "i64", "u128", "i128"}
Unsigned == {"u8", "u16", "u32", "u64", "u128"}
WideKinds == {"u32", "i32", "u64", "i64", "u128", "i128"}

DefaultKind(l) == CASE l.form \in {"int", "flt", "sci"} -> "f64"
                    [] l.form \in {"bas"} -> "i64"
                    [] l.form = "rat" -> "r64"
                    [] l.form = "cpx" -> "f64"           \* each component
                    [] l.form = "big" -> IF l.pfx THEN "i64" ELSE "f64"
KindOf(l) == IF l.ann = "none" THEN DefaultKind(l) ELSE l.kind

Clamp(K, x) == IF x < K.lo THEN K.lo ELSE IF x > K.hi THEN K.hi ELSE x

(* exp: "exact"   the result is n/d                                          *)
(*      "nearest" the result is the float of the kind nearest to n/d        *)
(*      "clamp"   does not fit: an error, or the bound n                     *)
(*      "nearint" a fraction in an integer kind: an error, or n or n2        *)
(*                (floor / ceiling, clamped)                                 *)
Fit(v, K) ==
  LET R(e, n, d, n2, side) == [exp |-> e, n |-> n, d |-> d, n2 |-> n2, side |-> side, anc |-> "none"] IN
  CASE K.c = "rat" -> R("exact", v.n, v.d, v.n, "fits")
    [] K.c = "flt" -> R(IF IsPow2(v.d) /\ Abs(v.n) < K.hi THEN "exact" ELSE "nearest", v.n, v.d, v.n,
                        IF IsPow2(v.d) /\ Abs(v.n) < K.hi THEN "fits" ELSE "inexact")
    [] K.c = "int" ->
         IF v.d = 1
         THEN IF v.n > K.hi THEN R("clamp", K.hi, 1, K.hi, "above-max")
              ELSE IF v.n < K.lo THEN R("clamp", K.lo, 1, K.lo, "below-min")
              ELSE R("exact", v.n, 1, v.n, IF K.wide = 0 /\ v.n = K.hi THEN "at-max"
                                           ELSE IF K.wide = 0 /\ v.n = K.lo /\ K.lo < 0 THEN "at-min" ELSE "fits")
         ELSE R("nearint", Clamp(K, Floor(v)), 1, Clamp(K, Ceil(v)),
                IF Floor(v) >= K.hi THEN "above-max" ELSE IF Ceil(v) <= K.lo THEN "below-min" ELSE "fraction")

(* anchored literals: the value is A + off with A = Max_k ("max"), Min_k     *)
(* ("min", signed kinds, written with a leading minus), 2^53 ("p53") or      *)
(* -2^53 ("n53").  The expected value is again anchor + n.                   *)
FitsP53(k) == KindTab[k].wide \in {64, 128}
FitBig(l) ==
  LET k == KindOf(l)
      R(e, a, n, side) == [exp |-> e, n |-> n, d |-> 1, n2 |-> n, side |-> side, anc |-> a] IN
  CASE l.anc = "max" -> IF l.off <= 0 THEN R("exact", "max", l.off, IF l.off = 0 THEN "at-max" ELSE "near-max")
                        ELSE R("clamp", "max", 0, "above-max")
    [] l.anc = "min" -> IF l.off >= 0 THEN R("exact", "min", l.off, IF l.off = 0 THEN "at-min" ELSE "near-min")
                        ELSE R("clamp", "min", 0, "below-min")
    [] l.anc = "p53" -> IF k = "f64" THEN R("nearest", "p53", l.off, "p53")
                        ELSE IF FitsP53(k) THEN R("exact", "p53", l.off, "p53")
                        ELSE R("clamp", "max", 0, "above-max")
    [] l.anc = "n53" -> IF k = "f64" THEN R("nearest", "n53", l.off, "n53")
                        ELSE IF k \in Unsigned THEN R("clamp", "min", 0, "below-min")
                        ELSE IF FitsP53(k) THEN R("exact", "n53", l.off, "n53")
                        ELSE R("clamp", "min", 0, "below-min")

Expected(l) ==
  IF l.form = "big" THEN FitBig(l)
  ELSE Fit(Denote(l).re, KindTab[KindOf(l)])
=============================================================================
