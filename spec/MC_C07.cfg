SPECIFICATION Spec
INVARIANTS EmittedLayout VerdictTotal Emit
CHECK_DEADLOCK FALSE
