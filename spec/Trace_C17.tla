------------------------------ MODULE Trace_C17 ------------------------------
(* Trace validation for C17 (impl -> spec): the interpreter's own [trace][fsm] events of a machine *)
(* invocation, converted to ndjson by areas/c17.py, are replayed event by event against            *)
(* MechFsm.Step.  The machine declaration is the FIRST record of each run ("Machine": the machine  *)
(* record of MechFsm, the arguments, the transition limit), so the arms are interpreted.           *)
(*                                                                                                 *)
(*   Machine {m, args, maxsteps}                                                                   *)
(*   Start  {state, pay}             configuration the run starts in                               *)
(*   Step   {n, state, pay}          iteration n begins in this configuration                      *)
(*   Arm    {arm, ok}                arm `arm` (source index) was checked against the state         *)
(*   Guard  {arm, g, ok}             guard g of arm `arm` was evaluated                            *)
(*   Trans  {arm, from, to}          the machine moved                                             *)
(*   Output {v}                      an output arm produced v                                      *)
(*   Halt   {state, pay}             no transition applies                                         *)
(*   Limit  {}                       the statement failed with the transition-limit error          *)
(*   Err    {}                       the statement failed with another error                       *)
(*   Reset  {}                                                                                     *)
(* Payload items are {t:"n", n} for scalars and {t:"arr", n:length} for vectors (the interpreter's   *)
(* trace prints only the shape of a matrix).                                                        *)
EXTENDS MechFsm, Json, IOUtils, TLC

Rec == ndJsonDeserialize(IOEnv.TRACE)

VARIABLES l, mach, cfg, steps, ph
vars == <<l, mach, cfg, steps, ph>>

NoMachine == [m |-> [arms |-> <<>>], args |-> <<>>, maxsteps |-> 0]
NoCfg == [state |-> "", pay |-> <<>>, inp |-> <<>>]
Phase(p, a, g) == [p |-> p, arm |-> a, g |-> g]
M == mach.m
Arms == M.arms

ObsItem(o, v) == IF o.t = "n" THEN v.t = "n" /\ v.n = o.n ELSE IF o.t = "arr" THEN v.t = "arr" /\ Len(v.e) = o.n ELSE TRUE
ObsCfg(o, c) == o.state = c.state /\ Len(o.pay) = Len(c.pay) /\ \A i \in 1..Len(o.pay) : ObsItem(o.pay[i], c.pay[i])
Ev(name) == l <= Len(Rec) /\ Rec[l].ev = name

Init == l = 1 /\ mach = NoMachine /\ cfg = NoCfg /\ steps = 0 /\ ph = Phase("idle", 0, 0)

MachineA == /\ Ev("Machine") /\ ph.p = "idle"
            /\ mach' = Rec[l]
            /\ LET s == StartCfg(Rec[l].m, Rec[l].args) IN
               /\ cfg' = s.cfg
               /\ ph' = Phase(IF WellFormed(Rec[l].m) /\ s.ok THEN "init" ELSE "bad", 0, 0)
            /\ steps' = 0 /\ l' = l + 1

(* the run starts in the declared start state with the given arguments *)
StartA == /\ Ev("Start") /\ ph.p = "init"
          /\ ObsCfg(Rec[l], cfg)
          /\ ph' = Phase("step", 0, 0) /\ UNCHANGED <<mach, cfg, steps>> /\ l' = l + 1

StepA == /\ Ev("Step") /\ ph.p = "step"
         /\ Rec[l].n = steps /\ steps < mach.maxsteps
         /\ ObsCfg(Rec[l], cfg)
         /\ ph' = Phase("arms", 0, 0) /\ UNCHANGED <<mach, cfg, steps>> /\ l' = l + 1

(* arms are checked in source order; the logged verdict is the model's ArmMatches *)
ArmA == /\ Ev("Arm") /\ ph.p = "arms"
        /\ Rec[l].arm = ph.arm /\ ph.arm < Len(Arms)
        /\ Rec[l].ok = ArmMatches(Arms[ph.arm + 1], cfg)
        /\ ph' = IF ~Rec[l].ok THEN Phase("arms", ph.arm + 1, 0)
                 ELSE IF Arms[ph.arm + 1].kind = "guard" THEN Phase("guards", ph.arm, 0)
                 ELSE Phase("fire", ph.arm, 0)
        /\ UNCHANGED <<mach, cfg, steps>> /\ l' = l + 1

(* guards of the matching arm are evaluated in order; the first that holds fires; if none holds the *)
(* scan goes on with the next arm                                                                   *)
GuardA == /\ Ev("Guard") /\ ph.p = "guards"
          /\ Rec[l].arm = ph.arm /\ Rec[l].g = ph.g
          /\ LET arm == Arms[ph.arm + 1] IN
             /\ ph.g < Len(arm.guards)
             /\ Rec[l].ok = CondHolds(arm.guards[ph.g + 1].cond, ArmEnv(arm, cfg)).b
             /\ ph' = IF Rec[l].ok THEN Phase("fire", ph.arm, ph.g + 1)
                      ELSE IF ph.g + 1 = Len(arm.guards) THEN Phase("arms", ph.arm + 1, 0)
                      ELSE Phase("guards", ph.arm, ph.g + 1)
          /\ UNCHANGED <<mach, cfg, steps>> /\ l' = l + 1

(* the candidate the trace arrived at is the one Step selects, and the move is Step's *)
TransA == /\ Ev("Trans") /\ ph.p = "fire"
          /\ Rec[l].arm = ph.arm
          /\ LET s == Step(M, cfg) IN
             /\ s.kind = "trans" /\ s.cand = <<ph.arm + 1, ph.g>>
             /\ ObsCfg(Rec[l].from, cfg) /\ ObsCfg(Rec[l].to, s.cfg)
             /\ cfg' = s.cfg
          /\ steps' = steps + 1 /\ ph' = Phase("step", 0, 0) /\ UNCHANGED mach /\ l' = l + 1

OutputA == /\ Ev("Output") /\ ph.p = "fire"
           /\ LET s == Step(M, cfg) IN
              /\ s.kind = "out" /\ s.cand = <<ph.arm + 1, ph.g>>
              /\ ObsItem(Rec[l].v, s.v)
           /\ ph' = Phase("done", 0, 0) /\ UNCHANGED <<mach, cfg, steps>> /\ l' = l + 1

(* halting: every arm has been checked and Step has no candidate *)
HaltA == /\ Ev("Halt") /\ ph.p = "arms" /\ ph.arm = Len(Arms)
         /\ Step(M, cfg).kind = "halt"
         /\ ObsCfg(Rec[l], cfg)
         /\ ph' = Phase("done", 0, 0) /\ UNCHANGED <<mach, cfg, steps>> /\ l' = l + 1

(* the transition limit: exactly maxsteps iterations were made and the run had not ended *)
LimitA == /\ Ev("Limit") /\ ph.p = "step" /\ steps = mach.maxsteps
          /\ ph' = Phase("done", 0, 0) /\ UNCHANGED <<mach, cfg, steps>> /\ l' = l + 1

(* other errors: an ill-formed declaration is rejected before the run starts; arithmetic without a *)
(* result fails where the selected candidate is evaluated                                          *)
ErrA == /\ Ev("Err")
        /\ \/ ph.p = "bad"
           \/ ph.p = "fire" /\ Step(M, cfg).kind = "err" /\ Step(M, cfg).cand = <<ph.arm + 1, ph.g>>
        /\ ph' = Phase("done", 0, 0) /\ UNCHANGED <<mach, cfg, steps>> /\ l' = l + 1

ResetA == /\ Ev("Reset") /\ ph.p = "done"
          /\ ph' = Phase("idle", 0, 0) /\ mach' = NoMachine /\ cfg' = NoCfg /\ steps' = 0 /\ l' = l + 1

Next == MachineA \/ StartA \/ StepA \/ ArmA \/ GuardA \/ TransA \/ OutputA \/ HaltA \/ LimitA \/ ErrA \/ ResetA
Spec == Init /\ [][Next]_vars

TraceAccepted ==
  IF TLCGet("stats").diameter - 1 = Len(Rec) THEN TRUE
  ELSE Print(<<"MSG", ToJson([unmatched |-> TLCGet("stats").diameter, ev |-> Rec[TLCGet("stats").diameter]])>>, FALSE)
=============================================================================
