------------------------------ MODULE MC_C06k ------------------------------
(* Universe of literal constants for C06: every element kind in every container.  TLC checks the   *)
(* round-trip law of MechConst and emits every case; each is written as a Mech literal, compiled,    *)
(* loaded into a fresh interpreter and run: the result must equal what the interpreter computed.     *)
EXTENDS MechConst, TLC, Json

VARIABLE c
Init == c = [stage |-> 0, kind |-> "f64", cont |-> "scalar"]
Next == /\ c.stage = 0
        /\ \E k \in ElemKinds, x \in Containers : c' = [stage |-> 1, kind |-> k, cont |-> x]
Spec == Init /\ [][Next]_c
Done == c.stage = 1
RoundTripInv == Done => RoundTrip(c.kind, c.cont)
WrongSlotInv == Done => WrongSlotVisible(c.kind, c.cont)
Emit == Done => PrintT(<<"CASE", ToJson([kind |-> c.kind, cont |-> c.cont, elems |-> Value(c.kind, c.cont)])>>)
=============================================================================
