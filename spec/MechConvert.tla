---------------------------- MODULE MechConvert ----------------------------
(***************************************************************************)
(* Reference semantics of Mech kind annotations (C12): conversion of a     *)
(* value to another kind, matrix conversion, column-major reshape and      *)
(* matrix -> set.                                                          *)
(*                                                                         *)
(* Scalars are the uniform records of MechScalar ([t, n, d, b, s]: exact   *)
(* rationals n/d, booleans, strings).  A kind class says which values a    *)
(* kind holds:                                                             *)
(*   [c |-> "int", lo, hi]  integers lo..hi (u8, i8, u16, i16 exactly; the *)
(*                          wide kinds u32.. / i32.. with bounds beyond    *)
(*                          every pool value)                              *)
(*   [c |-> "f32"] [c |-> "f64"]  binary floats: dyadic rationals exactly; *)
(*                          a non-dyadic pool value v stands for "the      *)
(*                          float of that kind nearest to v"               *)
(*   [c |-> "rat"] rationals   [c |-> "cpx"] complex (real axis only)      *)
(*   [c |-> "str"] strings     [c |-> "bool"] booleans                     *)
(*                                                                         *)
(* Convert returns [st, v]:                                                *)
(*   st = "exact"  the result is exactly v                                 *)
(*   st = "same"   the result is the number the source variable holds      *)
(*                 (float to a float kind that represents it; v is the     *)
(*                 nominal value)                                          *)
(*   st = "free"   the property does not determine the result              *)
(*   st = "reject" there is no such conversion: an error                   *)
(***************************************************************************)
EXTENDS MechScalar, FiniteSets

F32Class  == [c |-> "f32",  lo |-> 0, hi |-> 0]
F64Class  == [c |-> "f64",  lo |-> 0, hi |-> 0]
CpxClass  == [c |-> "cpx",  lo |-> 0, hi |-> 0]
StrClass  == [c |-> "str",  lo |-> 0, hi |-> 0]
BoolClass == [c |-> "bool", lo |-> 0, hi |-> 0]

IsFloat(cls) == cls.c \in {"f32", "f64"}
IsNumeric(cls) == cls.c \in {"int", "f32", "f64", "rat", "cpx"}

Dyadic(q) == IsPow2(q.d)
IsInt(q) == q.d = 1

(* does a variable of class cls hold exactly the rational q ? *)
Holds(cls, q) ==
  CASE cls.c = "int" -> IsInt(q) /\ q.n >= cls.lo /\ q.n <= cls.hi
    [] IsFloat(cls) -> Dyadic(q)         \* pool magnitudes need < 24 significant bits
    [] cls.c = "cpx" -> Dyadic(q)
    [] cls.c = "rat" -> TRUE
    [] OTHER -> FALSE

(* truncation toward zero of the rational q *)
Trunc(q) == IF q.n >= 0 THEN q.n \div q.d ELSE -((-q.n) \div q.d)
Clamp(x, lo, hi) == IF x < lo THEN lo ELSE IF x > hi THEN hi ELSE x

Exact(v)  == [st |-> "exact", v |-> v]
Same(v)   == [st |-> "same", v |-> v]
Free      == [st |-> "free", v |-> IntV(0)]
NoConv    == [st |-> "reject", v |-> IntV(0)]

(* a float kind dst represents every value of the float kind src *)
FloatWidens(src, dst) == src.c = dst.c \/ (src.c = "f32" /\ dst.c = "f64")

Convert(v, src, dst) ==
  IF src.c = "str" THEN (IF dst.c = "str" THEN Exact(v) ELSE NoConv)       \* string -> number / bool: no conversion
  ELSE IF src.c = "bool" THEN (IF dst.c = "bool" THEN Exact(v) ELSE Free)    \* bool -> number / string: not in the property
  ELSE IF dst.c = "bool" THEN NoConv                                         \* number -> bool: no conversion
  ELSE IF dst.c = "str" THEN Free                                            \* number -> string: not in the property
  ELSE IF dst.c = "int" THEN
         (IF src.c = "int" THEN (IF Holds(dst, v) THEN Exact(v) ELSE Free)           \* wraps today; unspecified
          ELSE IF IsFloat(src) THEN Exact(IntV(Clamp(Trunc(v), dst.lo, dst.hi)))    \* truncate toward zero, clamp
          ELSE (IF Holds(dst, v) THEN Exact(v) ELSE Free))                           \* r64 / c64 -> integer
  ELSE IF IsFloat(dst) THEN
         (IF IsFloat(src) /\ ~Dyadic(v) THEN (IF FloatWidens(src, dst) THEN Same(v) ELSE Free)
          ELSE IF Holds(dst, v) THEN Exact(v) ELSE Free)
  ELSE \* dst rat / cpx
         (IF IsFloat(src) /\ ~Dyadic(v) THEN Free
          ELSE IF Holds(dst, v) THEN Exact(v) ELSE Free)

(* ------------------------------------------------- boundaries of the wide kinds *)
(* The bounds of u32..u128 / i32..i128 exceed TLC's integers, so values at those bounds are kept      *)
(* symbolic: an anchored value [b, side, o] denotes Max_b + o ("max"), Min_b + o ("min", b signed)   *)
(* or o ("zero"), with |o| <= 1.  Since the maxima (and the minima of the signed kinds) of the ten   *)
(* integer kinds are strictly ordered and at least 127 apart, representability of an anchored value  *)
(* in a kind is decided by comparing positions in that order.                                        *)
IntKindSeq == <<"i8", "u8", "i16", "u16", "i32", "u32", "i64", "u64", "i128", "u128">>     \* by increasing maximum
IntKindSet == {IntKindSeq[i] : i \in 1..Len(IntKindSeq)}
Rank(k) == CHOOSE i \in 1..Len(IntKindSeq) : IntKindSeq[i] = k
SignedKind(k) == k \in {"i8", "i16", "i32", "i64", "i128"}
Bits(k) == CASE k \in {"i8", "u8"} -> 8 [] k \in {"i16", "u16"} -> 16 [] k \in {"i32", "u32"} -> 32
             [] k \in {"i64", "u64"} -> 64 [] k \in {"i128", "u128"} -> 128
MagBits(k) == IF SignedKind(k) THEN Bits(k) - 1 ELSE Bits(k)          \* Max_k = 2^MagBits(k) - 1

Anc(b, side, o) == [b |-> b, side |-> side, o |-> o]
FloatKind(k) == k \in {"f32", "f64"}

HoldsIntAnc(k, x) ==
  CASE x.side = "zero" -> x.o >= 0 \/ SignedKind(k)
    [] x.side = "max"  -> Rank(x.b) < Rank(k) \/ (Rank(x.b) = Rank(k) /\ x.o <= 0)
    [] x.side = "min"  -> SignedKind(k) /\ (Rank(x.b) < Rank(k) \/ (Rank(x.b) = Rank(k) /\ x.o >= 0))

(* significant bits of |x| (a float holds an integer exactly iff it has at most 24 / 53 of them) *)
SigBits(x) ==
  CASE x.side = "zero" -> 1
    [] x.side = "max"  -> (IF x.o = 0 THEN MagBits(x.b) ELSE IF x.o = -1 THEN MagBits(x.b) - 1 ELSE 1)
    [] x.side = "min"  -> (IF x.o = 0 THEN 1 ELSE IF x.o = 1 THEN MagBits(x.b) ELSE MagBits(x.b) + 1)
HoldsFloatAnc(k, x) ==
  /\ SigBits(x) <= (IF k = "f32" THEN 24 ELSE 53)
  /\ ~(k = "f32" /\ x.side = "max" /\ x.b = "u128" /\ x.o = 1)          \* 2^128 exceeds the f32 range

HoldsAnc(k, x) == IF FloatKind(k) THEN HoldsFloatAnc(k, x) ELSE HoldsIntAnc(k, x)

ExactA(x) == [st |-> "exact", v |-> x]
FreeA     == [st |-> "free", v |-> Anc("u8", "zero", 0)]

(* src, dst: concrete kind names (integer kinds, f32, f64); x must be held by src *)
ConvertAnc(x, src, dst) ==
  IF FloatKind(dst) THEN (IF HoldsFloatAnc(dst, x) THEN ExactA(x) ELSE FreeA)
  ELSE IF HoldsIntAnc(dst, x) THEN ExactA(x)
  ELSE IF ~FloatKind(src) THEN FreeA                                     \* integer -> integer, not representable
  ELSE IF x.side = "max" THEN ExactA(Anc(dst, "max", 0))                 \* float beyond the maximum: clamp
  ELSE IF SignedKind(dst) THEN ExactA(Anc(dst, "min", 0))                \* float below the minimum: clamp
  ELSE ExactA(Anc(dst, "zero", 0))

(* ------------------------------------------------------------- matrices *)
(* a matrix is [r, c, d], d column-major.  Conversion is elementwise, shape kept *)
ConvertMat(m, src, dst) == [r |-> m.r, c |-> m.c, d |-> [p \in 1..Len(m.d) |-> Convert(m.d[p], src, dst)]]

(* annotation with a shape: equal element count -> same column-major sequence *)
NoShape == [ok |-> FALSE, r |-> 0, c |-> 0, d |-> <<>>]
Reshape(m, r2, c2) ==
  IF r2 * c2 # m.r * m.c THEN NoShape
  ELSE [ok |-> TRUE, r |-> r2, c |-> c2, d |-> m.d]

(* the same, element by element: result (i2, j2) is the source element with the same column-major rank *)
ReshapeD(m, r2, c2) ==
  IF r2 * c2 # m.r * m.c THEN NoShape
  ELSE [ok |-> TRUE, r |-> r2, c |-> c2,
        d |-> [p \in 1..(r2 * c2) |->
                 LET i2 == ((p - 1) % r2) + 1
                     j2 == ((p - 1) \div r2) + 1
                     rank == (j2 - 1) * r2 + i2              \* column-major rank in the target
                     i == ((rank - 1) % m.r) + 1
                     j == ((rank - 1) \div m.r) + 1          \* same rank in the source
                 IN m.d[(j - 1) * m.r + i]]]

(* loop-shaped: walk the source column by column, row by row, appending to the target *)
RECURSIVE WalkRows(_, _, _), WalkCols(_, _)
WalkRows(m, j, i) == IF i > m.r THEN <<>> ELSE <<m.d[(j - 1) * m.r + i]>> \o WalkRows(m, j, i + 1)
WalkCols(m, j) == IF j > m.c THEN <<>> ELSE WalkRows(m, j, 1) \o WalkCols(m, j + 1)
ReshapeK(m, r2, c2) ==
  IF r2 * c2 # m.r * m.c THEN NoShape
  ELSE [ok |-> TRUE, r |-> r2, c |-> c2, d |-> WalkCols(m, 1)]

(* what a row-major reshape would give (used only to show the laws tell the two apart) *)
ReshapeRowMajor(m, r2, c2) ==
  [ok |-> TRUE, r |-> r2, c |-> c2,
   d |-> [p \in 1..(r2 * c2) |->
            LET i2 == ((p - 1) % r2) + 1
                j2 == ((p - 1) \div r2) + 1
                rank == (i2 - 1) * c2 + j2                   \* row-major rank
                i == ((rank - 1) \div m.c) + 1
                j == ((rank - 1) % m.c) + 1
            IN m.d[(j - 1) * m.r + i]]]

(* matrix -> set: exactly the distinct elements *)
ToSet(m) == {m.d[p] : p \in 1..Len(m.d)}

=============================================================================
