------------------------------- MODULE MC_G04 -------------------------------
(* Bounded instance of MechSources: every session of up to MaxLen registry operations over a four-file directory.    *)
(* A behaviour is a session being issued operation by operation.  TLC checks the registry laws on every reachable    *)
(* state / step and emits every maximal session with the expected outcome and observation after every operation.    *)
EXTENDS MechSources, TLC, Json

CONSTANTS MaxLen, InitFs

VARIABLES hist, exp
vars == <<svars, hist, exp>>

InitFsDef == [p \in Paths |-> IF p \in {"sub/index.mec", "index.html"} THEN None ELSE "T1"]

Ops == {Op("add", p, "-") : p \in Paths}
  \cup {Op("reload", p, "-") : p \in Paths}
  \cup {Op("code", "-", t) : t \in Texts}
  \cup {Op("write", p, t) : p \in Paths, t \in Texts}
  \cup {Op("remove", p, "-") : p \in Paths}

(* operations that cannot change anything observable are left out of the alphabet *)
Interesting(s, op) ==
  CASE op.o = "write"  -> s.fs[op.p] # op.t
    [] op.o = "remove" -> s.fs[op.p] # None
    [] OTHER -> TRUE

SiblingDef == [p \in Paths |-> IF p = "index.html" THEN "index.mec" ELSE None]

Obs(s, r) == [r |-> r, src |-> s.src, tree |-> s.tree, html |-> [p \in Paths |-> GetHtml(s, p)], hfrom |-> [p \in Paths |-> HtmlFrom(s, p)], idx |-> s.idx,
              isrc |-> IndexSrc(s), codes |-> [t \in Texts |-> t \in s.codes], n |-> Cardinality({p \in Paths : s.src[p] # None})]

Init == /\ SInit /\ fs = InitFs
        /\ hist = <<>> /\ exp = <<>>

Next == /\ Len(hist) < MaxLen
        /\ \E op \in Ops :
             /\ Interesting(St, op)
             /\ LET a == Eff(St, op) IN
                /\ fs' = a.s.fs /\ src' = a.s.src /\ tree' = a.s.tree /\ html' = a.s.html /\ idx' = a.s.idx /\ codes' = a.s.codes
                /\ hist' = Append(hist, op)
                /\ exp' = Append(exp, Obs(a.s, a.r))
Spec == Init /\ [][Next]_vars

(* ------------------------------------------------------------------ laws *)
LastOp == hist'[Len(hist')]
LastR == exp'[Len(exp')].r
Reg == <<src, tree, html, idx, codes>>
(* the disk is the environment's: only write / remove change it, and they change nothing else *)
EnvOnly   == [][(LastOp.o \in {"write", "remove"}) = (fs' # fs) /\ (LastOp.o \in {"write", "remove"} => Reg' = Reg)]_vars
(* a failing operation changes nothing *)
FailInert == [][LastR = "fail" => Reg' = Reg]_vars
(* registration is for ever, anonymous code is for ever *)
Monotone  == [][Registered \subseteq Registered' /\ codes \subseteq codes']_vars
(* an operation on p changes no other path's entries *)
Framed    == [][\A q \in Paths : (LastOp.o \in {"add", "reload"} /\ q # LastOp.p) =>
                   (src'[q] = src[q] /\ tree'[q] = tree[q] /\ html'[q] = html[q])]_vars
(* after a successful add / reload of p the registry shows the disk's text of p *)
Fresh     == [][(LastOp.o \in {"add", "reload"} /\ LastR = "ok") => src'[LastOp.p] = fs[LastOp.p]]_vars
(* reload never moves the index; add moves it only as NewIdx says *)
ReloadKeepsIndex == [][LastOp.o \in {"reload", "code", "write", "remove"} => idx' = idx]_vars

Maximal == Len(hist) = MaxLen
Emit == Maximal => PrintT(<<"CASE", ToJson([hist |-> hist, exp |-> exp])>>)
=============================================================================
