SPECIFICATION Spec
CONSTANTS
  Contexts <- KContexts
INVARIANTS WellFormed Emit
CHECK_DEADLOCK FALSE
