------------------------------ MODULE MechRange ------------------------------
(***************************************************************************)
(* Ranges a..b, a..=b, a..s..b, a..s..=b as arithmetic progressions over   *)
(* exact rationals (the scalars of MechScalar: integers of every kind,     *)
(* dyadic floats, r64 fractions).                                          *)
(*                                                                         *)
(* Range(a, s, b, incl) is the sequence a, a+s, a+2s, ... of all terms     *)
(* before b: for s > 0 the terms < b (exclusive) or <= b (inclusive), for  *)
(* s < 0 the terms > b or >= b.  s = 1 when the step is omitted.  A zero   *)
(* step, or bounds in the wrong order for the step, denote no progression  *)
(* (the sequence is empty; the implementation may also reject).            *)
(* Declarative: closed-form Count and k-th term.  Loop-shaped: RangeK, the *)
(* kernel's `x := a; while x before b: push x; x := x + s`.                *)
(***************************************************************************)
EXTENDS MechScalar

QAdd(a, b) == Num(a.n * b.d + b.n * a.d, a.d * b.d)
QSub(a, b) == Num(a.n * b.d - b.n * a.d, a.d * b.d)
QLe(a, b)  == ~Less(b, a)
One == IntV(1)

Term(a, s, k) == QAdd(a, Num(s.n * k, s.d))                  \* a + k*s

(* x lies before the end b, seen in the direction of the step *)
Before(x, s, b, incl) ==
  IF s.n > 0 THEN (IF incl THEN QLe(x, b) ELSE Less(x, b))
  ELSE (IF incl THEN QLe(b, x) ELSE Less(b, x))

FloorQ(q) == q.n \div q.d
CeilQ(q)  == -((-q.n) \div q.d)

(* number of k >= 0 with a + k*s before b: with t = (b-a)/s, k < t resp. k <= t *)
Steps(a, s, b) == Num((b.n * a.d - a.n * b.d) * s.d, (a.d * b.d) * s.n)
Count(a, s, b, incl) ==
  IF s.n = 0 THEN 0
  ELSE LET t == Steps(a, s, b) IN
       IF t.n < 0 THEN 0 ELSE IF incl THEN FloorQ(t) + 1 ELSE CeilQ(t)

Range(a, s, b, incl) == [k \in 1..Count(a, s, b, incl) |-> Term(a, s, k - 1)]

(* the end point is a term of the progression *)
OnGrid(a, s, b) == s.n # 0 /\ Steps(a, s, b).n >= 0 /\ Steps(a, s, b).d = 1

(* loop-shaped *)
RECURSIVE Loop(_, _, _, _)
Loop(x, s, b, incl) == IF Before(x, s, b, incl) THEN <<x>> \o Loop(QAdd(x, s), s, b, incl) ELSE <<>>
RangeK(a, s, b, incl) == IF s.n = 0 THEN <<>> ELSE Loop(a, s, b, incl)

(* what the spelling denotes:                                              *)
(*  "zero-step"    s = 0                                                   *)
(*  "wrong-order"  the end lies behind the start for the step's direction  *)
(*  "empty"        a..a (exclusive, start = end): no term before b         *)
(*  "asc" / "desc" a non-empty progression upwards / downwards             *)
Status(a, s, b, incl) ==
  IF s.n = 0 THEN "zero-step"
  ELSE IF Count(a, s, b, incl) > 0 THEN (IF s.n > 0 THEN "asc" ELSE "desc")
  ELSE IF a = b THEN "empty"
  ELSE "wrong-order"

(* the term after the last element: the kernel must not need it *)
NextAfter(a, s, b, incl) == Term(a, s, Count(a, s, b, incl))
=============================================================================
