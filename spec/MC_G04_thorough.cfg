SPECIFICATION Spec
CONSTANTS
  Paths = {"a.mec", "index.mec", "sub/index.mec", "b.html", "index.html"}
  IndexNames = {"index.mec", "index.html"}
  HtmlPaths = {"b.html", "index.html"}
  Texts = {"T1", "T2"}
  MecSibling <- SiblingDef
  ReloadLag = FALSE
  MaxLen = 4
  InitFs <- InitFsDef
INVARIANTS TypeOK Coherent IndexRegistered IndexNonEmpty IndexClaimed Emit
PROPERTIES EnvOnly FailInert Monotone Framed Fresh ReloadKeepsIndex
CHECK_DEADLOCK FALSE
