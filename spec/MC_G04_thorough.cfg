SPECIFICATION Spec
CONSTANTS
  Paths = {"a.mec", "index.mec", "sub/index.mec", "b.html"}
  IndexNames = {"index.mec"}
  HtmlPaths = {"b.html"}
  Texts = {"T1", "T2"}
  ReloadLag = FALSE
  MaxLen = 4
  InitFs <- InitFsDef
INVARIANTS TypeOK Coherent IndexRegistered IndexNonEmpty IndexClaimed Emit
PROPERTIES EnvOnly FailInert Monotone Framed Fresh ReloadKeepsIndex
CHECK_DEADLOCK FALSE
