------------------------------- MODULE MC_G02 -------------------------------
(* Bounded instance of MechStruct for growth area G02.  Staged enumeration:            *)
(*   stage 0 -> 1  a container: kind (rec / tup / map / tbl / par), component kinds    *)
(*                 from {f64, string, bool, u8}, size 1..MaxSize (tuples from 2),      *)
(*                 order of the names / keys (identity, reversed, rotated, ...),       *)
(*                 tables: a row count from Rows;                                            *)
(*   stage 1 -> 2  one scenario on it:                                                 *)
(*     "construct" define, then read EVERY component (and every row of a table)        *)
(*     "read"      one valid or invalid key, on an immutable and on a mutable variable *)
(*     "write"     one valid or invalid key x value class (fresh / same / other =      *)
(*                 the value of another component of the same kind / another kind /    *)
(*                 tables: too long, too short, a scalar), on a mutable variable, and  *)
(*                 once on an immutable one                                            *)
(*     "rowset"    tables: ~w := T[i]; w.f = v  (record.mec 5.2)                       *)
(*     "dup"       the literal with one key written twice                              *)
(* Component values: the component at (row r, position i) holds token (r-1)*n + i      *)
(* (bool: alternating), so all components of a container are pairwise distinct and a   *)
(* swapped / shifted component is visible.                                             *)
EXTENDS MechStruct, TLC, Json

CONSTANTS MaxSize,      \* records, tuples, maps: up to this many components
          RecOrd, MapOrd, TblOrd,    \* how many of the orders below are used
          TblSize, TblFull,          \* tables: up to TblSize columns; all kind vectors up to TblFull columns, pairwise distinct kinds beyond
          Rows                       \* tables: the set of row counts (1 row: 1x1 columns; 2, 3, 4: fixed-size vectors; 5: dynamic vectors)

VARIABLE cs

InitVal(k, t) == IF k = "bool" THEN Val(k, t % 2) ELSE Val(k, t)
Fresh(v)      == IF v.k = "bool" THEN Val("bool", 1 - v.t) ELSE Val(v.k, 40)
FreshOf(k)    == IF k = "bool" THEN Val("bool", 1) ELSE Val(k, 40)
FreshCol(k, vs, m) == Col(k, [r \in 1..m |-> IF k = "bool" THEN Val("bool", IF r <= Len(vs) THEN 1 - vs[r].t ELSE r % 2) ELSE Val(k, 40 + r)])
UnknownName == Name(9)
AbsentKey(kk) == Val(kk, 29)

(* orders of names / keys: position i of the literal carries name number Order(j, n)[i] *)
Order(j, n) ==
  CASE j = 1 -> [i \in 1..n |-> i]
    [] j = 2 -> [i \in 1..n |-> n + 1 - i]
    [] j = 3 -> [i \in 1..n |-> (i % n) + 1]
    [] j = 4 -> [i \in 1..n |-> ((i + n - 2) % n) + 1]
    [] j = 5 -> [i \in 1..n |-> IF n >= 2 /\ i = 1 THEN 2 ELSE IF n >= 2 /\ i = 2 THEN 1 ELSE i]
    [] OTHER -> [i \in 1..n |-> IF n >= 2 /\ i = n THEN n - 1 ELSE IF n >= 2 /\ i = n - 1 THEN n ELSE i]
Orders(nord, n) == {Order(j, n) : j \in 1..nord}
Injective(f) == \A i, j \in DOMAIN f : i # j => f[i] # f[j]

Min(a, b) == IF a < b THEN a ELSE b

RecSet == UNION {{Con("rec", [i \in 1..n |-> Name(pi[i])], kd, << [i \in 1..n |-> InitVal(kd[i], i)] >>)
                    : pi \in Orders(RecOrd, n), kd \in [1..n -> Kinds]} : n \in 1..MaxSize}
TupSet == UNION {{Con("tup", [i \in 1..n |-> PosK(i)], kd, << [i \in 1..n |-> InitVal(kd[i], i)] >>)
                    : kd \in [1..n -> Kinds]} : n \in 2..MaxSize}
MapSet == UNION {{Con("map", [i \in 1..n |-> Val(kv[1], 20 + pi[i])], [i \in 1..n |-> kv[2]], << [i \in 1..n |-> InitVal(kv[2], i)] >>)
                    : pi \in Orders(MapOrd, n), kv \in KeyKinds \X Kinds} : n \in 1..MaxSize}
TblKinds(n) == IF n <= TblFull THEN [1..n -> Kinds] ELSE {kd \in [1..n -> Kinds] : Injective(kd)}
TblSet == UNION {{Con("tbl", [i \in 1..n |-> Name(pi[i])], kd,
                      [r \in 1..m |-> [i \in 1..n |-> IF kd[i] = "bool" THEN InitVal("bool", r + i) ELSE InitVal(kd[i], (r - 1) * n + i)]])
                    : pi \in Orders(TblOrd, n), kd \in TblKinds(n), m \in Rows} : n \in 1..TblSize}
ParSet == {Con("par", <<PosK(1)>>, <<k>>, << <<InitVal(k, 1)>> >>) : k \in Kinds}

(* ------------------------------------------------------------- scenarios *)
Op(op, key, src, mut, vc, row) == [op |-> op, key |-> key, src |-> src, mut |-> mut, vc |-> vc, row |-> row]
NoKey == Val("-", 0)
OtherKinds(k) == Kinds \ {k}
KindVc(k) == "kind:" \o k
Cur(C, p) == C.rows[1][p]
Twin(C, p) == {q \in 1..Width(C) : q # p /\ C.kd[q] = C.kd[p]}        \* other components of the same kind

InvalidKeys(C) ==
  CASE C.c = "rec" -> {UnknownName}
    [] C.c = "tup" -> {PosK(0), PosK(Width(C) + 1)}
    [] C.c = "map" -> {AbsentKey(KeyKind(C))} \cup {Val(kk, C.ks[1].t) : kk \in KeyKinds \ {KeyKind(C)}}
    [] C.c = "tbl" -> {UnknownName, RowK(0), RowK(NRows(C) + 1)}
AllKeys(C) == KeySet(C) \cup InvalidKeys(C) \cup (IF C.c = "tbl" THEN {RowK(r) : r \in 1..NRows(C)} ELSE {})
InvalidVc(C, key) ==
  CASE key.k = "name" -> "unknown"
    [] key.k \in {"pos", "row"} -> "oob"
    [] key.k = KeyKind(C) -> "absent"
    [] OTHER -> "keykind:" \o key.k

ReadOps(C) ==
  {Op("read", key, Err, mu, IF Read(C, key).c \in {"err", "absent"} THEN InvalidVc(C, key) ELSE "valid", 0)
     : key \in AllKeys(C), mu \in BOOLEAN}

(* sources for the update of component p *)
ScalarSrcs(C, p) ==
       {<<"fresh", Sc(Fresh(Cur(C, p)))>>, <<"same", Sc(Cur(C, p))>>}
  \cup {<<"other", Sc(Cur(C, q))>> : q \in (IF Twin(C, p) = {} THEN {} ELSE {CHOOSE q \in Twin(C, p) : \A q2 \in Twin(C, p) : q <= q2})}
  \cup {<<KindVc(k), Sc(FreshOf(k))>> : k \in OtherKinds(C.kd[p])}
ColSrcs(C, p) ==
  LET k == C.kd[p]  m == NRows(C)  vs == Column(C, p) IN
       {<<"fresh", FreshCol(k, vs, m)>>, <<"same", Col(k, vs)>>, <<"long", FreshCol(k, vs, m + 1)>>, <<"scalar", Sc(Fresh(vs[1]))>>}
  \cup (IF m >= 2 THEN {<<"short", FreshCol(k, vs, m - 1)>>} ELSE {})
  \cup {<<KindVc(k2), FreshCol(k2, <<>>, m)>> : k2 \in OtherKinds(k)}

WriteOps(C) ==
  IF C.c = "tbl"
  THEN      UNION {{Op("write", C.ks[p], s[2], TRUE, s[1], 0) : s \in ColSrcs(C, p)} : p \in 1..Width(C)}
       \cup {Op("write", UnknownName, FreshCol(C.kd[1], Column(C, 1), NRows(C)), TRUE, "unknown", 0)}
       \cup {Op("write", C.ks[1], FreshCol(C.kd[1], Column(C, 1), NRows(C)), FALSE, "immutable", 0)}
       \cup UNION {{Op("rowset", C.ks[p], Sc(Fresh(C.rows[i][p])), TRUE, "fresh", i) : p \in 1..Width(C)} : i \in 1..NRows(C)}
       \cup UNION {{Op("rowset", C.ks[p], Sc(FreshOf(k)), TRUE, KindVc(k), 1) : k \in OtherKinds(C.kd[p])} : p \in 1..Width(C)}
       \cup {Op("rowset", UnknownName, Sc(FreshOf(C.kd[1])), TRUE, "unknown", 1)}
  ELSE      UNION {{Op("write", C.ks[p], s[2], TRUE, s[1], 0) : s \in ScalarSrcs(C, p)} : p \in 1..Width(C)}
       \cup {Op("write", C.ks[1], Sc(Fresh(Cur(C, 1))), FALSE, "immutable", 0)}
       \cup (IF C.c = "map"
             THEN      {Op("write", AbsentKey(KeyKind(C)), Sc(FreshOf(ValKind(C))), TRUE, "add", 0)}
                  \cup {Op("write", AbsentKey(KeyKind(C)), Sc(FreshOf(k)), TRUE, "add-" \o KindVc(k), 0) : k \in OtherKinds(ValKind(C))}
                  \cup {Op("write", Val(kk, C.ks[1].t), Sc(FreshOf(ValKind(C))), TRUE, "keykind:" \o kk, 0) : kk \in KeyKinds \ {KeyKind(C)}}
             ELSE {Op("write", key, Sc(FreshOf(k)), TRUE, InvalidVc(C, key), 0) : key \in InvalidKeys(C), k \in {"f64", C.kd[1]}})

(* the literal of C with the entry of key p repeated at the end (same kind, fresh values; or another kind) *)
NextKind(k) == CASE k = "f64" -> "u8" [] k = "u8" -> "string" [] k = "string" -> "bool" [] OTHER -> "f64"
DupOps(C) ==
  IF C.c \notin {"rec", "map", "tbl"} THEN {}
  ELSE      {Op("dup", C.ks[p], FreshCol(C.kd[p], Column(C, p), NRows(C)), FALSE, "same-kind", 0) : p \in 1..Width(C)}
       \cup (IF C.c = "map" THEN {}
             ELSE {Op("dup", C.ks[p], FreshCol(NextKind(C.kd[p]), <<>>, NRows(C)), FALSE, KindVc(NextKind(C.kd[p])), 0) : p \in 1..Width(C)})

Scenarios(C) ==
  IF C.c = "par" THEN {Op("construct", NoKey, Err, FALSE, "paren1", 0)}
  ELSE {Op("construct", NoKey, Err, mu, "all", 0) : mu \in BOOLEAN} \cup ReadOps(C) \cup WriteOps(C) \cup DupOps(C)

DummyC == Con("par", <<PosK(1)>>, <<"f64">>, << <<Val("f64", 1)>> >>)
DummyO == Op("-", NoKey, Err, FALSE, "-", 0)
Init == cs = [stage |-> 0, C |-> DummyC, o |-> DummyO]
Next == \/ cs.stage = 0 /\ cs' \in {[stage |-> 1, C |-> C, o |-> DummyO] : C \in RecSet \cup TupSet \cup MapSet \cup TblSet \cup ParSet}
        \/ cs.stage = 1 /\ cs' \in {[cs EXCEPT !.stage = 2, !.o = o] : o \in Scenarios(cs.C)}
Spec == Init /\ [][Next]_cs
Done == cs.stage = 2
Real == cs.stage >= 1 /\ cs.C.c # "par"

(* ------------------------------------------------------------ expectations *)
DupEntries(C, o) == EntriesOf(C) \o <<Entry(o.key, o.src.kd[1], SrcVals(o.src))>>

(* [exp, res, post, rec]: expectation class, result value, the variable afterwards, (rowset) the record afterwards *)
X(exp, res, post, rec) == [exp |-> exp, res |-> res, post |-> post, rec |-> rec]
Expect(C, o) ==
  CASE o.op = "construct" -> X("exact", IF C.c = "par" THEN Paren1(C.rows[1][1]) ELSE Err, C, Err)
    [] o.op = "read" ->
         LET R == Read(C, o.key) IN
         X(CASE R.c = "err" -> "reject" [] R.c = "absent" -> "absent" [] OTHER -> "exact", R, C, Err)
    [] o.op = "write" ->
         LET w == Write(C, o.key, o.src) IN
         IF ~o.mut THEN X("reject", Err, C, Err)
         ELSE IF C.c = "tbl" /\ o.vc = "scalar"            \* a scalar for a whole column: the documents are silent; if accepted, every row gets it
              THEN X("free", Err, SetCol(C, Index(C, o.key), [r \in 1..NRows(C) |-> o.src.rows[1][1]]), Err)
         ELSE IF w.ok THEN X(IF C.c = "tbl" THEN "free" ELSE "exact", Err, w.post, Err)   \* T.x = column: not documented; if accepted it must be right
         ELSE X("reject", Err, C, Err)
    [] o.op = "rowset" ->
         LET x == RowSet(C, o.row, o.key, o.src) IN
         IF x.ok THEN X("exact", Err, x.post, x.rec) ELSE X("reject", Err, C, x.rec)
    [] o.op = "dup" -> X("free", Err, DupResolve(C.c, DupEntries(C, o), TRUE), Err)

(* ------------------------------------------------------------- signatures *)
CompWord(c) == CASE c = "rec" -> "field" [] c = "tup" -> "elem" [] c = "map" -> "key" [] OTHER -> "col"
Where(C, o) ==
  IF o.key.k = "row" THEN "row" \o ToString(o.key.t) \o "of" \o ToString(NRows(C))
  ELSE IF Index(C, o.key) # 0 THEN CompWord(C.c) \o ToString(Index(C, o.key)) \o "of" \o ToString(Width(C)) \o "/" \o C.kd[Index(C, o.key)]
  ELSE IF o.key.k = "pos" THEN "elem" \o ToString(o.key.t) \o "of" \o ToString(Width(C))
  ELSE "nokey"
KindsWord(C) == IF C.c = "map" THEN KeyKind(C) \o "->" \o ValKind(C) ELSE IF C.c = "tbl" THEN "rows" \o ToString(NRows(C)) ELSE "n" \o ToString(Width(C))
Sig(C, o) ==
  IF o.op = "construct" THEN "G02/" \o C.c \o "/construct/" \o KindsWord(C)
  ELSE "G02/" \o C.c \o "/" \o o.op \o "/" \o Where(C, o) \o "/" \o o.vc \o (IF C.c \in {"map", "tbl"} THEN "/" \o KindsWord(C) ELSE "")

(* family signature: the key of a failure family - container, scenario, component kind (or the kind of the source when *)
(* the key does not exist), value class; positions and sizes are dropped, same-kind value classes are merged           *)
Slot(C, o) ==
  IF o.key.k = "row" THEN "row"
  ELSE IF Index(C, o.key) # 0 THEN CompWord(C.c) \o "/" \o C.kd[Index(C, o.key)]
  ELSE IF o.op \in {"write", "rowset"} THEN "src:" \o o.src.kd[1]
  ELSE "nokey"
VcGroup(vc) == IF vc \in {"fresh", "same", "other"} THEN "samekind" ELSE vc
Fam(C, o) ==
  IF o.op = "construct" THEN "G02/" \o C.c \o "/construct"
  ELSE "G02/" \o C.c \o "/" \o o.op \o "/" \o Slot(C, o) \o "/" \o VcGroup(o.vc)

CaseJson(c) ==
  LET e == Expect(c.C, c.o) IN
  [fam |-> Fam(c.C, c.o), C |-> c.C, op |-> c.o.op, key |-> c.o.key, src |-> c.o.src, mut |-> c.o.mut, vc |-> c.o.vc, row |-> c.o.row,
   exp |-> e.exp, res |-> e.res, post |-> e.post, rec |-> e.rec, sig |-> Sig(c.C, c.o)]

(* ------------------------------------------------------- model-level laws *)
SrcPool(C) ==
  IF C.c = "tbl" THEN UNION {{s[2] : s \in ColSrcs(C, p)} : p \in 1..Width(C)}
  ELSE UNION {{s[2] : s \in ScalarSrcs(C, p)} : p \in 1..Width(C)}

WellFormed == Real => WF(cs.C)
Kernel     == (cs.stage = 1 /\ Real) => KernelAgrees(cs.C, AllKeys(cs.C), SrcPool(cs.C))
ConstrInv  == (cs.stage = 1 /\ Real) => ConstructRead(cs.C, AllKeys(cs.C))
OrderInv   == (cs.stage = 1 /\ Real) => OrderLaw(cs.C)
Writes     == (Done /\ cs.o.op = "write") => WriteLaws(cs.C, cs.o.key, cs.o.src)
Pairs      == (Done /\ cs.o.op = "write" /\ cs.C.c # "tbl") =>
                 \A k2 \in AllKeys(cs.C) : \A S2 \in SrcPool(cs.C) : TwoWrites(cs.C, cs.o.key, cs.o.src, k2, S2)
PairsTbl   == (Done /\ cs.o.op = "write" /\ cs.C.c = "tbl" /\ cs.o.vc = "fresh") =>
                 \A k2 \in KeySet(cs.C) : \A S2 \in SrcPool(cs.C) : TwoWrites(cs.C, cs.o.key, cs.o.src, k2, S2)
RowSets    == (Done /\ cs.o.op = "rowset") => RowSetLaws(cs.C, cs.o.row, cs.o.key, cs.o.src)
Dups       == (Done /\ cs.o.op = "dup") =>
                 LET es == DupEntries(cs.C, cs.o) IN
                 /\ ~NoDup(es)
                 /\ DupOK(cs.C.c, es, DupResolve(cs.C.c, es, TRUE))
                 /\ DupOK(cs.C.c, es, DupResolve(cs.C.c, es, FALSE))
                 /\ DupResolve(cs.C.c, es, FALSE) = cs.C                      \* first-wins denotes the literal without the repetition
                 /\ ~DupOK(cs.C.c, es, FromEntries(cs.C.c, es))               \* keeping both entries is not a value
                 /\ NoDup(EntriesOf(cs.C)) /\ FromEntries(cs.C.c, EntriesOf(cs.C)) = cs.C
(* what a case expects is consistent: an exact / free post-state is well formed, a rejected one is the input *)
Expects    == (Done /\ Real) =>
                 LET e == Expect(cs.C, cs.o) IN
                 /\ e.exp \in {"exact", "reject", "absent", "free"}
                 /\ e.exp \in {"reject", "absent"} => e.post = cs.C
                 /\ WF(e.post)
                 /\ cs.o.op = "read" => e.post = cs.C

Emit == Done => PrintT(<<"CASE", ToJson(CaseJson(cs))>>)
=============================================================================
