------------------------------- MODULE MC_C16 -------------------------------
(* Bounded instance of MechMatch for C16.  Every list of distinct arms of length <= MaxLen from  *)
(* each pattern family, in EVERY order, is judged on every value of the family's domain: as a     *)
(* function definition (forms "fn", "fn1t") and as a match expression (form "match").  The same   *)
(* run emits the recurrence cases (factorial, power, fibonacci, gcd, countdown).                  *)
EXTENDS MechMatch, TLC, Json

CONSTANTS MaxLen,     \* longest arm list
          FibMax,     \* largest n for the tree-recursive fibonacci
          CountBig,   \* deepest tail recursion evaluated by the model
          Big         \* TRUE: larger argument domains (thorough tier)

VARIABLE cs

Plus(v, c) == EBin("add", EVar(v), ELit(c))

(* ------------------------------------------------------------- families *)
(* arm j of a family carries its own body, so that (almost) every arm yields a different result *)
ScalarArms == <<
  Arm(PLit(0), GNone, ELit(100)),
  Arm(PLit(1), GNone, ELit(110)),
  Arm(PVar("n"), GNone, Plus("n", 120)),
  Arm(PWild, GNone, ELit(130)),
  Arm(PVar("k"), GNone, EVar("k")),
  Arm(PVar("m"), GGtC("m", 1), Plus("m", 140)) >>
PairArms == <<
  Arm(PTup(<<SLit(0), SVar("b")>>), GNone, Plus("b", 200)),
  Arm(PTup(<<SVar("a"), SLit(0)>>), GNone, Plus("a", 210)),
  Arm(PTup(<<SVar("a"), SVar("b")>>), GNone, Plus("a", 220)),
  Arm(PTup(<<SWild, SLit(1)>>), GNone, ELit(230)),
  Arm(PTup(<<SLit(1), SWild>>), GNone, ELit(240)),
  Arm(PWild, GNone, ELit(250)),
  Arm(PTup(<<SVar("a"), SVar("b")>>), GGt("a", "b"), Plus("b", 260)),
  Arm(PTup(<<SVar("a"), SVar("b")>>), GEq("a", "b"), EVar("a")),
  Arm(PTup(<<SLit(0), SVar("b")>>), GGtC("b", 0), Plus("b", 280)),
  \* 10..14: the SAME NAME in different positions of different arms, a variable bound by an arm that then fails, a body
  \* that reads a parameter / outer variable (inq), and a pattern variable that shadows it
  Arm(PTup(<<SVar("b"), SVar("a")>>), GNone, Plus("a", 290)),
  Arm(PTup(<<SVar("x"), SLit(0)>>), GNone, Plus("x", 300)),
  Arm(PTup(<<SVar("y"), SVar("x")>>), GNone, Plus("x", 310)),
  Arm(PTup(<<SVar("p"), SWild>>), GNone, EBin("add", EBin("add", EVar("p"), EVar("inq")), ELit(320))),
  Arm(PTup(<<SVar("inq"), SLit(0)>>), GNone, Plus("inq", 330)) >>
ArrArms == <<
  Arm(PArr(<<SLit(0)>>, "anon", "", <<>>), GNone, ELit(300)),
  Arm(PArr(<<SVar("h")>>, "anon", "", <<>>), GNone, Plus("h", 310)),
  Arm(PArr(<<>>, "anon", "", <<SVar("l")>>), GNone, Plus("l", 320)),
  Arm(PArr(<<SVar("h")>>, "rest", "r", <<>>), GNone, EVar("h")),
  Arm(PArr(<<SVar("a"), SVar("b")>>, "none", "", <<>>), GNone, Plus("b", 340)),
  Arm(PArr(<<SVar("x")>>, "none", "", <<>>), GNone, Plus("x", 350)),
  Arm(PWild, GNone, ELit(360)),
  Arm(PArr(<<SVar("h")>>, "anon", "", <<SVar("l")>>), GGt("h", "l"), Plus("h", 370)),
  (* element patterns on BOTH sides of the spread, no guard: they need at least #head + #tail elements (a vector that is *)
  (* long enough for the head alone and for the tail alone, but not for both, must fall through to a later arm)          *)
  Arm(PArr(<<SVar("p")>>, "anon", "", <<SVar("q")>>), GNone, Plus("q", 380)),
  Arm(PArr(<<SVar("a"), SVar("b")>>, "anon", "", <<SVar("c")>>), GNone, Plus("c", 390)),
  (* SEVERAL element patterns after the spread: they are aligned with the END of the vector in their written order         *)
  (* ([... a b] binds a to the last but one element and b to the last); each arm reads another of its variables            *)
  Arm(PArr(<<>>, "anon", "", <<SVar("a"), SVar("b")>>), GNone, Plus("a", 500)),
  Arm(PArr(<<>>, "anon", "", <<SVar("a"), SVar("b")>>), GNone, Plus("b", 510)),
  Arm(PArr(<<SVar("x")>>, "anon", "", <<SVar("a"), SVar("b")>>), GNone, Plus("a", 520)),
  Arm(PArr(<<>>, "anon", "", <<SLit(0), SVar("b")>>), GNone, Plus("b", 530)),
  Arm(PArr(<<>>, "anon", "", <<SVar("a"), SVar("b"), SVar("c")>>), GNone, Plus("a", 540)),
  Arm(PArr(<<>>, "anon", "", <<SVar("a"), SLit(1)>>), GNone, Plus("a", 550)) >>
EnumArms == <<
  Arm(PEnum("circle", <<SLit(0)>>), GNone, ELit(400)),
  Arm(PEnum("circle", <<SVar("r")>>), GNone, Plus("r", 410)),
  Arm(PEnum("square", <<SVar("w")>>), GNone, EVar("w")),
  Arm(PEnum("dot", <<>>), GNone, ELit(430)),
  Arm(PWild, GNone, ELit(440)),
  Arm(PEnum("circle", <<SVar("r")>>), GGtC("r", 1), Plus("r", 450)) >>

Fams == {"scalar", "pair", "arr", "enum"}
FamArms(f) == CASE f = "scalar" -> ScalarArms [] f = "pair" -> PairArms [] f = "arr" -> ArrArms [] f = "enum" -> EnumArms
(* function arms have no guard syntax: the guarded arms exist only in match expressions *)
FnIds(f)    == CASE f = "scalar" -> 1..5 [] f = "pair" -> (1..6) \cup (10..14) [] f = "arr" -> (1..7) \cup (9..16) [] f = "enum" -> 1..5
MatchIds(f) == 1..Len(FamArms(f))
Forms(f) == IF f = "pair" THEN {"fn", "fn1t", "match"} ELSE {"fn", "match"}
Ids(f, form) == IF form = "match" THEN MatchIds(f)
                ELSE IF form = "fn1t" THEN FnIds(f) \ {13, 14}      \* one tuple parameter: there is no parameter inq
                ELSE FnIds(f)

Dom(f) ==
  CASE f = "scalar" -> IF Big THEN [i \in 1..6 |-> NV(i - 1)] ELSE <<NV(0), NV(1), NV(2), NV(3)>>
    [] f = "pair"   -> IF Big THEN [i \in 1..16 |-> TV(<<(i - 1) \div 4, (i - 1) % 4>>)]
                       ELSE <<TV(<<0,0>>), TV(<<0,1>>), TV(<<0,2>>), TV(<<1,0>>), TV(<<1,1>>), TV(<<1,2>>), TV(<<2,0>>), TV(<<2,1>>), TV(<<2,2>>)>>
    [] f = "arr"    -> <<AV(<<0>>), AV(<<2>>), AV(<<0,1>>), AV(<<1,0>>), AV(<<2,2>>), AV(<<0,1,2>>), AV(<<2,1,0>>), AV(<<1,2,1>>)>>
                       \o (IF Big THEN <<AV(<<1>>), AV(<<0,0>>), AV(<<3,1>>), AV(<<0,3,0,1>>), AV(<<3,2,1,0>>)>> ELSE <<>>)
    [] f = "enum"   -> <<EV("circle", <<0>>), EV("circle", <<2>>), EV("square", <<1>>), EV("dot", <<>>)>>
                       \o (IF Big THEN <<EV("circle", <<1>>), EV("square", <<0>>)>> ELSE <<>>)
Variants == {"circle", "square", "dot"}

(* ------------------------------------------------------------ recurrences *)
RECURSIVE FibLoop(_, _, _)
FibLoop(n, a, b) == IF n = 0 THEN a ELSE FibLoop(n - 1, b, a + b)
FibIt(n) == FibLoop(n, 0, 1)

RecNames == {"fact", "pow", "fib", "fibacc", "gcd", "count", "countup", "gcdp", "powacc"}
RecDom(name) ==
  CASE name = "fact"   -> {<<n>> : n \in 0..12}
    [] name = "pow"    -> {<<x, y>> : x \in 0..5, y \in 0..12} \cup {<<x, y>> : x \in {7, 10}, y \in 0..9}
    [] name = "fib"    -> {<<n>> : n \in 0..FibMax}
    [] name = "fibacc" -> {<<n>> : n \in 0..44}
    [] name = "gcd"    -> {<<a, b>> : a \in 0..12, b \in 0..12}
    [] name = "count"  -> {<<n>> : n \in (0..12) \cup {100, 1000, CountBig}}
    [] name = "countup" -> {<<n>> : n \in (0..8) \cup {100}}
    [] name = "gcdp"   -> {<<a, b>> : a \in 0..12, b \in 0..12}
    [] name = "powacc" -> {<<x, y>> : x \in 0..5, y \in 0..8}
RecDef(name) == CASE name = "fact" -> FactDef [] name = "pow" -> PowDef [] name = "fib" -> FibDef
                  [] name = "fibacc" -> FibAccDef [] name = "gcd" -> GcdDef [] name = "count" -> CountDef
                  [] name = "countup" -> CountUpDef [] name = "gcdp" -> GcdPDef [] name = "powacc" -> PowAccDef
(* the arguments the definition is entered with (accumulators start at their initial values) *)
RecCall(name, a) == CASE name = "fibacc" -> <<a[1], 0, 1>> [] name \in {"count", "countup"} -> <<a[1], 0>>
                      [] name = "powacc" -> <<a[1], a[2], 1>> [] OTHER -> a
(* what the mathematical recurrence defines *)
RecMath(name, a) == CASE name = "fact" -> Fact(a[1]) [] name = "pow" -> Pow(a[1], a[2])
                      [] name = "fib" -> Fib(a[1]) [] name = "fibacc" -> FibIt(a[1])
                      [] name \in {"gcd", "gcdp"} -> Gcd(a[1], a[2]) [] name = "count" -> Countdown(a[1])
                      [] name = "countup" -> a[1] [] name = "powacc" -> Pow(a[1], a[2])

(* ------------------------------------------------------------ enumeration *)
Dummy == [stage |-> 0, kind |-> "list", fam |-> "scalar", form |-> "fn", ids |-> <<>>, name |-> "", args |-> <<>>]

RECURSIVE Ext(_, _, _)
(* all extensions of the sequences in S by distinct ids, up to length n (S itself included) *)
Ext(S, idset, n) ==
  LET longer == {Append(s, x) : s \in {t \in S : Len(t) < n}, x \in idset} IN
  LET fresh == {s \in longer : \A i \in 1..(Len(s) - 1) : s[i] # s[Len(s)]} IN
  IF fresh \subseteq S THEN S ELSE Ext(S \cup fresh, idset, n)

Partials ==
       UNION {UNION {{[Dummy EXCEPT !.stage = 1, !.fam = f, !.form = fm, !.ids = <<i>>] : i \in Ids(f, fm)} : fm \in Forms(f)} : f \in Fams}
  \cup {[Dummy EXCEPT !.stage = 1, !.kind = "rec", !.name = nm] : nm \in RecNames}
  \cup {[Dummy EXCEPT !.stage = 1, !.kind = "bcast"]}
Completes(k) ==
  IF k.kind = "list" THEN {[k EXCEPT !.stage = 2, !.ids = s] : s \in Ext({k.ids}, Ids(k.fam, k.form), MaxLen)}
  ELSE IF k.kind = "rec" THEN {[k EXCEPT !.stage = 2, !.args = a] : a \in RecDom(k.name)}
  ELSE {[k EXCEPT !.stage = 2]}

Init == cs = Dummy
Next == \/ cs.stage = 0 /\ cs' \in Partials
        \/ cs.stage = 1 /\ cs' \in Completes(cs)
Spec == Init /\ [][Next]_cs
Done == cs.stage = 2
IsList == Done /\ cs.kind = "list"
IsRec  == Done /\ cs.kind = "rec"

ArmsOf(k) == [i \in 1..Len(k.ids) |-> FamArms(k.fam)[k.ids[i]]]
NArgs(k) == IF k.fam = "pair" /\ k.form = "fn" THEN 2 ELSE 1
DefOf(k) == [nargs |-> NArgs(k), arms |-> ArmsOf(k)]
(* the argument list that presents value val to the definition *)
ArgsFor(k, val) == IF NArgs(k) = 2 THEN <<NV(val.e[1]), NV(val.e[2])>> ELSE <<val>>

(* expectation per value.  Functions over an enum whose arms neither contain a wildcard nor name every   *)
(* variant: the property speaks of matches only, the implementation rejects such calls -> "free".        *)
Outcome(k, val) ==
  IF k.form = "match" THEN MatchOutcome(ArmsOf(k), val, Variants)
  ELSE LET o == CallOutcome(DefOf(k), ArgsFor(k, val)) IN
       IF k.fam = "enum" /\ ~Exhaustive(ArmsOf(k), val, Variants) THEN [o EXCEPT !.kind = IF o.kind = "val" THEN "freeval" ELSE "free"]
       ELSE o

SelKind(k, val) == LET f == FirstMatch(ArmsOf(k), val) IN IF f = NoArm THEN "none" ELSE ArmsOf(k)[f].pat.k

Row(k, val) ==
  LET o == Outcome(k, val) IN
  [val |-> val, kind |-> o.kind, v |-> o.v, arm |-> o.arm - 1, tested |-> Tested(ArmsOf(k), val),
   selk |-> SelKind(k, val), gunb |-> GuardUnbound(ArmsOf(k), val)]

BcastElems == <<0, 1, 2, 3>>
(* is-zero style definition with another result kind (1 stands for true, 0 for false) *)
BoolDef == [nargs |-> 1, arms |-> <<Arm(PLit(0), GNone, ELit(1)), Arm(PWild, GNone, ELit(0))>>]

CaseJson(k) ==
  IF k.kind = "list" THEN
    [kind |-> "list", fam |-> k.fam, form |-> k.form, ids |-> k.ids, nargs |-> NArgs(k), arms |-> ArmsOf(k),
     rows |-> [i \in 1..Len(Dom(k.fam)) |-> Row(k, Dom(k.fam)[i])],
     bcast |-> IF k.fam = "scalar" /\ k.form = "fn" THEN Broadcast(DefOf(k), BcastElems) ELSE <<>>,
     arity |-> IF k.form = "match" THEN <<>>
               ELSE <<CallOutcome(DefOf(k), <<>>).kind, CallOutcome(DefOf(k), <<NV(0), NV(1), NV(2)>>).kind>>]
  ELSE IF k.kind = "rec" THEN
    [kind |-> "rec", name |-> k.name, args |-> k.args, call |-> RecCall(k.name, k.args), def |-> RecDef(k.name),
     v |-> RecMath(k.name, k.args)]
  ELSE
    [kind |-> "bcast", out |-> "bool", def |-> BoolDef, elems |-> BcastElems, res |-> Broadcast(BoolDef, BcastElems)]

(* ------------------------------------------------------- model-level laws *)
(* the loop-shaped matcher and scan agree with the declarative definitions *)
KernelEq == IsList =>
  LET arms == ArmsOf(cs) IN
  \A q \in 1..Len(Dom(cs.fam)) :
    LET val == Dom(cs.fam)[q] IN
    /\ Scan(arms, val, 1) = FirstMatch(arms, val)
    /\ \A i \in 1..Len(arms) :
         LET m == MatchK(arms[i].pat, val) IN
         /\ m.ok = Matches(arms[i].pat, val)
         /\ m.ok => EnvSet(m.env) = EnvSet(Binds(arms[i].pat, val))

(* the selected arm applies and no earlier arm does *)
FirstIsLeast == IsList =>
  LET arms == ArmsOf(cs) IN
  \A q \in 1..Len(Dom(cs.fam)) :
    LET val == Dom(cs.fam)[q]
        f == FirstMatch(arms, val) IN
    IF f = NoArm THEN \A i \in 1..Len(arms) : ~Applies(arms[i], val)
    ELSE Applies(arms[f], val) /\ \A j \in 1..(f - 1) : ~Applies(arms[j], val)

Swap(s, i) == [j \in 1..Len(s) |-> IF j = i THEN s[i + 1] ELSE IF j = i + 1 THEN s[i] ELSE s[j]]
Sel(arms, val) == LET f == FirstMatch(arms, val) IN IF f = NoArm THEN <<>> ELSE <<arms[f]>>

(* order matters exactly where two arms overlap: exchanging two adjacent arms that do not both apply *)
(* to a value preserves the selected arm; when both apply, the one that now comes first wins          *)
SwapLaw == IsList =>
  LET arms == ArmsOf(cs) IN
  \A i \in 1..(Len(arms) - 1) :
    LET sw == Swap(arms, i) IN
    \A q \in 1..Len(Dom(cs.fam)) :
      LET val == Dom(cs.fam)[q] IN
      IF Applies(arms[i], val) /\ Applies(arms[i + 1], val)
      THEN /\ FirstMatch(arms, val) = i => Sel(sw, val) = <<arms[i + 1]>>
           /\ FirstMatch(arms, val) < i => Sel(sw, val) = Sel(arms, val)
      ELSE Sel(sw, val) = Sel(arms, val)

(* a permutation of pairwise non-overlapping arms never changes any result *)
NonOverlapPerm == IsList =>
  LET arms == ArmsOf(cs)
      D == {Dom(cs.fam)[q] : q \in 1..Len(Dom(cs.fam))} IN
  (\A i \in 1..Len(arms) : \A j \in (i + 1)..Len(arms) : \A val \in D : ~(Applies(arms[i], val) /\ Applies(arms[j], val)))
  => \A val \in D : \A i \in 1..Len(arms) : Applies(arms[i], val) => Sel(arms, val) = <<arms[i]>>

(* the function definitions of the recurrences, interpreted arm by arm, compute the recurrences *)
NVs(a) == CASE Len(a) = 1 -> <<NV(a[1])>> [] Len(a) = 2 -> <<NV(a[1]), NV(a[2])>> [] Len(a) = 3 -> <<NV(a[1]), NV(a[2]), NV(a[3])>>
(* (the arm-by-arm interpretation is evaluated up to depth 1000; deeper, only the recurrence itself) *)
RecLaw == (IsRec /\ (cs.name = "count" => cs.args[1] <= 1000)) => CallVal(RecDef(cs.name), NVs(RecCall(cs.name, cs.args))) = RecMath(cs.name, cs.args)

(* oracle sanity of the recurrences themselves *)
RecSanity == IsRec =>
  LET a == cs.args IN
  /\ RecMath(cs.name, a) < 1073741824
  /\ cs.name = "fact" /\ a[1] > 0 => Fact(a[1]) = a[1] * Fact(a[1] - 1)
  /\ cs.name = "fib" => Fib(a[1]) = FibIt(a[1])
  /\ cs.name = "count" => Countdown(a[1]) = a[1]
  /\ cs.name = "pow" /\ a[2] > 0 => Pow(a[1], a[2]) = Pow(a[1], a[2] - 1) * a[1]
  /\ cs.name = "gcd" /\ (a[1] > 0 \/ a[2] > 0) =>
       LET g == Gcd(a[1], a[2]) IN
       /\ a[1] % g = 0 /\ a[2] % g = 0
       /\ \A d \in 1..12 : (a[1] % d = 0 /\ a[2] % d = 0) => g % d = 0

(* the generated families stay inside the part of the semantics the property defines; the deliberate  *)
(* deviations of match expressions named in MechMatch (boolean pattern expressions act as guards,   *)
(* arm kinds must agree, sources containing the empty value consult the wildcard arm first) are not *)
(* reachable: every source is a u64 / tuple / vector / variant value and every body has kind u64     *)
InScope == IsList =>
  /\ \A q \in 1..Len(Dom(cs.fam)) : Dom(cs.fam)[q].t \in {"n", "tup", "arr", "enum"}
  /\ \A i \in 1..Len(ArmsOf(cs)) : ArmsOf(cs)[i].body.op \in {"lit", "var", "add"}

Emit == Done => PrintT(<<"CASE", ToJson(CaseJson(cs))>>)
=============================================================================
