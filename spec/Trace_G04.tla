------------------------------ MODULE Trace_G04 ------------------------------
(* Trace validation for G04 (impl -> spec): long random sessions recorded from the REAL mech::MechSources are checked, event by  *)
(* event, against MechSources.  Every record carries the operation and the projected client-visible state after it, so the      *)
(* search is linear: the operation's effect is computed by the specification and must equal what was observed.                   *)
(*                                                                                                                              *)
(*   Reset {fs}                                a new registry over a directory whose files hold fs (path -> text name | "none") *)
(*   Op    {o, p, t, r, src, tree, html, idx}  operation, outcome ("ok" | "fail") and the observation after it                  *)
(*                                                                                                                              *)
(* The one named deviation of the implementation (ReloadLag: reload_source parses the stale text) has its own trace action      *)
(* LagA: it is taken only when the specified effect does NOT explain the record and the deviating one does; it reports the       *)
(* record (MSG kind "lag") and the validation goes on from the observed state.  Any other unexplained record ends the           *)
(* validation there (MSG kind "unmatched").  The registry invariants of the design are evaluated on every state.                *)
EXTENDS MechSources, Json, IOUtils, TLC

Rec == ndJsonDeserialize(IOEnv.TRACE)

SiblingDef == [p \in Paths |-> IF p = "index.html" THEN "index.mec" ELSE None]

VARIABLE l
vars == <<svars, l>>

Ev(name) == l <= Len(Rec) /\ Rec[l].ev = name

Init == /\ l = 1
        /\ fs = [p \in Paths |-> None] /\ src = [p \in Paths |-> None] /\ tree = [p \in Paths |-> None]
        /\ html = [p \in Paths |-> None] /\ idx = None /\ codes = {}

ResetA == /\ Ev("Reset")
          /\ fs' = [p \in Paths |-> Rec[l].fs[p]]
          /\ src' = [p \in Paths |-> None] /\ tree' = [p \in Paths |-> None] /\ html' = [p \in Paths |-> None]
          /\ idx' = None /\ codes' = {}
          /\ l' = l + 1

TheOp == Op(Rec[l].o, Rec[l].p, Rec[l].t)
Explains(a) ==
  /\ a.r = Rec[l].r
  /\ \A p \in Paths : /\ a.s.src[p] = Rec[l].src[p]
                      /\ a.s.tree[p] = Rec[l].tree[p]
                      /\ GetHtml(a.s, p) = Rec[l].html[p]
  /\ IndexSrc(a.s) = Rec[l].idx
  /\ \A t \in Texts : (t \in a.s.codes) = Rec[l].codes[t]
Adopt(a) == /\ fs' = a.s.fs /\ src' = a.s.src /\ tree' = a.s.tree /\ html' = a.s.html /\ idx' = a.s.idx /\ codes' = a.s.codes
            /\ l' = l + 1

OpA  == /\ Ev("Op") /\ LET a == Eff(St, TheOp) IN Explains(a) /\ Adopt(a)
LagA == /\ Ev("Op") /\ Rec[l].o = "reload"
        /\ ~Explains(Eff(St, TheOp))
        /\ LET a == EffReloadWith(St, Rec[l].p, TRUE) IN
           /\ Explains(a)
           /\ PrintT(<<"MSG", ToJson([kind |-> "lag", l |-> l, p |-> Rec[l].p])>>)
           /\ Adopt(a)

Next == ResetA \/ OpA \/ LagA
Spec == Init /\ [][Next]_vars

(* the design's invariants on every state of every observed execution.  Coherent is NOT among them: the lag deviation breaks *)
(* it by construction and is reported per record; the index rules and the type invariant must hold whatever happened          *)
TraceInv == TypeOK /\ IndexRegistered /\ IndexNonEmpty /\ IndexClaimed

TraceAccepted ==
  IF TLCGet("stats").diameter = Len(Rec) + 1 THEN TRUE
  ELSE PrintT(<<"MSG", ToJson([kind |-> "unmatched", l |-> TLCGet("stats").diameter, ev |-> Rec[TLCGet("stats").diameter]])>>)
       \* reported, not failed: the caller turns the message into a violation (a failing postcondition is a TLC error exit)
=============================================================================
