SPECIFICATION Spec
CONSTANTS
  Mants <- MantsDef
  Ks = {0, 1, 2}
INVARIANTS Reciprocal StepLaw Emit
CHECK_DEADLOCK FALSE
