SPECIFICATION Spec
CONSTANTS
  MaxDim = 4
  BigShapes <- BigThorough
  BigHParts = 2
  BigWParts = 3
INVARIANTS DefsAgree KernelsAgree ValidIffOk TilingsValid WhyConsistent ShapeLaw Placement Duality Emit
CHECK_DEADLOCK FALSE
