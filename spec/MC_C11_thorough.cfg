SPECIFICATION Spec
CONSTANTS
  Dims <- DimsThorough
  MutDim = 9
  BigShapes <- BigThorough
  BigHParts = 2
  BigWParts = 3
INVARIANTS DefsAgree KernelsAgree ValidIffOk TilingsValid WhyConsistent ShapeLaw Placement Duality Emit
CHECK_DEADLOCK FALSE
