------------------------------ MODULE MC_C05g ------------------------------
(* Bounded instance of MechSessionGen: the four C05 action properties, the judge accepts every *)
(* step of the specification, and the judge rejects every single-point corruption of a step.   *)
EXTENDS MechSessionGen

OtherVal(v) == CHOOSE w \in Vals : w # v

(* single-point corruptions of the observed post-state of a step must be flagged *)
JudgeRejectsMutants ==
  [][/\ \A n \in DOMAIN store' :      \* a name outside the targets gets another value
          n \notin act'.targets => Violations(store, mut, act', [store' EXCEPT ![n] = OtherVal(store'[n])], mut') # {}
     /\ \A n \in DOMAIN store :       \* an existing name changes mutability
          Violations(store, mut, act', store', IF n \in mut' THEN mut' \ {n} ELSE mut' \cup {n}) # {}
     /\ \A n \in DOMAIN store :       \* an existing name disappears
          Violations(store, mut, act', [m \in (DOMAIN store') \ {n} |-> store'[m]], mut' \ {n}) # {}
     /\ (~act'.ok /\ act'.targets # {}) =>   \* a failing statement defines / changes its first target anyway
          \A n \in act'.targets : Violations(store, mut, act', (n :> "v1") @@ [m \in (DOMAIN store) \ {n} |-> store[m]], mut) # {}
                                   \/ (n \in DOMAIN store /\ store[n] = "v1")
     /\ (act'.ok /\ act'.kind = "Define") =>   \* a successful define gets the wrong mutability
          \A n \in act'.targets : Violations(store, mut, act', store', IF n \in mut' THEN mut' \ {n} ELSE mut' \cup {n}) # {}
     /\ (act'.ok /\ act'.from # NoName) =>     \* a define-from-variable copies another value
          \A n \in act'.targets : Violations(store, mut, act', [store' EXCEPT ![n] = OtherVal(store'[n])], mut') # {}
    ]_vars

View == <<store, mut>>
=============================================================================
