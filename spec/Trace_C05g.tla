----------------------------- MODULE Trace_C05g -----------------------------
(* Trace validation (impl -> spec) against MechSessionGen: the repository's own programs    *)
(* (tests/interpreter.rs, docs) and a generic probe tail are executed item by item on the    *)
(* real interpreter; every recorded step must be a step the specification allows.  Values    *)
(* are digests (opaque tokens), so this applies to every value kind the programs use.        *)
(* A step the judge rejects is reported with the rules it breaks; the trace specification    *)
(* then RESYNCHRONISES on the observed state so that the rest of the trace is still checked. *)
EXTENDS MechSessionGen, Json, IOUtils

Tr == ndJsonDeserialize(IOEnv.TRACE)

VARIABLE l
tvars == <<store, mut, act, l>>

SetOfSeq(s) == {s[i] : i \in 1..Len(s)}

TraceInit == Init /\ l = 1

EventOf(e) == Ev(e.kind, SetOfSeq(e.targets), e.mutable, e.from, e.annotated, e.ok)

TraceStep ==
  /\ l <= Len(Tr)
  /\ l' = l + 1
  /\ LET e == Tr[l] IN
     IF e.kind = "Reset"
     THEN /\ store' = e.store
          /\ mut' = {}
          /\ act' = Ev("Reset", {}, FALSE, NoName, FALSE, TRUE)
     ELSE LET ev == EventOf(e)
              \* mutability is the DECLARED one (the ~ of the defining statement), not the interpreter's own
              \* bookkeeping: the specification's mut evolves by the specification's effect
              newn == (ev.targets \cap DOMAIN e.store) \ DOMAIN store
              m2 == IF ev.ok /\ ev.kind = "Define" /\ ev.mutable THEN mut \cup newn ELSE mut
              bad == Violations(store, mut, ev, e.store, m2) IN
          /\ (IF bad = {} THEN TRUE
              ELSE PrintT(<<"MSG", ToJson([l |-> l, sess |-> e.sess, rules |-> bad])>>))
          /\ store' = e.store
          /\ mut' = m2
          /\ act' = ev

TraceSpec == TraceInit /\ [][TraceStep]_tvars

TraceAccepted ==
  IF TLCGet("stats").diameter - 1 = Len(Tr) THEN TRUE
  ELSE Print(<<"MSG", ToJson([unconsumed |-> TLCGet("stats").diameter])>>, FALSE)
=============================================================================
