SPECIFICATION Spec
CONSTANTS
  MaxSteps = 25
  NS = {1, 2}
  NF = {1, 2}
  Kinds3 = {"step", "dec", "first2", "out"}
  MVals <- MVq
  NF3 = {}
  WithRev = FALSE
INVARIANTS KernelEq RunShape FirstWins FamilyShape LimitMargin RepoResults Emit
CHECK_DEADLOCK FALSE
