----------------------------- MODULE MechIndex -----------------------------
(***************************************************************************)
(* Reference semantics of Mech matrix indexing: reads (C03) and indexed    *)
(* assignment (C04).  1-based, column-major.                               *)
(*                                                                         *)
(* A matrix is [r, c, d] with d the column-major sequence of its elements. *)
(* Elements are opaque tokens (naturals); the binding maps tokens to       *)
(* concrete values of every element kind, so the model is kind-agnostic.   *)
(*                                                                         *)
(* An index form (one per index position) is the record                    *)
(*   [f, ix, mask]   f \in {"s","v","r","a","m"}                           *)
(*     "s" scalar index ix[1]        "v" index vector ix (repeats allowed) *)
(*     "r" range, ix = the integers it denotes                             *)
(*     "a" the `:` form               "m" logical mask                     *)
(***************************************************************************)
EXTENDS Naturals, Integers, Sequences, FiniteSets

Iota(n) == [k \in 1..n |-> k]
Lin(r, i, j) == (j - 1) * r + i
Mat(r, c) == [r |-> r, c |-> c, d |-> Iota(r * c)]

Form(f, ix, mask) == [f |-> f, ix |-> ix, mask |-> mask]
FS(i)    == Form("s", <<i>>, <<>>)
FV(s)    == Form("v", s, <<>>)
FR(s)    == Form("r", s, <<>>)
FA       == Form("a", <<>>, <<>>)
FM(mk)   == Form("m", <<>>, mk)

Reject == [ok |-> FALSE, ix |-> <<>>]
Ok(s)  == [ok |-> TRUE, ix |-> s]

(* positions addressed by one form along a dimension of extent dim *)
Resolve(form, dim) ==
  CASE form.f \in {"s", "v", "r"} ->
         IF \A k \in 1..Len(form.ix) : form.ix[k] \in 1..dim THEN Ok(form.ix) ELSE Reject
    [] form.f = "a" -> Ok(Iota(dim))
    [] form.f = "m" ->
         IF Len(form.mask) = dim
         THEN Ok(SelectSeq(Iota(dim), LAMBDA k : form.mask[k]))
         ELSE Reject

NoResult == [ok |-> FALSE, scalar |-> FALSE, r |-> 0, c |-> 0, d |-> <<>>]

(* ---------------------------------------------------------------- reads *)

(* x[f] : linear (column-major) indexing; scalar for a scalar index,       *)
(* otherwise always a column vector                                        *)
Select1(m, f) ==
  LET a == Resolve(f, m.r * m.c) IN
  IF ~a.ok THEN NoResult
  ELSE [ok |-> TRUE, scalar |-> (f.f = "s"), r |-> Len(a.ix), c |-> 1,
        d |-> [k \in 1..Len(a.ix) |-> m.d[a.ix[k]]]]

(* x[f1,f2] : |rows| x |cols| block, element (i,j) = x[rows[i], cols[j]]    *)
Select2(m, f1, f2) ==
  LET rows == Resolve(f1, m.r)
      cols == Resolve(f2, m.c) IN
  IF ~rows.ok \/ ~cols.ok THEN NoResult
  ELSE LET rr == Len(rows.ix)
           cc == Len(cols.ix) IN
       [ok |-> TRUE, scalar |-> (f1.f = "s" /\ f2.f = "s"), r |-> rr, c |-> cc,
        d |-> [p \in 1..(rr * cc) |->
                 LET i == ((p - 1) % rr) + 1
                     j == ((p - 1) \div rr) + 1
                 IN m.d[Lin(m.r, rows.ix[i], cols.ix[j])]]]

(* The same read written the way the access kernels loop: for each column  *)
(* index, for each row index, push x[(row, col)].                           *)
RECURSIVE KRows(_, _, _, _), KCols(_, _, _, _)
KRows(m, rows, col, i) ==
  IF i > Len(rows) THEN <<>>
  ELSE <<m.d[(col - 1) * m.r + rows[i]]>> \o KRows(m, rows, col, i + 1)
KCols(m, rows, cols, j) ==
  IF j > Len(cols) THEN <<>>
  ELSE KRows(m, rows, cols[j], 1) \o KCols(m, rows, cols, j + 1)
Select2K(m, f1, f2) ==
  LET rows == Resolve(f1, m.r)
      cols == Resolve(f2, m.c) IN
  IF ~rows.ok \/ ~cols.ok THEN NoResult
  ELSE [ok |-> TRUE, scalar |-> (f1.f = "s" /\ f2.f = "s"), r |-> Len(rows.ix), c |-> Len(cols.ix),
        d |-> KCols(m, rows.ix, cols.ix, 1)]

(* ---------------------------------------------------------- assignment *)

(* linear addresses written by x[f] = .. / x[f1,f2] = .. (in source order) *)
Addr1(m, f) == Resolve(f, m.r * m.c)
Addr2(m, f1, f2) ==
  LET rows == Resolve(f1, m.r)
      cols == Resolve(f2, m.c) IN
  IF ~rows.ok \/ ~cols.ok THEN Reject
  ELSE LET rr == Len(rows.ix) IN
       Ok([p \in 1..(rr * Len(cols.ix)) |->
             Lin(m.r, rows.ix[((p - 1) % rr) + 1], cols.ix[((p - 1) \div rr) + 1])])

Range(s) == {s[k] : k \in 1..Len(s)}
Distinct(s) == Cardinality(Range(s)) = Len(s)

(* Scalar source: every addressed element becomes v; the rest is the frame  *)
UpdateScalar(m, addr, v) ==
  [m EXCEPT !.d = [p \in 1..Len(m.d) |-> IF p \in Range(addr) THEN v ELSE m.d[p]]]

(* Vector source through distinct addresses: i-th addressed element := src[i] *)
UpdateVector(m, addr, src) ==
  [m EXCEPT !.d = [p \in 1..Len(m.d) |->
      IF p \in Range(addr) THEN src[CHOOSE k \in 1..Len(addr) : addr[k] = p] ELSE m.d[p]]]

(* loop-shaped: walk the addresses in order, writing one element at a time *)
RECURSIVE UpdateLoop(_, _, _, _)
UpdateLoop(d, addr, src, k) ==
  IF k > Len(addr) THEN d
  ELSE UpdateLoop([d EXCEPT ![addr[k]] = src[k]], addr, src, k + 1)

(* op-assignment relative to old values: Op2(old, v) supplied by the binding *)
UpdateOp(m, addr, Op2(_, _), v) ==
  [m EXCEPT !.d = [p \in 1..Len(m.d) |-> IF p \in Range(addr) THEN Op2(m.d[p], v) ELSE m.d[p]]]

=============================================================================
