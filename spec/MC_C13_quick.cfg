SPECIFICATION Spec
CONSTANTS
  Alpha = {0, 1, 9}
  MaxLen = 3
  Deep = FALSE
INVARIANTS HornerEqFold UnderscoreFree BasedEqDecimal Reduced SciLaw FitLaw Emit
CHECK_DEADLOCK FALSE
