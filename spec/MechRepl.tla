------------------------------ MODULE MechRepl ------------------------------
(***************************************************************************)
(* The REPL command layer (src/repl.rs, src/syntax/src/repl.rs) as a state  *)
(* machine over MechPlan's interpreter model.                               *)
(*                                                                         *)
(* A REPL owns one ACTIVE interpreter.  Each input line is one action:       *)
(*   Code(st)      a Mech statement (plain line or `:c <code>`)              *)
(*   StepAll(n)    `:step n`  (`:step ` = 1): the whole plan, n times        *)
(*   StepOne(i,n)  `:step #i n`: plan function i alone, n times              *)
(*   Clear         `:clear`: the active interpreter is replaced by a new one *)
(*   Query(q)      `:whos` `:plan` `:symbols` `:help` `:profile on|off`      *)
(* A command that fails reports an error and changes nothing.               *)
(*                                                                         *)
(* The plan is modelled at the implementation's grain: `iplan` has one entry *)
(* per function the interpreter appends.  Besides the functions MechPlan     *)
(* knows (add / assign / add-assign) every definition appends a              *)
(* VariableDefine function whose re-solution changes nothing (the name is    *)
(* bound to the result cell itself); entry.k is the index of the entry's     *)
(* MechPlan step (0 for a VariableDefine).                                   *)
(***************************************************************************)
EXTENDS MechPlan

EmptyMachine(Names) ==
  [cells |-> <<>>, plan |-> <<>>, env |-> [n \in Names |-> 0], mut |-> {}, iplan |-> <<>>]

Header(s) == CASE s.op \in {"addk", "addc"} -> "add"
               [] s.op \in {"setk", "setc"} -> "assign"
               [] s.op = "inck"             -> "addassign"

(* ---------------------------------------------------------------- statements *)
(* MechPlan's expressions plus the bare variable as an ASSIGNMENT source (`b = a`): *)
(* the assign function copies a's cell into b's cell, no expression function.     *)
RStmtOk(m, st) ==
  IF st.s = "asg" /\ st.e.e = "var"
  THEN m.env[st.n] # 0 /\ st.n \in m.mut /\ m.env[st.e.m] # 0
  ELSE StmtOk(m, st)

RInterpPlan(m, st) ==
  IF st.s = "asg" /\ st.e.e = "var"
  THEN LET s == St("setc", m.env[st.n], m.env[st.e.m], 0) IN
       [m EXCEPT !.cells = Solve(m.cells, s), !.plan = Append(m.plan, s)]
  ELSE Interp(m, st)

(* the statement's effect including the implementation-grain plan *)
RInterp(m, st) ==
  LET m2  == RInterpPlan(m, st)
      new == [j \in 1..(Len(m2.plan) - Len(m.plan)) |->
                [h |-> Header(m2.plan[Len(m.plan) + j]), k |-> Len(m.plan) + j]]
      vd  == IF st.s = "def" THEN <<[h |-> "vdef", k |-> 0]>> ELSE <<>>
  IN [m2 EXCEPT !.iplan = m.iplan \o new \o vd]

(* ------------------------------------------------------------------ commands *)
StepAllOk(m)      == Len(m.iplan) > 0
StepAll(m, n)     == [m EXCEPT !.cells = StepN(m.cells, m.plan, n)]

(* solving one implementation plan entry *)
SolveEntry(cells, plan, e) == IF e.k = 0 THEN cells ELSE Solve(cells, plan[e.k])
RECURSIVE SolveEntryN(_, _, _, _)
SolveEntryN(cells, plan, e, n) == IF n = 0 THEN cells ELSE SolveEntryN(SolveEntry(cells, plan, e), plan, e, n - 1)

StepOneOk(m, i)   == Len(m.iplan) > 0 /\ i >= 1 /\ i <= Len(m.iplan)
StepOne(m, i, n)  == [m EXCEPT !.cells = SolveEntryN(m.cells, m.plan, m.iplan[i], n)]

(* every implementation entry once, in order: must be one whole-plan step *)
RECURSIVE SinglesFrom(_, _, _, _)
SinglesFrom(cells, plan, iplan, i) ==
  IF i > Len(iplan) THEN cells ELSE SinglesFrom(SolveEntry(cells, plan, iplan[i]), plan, iplan, i + 1)

(* the outcome record of a command applied to machine m *)
Apply(m, c, Names) ==
  CASE c.c = "code"  -> IF RStmtOk(m, c.st) THEN [m |-> RInterp(m, c.st), r |-> "ok"] ELSE [m |-> m, r |-> "err"]
    [] c.c = "all"   -> IF StepAllOk(m) THEN [m |-> StepAll(m, c.n), r |-> "ok"] ELSE [m |-> m, r |-> "err"]
    [] c.c = "one"   -> IF StepOneOk(m, c.i) THEN [m |-> StepOne(m, c.i, c.n), r |-> "ok"] ELSE [m |-> m, r |-> "err"]
    [] c.c = "clear" -> [m |-> EmptyMachine(Names), r |-> "ok"]
    [] c.c = "query" -> [m |-> m, r |-> "ok"]

Headers(m) == [j \in 1..Len(m.iplan) |-> m.iplan[j].h]
Defined(m) == {n \in DOMAIN m.env : m.env[n] # 0}
=============================================================================
