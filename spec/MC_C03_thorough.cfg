SPECIFICATION Spec
CONSTANTS
  Shapes <- ShapesThorough
  FullMaskDim = 4
  VecDim = 5
INVARIANTS KernelEq OutOfRangeRejects ShapeLaw AllIsFlatten LinearAgrees Emit
CHECK_DEADLOCK FALSE
