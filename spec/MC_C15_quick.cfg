SPECIFICATION Spec
CONSTANTS
  Deep = FALSE
INVARIANTS LoopEqDecl Progression LastIsLargest Emptiness ExclVsIncl Closed UnitStep Emit
CHECK_DEADLOCK FALSE
