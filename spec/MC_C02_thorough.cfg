SPECIFICATION Spec
CONSTANTS
  OpsAlphabet = {"+", "-", "*", "/", "%", "^", "<", "<=", ">", ">=", "==", "!=", "&&", "||", "xor"}
  MaxOps = 4
INVARIANTS ClimbEqDecl Faithful Shape Emit
CHECK_DEADLOCK FALSE
