------------------------------ MODULE Trace_C05 ------------------------------
(* Trace validation (impl -> spec) for MechSession: every recorded session of the real *)
(* interpreter must be a behaviour of the specification.  Events carry the action and  *)
(* the full projected post-state, so the search is linear.  A mismatch is reported     *)
(* (with the specification's expected effect) and the specification RESYNCHRONISES on  *)
(* the observed state so that the rest of the trace is still checked.                  *)
EXTENDS MechSession, Json, IOUtils, TLC

Tr == ndJsonDeserialize(IOEnv.TRACE)

VARIABLE l
tvars == <<store, mut, act, l>>

SetOfSeq(s) == {s[i] : i \in 1..Len(s)}

TraceInit == Init /\ l = 1

Report(e, eff) ==
  PrintT(<<"MSG", ToJson([l |-> l, sess |-> e.sess, act |-> e.act, ok_obs |-> e.ok,
                          exp |-> [ok |-> eff.ok, store |-> eff.store, mut |-> eff.mut]])>>)

TraceStep ==
  /\ l <= Len(Tr)
  /\ l' = l + 1
  /\ LET e == Tr[l] IN
     IF e.act.a = "Reset"
     THEN /\ store' = [n \in Names |-> Undef]
          /\ mut' = {}
          /\ act' = [e.act EXCEPT !.ok = TRUE]
     ELSE LET eff == Effect(store, mut, e.act)
              obsmut == SetOfSeq(e.post.mut)
              \* where the property leaves the outcome open only the frame is checked (other names, mutability)
              frame == obsmut = mut /\ \A n \in Names : n # e.act.n => e.post.store[n] = store[n]
              match == IF Unspecified(store, e.act) THEN frame
                       ELSE eff.ok = e.ok /\ eff.store = e.post.store /\ eff.mut = obsmut IN
          /\ (IF match THEN TRUE ELSE Report(e, eff))
          /\ store' = [n \in Names |-> e.post.store[n]]
          /\ mut' = obsmut
          /\ act' = [e.act EXCEPT !.ok = e.ok]

TraceSpec == TraceInit /\ [][TraceStep]_tvars

TraceAccepted ==
  IF TLCGet("stats").diameter - 1 = Len(Tr) THEN TRUE
  ELSE Print(<<"MSG", ToJson([unconsumed |-> TLCGet("stats").diameter])>>, FALSE)
=============================================================================
