------------------------------- MODULE MC_C17k -------------------------------
(* Argument kinds of state machines (C17: "arguments of the wrong kind are rejected"): a machine whose parameter has a    *)
(* TUPLE kind accepts exactly the values of that kind - same arity at every level, same element kinds - and rejects        *)
(* every other value before it starts.  Kinds and values are trees; Matches is structural (a one-element tuple cannot be written in Mech: `(x)` is x).  TLC checks the laws of         *)
(* Matches and emits every (parameter kind, argument value) pair with the verdict and, when accepted, the sum of the        *)
(* u64 leaves (what the rendered machine computes).                                                                        *)
EXTENDS Naturals, Sequences, TLC, Json

Leaf(k) == [t |-> "leaf", k |-> k, e |-> <<>>]
Tup(s) == [t |-> "tup", k |-> "-", e |-> s]
LV(k, n) == [t |-> "leaf", k |-> k, n |-> n, e |-> <<>>]
TV(s) == [t |-> "tup", k |-> "-", n |-> 0, e |-> s]

U == Leaf("u64")
ParamKinds == {Tup(<<U, U>>), Tup(<<U, U, U>>), Tup(<<Tup(<<U, U>>), U>>), Tup(<<U, Tup(<<U, U>>)>>)}

Scalars == {LV("u64", 1), LV("u64", 2), LV("f64", 2), LV("string", 0)}
Flat(n) == [1..n -> {LV("u64", 1), LV("u64", 2)}]
Pairs == {TV(<<a, b>>) : a \in Scalars, b \in Scalars}
Values == Scalars \cup Pairs
       \cup {TV(s) : s \in Flat(3)} \cup {TV(s) : s \in Flat(4)}
       \cup {TV(<<p, x>>) : p \in {TV(s) : s \in Flat(2)} \cup {TV(s) : s \in Flat(3)}, x \in {LV("u64", 2), LV("f64", 2)}}
       \cup {TV(<<x, p>>) : p \in {TV(s) : s \in Flat(2)} \cup {TV(s) : s \in Flat(3)}, x \in {LV("u64", 2)}}
       \cup {TV(<<TV(<<LV("u64", 1), LV("f64", 2)>>), LV("u64", 2)>>), TV(<<TV(<<LV("u64", 1), LV("u64", 2)>>), TV(<<LV("u64", 1), LV("u64", 2)>>)>>)}

RECURSIVE Matches(_, _)
Matches(k, v) ==
  IF k.t = "leaf" THEN v.t = "leaf" /\ v.k = k.k
  ELSE v.t = "tup" /\ Len(v.e) = Len(k.e) /\ \A i \in 1..Len(k.e) : Matches(k.e[i], v.e[i])

RECURSIVE KindOf(_)
KindOf(v) == IF v.t = "leaf" THEN Leaf(v.k) ELSE Tup([i \in 1..Len(v.e) |-> KindOf(v.e[i])])

RECURSIVE SumLeaves(_)
RECURSIVE SumSeq(_, _)
SumSeq(s, i) == IF i > Len(s) THEN 0 ELSE SumLeaves(s[i]) + SumSeq(s, i + 1)
SumLeaves(v) == IF v.t = "leaf" THEN v.n ELSE SumSeq(v.e, 1)

VARIABLE cs
Dummy == [k |-> U, v |-> LV("u64", 0), stage |-> 0]
Init == cs = Dummy
Next == cs.stage = 0 /\ \E k \in ParamKinds, v \in Values : cs' = [k |-> k, v |-> v, stage |-> 1]
Spec == Init /\ [][Next]_cs
Done == cs.stage = 1

(* a value matches exactly one kind: its own *)
MatchIsKindEquality == Done => (Matches(cs.k, cs.v) <=> KindOf(cs.v) = cs.k)
(* arity is part of the kind at every level *)
ArityMatters == (Done /\ Matches(cs.k, cs.v)) => Len(cs.v.e) = Len(cs.k.e)

Emit == Done => PrintT(<<"CASE", ToJson([k |-> cs.k, v |-> cs.v, ok |-> Matches(cs.k, cs.v), sum |-> IF Matches(cs.k, cs.v) THEN SumLeaves(cs.v) ELSE 0])>>)
=============================================================================
