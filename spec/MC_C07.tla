------------------------------- MODULE MC_C07 -------------------------------
(* Fault-class enumeration for C07 (one state per fault class) and validation of the *)
(* LayoutInv on the header scalars of every emitted program (IOEnv.HEADERS, ndjson).   *)
EXTENDS MechBytefile, TLC, Json, IOUtils

Headers == ndJsonDeserialize(IOEnv.HEADERS)

VARIABLES stage, f, hi
vars == <<stage, f, hi>>

Init == stage = 0 /\ f = Fault("raw", "-", 0, "-", "-", FALSE) /\ hi = 0
Next == \/ stage = 0 /\ \E x \in Faults : f' = x /\ stage' = 1 /\ hi' = 0
        \/ stage = 0 /\ \E i \in 1..Len(Headers) : hi' = i /\ stage' = 2 /\ f' = f
Spec == Init /\ [][Next]_vars

(* every emitted file satisfies the layout invariant *)
EmittedLayout == stage = 2 => LayoutInv(Headers[hi].h, Headers[hi].total)
(* the verdict function is total and the must-reject classes are exactly the checksum-covered ones *)
VerdictTotal == stage = 1 => Verdict(f) \in {"reject", "nocrash"}
Emit == stage = 1 => PrintT(<<"CASE", ToJson([fault |-> f, verdict |-> Verdict(f)])>>)
=============================================================================
