SPECIFICATION Spec
CONSTANTS
  Paths = {"a.mec", "index.mec", "sub/index.mec", "b.html", "index.html"}
  IndexNames = {"index.mec", "index.html"}
  HtmlPaths = {"b.html", "index.html"}
  Texts = {"T1", "T2"}
  MecSibling <- SiblingDef
  ReloadLag = TRUE
  MaxLen = 3
  InitFs <- InitFsDef
INVARIANTS TypeOK Coherent IndexRegistered IndexNonEmpty IndexClaimed
PROPERTIES EnvOnly FailInert Monotone Framed Fresh ReloadKeepsIndex
CHECK_DEADLOCK FALSE
