SPECIFICATION Spec
CONSTANTS
  Paths = {"a.mec", "index.mec", "sub/index.mec", "b.html"}
  IndexNames = {"index.mec"}
  HtmlPaths = {"b.html"}
  Texts = {"T1", "T2"}
  ReloadLag = TRUE
  MaxLen = 3
  InitFs <- InitFsDef
INVARIANTS TypeOK Coherent IndexRegistered IndexNonEmpty IndexClaimed
PROPERTIES EnvOnly FailInert Monotone Framed Fresh ReloadKeepsIndex
CHECK_DEADLOCK FALSE
