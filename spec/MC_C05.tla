------------------------------- MODULE MC_C05 -------------------------------
(* Bounded instance of MechSession: the (store, mut) graph is explored completely *)
(* (VIEW hides the last-action variable) and every TRANSITION is emitted as JSON   *)
(* by an action constraint, for the transition-covering replay.                    *)
EXTENDS MechSession, TLC, Json

NamesQ == {"a", "b"}
NamesT == {"a", "b", "c"}
LitsFull == {Sc(5), Mat(1, 2), Rec(1, 2), Tup(1, 2), SetV, TblV}
LitsOp == {Sc(5), Mat(1, 2), Rec(1, 2), TblV}
LitsSmall == {Sc(5), Mat(1, 2), Tup(1, 2)}
LitsPart == {Sc(5), Mat(1, 2), Mat(3, 4), Rec(1, 2), Tup(1, 2)}
LitsAnnot == {Sc(5), Mat(1, 2)}

View == <<store, mut>>

StateJson(s, m) == [store |-> s, mut |-> m]
EmitEdge == PrintT(<<"EDGE", ToJson([from |-> StateJson(store, mut), act |-> act', to |-> StateJson(store', mut')])>>)
(* simulation mode: every state of a random behaviour is printed with its level and last action *)
EmitState == PrintT(<<"EDGE", ToJson([lvl |-> TLCGet("level"), act |-> act, to |-> StateJson(store, mut)])>>)
=============================================================================
