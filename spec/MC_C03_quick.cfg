SPECIFICATION Spec
CONSTANTS
  Shapes <- ShapesQuick
  FullMaskDim = 4
  VecDim = 4
INVARIANTS KernelEq OutOfRangeRejects ShapeLaw AllIsFlatten LinearAgrees Emit
CHECK_DEADLOCK FALSE
