------------------------------- MODULE MC_C19r -------------------------------
(* Bounded instance of MechRepl: every REPL session of up to MaxLen input lines over the command alphabet below.    *)
(* A behaviour is a session being typed line by line.  TLC checks the REPL-level laws on every reachable session    *)
(* state and emits every maximal session with the expected outcome, store and plan headers after every line.        *)
EXTENDS MechRepl, TLC, Json

CONSTANTS Names, MaxLen, Lits, Incs, StepNs, OneIx, OneNs

VARIABLES m, hist, exp
vars == <<m, hist, exp>>

NoE == [e |-> "lit", k |-> 0, m |-> "-", p |-> "-"]
DefExprs == {[e |-> "lit", k |-> k, m |-> "-", p |-> "-"] : k \in Lits}
       \cup {[e |-> "addk", k |-> k, m |-> x, p |-> "-"] : k \in Incs, x \in Names}
       \cup {[e |-> "addv", k |-> 0, m |-> x, p |-> y] : x \in Names, y \in Names}
AsgExprs == DefExprs \cup {[e |-> "var", k |-> 0, m |-> x, p |-> "-"] : x \in Names}

Stmts == {[s |-> "def", n |-> n, mu |-> mu, e |-> e, k |-> 0] : n \in Names, mu \in BOOLEAN, e \in DefExprs}
    \cup {[s |-> "asg", n |-> n, mu |-> FALSE, e |-> e, k |-> 0] : n \in Names, e \in AsgExprs}
    \cup {[s |-> "op", n |-> n, mu |-> FALSE, e |-> NoE, k |-> k] : n \in Names, k \in Incs}

NoSt == [s |-> "-", n |-> "-", mu |-> FALSE, e |-> NoE, k |-> 0]
Cmd(c, st, i, n, q) == [c |-> c, st |-> st, i |-> i, n |-> n, q |-> q]
(* n = 99 stands for the spelling without a count (`:step `), which means 1 *)
Commands == {Cmd("code", st, 0, 0, "-") : st \in Stmts}
       \cup {Cmd("all", NoSt, 0, n, "-") : n \in StepNs}
       \cup {Cmd("one", NoSt, i, n, "-") : i \in OneIx, n \in OneNs}
       \cup {Cmd("clear", NoSt, 0, 0, "-")}
       \cup {Cmd("query", NoSt, 0, 0, q) : q \in {"whos", "plan"}}

Count(c) == IF c.n = 99 THEN 1 ELSE c.n
Norm(c) == [c EXCEPT !.n = Count(c)]

(* statements that are ill-formed in the current state are part of the alphabet only through ONE representative per  *)
(* failure class (redefinition, assignment to an immutable / undefined name, undefined operand): the failing variants  *)
(* of all 50+ statements would multiply the sessions without adding behaviour                                        *)
Interesting(mm, c) ==
  IF c.c # "code" THEN TRUE
  ELSE IF RStmtOk(mm, c.st) THEN TRUE
  ELSE CASE c.st.s = "def" -> c.st.e.e = "lit" /\ c.st.e.k = (CHOOSE k \in Lits : TRUE) /\ ~c.st.mu
         [] c.st.s = "asg" -> c.st.e.e = "lit" /\ c.st.e.k = (CHOOSE k \in Lits : TRUE)
         [] c.st.s = "op"  -> c.st.k = (CHOOSE k \in Incs : TRUE)

Init == /\ m = EmptyMachine(Names)
        /\ hist = <<>>
        /\ exp = <<>>

Obs(mm, r) == [r |-> r, store |-> Store(mm, mm.cells), mut |-> mm.mut, plan |-> Headers(mm)]

Next == /\ Len(hist) < MaxLen
        /\ \E c \in Commands :
             /\ Interesting(m, c)
             /\ LET a == Apply(m, Norm(c), Names) IN
                /\ m' = a.m
                /\ hist' = Append(hist, c)
                /\ exp' = Append(exp, Obs(a.m, a.r))
Spec == Init /\ [][Next]_vars

(* ------------------------------------------------------------------ laws *)
Last == hist[Len(hist)]
(* a failing command changes nothing (C05 at the REPL level); a query changes nothing *)
ErrInert   == [][exp'[Len(exp')].r = "err" => m' = m]_vars
QueryInert == [][hist'[Len(hist')].c = "query" => m' = m]_vars
(* :clear gives exactly a new interpreter; nothing else ever forgets a name or a mutability mark *)
ClearFresh == [][hist'[Len(hist')].c = "clear" => m' = EmptyMachine(Names)]_vars
OnlyClearForgets == [][hist'[Len(hist')].c # "clear" => (Defined(m) \subseteq Defined(m') /\ m.mut \subseteq m'.mut)]_vars
(* stepping never changes the plan, the bindings or the mutability marks, only cell contents *)
StepKeepsShape == [][hist'[Len(hist')].c \in {"all", "one"} =>
                      (m'.plan = m.plan /\ m'.iplan = m.iplan /\ m'.env = m.env /\ m'.mut = m.mut)]_vars

(* n whole-plan steps then k = n + k; zero steps is the identity *)
StepAdditive == \A n \in 0..2, k \in 0..2 :
                  StepN(StepN(m.cells, m.plan, n), m.plan, k) = StepN(m.cells, m.plan, n + k)
(* stepping every function of the implementation plan once, in order, is one whole-plan step *)
SinglesCompose == SinglesFrom(m.cells, m.plan, m.iplan, 1) = Step1(m.cells, m.plan)
(* the implementation plan lists MechPlan's steps in order, interleaved with VariableDefine entries *)
ImplPlanOrder ==
  LET ks == SelectSeq([j \in 1..Len(m.iplan) |-> m.iplan[j].k], LAMBDA k : k # 0) IN
  ks = [j \in 1..Len(m.plan) |-> j]
(* C19: while no assignment / op-assignment has been typed since the last :clear, re-evaluation is the identity *)
NoAssignFixed == ~HasAssign(m.plan) =>
                   /\ Step1(m.cells, m.plan) = m.cells
                   /\ \A i \in 1..Len(m.iplan) : SolveEntry(m.cells, m.plan, m.iplan[i]) = m.cells

(* ------------------------------------------------------------------ emission *)
Maximal == Len(hist) = MaxLen
Emit == Maximal => PrintT(<<"CASE", ToJson([hist |-> hist, exp |-> exp])>>)
=============================================================================
