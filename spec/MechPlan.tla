------------------------------ MODULE MechPlan ------------------------------
(***************************************************************************)
(* Re-evaluation (C19): the interpreter appends one plan step per evaluated *)
(* function; `step` re-runs the whole plan in order.  Implementation-shaped *)
(* model: values live in CELLS; a name is bound to the cell that holds the  *)
(* result of its defining expression (so re-solving the expression updates  *)
(* the variable - Mech's reactive semantics); assignments are plan steps    *)
(* that write the target's cell.                                            *)
(*                                                                         *)
(*   cells : Seq(Int)                      plan : Seq(step)                 *)
(*   env   : name -> cell index (0 = undefined)        mut : set of names   *)
(*   step  : [op, out, a, b]   op \in {"addk","addc","setk","setc","inck"}  *)
(*     addk: cells[out] := cells[a] + b       addc: := cells[a] + cells[b]  *)
(*     setk: cells[out] := b                  setc: := cells[a]             *)
(*     inck: cells[out] := cells[out] + b                                   *)
(* Expressions: [e |-> "lit", k] | [e |-> "addk", m, k] | [e |-> "addv", m, p] *)
(***************************************************************************)
EXTENDS Naturals, Integers, Sequences, FiniteSets

St(op, out, a, b) == [op |-> op, out |-> out, a |-> a, b |-> b]

Solve(cells, s) ==
  CASE s.op = "addk" -> [cells EXCEPT ![s.out] = cells[s.a] + s.b]
    [] s.op = "addc" -> [cells EXCEPT ![s.out] = cells[s.a] + cells[s.b]]
    [] s.op = "setk" -> [cells EXCEPT ![s.out] = s.b]
    [] s.op = "setc" -> [cells EXCEPT ![s.out] = cells[s.a]]
    [] s.op = "inck" -> [cells EXCEPT ![s.out] = cells[s.out] + s.b]

(* one re-evaluation: solve every plan step in order *)
RECURSIVE RunFrom(_, _, _)
RunFrom(cells, plan, i) == IF i > Len(plan) THEN cells ELSE RunFrom(Solve(cells, plan[i]), plan, i + 1)
Step1(cells, plan) == RunFrom(cells, plan, 1)
RECURSIVE StepN(_, _, _)
StepN(cells, plan, n) == IF n = 0 THEN cells ELSE StepN(Step1(cells, plan), plan, n - 1)

AssignOps == {"setk", "setc", "inck"}
HasAssign(plan) == \E i \in 1..Len(plan) : plan[i].op \in AssignOps

(* ------------------------------------------------------------ interpretation *)
(* machine state m == [cells, plan, env, mut]; Eval returns the machine with the  *)
(* expression's plan step appended and solved, and the index of its result cell   *)
EvalExpr(m, e) ==
  CASE e.e = "lit"  -> [m |-> [m EXCEPT !.cells = Append(m.cells, e.k)], c |-> Len(m.cells) + 1]
    [] e.e = "addk" -> LET c == Len(m.cells) + 1
                           s == St("addk", c, m.env[e.m], e.k) IN
                       [m |-> [m EXCEPT !.cells = Solve(Append(m.cells, 0), s), !.plan = Append(m.plan, s)], c |-> c]
    [] e.e = "addv" -> LET c == Len(m.cells) + 1
                           s == St("addc", c, m.env[e.m], m.env[e.p]) IN
                       [m |-> [m EXCEPT !.cells = Solve(Append(m.cells, 0), s), !.plan = Append(m.plan, s)], c |-> c]

ExprOk(m, e) ==
  CASE e.e = "lit" -> TRUE
    [] e.e = "addk" -> m.env[e.m] # 0
    [] e.e = "addv" -> m.env[e.m] # 0 /\ m.env[e.p] # 0

(* n := e  /  ~n := e : the name is bound to the result cell itself *)
DefineOk(m, st) == m.env[st.n] = 0 /\ ExprOk(m, st.e)
Define(m, st) ==
  LET r == EvalExpr(m, st.e) IN
  [r.m EXCEPT !.env = [r.m.env EXCEPT ![st.n] = r.c], !.mut = IF st.mu THEN r.m.mut \cup {st.n} ELSE r.m.mut]

(* n = e : evaluate e, then a plan step copies the result into n's cell *)
AssignOk(m, st) == m.env[st.n] # 0 /\ st.n \in m.mut /\ ExprOk(m, st.e)
Assign(m, st) ==
  LET r == EvalExpr(m, st.e)
      s == St("setc", r.m.env[st.n], r.c, 0) IN
  [r.m EXCEPT !.cells = Solve(r.m.cells, s), !.plan = Append(r.m.plan, s)]

(* n += k *)
OpAssignOk(m, st) == m.env[st.n] # 0 /\ st.n \in m.mut
OpAssign(m, st) ==
  LET s == St("inck", m.env[st.n], 0, st.k) IN
  [m EXCEPT !.cells = Solve(m.cells, s), !.plan = Append(m.plan, s)]

StmtOk(m, st) == CASE st.s = "def" -> DefineOk(m, st) [] st.s = "asg" -> AssignOk(m, st) [] st.s = "op" -> OpAssignOk(m, st)
Interp(m, st) == CASE st.s = "def" -> Define(m, st) [] st.s = "asg" -> Assign(m, st) [] st.s = "op" -> OpAssign(m, st)

IsAssignStmt(st) == st.s \in {"asg", "op"}

(* the values seen through the names *)
Store(m, cells) == [n \in DOMAIN m.env |-> IF m.env[n] = 0 THEN -1 ELSE cells[m.env[n]]]
=============================================================================
