------------------------------ MODULE Trace_C20 ------------------------------
(* Trace validation for C20 (impl -> spec): the H2 hook events of `read_mech_source_file` on a materialised file     *)
(* system are replayed against the stack machine MechIncludeMachine.  The file system (abstract lines) is the FIRST  *)
(* record of each run, so the machine interprets the same lines the loader read.                                     *)
(*                                                                                                                   *)
(*   Fs    {fs, root}     the file system: file -> sequence of lines [k, t, nl]                                      *)
(*   Enter {f}            the loader marked f active and started expanding it        (hook H2 "enter")                *)
(*   Exit  {f}            the loader finished f and removed it from the active set   (hook H2 "exit")                 *)
(*   Cycle {f}            the loader found f in the active set                        (hook H2 "cycle")               *)
(*   End   {r}            the public call returned: "ok" | "cycle" | "missing"                                       *)
(*                                                                                                                   *)
(* Lines that are copied (text, fences, fenced lines, other brace lines) are not logged: the machine's StepLine on    *)
(* such a line is a SILENT step of the trace specification (l unchanged).  Between two logged events the machine is   *)
(* deterministic, so the search is linear.  Because of the silent steps acceptance is "the highest position reached   *)
(* is the end of the trace" (register 1, updated from the constraint Track; -workers 1), not the diameter.            *)
EXTENDS MechIncludeMachine, Json, IOUtils

Rec == ndJsonDeserialize(IOEnv.TRACE)

VARIABLE l
vars == <<fsys, stack, out, status, l>>

Ev(name) == l <= Len(Rec) /\ Rec[l].ev = name

Init == /\ TLCSet(1, 1) /\ l = 1 /\ fsys = <<>> /\ stack = <<>> /\ out = <<>> /\ status = "idle"

FsA == /\ Ev("Fs") /\ status = "idle"
       /\ fsys' = Rec[l].fs /\ stack' = <<>> /\ out' = <<>> /\ status' = "boot"
       /\ l' = l + 1

(* the root is entered first *)
RootEnterA == /\ Ev("Enter") /\ status = "boot"
              /\ Rec[l].f = Rec[l - 1].root
              /\ stack' = <<Frame(Rec[l].f)>> /\ status' = "run"
              /\ UNCHANGED <<fsys, out>> /\ l' = l + 1

(* a copied line: no event *)
SilentA == /\ status = "run" /\ StepLine
           /\ Len(stack') = Len(stack) /\ status' = "run"
           /\ UNCHANGED l

(* an include line outside fences whose target is not active: exactly that file is entered *)
EnterA == /\ Ev("Enter") /\ status = "run" /\ StepLine
          /\ Len(stack') = Len(stack) + 1 /\ stack'[Len(stack')].file = Rec[l].f
          /\ l' = l + 1

(* the file on top of the stack is exhausted: exactly that file is left *)
ExitA == /\ Ev("Exit") /\ status = "run" /\ Len(stack) > 0
         /\ Top.file = Rec[l].f /\ Exit
         /\ l' = l + 1

(* an include line whose target is on the stack *)
CycleA == /\ Ev("Cycle") /\ status = "run" /\ StepLine /\ status' = "cycle"
          /\ fsys[Top.file][Top.i].t = Rec[l].f
          /\ l' = l + 1

(* a missing target has no hook event: the failure shows in the End record *)
MissingA == /\ status = "run" /\ StepLine /\ status' = "missing" /\ UNCHANGED l

EndA == /\ Ev("End") /\ status \in {"ok", "cycle", "missing"}
        /\ Rec[l].r = status
        /\ fsys' = <<>> /\ stack' = <<>> /\ out' = <<>> /\ status' = "idle"
        /\ l' = l + 1

Next == FsA \/ RootEnterA \/ SilentA \/ EnterA \/ ExitA \/ CycleA \/ MissingA \/ EndA
Spec == Init /\ [][Next]_vars

(* the active-set discipline on every state of every observed execution *)
TraceStackDistinct == StackDistinct

Track == TLCSet(1, IF TLCGet(1) > l THEN TLCGet(1) ELSE l)
TraceAccepted ==
  IF TLCGet(1) = Len(Rec) + 1 THEN TRUE
  ELSE Print(<<"MSG", ToJson([unmatched |-> TLCGet(1), ev |-> Rec[TLCGet(1)]])>>, FALSE)
=============================================================================
