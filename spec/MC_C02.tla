------------------------------- MODULE MC_C02 -------------------------------
(* Bounded instance of MechFormula: every operator sequence of length <= MaxOps over *)
(* the operator alphabet, with the fixed operand values below and every placement of *)
(* one unary minus; emits tokens, the model's tree and (where defined) its value.    *)
EXTENDS MechFormula, TLC, Json

CONSTANTS OpsAlphabet, MaxOps, Unaries

VARIABLE toks

Vals == <<IntV(7), IntV(2), IntV(3), IntV(5), IntV(4)>>
Operand(i, un) == [neg |-> un = "neg", un |-> un, v |-> Vals[i]]

Init == \E un \in Unaries : toks = <<Operand(1, un)>>
Next == /\ Len(toks) < 2 * MaxOps + 1
        /\ \E op \in OpsAlphabet, un \in Unaries :
             /\ (un # "none" => \A i \in 1..Len(toks) : (i % 2 = 1 => toks[i].un = "none"))   \* at most one unary mark
             /\ toks' = toks \o <<op, Operand((Len(toks) + 1) \div 2 + 1, un)>>
Spec == Init /\ [][Next]_toks

ClimbEqDecl == Tree(toks) = TreeD(toks)
Faithful == InOrder(Tree(toks)) = toks

(* left associativity and level order, stated on the shape of the tree *)
RECURSIVE WellShaped(_)
WellShaped(t) ==
  t.k = "leaf" \/
  ( /\ WellShaped(t.l) /\ WellShaped(t.r)
    /\ (t.l.k = "bin" => Level(t.l.op) >= Level(t.op))      \* same level groups to the left
    /\ (t.r.k = "bin" => Level(t.r.op) > Level(t.op)) )      \* the right operand binds strictly tighter
Shape == WellShaped(Tree(toks))

CaseJson == [toks |-> toks, tree |-> Tree(toks), val |-> Eval(Tree(toks))]
Emit == (Len(toks) >= 3) => PrintT(<<"CASE", ToJson(CaseJson)>>)
=============================================================================
