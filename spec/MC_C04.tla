------------------------------- MODULE MC_C04 -------------------------------
(* Bounded instance of MechIndex for C04 (indexed assignment and op-assignment).  *)
(* Cell values are concrete small integers so that the effect of += -= *= /= is    *)
(* computed by the model itself (exactly; the pools keep every result integral).   *)
EXTENDS MechIndex, TLC, Json

CONSTANTS Shapes, FullMaskDim, VecDim, Ops

VARIABLE cs

ShapesQuick == {<<1,1>>, <<1,3>>, <<3,1>>, <<2,2>>, <<2,3>>, <<3,2>>}
ShapesThorough == ShapesQuick \cup {<<1,2>>, <<2,1>>, <<3,3>>, <<1,4>>, <<4,1>>, <<3,4>>, <<4,3>>, <<4,4>>, <<1,6>>, <<5,4>>}
OpsAll == {"=", "+=", "-=", "*=", "/="}

Seq2(S) == {<<a, b>> : a \in S, b \in S}

VecPool(dim) ==
  (IF dim <= VecDim THEN Seq2(0..(dim + 1))
   ELSE {<<1, dim>>, <<dim, 1>>, <<2, 2>>, <<0, 1>>, <<1, dim + 1>>, <<dim, dim - 1>>})
  \cup {<<i>> : i \in {1, dim}}
  \cup (IF dim >= 3 THEN {<<dim, 1, 2>>, [k \in 1..dim |-> dim + 1 - k], <<1, 2, dim + 1>>} ELSE {})
  \* full-length index vectors that start at 1 and end at dim but are NOT 1..dim (a repeat, an interior exchange, an interior
  \* out-of-range entry): endpoint-and-length tests do not prove the identity; plus full-length vectors with repeats
  \cup (IF dim >= 3 THEN {[k \in 1..dim |-> IF k = dim THEN dim ELSE IF k = 1 THEN 1 ELSE 1],
                          [k \in 1..dim |-> IF k = 1 THEN 1 ELSE dim],
                          [k \in 1..dim |-> IF k = 2 THEN dim + 1 ELSE IF k = dim THEN dim ELSE IF k = 1 THEN 1 ELSE k],
                          [k \in 1..dim |-> IF k = 2 THEN 0 ELSE IF k = dim THEN dim ELSE IF k = 1 THEN 1 ELSE k],
                          [k \in 1..dim |-> IF k = 1 THEN 1 ELSE k - 1]} ELSE {})
  \cup (IF dim >= 4 THEN {[k \in 1..dim |-> IF k = 2 THEN 3 ELSE IF k = 3 THEN 2 ELSE k]} ELSE {})
  \* index vectors WITH REPEATS whose length equals (or exceeds) the number of addressable elements: they address
  \* fewer elements than they have entries (a kernel must not take "as many entries as elements" for "all elements")
  \cup (IF dim >= 2 THEN {[k \in 1..dim |-> IF k = 1 THEN 1 ELSE k - 1], [k \in 1..dim |-> 1],
                          [k \in 1..dim |-> ((k - 1) % (dim - 1)) + 1], [k \in 1..(dim + 1) |-> ((k - 1) % dim) + 1],
                          [k \in 1..dim |-> IF k = dim THEN dim + 1 ELSE k]} ELSE {})

RangeSeq(a, b) == [k \in 1..(b - a + 1) |-> a + k - 1]
RangePool(dim) == {RangeSeq(a, b) : a \in 0..dim, b \in 1..(dim + 1)} \ {<<>>}

AllMasks(n) == [1..n -> BOOLEAN]
MaskPool(dim) ==
  (IF dim <= FullMaskDim THEN AllMasks(dim)
   ELSE {[k \in 1..dim |-> k % 2 = 1], [k \in 1..dim |-> k = dim], [k \in 1..dim |-> TRUE],
         [k \in 1..dim |-> FALSE], [k \in 1..dim |-> k \in {1, dim}]})
  \cup {[k \in 1..(dim + 1) |-> TRUE]}
  \cup (IF dim > 1 THEN {[k \in 1..(dim - 1) |-> TRUE]} ELSE {})

Forms(dim) ==
       {FS(i) : i \in 0..(dim + 1)}
  \cup {FV(s) : s \in VecPool(dim)}
  \cup {FR(s) : s \in {t \in RangePool(dim) : Len(t) >= 1}}
  \cup {FA}
  \cup {FM(mk) : mk \in MaskPool(dim)}

(* cell and source values per operator: every result stays a small non-negative integer *)
CellVal(op, p) == CASE op = "=" -> 10 + p [] op = "+=" -> 10 + p [] op = "-=" -> 10 + p
                    [] op = "*=" -> 1 + p [] op = "/=" -> 12 * p
SrcVal(op, k)  == CASE op = "=" -> 40 + k [] op = "+=" -> 6 + k [] op = "-=" -> 1 + ((k - 1) % 3)
                    [] op = "*=" -> 2 + ((k - 1) % 2) [] op = "/=" -> 2 + ((k - 1) % 3)
Apply(op, old, v) == CASE op = "=" -> v [] op = "+=" -> old + v [] op = "-=" -> old - v
                       [] op = "*=" -> old * v [] op = "/=" -> old \div v

MatOf(op, r, c) == [r |-> r, c |-> c, d |-> [p \in 1..(r * c) |-> CellVal(op, p)]]

Dummy == [stage |-> 0, nd |-> 1, r |-> 1, c |-> 1, f1 |-> FA, f2 |-> FA, src |-> "S", op |-> "="]
Partials ==
  UNION {
       {[stage |-> 1, nd |-> 1, r |-> sh[1], c |-> sh[2], f1 |-> f, f2 |-> FA, src |-> s, op |-> "="]
           : f \in Forms(sh[1] * sh[2]), s \in {"S", "V"}}
  \cup {[stage |-> 1, nd |-> 2, r |-> sh[1], c |-> sh[2], f1 |-> f, f2 |-> FA, src |-> "S", op |-> "="] : f \in Forms(sh[1])}
  : sh \in Shapes}
Completes(k) ==
  IF k.nd = 1 THEN {[k EXCEPT !.stage = 2, !.op = o] : o \in Ops}
  ELSE {[k EXCEPT !.stage = 2, !.f2 = g, !.op = o] : g \in Forms(k.c), o \in Ops}

Init == cs = Dummy
Next == \/ cs.stage = 0 /\ cs' \in Partials
        \/ cs.stage = 1 /\ cs' \in Completes(cs)
Spec == Init /\ [][Next]_cs
Done == cs.stage = 2

Addr(k) == IF k.nd = 1 THEN Addr1(Mat(k.r, k.c), k.f1) ELSE Addr2(Mat(k.r, k.c), k.f1, k.f2)

(* source values in address order: a scalar source is the same value for every address *)
SrcSeq(k, n) == [q \in 1..n |-> IF k.src = "S" THEN SrcVal(k.op, 1) ELSE SrcVal(k.op, q)]

(* declarative post-state: addressed cell p gets Apply(old, source of (the last) address p) *)
Post(k) ==
  LET a == Addr(k)
      m == MatOf(k.op, k.r, k.c)
      s == SrcSeq(k, Len(a.ix)) IN
  [p \in 1..(k.r * k.c) |->
     IF p \in Range(a.ix)
     THEN Apply(k.op, m.d[p], s[CHOOSE q \in 1..Len(a.ix) : a.ix[q] = p /\ \A q2 \in (q + 1)..Len(a.ix) : a.ix[q2] # p])
     ELSE m.d[p]]

(* loop-shaped: one element at a time in address order (what the assign kernels do) *)
RECURSIVE PostLoop(_, _, _, _, _)
PostLoop(op, d, addr, src, q) ==
  IF q > Len(addr) THEN d
  ELSE PostLoop(op, [d EXCEPT ![addr[q]] = Apply(op, d[addr[q]], src[q])], addr, src, q + 1)

Cls(f) == IF f.f \in {"v", "r"} /\ Len(f.ix) = 1 THEN f.f \o "1" ELSE f.f
Storage(r, c) == IF r = 1 /\ c = 1 THEN "one" ELSE IF r = 1 THEN "row" ELSE IF c = 1 THEN "col" ELSE "mat"
EmptyMask(f) == f.f = "m" /\ \A q \in 1..Len(f.mask) : ~f.mask[q]
BadMask(f, dim) == f.f = "m" /\ Len(f.mask) # dim

OpCls(op) == IF op = "=" THEN "=" ELSE "op="
Sig(k) == "C04/" \o OpCls(k.op) \o "/" \o k.src \o "/" \o Storage(k.r, k.c) \o "/" \o Cls(k.f1) \o (IF k.nd = 2 THEN "," \o Cls(k.f2) ELSE "")

(* Forms the assignment dispatch of the pinned tree implements (calibrated; DESIGN.md Appendix A). *)
SupS1 == [mat |-> {"s", "v", "r", "a", "m"}, row |-> {"s", "v", "r", "m"}, col |-> {"s", "v", "r", "m"}, one |-> {"s"}]
SupS2 == [mat |-> {<<"s","s">>, <<"s","v">>, <<"v","s">>, <<"v","v">>, <<"s","a">>, <<"a","s">>, <<"v","a">>,
                   <<"a","v">>, <<"r","r">>, <<"a","m">>, <<"m","m">>, <<"s","r">>, <<"r","s">>, <<"a","r">>, <<"r","a">>},
          row |-> {<<"s","s">>}, col |-> {<<"s","s">>}, one |-> {<<"s","s">>}]
SupV1 == [mat |-> {"v", "r"}, row |-> {"v", "r"}, col |-> {"v", "r"}, one |-> {}]
SupOp1 == [mat |-> {"v", "r"}, row |-> {"v", "r"}, col |-> {"v", "r"}, one |-> {}]
SupOp2 == [mat |-> {<<"s","a">>, <<"v","a">>, <<"r","a">>}, row |-> {}, col |-> {}, one |-> {}]

Supported(k) ==
  LET st == Storage(k.r, k.c) IN
  IF k.op = "="
  THEN (IF k.src = "S"
        THEN (IF k.nd = 1 THEN Cls(k.f1) \in SupS1[st] ELSE <<Cls(k.f1), Cls(k.f2)>> \in SupS2[st])
        ELSE k.nd = 1 /\ Cls(k.f1) \in SupV1[st])
  ELSE (IF k.nd = 1 THEN Cls(k.f1) \in SupOp1[st] ELSE k.src = "S" /\ <<Cls(k.f1), Cls(k.f2)>> \in SupOp2[st])

(* expectation: "reject" = must fail and leave x unchanged; "exact" = must succeed with Post;  *)
(* "free" = may fail (x unchanged) or succeed with Post; "frame" = outside the statement       *)
(* (duplicate addresses with a vector source): only cells outside the addressed set are judged *)
Expect(k) ==
  LET a == Addr(k) IN
  IF EmptyMask(k.f1) \/ (k.nd = 2 /\ EmptyMask(k.f2)) THEN "free"
  ELSE IF ~a.ok THEN "reject"
  ELSE IF Len(a.ix) = 0 THEN "free"
  ELSE IF ~Distinct(a.ix) /\ (k.src = "V" \/ k.op # "=") THEN "frame"
  ELSE IF Supported(k) THEN "exact" ELSE "free"

Why(k) ==
  IF k.nd = 1 THEN (IF BadMask(k.f1, k.r * k.c) THEN "mask-length" ELSE "index-range")
  ELSE (IF BadMask(k.f1, k.r) \/ BadMask(k.f2, k.c) THEN "mask-length" ELSE "index-range")

CaseJson(k) ==
  LET a == Addr(k) IN
  [nd |-> k.nd, r |-> k.r, c |-> k.c, f1 |-> k.f1, f2 |-> k.f2, src |-> k.src, op |-> k.op,
   x |-> MatOf(k.op, k.r, k.c).d, srcv |-> SrcSeq(k, IF a.ok /\ Len(a.ix) > 0 THEN Len(a.ix) ELSE 1),
   addr |-> a.ix, exp |-> Expect(k), sig |-> Sig(k), why |-> Why(k),
   post |-> IF a.ok THEN Post(k) ELSE MatOf(k.op, k.r, k.c).d]

(* ------------------------------------------------------- model-level laws *)
Frame == Done => LET a == Addr(cs) IN
  a.ok => \A p \in 1..(cs.r * cs.c) : p \notin Range(a.ix) => Post(cs)[p] = CellVal(cs.op, p)

WrittenIsSource == Done => LET a == Addr(cs) IN
  (a.ok /\ Distinct(a.ix)) =>
     \A q \in 1..Len(a.ix) : Post(cs)[a.ix[q]] = Apply(cs.op, CellVal(cs.op, a.ix[q]), SrcSeq(cs, Len(a.ix))[q])

KernelEq == Done => LET a == Addr(cs) IN
  (a.ok /\ (Distinct(a.ix) \/ cs.op = "=")) =>
     PostLoop(cs.op, MatOf(cs.op, cs.r, cs.c).d, a.ix, SrcSeq(cs, Len(a.ix)), 1) = Post(cs)

(* reading the assigned index afterwards returns what was written *)
ReadBack == Done => LET a == Addr(cs) IN
  (a.ok /\ Distinct(a.ix) /\ cs.op = "=") =>
     LET m2 == [r |-> cs.r, c |-> cs.c, d |-> Post(cs)]
         rd == IF cs.nd = 1 THEN Select1(m2, cs.f1) ELSE Select2(m2, cs.f1, cs.f2)
     IN rd.d = SrcSeq(cs, Len(a.ix))

ShapeKept == Done => Len(Post(cs)) = cs.r * cs.c

Emit == Done => PrintT(<<"CASE", ToJson(CaseJson(cs))>>)
=============================================================================
