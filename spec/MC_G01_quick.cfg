SPECIFICATION Spec
CONSTANTS
  ShapeSet <- ShapesQuick
  ChainDims = {1, 2}
  FillSet = {"prime", "iota", "neg", "dyad"}
  RouteFills = {"prime"}
INVARIANTS RouteLaw KernelEqDecl Shapes TransposeLaw ProductTLaw SumLaw IdentityLaw DotLaw AssocLaw CompositeLaw Discriminating Emit
CHECK_DEADLOCK FALSE
