--------------------------- MODULE MechBytecodeEnc ---------------------------
(***************************************************************************)
(* The instruction section of a bytecode file (C07, first sentence: what    *)
(* is decoded is what the compiler wrote, and re-encoding reproduces the    *)
(* bytes).  Byte-exact model of the eight instruction forms:                *)
(*   ConstLoad 01 dst:u32 const:u32         NullOp 10 fxn:u64 dst:u32        *)
(*   UnOp  20 fxn dst src     BinOp 30 fxn dst lhs rhs                       *)
(*   TernOp 40 fxn dst a b c  QuadOp 50 fxn dst a b c d                      *)
(*   VarArg 60 fxn dst n:u32 args[n]        Ret FF src:u32                   *)
(* all little-endian.  An instruction is [op, fxn, dst, args]; `Encode` is   *)
(* what the compiler context writes, `Decode` what the loader reads.         *)
(* TLC checks Decode(Encode(is)) = is, the size law, and that the encoding   *)
(* is injective on the bounded universe (two different instruction lists    *)
(* never share their bytes).                                                *)
(***************************************************************************)
EXTENDS Naturals, Sequences, FiniteSets

Ops == {"ConstLoad", "NullOp", "UnOp", "BinOp", "TernOp", "QuadOp", "VarArg", "Ret"}
Opcode(op) == CASE op = "ConstLoad" -> 1 [] op = "NullOp" -> 16 [] op = "UnOp" -> 32 [] op = "BinOp" -> 48
                [] op = "TernOp" -> 64 [] op = "QuadOp" -> 80 [] op = "VarArg" -> 96 [] op = "Ret" -> 255
OpOf(b) == CHOOSE op \in Ops : Opcode(op) = b
IsOpcode(b) == \E op \in Ops : Opcode(op) = b
Arity(op) == CASE op = "ConstLoad" -> 1 [] op = "NullOp" -> 0 [] op = "UnOp" -> 1 [] op = "BinOp" -> 2
               [] op = "TernOp" -> 3 [] op = "QuadOp" -> 4 [] op = "Ret" -> 1 [] OTHER -> 0
HasFxn(op) == op \notin {"ConstLoad", "Ret"}
HasDst(op) == op # "Ret"

I(op, fxn, dst, args) == [op |-> op, fxn |-> fxn, dst |-> dst, args |-> args]

WellFormed(i) == /\ i.op \in Ops
                 /\ (i.op # "VarArg" => Len(i.args) = Arity(i.op))
                 /\ (~HasFxn(i.op) => i.fxn = 0) /\ (~HasDst(i.op) => i.dst = 0)

RECURSIVE Pow256(_)
Pow256(k) == IF k = 0 THEN 1 ELSE 256 * Pow256(k - 1)
(* little-endian bytes of v in n bytes (v < 2^31 here; the upper bytes are zero) *)
LE(v, n) == [k \in 1..n |-> IF k <= 4 THEN (v \div Pow256(k - 1)) % 256 ELSE 0]
RECURSIVE Flat(_)
Flat(ss) == IF ss = <<>> THEN <<>> ELSE Head(ss) \o Flat(Tail(ss))

EncodeOne(i) ==
     <<Opcode(i.op)>>
  \o (IF HasFxn(i.op) THEN LE(i.fxn, 8) ELSE <<>>)
  \o (IF HasDst(i.op) THEN LE(i.dst, 4) ELSE <<>>)
  \o (IF i.op = "VarArg" THEN LE(Len(i.args), 4) ELSE <<>>)
  \o Flat([k \in 1..Len(i.args) |-> LE(i.args[k], 4)])
Encode(is) == Flat([k \in 1..Len(is) |-> EncodeOne(is[k])])

SizeOne(i) == 1 + (IF HasFxn(i.op) THEN 8 ELSE 0) + (IF HasDst(i.op) THEN 4 ELSE 0)
                + (IF i.op = "VarArg" THEN 4 ELSE 0) + 4 * Len(i.args)
RECURSIVE SumSize(_)
SumSize(is) == IF is = <<>> THEN 0 ELSE SizeOne(Head(is)) + SumSize(Tail(is))

(* the loader: read one instruction at position p (1-based) of byte sequence b *)
U(b, p, n) == LET w == [k \in 1..n |-> b[p + k - 1]] IN w[1] + 256 * w[2] + 65536 * w[3] + 16777216 * (w[4] % 128)
ReadOne(b, p) ==
  LET op == OpOf(b[p])
      p1 == p + 1
      fxn == IF HasFxn(op) THEN U(b, p1, 8) ELSE 0
      p2 == IF HasFxn(op) THEN p1 + 8 ELSE p1
      dst == IF HasDst(op) THEN U(b, p2, 4) ELSE 0
      p3 == IF HasDst(op) THEN p2 + 4 ELSE p2
      n == IF op = "VarArg" THEN U(b, p3, 4) ELSE Arity(op)
      p4 == IF op = "VarArg" THEN p3 + 4 ELSE p3
  IN [instr |-> I(op, fxn, dst, [k \in 1..n |-> U(b, p4 + 4 * (k - 1), 4)]), next |-> p4 + 4 * n]
RECURSIVE DecodeFrom(_, _)
DecodeFrom(b, p) == IF p > Len(b) THEN <<>>
                    ELSE LET r == ReadOne(b, p) IN <<r.instr>> \o DecodeFrom(b, r.next)
Decode(b) == DecodeFrom(b, 1)

RoundTrip(is) == Decode(Encode(is)) = is
SizeLaw(is) == Len(Encode(is)) = SumSize(is)
=============================================================================
