SPECIFICATION Spec
CONSTANTS
  Kinds = {"f64", "u8", "string", "bool", "tup"}
  CrossKinds = {"f64", "u8", "string"}
  N = 3
  ULen = 3
  ELen = 2
  BLen = 2
  XLen = 1
  TwiceMax = 2
  BigKinds = {}
  BigN = 0
  BigM = 0
INVARIANTS KernelU KernelE KernelP Expects Emit
CHECK_DEADLOCK FALSE
