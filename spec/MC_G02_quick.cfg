SPECIFICATION Spec
CONSTANTS
  MaxSize = 3
  RecOrd = 2
  MapOrd = 2
  TblOrd = 2
  TblSize = 3
  TblFull = 2
  Rows = {1, 3}
INVARIANTS WellFormed Kernel ConstrInv OrderInv Writes Pairs PairsTbl RowSets Dups Expects Emit
CHECK_DEADLOCK FALSE
