SPECIFICATION Spec
CONSTANTS
  FileNames = {"a", "b", "c", "d"}
  Slots <- SlotsThorough
  NlChoice = {"b", "c", "d"}
  Rich = {"b", "c"}
  FileOrder <- OrderThorough
INVARIANTS ActiveIsStack Agreement Terminates Emit
CHECK_DEADLOCK FALSE
