----------------------------- MODULE MechOutline -----------------------------
(* The document structure the Mechdown parser builds (src/syntax/src/mechdown.rs: program / body / section / section_element;   *)
(* src/core/src/nodes.rs: Program, Section, table_of_contents): a document is a sequence of BLOCKS separated by blank lines;      *)
(* the tree is a title, and a list of sections, each an optional section subtitle and a list of elements.                         *)
(*                                                                                                                              *)
(* Block kinds: "T" title (only as the first block), "H2" section subtitle (`1. Name` underlined), "H3" / "H4" subtitles          *)
(* (`(1.1) Name`, `(1.1.1) Name`), "P" paragraph, "C" one line of code, "L" a two-item list, "Q" quote block.                     *)
(* A block is [k |-> kind, id |-> position in the document]; the id is written into the block's text, so the tree can be          *)
(* projected back to block ids.                                                                                                  *)
(*                                                                                                                              *)
(* "I" info block (`(i)> ...`), "F" fenced code block.  Quote and info blocks are ABSORBING: they consist of one or more         *)
(* paragraphs, so a text-like block (paragraph, list, subtitle of any level, quote, info) that follows one WITHOUT a blank line    *)
(* becomes part of it - also a section subtitle, which then starts no section.  (A code line in that position is a syntax error;  *)
(* such documents are outside the specification: Specified.)                                                                      *)
(*                                                                                                                              *)
(* Rules: (1) a new section starts at every H2 and only there; what precedes the first H2 is a section without subtitle;          *)
(* (2) consecutive code blocks form ONE code element holding their statements in order, consecutive lists ONE list holding       *)
(* their items in order; every other block is one element; (3) nothing is lost, duplicated or reordered;                          *)
(* (4) the table of contents lists, for every section WITH a subtitle, its H3 / H4 subtitles in order.                            *)
EXTENDS Naturals, Sequences

Blk(k, i) == [k |-> k, id |-> i, tight |-> FALSE]
BlkT(k, i, t) == [k |-> k, id |-> i, tight |-> t]      \* tight: a single line break (no blank line) separates the block from its predecessor
Mergeable == {"C", "L"}

(* an element: [k, ids] - the kind and the ids of the blocks it was made from *)
El(k, ids) == [k |-> k, ids |-> ids]

(* ---------------------------------------------------------------- elements of a run of blocks (no T, no H2): declarative *)
(* block j starts a new element iff it is the first, not mergeable, or of another kind than its predecessor *)
Starts(bs, j) == j = 1 \/ bs[j].k \notin Mergeable \/ bs[j - 1].k # bs[j].k
RECURSIVE RunEnd(_, _)
RunEnd(bs, j) == IF j < Len(bs) /\ ~Starts(bs, j + 1) THEN RunEnd(bs, j + 1) ELSE j
RECURSIVE FlatAll(_, _, _)
FlatAll(bs, a, b) == IF a > b THEN <<>> ELSE bs[a].all \o FlatAll(bs, a + 1, b)
ElementsD(bs) ==
  LET starts == SelectSeq([j \in 1..Len(bs) |-> j], LAMBDA j : Starts(bs, j)) IN
  [n \in 1..Len(starts) |-> El(bs[starts[n]].k, FlatAll(bs, starts[n], RunEnd(bs, starts[n])))]

(* ---------------------------------------------------------------- the same, as the parser's loop: fold left, extend or push *)
RECURSIVE ElementsL(_, _, _)
ElementsL(bs, j, acc) ==
  IF j > Len(bs) THEN acc
  ELSE LET b == bs[j] IN
       IF acc # <<>> /\ b.k \in Mergeable /\ acc[Len(acc)].k = b.k
       THEN ElementsL(bs, j + 1, [acc EXCEPT ![Len(acc)].ids = @ \o b.all])
       ELSE ElementsL(bs, j + 1, Append(acc, El(b.k, b.all)))

(* ---------------------------------------------------------------- sections: split the body at every H2 *)
Sec(sub, els) == [sub |-> sub, els |-> els]           \* sub = 0: no subtitle, else the id of the H2 block
RECURSIVE SplitL(_, _, _, _)
SplitL(bs, j, cur, acc) ==                             \* cur = [sub, blocks] being collected
  IF j > Len(bs) THEN (IF cur.sub = 0 /\ cur.bl = <<>> THEN acc ELSE Append(acc, cur))
  ELSE IF bs[j].k = "H2"
       THEN SplitL(bs, j + 1, [sub |-> bs[j].id, bl |-> <<>>], IF cur.sub = 0 /\ cur.bl = <<>> THEN acc ELSE Append(acc, cur))
       ELSE SplitL(bs, j + 1, [cur EXCEPT !.bl = Append(@, bs[j])], acc)
Split(bs) == SplitL(bs, 1, [sub |-> 0, bl |-> <<>>], <<>>)

(* ---------------------------------------------------------------- absorption (before the section split) *)
Absorbing == {"Q", "I"}
TextLike == {"P", "L", "H2", "H3", "H4", "Q", "I"}
(* super-blocks: [k, id (of the first block), ids (all blocks it swallowed)] *)
RECURSIVE AbsorbL(_, _, _)
AbsorbL(bs, j, acc) ==
  IF j > Len(bs) THEN acc
  ELSE LET b == bs[j] IN
       IF acc # <<>> /\ b.tight /\ acc[Len(acc)].k \in Absorbing /\ b.k \in TextLike
       THEN AbsorbL(bs, j + 1, [acc EXCEPT ![Len(acc)].all = Append(@, b.id)])
       ELSE AbsorbL(bs, j + 1, Append(acc, [k |-> b.k, id |-> b.id, all |-> <<b.id>>]))
Absorb(bs) == AbsorbL(bs, 1, <<>>)
(* outside the specification: a code line, a fence or a title directly (no blank line) after an absorbing block's last line *)
Specified(bs) == \A j \in 2..Len(bs) :
                   ~(bs[j].tight /\ bs[j].k \in {"C"} /\ Absorb(SubSeq(bs, 1, j - 1))[Len(Absorb(SubSeq(bs, 1, j - 1)))].k \in Absorbing)

HasTitle(doc) == doc # <<>> /\ doc[1].k = "T"
Body(doc) == Absorb(IF HasTitle(doc) THEN Tail(doc) ELSE doc)
RawBody(doc) == IF HasTitle(doc) THEN Tail(doc) ELSE doc
Structure(doc) ==
  [title |-> HasTitle(doc),
   secs  |-> LET sp == Split(Body(doc)) IN [n \in 1..Len(sp) |-> Sec(sp[n].sub, ElementsD(sp[n].bl))]]

(* the table of contents: sections with a subtitle, each with the ids of its H3 / H4 subtitles *)
Toc(doc) ==
  LET secs == SelectSeq(Structure(doc).secs, LAMBDA s : s.sub # 0) IN
  [n \in 1..Len(secs) |-> [sub |-> secs[n].sub,
                            subs |-> SelectSeq(secs[n].els, LAMBDA e : e.k \in {"H3", "H4"})]]

(* ---------------------------------------------------------------- laws *)
RECURSIVE FlatIds(_, _)
FlatIds(els, j) == IF j > Len(els) THEN <<>> ELSE els[j].ids \o FlatIds(els, j + 1)
RECURSIVE FlatSecs(_, _)
FlatSecs(secs, j) ==
  IF j > Len(secs) THEN <<>>
  ELSE (IF secs[j].sub = 0 THEN <<>> ELSE <<secs[j].sub>>) \o FlatIds(secs[j].els, 1) \o FlatSecs(secs, j + 1)
(* nothing lost, duplicated or reordered *)
Preserves(doc) == FlatSecs(Structure(doc).secs, 1) = [j \in 1..Len(RawBody(doc)) |-> RawBody(doc)[j].id]
=============================================================================
