------------------------------ MODULE MC_C08c ------------------------------
(* Construct universe for C08: the statement-level constructs of the grammar beyond formulas and kinds - state     *)
(* machines (every transition operator in arm, guard and pipe position), function definitions and match            *)
(* expressions (every pattern kind, guards), comprehensions, op-assignment operators and targets, subscript forms,  *)
(* enum definitions, literal spellings.  Each case is a record of choices; the renderer writes the program.         *)
EXTENDS Naturals, Sequences, TLC, Json

TransOps == {"next", "async"}
PatKinds == {"lit", "var", "wild", "tuple", "tuplelit", "arrhead", "arrrest", "arrlast", "enum", "enum0", "atom"}
Guards == {"none", "gt", "eq"}
OpAssigns == {"+=", "-=", "*=", "/=", "^="}
Targets == {"var", "idx1", "idx2", "range", "all", "field"}
Subs == {"s", "ss", "all", "alls", "sall", "range", "rangeincl", "rangestep", "vec", "mask", "dot", "dotint", "brace", "swizzle", "chain2", "dotidx"}
Lits == {"int", "float", "neg", "hex", "oct", "bin", "dec", "sci", "scineg", "scicap", "rat", "cplx", "cplxneg", "imag", "typed", "annot", "str", "stresc", "strnl", "strraw", "strtab", "strsp", "strempty",
         "strqend", "strqstart", "strqonly", "strq2end", "strbsend", "strbsonly", "strbsq", "strq2mid", "strq3mid", "strbrace", "struni", "strsemi", "strdash",
         "atom", "empty", "true", "false", "big", "leaddot",
         \* complex literals: every (real part form) x (sign) x (imaginary part form) over integer / float / scientific / negative-exponent scientific,
         \* and the negated forms of the real literals
         "cx_int_p_int", "cx_int_p_float", "cx_int_p_sci", "cx_int_p_scineg", "cx_int_m_int", "cx_int_m_float", "cx_int_m_sci", "cx_int_m_scineg", "cx_float_p_int", "cx_float_p_float", "cx_float_p_sci", "cx_float_p_scineg", "cx_float_m_int", "cx_float_m_float", "cx_float_m_sci", "cx_float_m_scineg", "cx_sci_p_int", "cx_sci_p_float", "cx_sci_p_sci", "cx_sci_p_scineg", "cx_sci_m_int", "cx_sci_m_float", "cx_sci_m_sci", "cx_sci_m_scineg", "cx_scineg_p_int", "cx_scineg_p_float", "cx_scineg_p_sci", "cx_scineg_p_scineg", "cx_scineg_m_int", "cx_scineg_m_float", "cx_scineg_m_sci", "cx_scineg_m_scineg", "negfloat", "negsci", "negscineg", "negrat", "negimag", "imagsci", "negimagsci"}

Cases ==
       {[fam |-> "fsm", a |-> a1, b |-> g1, c |-> pp, d |-> "-"] : a1 \in TransOps, g1 \in TransOps \cup {"out"}, pp \in TransOps \cup {"none"}}
  \cup {[fam |-> "fsmspec", a |-> n, b |-> "-", c |-> "-", d |-> "-"] : n \in {"1", "2", "3"}}
  \cup {[fam |-> "match", a |-> p, b |-> g, c |-> q, d |-> "-"] : p \in PatKinds, g \in Guards, q \in {"wild", "var"}}
  \cup {[fam |-> "fn", a |-> p, b |-> n, c |-> "-", d |-> "-"] : p \in PatKinds, n \in {"1", "2"}}
  \cup {[fam |-> "compr", a |-> k, b |-> g, c |-> f, d |-> l] : k \in {"set", "mat"}, g \in {"1", "2"}, f \in {"none", "cmp"}, l \in {"plain", "let"}}
  \cup {[fam |-> "opassign", a |-> o, b |-> t, c |-> "-", d |-> "-"] : o \in OpAssigns \cup {"="}, t \in Targets}
  \cup {[fam |-> "sub", a |-> s, b |-> w, c |-> "-", d |-> "-"] : s \in Subs, w \in {"expr", "def"}}
  \cup {[fam |-> "lit", a |-> l, b |-> w, c |-> "-", d |-> "-"] : l \in Lits, w \in {"expr", "inmat", "arg", "fnbody", "fnbody2", "fnarm", "matcharm", "rec", "tup", "set", "fsmout", "assign", "fence"}}
  \cup {[fam |-> "enum", a |-> n, b |-> p, c |-> "-", d |-> "-"] : n \in {"1", "2", "3"}, p \in {"none", "u64", "tuple", "mixed"}}
  \cup {[fam |-> "misc", a |-> m, b |-> "-", c |-> "-", d |-> "-"] : m \in {"comment", "trailing", "twostmts", "semis", "blank", "kinddef", "tupledestr", "mutdef", "call0", "callnamed2", "nestedcall", "fncallstmt", "strcat", "neglit", "parenneg", "notvar", "transposecall", "rangevar", "setlit", "emptyset", "map", "record", "nestedrec", "table", "table2rows", "tuple3", "nestedtuple", "matrixrows", "matrixnested", "emptymat", "optional"}}

VARIABLE c
Init == c = [stage |-> 0, fam |-> "", a |-> "", b |-> "", c |-> "", d |-> ""]
Next == c.stage = 0 /\ \E k \in Cases : c' = [stage |-> 1, fam |-> k.fam, a |-> k.a, b |-> k.b, c |-> k.c, d |-> k.d]
Spec == Init /\ [][Next]_c
Emit == c.stage = 1 => PrintT(<<"CASE", ToJson([fam |-> c.fam, a |-> c.a, b |-> c.b, c |-> c.c, d |-> c.d])>>)
=============================================================================
