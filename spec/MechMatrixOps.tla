---------------------------- MODULE MechMatrixOps ----------------------------
(***************************************************************************)
(* Reference semantics of Mech's matrix algebra and reductions (growth     *)
(* area G01; no listed property names this behaviour):                     *)
(*                                                                         *)
(*   A ** B                  matrix product           (machines/matrix)    *)
(*   A'                      transpose                (machines/matrix)    *)
(*   stats/sum/row(A)        the sum of the ROWS of A: a 1 x c row,        *)
(*                           element j = A[1,j] + ... + A[r,j]             *)
(*   stats/sum/column(A)     the sum of the COLUMNS of A: an r x 1 column, *)
(*                           element i = A[i,1] + ... + A[i,c]             *)
(*   matrix/dot(a, b)        inner product of two vectors of one shape     *)
(*                                                                         *)
(* A matrix is [r, c, q, d]: r rows, c columns, d the column-major         *)
(* sequence of integer numerators, q a binary exponent shared by all       *)
(* cells: the value of cell (i,j) is d[(j-1)*r + i] / 2^q.  q = 0 gives    *)
(* exact integers (every integer kind, floats); q > 0 gives dyadic         *)
(* rationals (floats only).  All operators are exact on this domain:       *)
(* products add the exponents, sums and transposes keep them.              *)
(*                                                                         *)
(* Every operator has a declarative definition (the element law) and an    *)
(* independently written loop-shaped definition (the order in which a      *)
(* column-major kernel visits the cells and accumulates); the bounded      *)
(* instance MC_G01 checks that they agree and that the algebraic laws hold.*)
(***************************************************************************)
EXTENDS Naturals, Integers, Sequences, FiniteSets

Mat(r, c, q, d) == [r |-> r, c |-> c, q |-> q, d |-> d]
At(m, i, j)     == m.d[(j - 1) * m.r + i]
RowOf(p, rows)  == ((p - 1) % rows) + 1
ColOf(p, rows)  == ((p - 1) \div rows) + 1

NoMat  == [ok |-> FALSE, m |-> Mat(0, 0, 0, <<>>)]      \* "this is an error"
Ok(m)  == [ok |-> TRUE, m |-> m]

RECURSIVE SeqSum(_)
SeqSum(s) == IF s = <<>> THEN 0 ELSE Head(s) + SeqSum(Tail(s))

Zeros(n)    == [p \in 1..n |-> 0]
Id(n)       == Mat(n, n, 0, [p \in 1..(n * n) |-> IF RowOf(p, n) = ColOf(p, n) THEN 1 ELSE 0])
Ones(r, c)  == Mat(r, c, 0, [p \in 1..(r * c) |-> 1])

IsVector(m) == m.r = 1 \/ m.c = 1
WellFormed(m) == m.r >= 1 /\ m.c >= 1 /\ Len(m.d) = m.r * m.c

(* ------------------------------------------------------------ declarative *)

(* conformable iff columns of A = rows of B; (A ** B)[i,j] = SUM_k A[i,k] * B[k,j].                   *)
(* Covers every shape pair: vector ** matrix, matrix ** vector, row ** column = 1 x 1 (inner product), *)
(* column ** row = outer product, and 1 x 1 operands (which are matrices, not scalars).               *)
Conformable(A, B) == A.c = B.r
MatMul(A, B) ==
  IF ~Conformable(A, B) THEN NoMat
  ELSE Ok(Mat(A.r, B.c, A.q + B.q,
              [p \in 1..(A.r * B.c) |->
                 LET i == RowOf(p, A.r)
                     j == ColOf(p, A.r)
                 IN SeqSum([k \in 1..A.c |-> At(A, i, k) * At(B, k, j)])]))

(* (A')[i,j] = A[j,i]; shape c x r *)
Transpose(A) ==
  Mat(A.c, A.r, A.q, [p \in 1..(A.r * A.c) |-> At(A, ColOf(p, A.c), RowOf(p, A.c))])

(* stats/sum/row: adds the rows together *)
SumRow(A) == Mat(1, A.c, A.q, [j \in 1..A.c |-> SeqSum([i \in 1..A.r |-> At(A, i, j)])])
(* stats/sum/column: adds the columns together *)
SumCol(A) == Mat(A.r, 1, A.q, [i \in 1..A.r |-> SeqSum([j \in 1..A.c |-> At(A, i, j)])])

(* matrix/dot: two vectors of the same shape -> a SCALAR [ok, n, q] (value n / 2^q);    *)
(* vectors of different length -> error.  What the operator means for operands that are *)
(* not both vectors of one orientation is decided in the bounded instance (DotClass).   *)
NoScalar == [ok |-> FALSE, n |-> 0, q |-> 0]
Dot(a, b) ==
  IF a.r # b.r \/ a.c # b.c THEN NoScalar
  ELSE [ok |-> TRUE, n |-> SeqSum([p \in 1..Len(a.d) |-> a.d[p] * b.d[p]]), q |-> a.q + b.q]

(* ------------------------------------------------------------ loop-shaped *)

(* gemm as a column-major kernel runs it: for each output column j, for each k, add          *)
(* B[k,j] * (column k of A) onto output column j (axpy); the accumulator is the whole output *)
RECURSIVE MMLoop(_, _, _, _, _, _)
MMLoop(A, B, out, j, k, i) ==
  IF j > B.c THEN out
  ELSE IF k > A.c THEN MMLoop(A, B, out, j + 1, 1, 1)
  ELSE IF i > A.r THEN MMLoop(A, B, out, j, k + 1, 1)
  ELSE MMLoop(A, B, [out EXCEPT ![(j - 1) * A.r + i] = @ + A.d[(k - 1) * A.r + i] * B.d[(j - 1) * B.r + k]], j, k, i + 1)
MatMulK(A, B) ==
  IF A.c # B.r THEN NoMat
  ELSE Ok(Mat(A.r, B.c, A.q + B.q, MMLoop(A, B, Zeros(A.r * B.c), 1, 1, 1)))

(* the same product as an inner-product kernel: for each (i,j) a scalar accumulator over k *)
RECURSIVE Acc(_, _, _, _, _, _)
Acc(A, B, i, j, k, acc) == IF k > A.c THEN acc ELSE Acc(A, B, i, j, k + 1, acc + At(A, i, k) * At(B, k, j))
RECURSIVE MMCells(_, _, _)
MMCells(A, B, p) == IF p > A.r * B.c THEN <<>>
                    ELSE <<Acc(A, B, RowOf(p, A.r), ColOf(p, A.r), 1, 0)>> \o MMCells(A, B, p + 1)
MatMulK2(A, B) ==
  IF A.c # B.r THEN NoMat ELSE Ok(Mat(A.r, B.c, A.q + B.q, MMCells(A, B, 1)))

(* transpose as a scan: reading A row by row yields A' column by column *)
RECURSIVE TRow(_, _, _), TRows(_, _)
TRow(A, i, j) == IF j > A.c THEN <<>> ELSE <<A.d[(j - 1) * A.r + i]>> \o TRow(A, i, j + 1)
TRows(A, i)   == IF i > A.r THEN <<>> ELSE TRow(A, i, 1) \o TRows(A, i + 1)
TransposeK(A) == Mat(A.c, A.r, A.q, TRows(A, 1))

(* sum/row: for each column a scalar accumulator running down the column *)
RECURSIVE DownCol(_, _, _, _), SRCols(_, _)
DownCol(A, j, i, acc) == IF i > A.r THEN acc ELSE DownCol(A, j, i + 1, acc + A.d[(j - 1) * A.r + i])
SRCols(A, j) == IF j > A.c THEN <<>> ELSE <<DownCol(A, j, 1, 0)>> \o SRCols(A, j + 1)
SumRowK(A) == Mat(1, A.c, A.q, SRCols(A, 1))

(* sum/column: a column accumulator; add column 1, then column 2, ... onto it *)
RECURSIVE SCLoop(_, _, _, _)
SCLoop(A, out, j, i) ==
  IF j > A.c THEN out
  ELSE IF i > A.r THEN SCLoop(A, out, j + 1, 1)
  ELSE SCLoop(A, [out EXCEPT ![i] = @ + A.d[(j - 1) * A.r + i]], j, i + 1)
SumColK(A) == Mat(A.r, 1, A.q, SCLoop(A, Zeros(A.r), 1, 1))

RECURSIVE DotLoop(_, _, _, _)
DotLoop(a, b, p, acc) == IF p > Len(a.d) THEN acc ELSE DotLoop(a, b, p + 1, acc + a.d[p] * b.d[p])
DotK(a, b) ==
  IF a.r # b.r \/ a.c # b.c THEN NoScalar
  ELSE [ok |-> TRUE, n |-> DotLoop(a, b, 1, 0), q |-> a.q + b.q]

(* ------------------------------------------------------------ laws (stated on given operands; MC_G01 instantiates them) *)

LoopEqDecl(A, B) ==
  /\ MatMulK(A, B) = MatMul(A, B)
  /\ MatMulK2(A, B) = MatMul(A, B)
  /\ TransposeK(A) = Transpose(A)
  /\ SumRowK(A) = SumRow(A)
  /\ SumColK(A) = SumCol(A)
  /\ DotK(A, B) = Dot(A, B)

ShapeLaws(A, B) ==
  /\ WellFormed(Transpose(A)) /\ Transpose(A).r = A.c /\ Transpose(A).c = A.r
  /\ WellFormed(SumRow(A)) /\ SumRow(A).r = 1 /\ SumRow(A).c = A.c
  /\ WellFormed(SumCol(A)) /\ SumCol(A).c = 1 /\ SumCol(A).r = A.r
  /\ MatMul(A, B).ok <=> (A.c = B.r)
  /\ MatMul(A, B).ok => (WellFormed(MatMul(A, B).m) /\ MatMul(A, B).m.r = A.r /\ MatMul(A, B).m.c = B.c)

(* A'' = A;  element law of the transpose *)
Involution(A) ==
  /\ Transpose(Transpose(A)) = A
  /\ \A i \in 1..A.r : \A j \in 1..A.c : At(Transpose(A), j, i) = At(A, i, j)

(* (A ** B)' = B' ** A'   (and: both sides are errors together) *)
ProductTranspose(A, B) ==
  LET ab == MatMul(A, B)
      ba == MatMul(Transpose(B), Transpose(A)) IN
  /\ ab.ok = ba.ok
  /\ ab.ok => Transpose(ab.m) = ba.m

(* sum/row(A) = (sum/column(A'))'  and  sum/column(A) = (sum/row(A'))';  the reductions are products with a vector of ones *)
SumDuality(A) ==
  /\ SumRow(A) = Transpose(SumCol(Transpose(A)))
  /\ SumCol(A) = Transpose(SumRow(Transpose(A)))
  /\ Ok(SumRow(A)) = MatMul(Ones(1, A.r), A)
  /\ Ok(SumCol(A)) = MatMul(A, Ones(A.c, 1))
  /\ SumRow(SumCol(A)) = SumCol(SumRow(A))           \* the grand total does not depend on the order of the reductions

(* A ** I = A,  I ** A = A *)
Identity(A) ==
  /\ MatMul(A, Id(A.c)) = Ok(A)
  /\ MatMul(Id(A.r), A) = Ok(A)

(* (A ** B) ** C = A ** (B ** C) *)
Chain(x, C, left) ==       \* x an [ok, m] result
  IF ~x.ok THEN NoMat ELSE IF left THEN MatMul(x.m, C) ELSE MatMul(C, x.m)
Associative(A, B, C) ==
  Chain(MatMul(A, B), C, TRUE) = Chain(MatMul(B, C), A, FALSE)

(* the inner product of two vectors is the 1 x 1 product of the one as a row with the other as a column *)
AsRow(a) == Mat(1, Len(a.d), a.q, a.d)
AsCol(a) == Mat(Len(a.d), 1, a.q, a.d)
DotIsProduct(a, b) ==
  (IsVector(a) /\ a.r = b.r /\ a.c = b.c) =>
     /\ Dot(a, b).ok
     /\ MatMul(AsRow(a), AsCol(b)) = Ok(Mat(1, 1, a.q + b.q, <<Dot(a, b).n>>))
     /\ Dot(a, b) = Dot(b, a)
=============================================================================
