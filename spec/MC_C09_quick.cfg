SPECIFICATION Spec
CONSTANTS
  Classes = {"ID", "DIG", "DEF", "EQ", "OP", "LB", "RB", "LP", "RP", "LC", "RC", "SEP", "Q", "ST"}
  MaxLen = 3
INVARIANT Emit
CHECK_DEADLOCK FALSE
