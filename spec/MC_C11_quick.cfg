SPECIFICATION Spec
CONSTANTS
  Dims <- DimsQuick
  MutDim = 3
  BigShapes <- NoBig
  BigHParts = 2
  BigWParts = 3
INVARIANTS DefsAgree KernelsAgree ValidIffOk TilingsValid WhyConsistent ShapeLaw Placement Duality Emit
CHECK_DEADLOCK FALSE
