------------------------------ MODULE MC_C08k ------------------------------
(* Generator for the kind-annotation part of C08: every kind form at the root with every combination *)
(* of child kinds, written in every context where the grammar admits a kind.                          *)
EXTENDS MechSyntax, TLC, Json

CONSTANTS Contexts

VARIABLE c

Dummy == [stage |-> 0, ctx |-> "vardef", kind |-> KNode("f64", <<>>)]
Init == c = Dummy
Next ==
  \/ /\ c.stage = 0
     /\ \E f \in KForms, x \in Contexts : c' = [stage |-> 1, ctx |-> x, kind |-> KNode(f, <<>>)]
  \/ /\ c.stage = 1
     /\ LET f == c.kind.k IN
        \/ KArity(f) = 0 /\ c' = [c EXCEPT !.stage = 2]
        \/ KArity(f) = 1 /\ \E a \in KChildren : c' = [c EXCEPT !.stage = 2, !.kind = KNode(f, <<a>>)]
        \/ KArity(f) = 2 /\ \E a \in KChildren, b \in KChildren : c' = [c EXCEPT !.stage = 2, !.kind = KNode(f, <<a, b>>)]
Spec == Init /\ [][Next]_c
Done == c.stage = 2
WellFormed == Done => Len(c.kind.kids) = KArity(c.kind.k)
Emit == Done => PrintT(<<"CASE", ToJson([ctx |-> c.ctx, kind |-> c.kind])>>)
=============================================================================
