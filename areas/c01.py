"""C01 — elementwise operators: MechScalar/MechBroadcast enumerated by TLC, every case replayed for every concrete kind."""
import os, random, collections
from fractions import Fraction
import tlc, execpool, render, absval
from core import log

PROP = "C01"
CONCRETE = {"u8": ["u8"], "i8": ["i8"], "uw": ["u16", "u32", "u64", "u128"], "iw": ["i16", "i32", "i64", "i128"],
            "flt": ["f64", "f32"], "rat": ["r64"], "bool": ["bool"], "str": ["string"]}
OPTEXT = {"xor": "⊕"}

def conc(kind, v):
    if v["t"] == "num": return ('num', kind, Fraction(v["n"], v["d"]))
    if v["t"] == "bool": return ('bool', v["b"])
    return ('str', v["s"])

BITS = {"u8": 8, "u16": 16, "u32": 32, "u64": 64, "u128": 128, "i8": 8, "i16": 16, "i32": 32, "i64": 64, "i128": 128}
def representable(kind, v):
    """is the abstract value exactly representable in the concrete kind? (the property constrains an operator only
    when operands and exact result are representable; TLC's pools guarantee it for the small shapes, the larger
    thorough-tier shapes are filled by formula and can leave the range of the 8-bit kinds)"""
    if v[0] != 'num': return True
    x = v[2]
    if kind in BITS:
        if x.denominator != 1: return False
        b = BITS[kind]
        return (0 <= x < 2 ** b) if kind[0] == 'u' else (-2 ** (b - 1) <= x < 2 ** (b - 1))
    if kind == "f32": return abs(x.numerator) < 2 ** 24 and (x.denominator & (x.denominator - 1)) == 0
    if kind == "f64": return abs(x.numerator) < 2 ** 53 and (x.denominator & (x.denominator - 1)) == 0
    return True

def shape_class(sh):
    sc, r, c = sh
    return "scalar" if sc == 1 else ("one" if (r, c) == (1, 1) else ("row" if r == 1 else ("col" if c == 1 else "mat")))

def define(name, kind, sh, vals):
    sc, r, c = sh
    if sc == 1:
        return f"{name} := {render.scalar_lit(vals[0])}"
    return render.define_matrix(name, kind, r, c, vals)

def run(rep, tier, seed):
    cfg = "MC_C01_quick.cfg" if tier == "quick" else "MC_C01_thorough.cfg"
    t = tlc.run("MC_C01", cfg, workers=16, timeout=3000)
    if t.violations or not t.ok:
        rep.fail("C01/model", "TLC reported a violation of a model-level law: " + "; ".join(t.errors[:3]), {"log": t.log})
    cases = t.cases
    cases.sort(key=lambda c: (c["sig"], c["ls"], c["rs"], c["fill"]))
    log(f"[C01] TLC: {t.generated} states, {len(cases)} cases in {t.wall:.1f}s")
    reqs = []; meta = []; skipped = [0]
    for n, cs in enumerate(cases):
        for kind in CONCRETE[cs["cn"]]:
            L = [conc(kind, v) for v in cs["L"]]
            if not all(representable(kind, v) for v in L): skipped[0] += 1; continue
            if not cs["un"] and not all(representable(kind, conc(kind, v)) for v in cs["R"]): skipped[0] += 1; continue
            stmts = [define("A", kind, cs["ls"], L)]
            op = OPTEXT.get(cs["op"], cs["op"])
            if cs["un"]:
                stmts.append("-A" if cs["op"] == "neg" else "!A")
            else:
                R = [conc(kind, v) for v in cs["R"]]
                stmts.append(define("B", kind, cs["rs"], R))
                stmts.append(f"A {op} B")
            reqs.append({"id": len(reqs), "mode": "session", "stmts": stmts + [{"op": "step", "n": 1}],
                         "opts": {"store": True, "names": ["A", "B"], "arm": True}})
            meta.append((cs, kind))
    log(f"[C01] replaying {len(reqs)} cases on the interpreter")
    outs = execpool.run_requests(reqs, nworkers=16, timeout=120)
    # scalar acceptance per (op, concrete kind), learned from the ss cases
    sacc = collections.defaultdict(bool)
    for req, (resp, oc), (cs, kind) in zip(reqs, outs, meta):
        if cs["how"] == "ss" and oc == "ok" and resp.get("steps"):
            st = resp["steps"][-2]
            if st.get("r") == "ok": sacc[(cs["op"], kind)] = True
    arms = set(); tally = collections.Counter()
    for req, (resp, oc), (cs, kind) in zip(reqs, outs, meta):
        sig = f"C01/{cs['op']}/{kind}/{cs['how']}"
        replay = {"stmts": req["stmts"], "case": cs, "kind": kind}
        if oc != "ok" or "steps" not in (resp or {}):
            rep.fail(sig + "/host-" + oc, f"{req['stmts']} -> interpreter process {oc}", replay); continue
        st = resp["steps"]
        nset = len(req["stmts"]) - 2
        if any(s.get("r") != "ok" for s in st[:nset]):
            rep.fail(f"C01/setup/{kind}", f"operand could not be built: {req['stmts'][:nset]}", replay); continue
        ev = st[nset]
        if ev.get("p") != "ok" or not (ev.get("shape") and ev["shape"][0].startswith("MechCode")):
            rep.fail(sig + "/noparse", f"{req['stmts'][nset]} did not parse as code: {ev.get('p')} {ev.get('shape')}", replay); continue
        arms.add(ev.get("arm"))
        ok = ev["r"] == "ok"
        exp = cs["exp"]
        if exp == "closure":
            exp = "accept" if sacc[(cs["op"], kind)] else "free"
        res = cs["res"]
        rk0 = "bool" if cs["op"] in ("==", "!=", "<", "<=", ">", ">=", "&&", "||", "xor", "not") else kind
        if exp != "reject" and any(e["def"] and not representable(rk0, conc(rk0, e["v"])) for e in res.get("d", [])):
            tally["free"] += 1; tally["result_not_representable"] += 1; continue      # overflow: outside the property
        if exp == "reject":
            if ok: rep.fail(f"C01/{cs['op']}/accepts-incompatible/{shape_class(cs['ls'])},{shape_class(cs['rs'])}", f"{req['stmts']} returned {absval.short(absval.absval(ev['v']))} for incompatible shapes", replay)
            else: tally["reject_ok"] += 1
            continue
        if not ok:
            if exp == "accept" and kind in BITS and not all(e["def"] and representable(rk0, conc(rk0, e["v"])) for e in res.get("d", [])):
                tally["free"] += 1; tally["result_not_representable"] += 1      # an integer result the model cannot vouch for (overflow) may be rejected
            elif exp == "accept":
                rep.fail(sig + "/rejected", f"{req['stmts']} rejected ({ev.get('class')}) although the scalar form of the operator is accepted for {kind}", replay)
            else: tally["free"] += 1
            continue
        if cs["how"] == "no":
            tally["free"] += 1; continue
        got = absval.absval(ev["v"])
        rk = "bool" if cs["op"] in ("==", "!=", "<", "<=", ">", ">=", "&&", "||", "xor", "not") else kind
        # shape
        if res["sc"]:
            gshape = (1, 1) if got[0] != 'mat' else None
            gels = [got]
        else:
            if got[0] != 'mat':
                gshape = None; gels = []
            else:
                gshape = (got[2], got[3]); gels = list(got[4])
        if gshape != (res["r"], res["c"]):
            rep.fail(sig + "/shape", f"{req['stmts']} has shape {absval.short(got)}, expected {res['r']}x{res['c']}", replay); continue
        bad = None; ndef = 0
        for p, (e, g) in enumerate(zip(res["d"], gels)):
            if not e["def"]: continue
            ndef += 1
            want = conc(rk, e["v"])
            if g != want:
                bad = (p + 1, g, want); break
        if bad:
            rep.fail(sig + "/wrong-value", f"{req['stmts']} element {bad[0]} = {absval.short(bad[1])}, expected {absval.short(bad[2])}", replay); continue
        tally["exact_ok" if ndef else "free"] += 1
        # C19 side-check: one re-evaluation step leaves the result unchanged
        stp = st[nset + 1]
        if stp.get("r") == "ok" and absval.absval(stp["v"]) != got:
            rep.fail(sig + "/step-changes-result", f"{req['stmts']}: step changes the result to {absval.short(absval.absval(stp['v']))}", replay)
    rep.cov.update({"states": t.generated, "transitions": max(t.generated - 1, 1), "distinct_states": t.distinct,
                    "traces_validated_against_impl": len(reqs), "cases_emitted": len(cases), "cases_replayed": len(reqs),
                    "exact_matched": tally["exact_ok"], "rejects_matched": tally["reject_ok"], "free_outcomes": tally["free"],
                    "arms_hit": len(arms), "operands_not_representable_in_kind(skipped)": skipped[0], "result_not_representable(free)": tally["result_not_representable"], "scalar_accepting_op_kinds": sum(1 for v in sacc.values() if v), "exhaustive": True,
                    "rule": "every operator x kind class x (lhs shape, rhs shape) of the bounded MechBroadcast model, replayed for every concrete kind of the class (14 numeric kinds, bool, string); result shape and every model-defined element compared"})
    rep.add_samples([{"stmts": r["stmts"][:-1], "exp": m[0]["exp"], "sig": m[0]["sig"]} for r, m in zip(reqs, meta)])
    rep.assumptions += ["TLC 1.8.0", "harness projection", "renderer lib/render.py", "value pools in spec/MC_C01.tla keep results representable"]
