"""C01 — elementwise operators: MechScalar/MechBroadcast enumerated by TLC, every case replayed for every concrete kind."""
import os, random, collections
from fractions import Fraction
import tlc, execpool, render, absval
from core import log

PROP = "C01"
CONCRETE = {"u8": ["u8"], "i8": ["i8"], "uw": ["u16", "u32", "u64", "u128"], "iw": ["i16", "i32", "i64", "i128"],
            "flt": ["f64", "f32"], "rat": ["r64"], "bool": ["bool"], "str": ["string"]}
OPTEXT = {"xor": "⊕"}

def conc(kind, v):
    if v["t"] == "num": return ('num', kind, Fraction(v["n"], v["d"]))
    if v["t"] == "bool": return ('bool', v["b"])
    return ('str', v["s"])

BITS = {"u8": 8, "u16": 16, "u32": 32, "u64": 64, "u128": 128, "i8": 8, "i16": 16, "i32": 32, "i64": 64, "i128": 128}
def representable(kind, v):
    """is the abstract value exactly representable in the concrete kind? (the property constrains an operator only
    when operands and exact result are representable; TLC's pools guarantee it for the small shapes, the larger
    thorough-tier shapes are filled by formula and can leave the range of the 8-bit kinds)"""
    if v[0] != 'num': return True
    x = v[2]
    if kind in BITS:
        if x.denominator != 1: return False
        b = BITS[kind]
        return (0 <= x < 2 ** b) if kind[0] == 'u' else (-2 ** (b - 1) <= x < 2 ** (b - 1))
    if kind == "f32": return abs(x.numerator) < 2 ** 24 and (x.denominator & (x.denominator - 1)) == 0
    if kind == "f64": return abs(x.numerator) < 2 ** 53 and (x.denominator & (x.denominator - 1)) == 0
    return True

def shape_class(sh):
    sc, r, c = sh
    return "scalar" if sc == 1 else ("one" if (r, c) == (1, 1) else ("row" if r == 1 else ("col" if c == 1 else "mat")))

def define(name, kind, sh, vals):
    sc, r, c = sh
    if sc == 1:
        return f"{name} := {render.scalar_lit(vals[0])}"
    return render.define_matrix(name, kind, r, c, vals)

# ------------------------------------------------------------------ impl -> spec on inexact floats (Trace_C01)
FVALS_A = ["1", "2", "3", "5", "6", "7", "10", "14", "0.1", "0.7", "1.3", "2.9"]
FVALS_B = ["10", "3", "7", "0.3", "1.1", "9", "6", "0.9", "13", "0.7", "5", "11"]
CSHAPES = {"s": (True, 1, 1), "r3": (False, 1, 3), "c2": (False, 2, 1), "c3": (False, 3, 1), "m23": (False, 2, 3), "m22": (False, 2, 2), "r2": (False, 1, 2)}
CPAIRS = [("m23", "s"), ("s", "m23"), ("m23", "m23"), ("m23", "c2"), ("c2", "m23"), ("m23", "r3"), ("r3", "m23"), ("r3", "r3"), ("c3", "c3"),
          ("r3", "s"), ("s", "c3"), ("m22", "m22")]

def consistency_family(rep, tier):
    """each element of a matrix result = the interpreter's OWN scalar result for the corresponding element pair (bitwise), on
    values whose results are not exactly representable; the pairing is MechBroadcast's (checked by TLC, Trace_C01)"""
    import json
    ops = ["+", "-", "*", "/", "%", "^", "<", "<=", ">", ">=", "==", "!="]
    reqs = []; meta = []
    for op in ops:
        for kind in ("f64", "f32"):
            for (ls, rs) in CPAIRS:
                (lsc, lr, lc), (rsc, rr, rc) = CSHAPES[ls], CSHAPES[rs]
                nl, nr = lr * lc, rr * rc
                off = (ops.index(op) * 3 + len(ls) + len(rs)) % 5
                la = [FVALS_A[(off + i) % len(FVALS_A)] for i in range(nl)]
                rb = [FVALS_B[(off + 2 * i) % len(FVALS_B)] for i in range(nr)]
                def lit(x): return x if kind == "f64" else f"{x}<f32>"
                def mat(vals, r, c): return "[" + "; ".join(" ".join(lit(vals[j * r + i]) for j in range(c)) for i in range(r)) + "]"
                st = [f"A := {lit(la[0]) if lsc else mat(la, lr, lc)}", f"B := {lit(rb[0]) if rsc else mat(rb, rr, rc)}", f"A {op} B"]
                st += [f"a{i} := {lit(v)}" for i, v in enumerate(la)] + [f"b{j} := {lit(v)}" for j, v in enumerate(rb)]
                st += [f"a{i} {op} b{j}" for i in range(nl) for j in range(nr)]
                reqs.append({"id": len(reqs), "mode": "session", "stmts": st, "opts": {"shape": False}})
                meta.append((op, kind, ls, rs, nl, nr))
    outs = execpool.run_requests(reqs, nworkers=16, timeout=120)
    os.makedirs(os.path.join(tlc.OUT, "traces"), exist_ok=True)
    path = os.path.join(tlc.OUT, "traces", f"c01_{tier}.ndjson")
    def tok(step):
        if step.get("r") != "ok": return "err"
        return json.dumps(step["v"], sort_keys=True).replace('"', "'")
    index = []
    with open(path, "w") as fh:
        for req, (resp, oc), (op, kind, ls, rs, nl, nr) in zip(reqs, outs, meta):
            if oc != "ok" or "steps" not in (resp or {}):
                rep.fail(f"C01/{op}/{kind}/host-{oc}", f"{req['stmts'][:3]} -> interpreter process {oc}", {"stmts": req["stmts"]}); continue
            st = resp["steps"]
            if st[0].get("r") != "ok" or st[1].get("r") != "ok": continue
            m = st[2]
            base = 3 + nl + nr
            table = [[tok(st[base + i * nr + j]) for j in range(nr)] for i in range(nl)]
            (lsc, lr, lc), (rsc, rr, rc) = CSHAPES[ls], CSHAPES[rs]
            res = {"sc": True, "r": 1, "c": 1, "d": ["-"]}
            if m.get("r") == "ok":
                v = m["v"]
                if isinstance(v, dict) and v.get("t") == "mat":
                    res = {"sc": False, "r": v["r"], "c": v["c"], "d": [json.dumps(x, sort_keys=True).replace('"', "'") for x in v["d"]]}
                else:
                    res = {"sc": True, "r": 1, "c": 1, "d": [json.dumps(v, sort_keys=True).replace('"', "'")]}
            fh.write(json.dumps({"op": op, "kind": kind, "L": {"sc": lsc, "r": lr, "c": lc}, "R": {"sc": rsc, "r": rr, "c": rc},
                                 "ok": m.get("r") == "ok", "res": res, "table": table}) + "\n")
            index.append((req, op, kind, ls, rs))
    tt = tlc.run("Trace_C01", "Trace_C01.cfg", workers=1, env={"TRACE": path}, deque=True, xss="1g", xmx="2g", timeout=1200, tag=f"Trace_C01_{tier}")
    if any("unconsumed" in m for m in tt.msgs) or (tt.rc != 0 and not tt.ok):
        raise tlc.TlcError(f"Trace_C01 did not consume the trace: {tt.msgs[:2]} {tt.errors[:2]}")
    for m in tt.msgs:
        if "l" not in m: continue
        req, op, kind, ls, rs = index[m["l"] - 1]
        for rule in m["rules"]:
            rep.fail(f"C01/{op}/{kind}/{ls},{rs}/{rule}", f"{req['stmts'][:3]}: {rule} (the scalar results are those of the same session: {req['stmts'][-3:]} ...)", {"stmts": req["stmts"]})
    # negative control: swap two entries of one result
    lines = open(path).read().splitlines(); nc = 0
    for k, ln in enumerate(lines):
        e = json.loads(ln)
        if e["ok"] and len(e["res"]["d"]) >= 2 and e["res"]["d"][0] != e["res"]["d"][1]:
            e["res"]["d"][0], e["res"]["d"][1] = e["res"]["d"][1], e["res"]["d"][0]
            p2 = path.replace(".ndjson", "_neg.ndjson"); open(p2, "w").write(json.dumps(e) + "\n")
            tn = tlc.run("Trace_C01", "Trace_C01.cfg", workers=1, env={"TRACE": p2}, deque=True, xss="1g", xmx="2g", timeout=600, tag="Trace_C01_neg")
            nc = 1 if any("element-differs-from-scalar-result" in mm.get("rules", []) for mm in tn.msgs) else 0
            break
    if not nc: raise tlc.TlcError("negative control failed: a corrupted C01 trace was accepted by Trace_C01")
    log(f"[C01] consistency with the scalar operator on inexact floats: {len(index)} matrix evaluations ({sum(nl * nr for *_, nl, nr in meta)} scalar evaluations) validated by TLC in {tt.wall:.1f}s, {len([m for m in tt.msgs if 'l' in m])} rejected")
    rep.cov.update({"consistency_matrix_evaluations": len(index), "consistency_rejected": len([m for m in tt.msgs if 'l' in m]), "consistency_negative_controls_passed": nc})
    return len(index)


# ------------------------------------------------------------------ IEEE-754 scalar arithmetic (MechFloat, MC_C01f)
IEEE_A = ["0.1", "0.7", "1.3", "2.9", "3", "10", "1000000.5", "0.001", "16777216", "9007199254740992", "123456.789", "0.3",
          "-0.7", "-3", "-1.1", "7"]
IEEE_B = ["0.3", "1.1", "3", "7", "0.9", "13", "1", "0.0001", "1.5", "-0.1", "-7", "49", "1000.1", "0.2", "-1", "6"]
CMP = {"<": lambda a, b: a < b, "<=": lambda a, b: a <= b, ">": lambda a, b: a > b, ">=": lambda a, b: a >= b,
       "==": lambda a, b: a == b, "!=": lambda a, b: a != b}

def ieee_family(rep, tier):
    """scalar float results = the exact rational result of the OBSERVED operand values rounded to nearest, ties to even
    (MechFloat.RoundA; the Python transcription lib/ieee.py must first reproduce every case TLC emits for the miniature formats)"""
    import ieee
    cfgs = ["MC_C01f_a.cfg"] + (["MC_C01f_b.cfg"] if tier != "quick" else [])
    nmodel = 0; states = 0
    for cfg in cfgs:
        t = tlc.run("MC_C01f", cfg, workers=16, timeout=3000, tag=cfg[:-4])
        if t.violations or not t.ok:
            rep.fail("C01/model/float", "TLC reported a violation of a MechFloat law: " + "; ".join(t.errors[:3]), {"log": t.log})
        n, bad = ieee.selftest_against_cases(t.cases)
        if bad or n == 0:
            raise tlc.TlcError(f"lib/ieee.py does not reproduce MechFloat.RoundA on the miniature format ({cfg}): {bad}")
        nmodel += n; states += t.generated
    ops = ["+", "-", "*", "/"] + list(CMP)
    reqs = []; meta = []
    for kind in ("f64", "f32"):
        def lit(x): return x if kind == "f64" else f"{x}<f32>"
        for op in ops:
            st = [f"a{i} := {lit(v)}" for i, v in enumerate(IEEE_A)] + [f"b{j} := {lit(v)}" for j, v in enumerate(IEEE_B)]
            st += [f"a{i} {op} b{j}" for i in range(len(IEEE_A)) for j in range(len(IEEE_B))]
            reqs.append({"id": len(reqs), "mode": "session", "stmts": st, "opts": {"shape": False}})
            meta.append((kind, op))
    outs = execpool.run_requests(reqs, nworkers=16, timeout=300)
    checked = 0; skipped = 0
    for req, (resp, oc), (kind, op) in zip(reqs, outs, meta):
        sig = f"C01/{op}/{kind}/ss/ieee"
        if oc != "ok" or "steps" not in (resp or {}):
            rep.fail(f"C01/{op}/{kind}/host-{oc}", f"scalar {op} on {kind}: interpreter process {oc}", {"stmts": req["stmts"][:4]}); continue
        st = resp["steps"]; na, nb = len(IEEE_A), len(IEEE_B)
        av = [absval.absval(s["v"]) if s.get("r") == "ok" else None for s in st[:na]]
        bv = [absval.absval(s["v"]) if s.get("r") == "ok" else None for s in st[na:na + nb]]
        F = ieee.FORMATS[kind]
        for i in range(na):
            for j in range(nb):
                a, b, s = av[i], bv[j], st[na + nb + i * nb + j]
                text = req["stmts"][na + nb + i * nb + j]
                if not a or not b or a[0] != 'num' or b[0] != 'num' or a[1] != kind or b[1] != kind: skipped += 1; continue
                if op in CMP:
                    want = ('bool', CMP[op](a[2], b[2]))
                else:
                    w = ieee.float_op(F, op, a[2], b[2])
                    if w is None: skipped += 1; continue
                    want = ('num', kind, w)
                replay = {"stmts": [req["stmts"][i], req["stmts"][na + j], text], "operands": [str(a[2]), str(b[2])], "expected": str(want[-1])}
                if s.get("r") != "ok":
                    rep.fail(sig + "/rejected", f"a = {float(a[2])!r}, b = {float(b[2])!r} ({kind}): a {op} b rejected ({s.get('class')})", replay); continue
                got = absval.absval(s["v"])
                if got != want:
                    rep.fail(sig + "/wrong-value", f"a = {float(a[2])!r}, b = {float(b[2])!r} ({kind}): a {op} b = {absval.short(got)}, IEEE-754 (exact result rounded to nearest even) gives {absval.short(want)}", replay)
                checked += 1
    # negative control: the oracle must tell a result that is one unit in the last place off
    x = ieee.float_op(ieee.BINARY64, "/", Fraction(1), Fraction(3))
    assert x == Fraction(1.0 / 3.0) and x != Fraction(1.0 / 3.0 + 2 ** -54)
    log(f"[C01] IEEE-754 scalar family: lib/ieee.py reproduces {nmodel} MechFloat cases; {checked} scalar float results checked, {skipped} skipped (overflow / undefined)")
    rep.cov.update({"ieee_model_cases": nmodel, "ieee_model_states": states, "ieee_scalar_results_checked": checked, "ieee_skipped": skipped})
    return checked

def run(rep, tier, seed):
    ncons = consistency_family(rep, tier)
    ncons += ieee_family(rep, tier)
    cfg = "MC_C01_quick.cfg" if tier == "quick" else "MC_C01_thorough.cfg"
    t = tlc.run("MC_C01", cfg, workers=16, timeout=3000)
    if t.violations or not t.ok:
        rep.fail("C01/model", "TLC reported a violation of a model-level law: " + "; ".join(t.errors[:3]), {"log": t.log})
    cases = t.cases
    cases.sort(key=lambda c: (c["sig"], c["ls"], c["rs"], c["fill"]))
    log(f"[C01] TLC: {t.generated} states, {len(cases)} cases in {t.wall:.1f}s")
    reqs = []; meta = []; skipped = [0]
    for n, cs in enumerate(cases):
        for kind in CONCRETE[cs["cn"]]:
            L = [conc(kind, v) for v in cs["L"]]
            if not all(representable(kind, v) for v in L): skipped[0] += 1; continue
            if not cs["un"] and not all(representable(kind, conc(kind, v)) for v in cs["R"]): skipped[0] += 1; continue
            stmts = [define("A", kind, cs["ls"], L)]
            op = OPTEXT.get(cs["op"], cs["op"])
            if cs["un"]:
                stmts.append("-A" if cs["op"] == "neg" else "!A")
            else:
                R = [conc(kind, v) for v in cs["R"]]
                stmts.append(define("B", kind, cs["rs"], R))
                stmts.append(f"A {op} B")
            reqs.append({"id": len(reqs), "mode": "session", "stmts": stmts + [{"op": "step", "n": 1}],
                         "opts": {"store": True, "names": ["A", "B"], "arm": True}})
            meta.append((cs, kind))
    log(f"[C01] replaying {len(reqs)} cases on the interpreter")
    outs = execpool.run_requests(reqs, nworkers=16, timeout=120)
    # scalar acceptance per (op, concrete kind), learned from the ss cases
    sacc = collections.defaultdict(bool)
    for req, (resp, oc), (cs, kind) in zip(reqs, outs, meta):
        if cs["how"] == "ss" and oc == "ok" and resp.get("steps"):
            st = resp["steps"][-2]
            if st.get("r") == "ok": sacc[(cs["op"], kind)] = True
    arms = set(); tally = collections.Counter()
    for req, (resp, oc), (cs, kind) in zip(reqs, outs, meta):
        sig = f"C01/{cs['op']}/{kind}/{cs['how']}"
        replay = {"stmts": req["stmts"], "case": cs, "kind": kind}
        if oc != "ok" or "steps" not in (resp or {}):
            rep.fail(sig + "/host-" + oc, f"{req['stmts']} -> interpreter process {oc}", replay); continue
        st = resp["steps"]
        nset = len(req["stmts"]) - 2
        if any(s.get("r") != "ok" for s in st[:nset]):
            rep.fail(f"C01/setup/{kind}", f"operand could not be built: {req['stmts'][:nset]}", replay); continue
        ev = st[nset]
        if ev.get("p") != "ok" or not (ev.get("shape") and ev["shape"][0].startswith("MechCode")):
            rep.fail(sig + "/noparse", f"{req['stmts'][nset]} did not parse as code: {ev.get('p')} {ev.get('shape')}", replay); continue
        arms.add(ev.get("arm"))
        ok = ev["r"] == "ok"
        exp = cs["exp"]
        if exp == "closure":
            exp = "accept" if sacc[(cs["op"], kind)] else "free"
        res = cs["res"]
        rk0 = "bool" if cs["op"] in ("==", "!=", "<", "<=", ">", ">=", "&&", "||", "xor", "not") else kind
        if exp != "reject" and any(e["def"] and not representable(rk0, conc(rk0, e["v"])) for e in res.get("d", [])):
            tally["free"] += 1; tally["result_not_representable"] += 1; continue      # overflow: outside the property
        if exp == "reject":
            if ok: rep.fail(f"C01/{cs['op']}/accepts-incompatible/{shape_class(cs['ls'])},{shape_class(cs['rs'])}", f"{req['stmts']} returned {absval.short(absval.absval(ev['v']))} for incompatible shapes", replay)
            else: tally["reject_ok"] += 1
            continue
        if not ok:
            if exp == "accept" and kind in BITS and not all(e["def"] and representable(rk0, conc(rk0, e["v"])) for e in res.get("d", [])):
                tally["free"] += 1; tally["result_not_representable"] += 1      # an integer result the model cannot vouch for (overflow) may be rejected
            elif exp == "accept":
                rep.fail(sig + "/rejected", f"{req['stmts']} rejected ({ev.get('class')}) although the scalar form of the operator is accepted for {kind}", replay)
            else: tally["free"] += 1
            continue
        if cs["how"] == "no":
            tally["free"] += 1; continue
        got = absval.absval(ev["v"])
        rk = "bool" if cs["op"] in ("==", "!=", "<", "<=", ">", ">=", "&&", "||", "xor", "not") else kind
        # shape
        if res["sc"]:
            gshape = (1, 1) if got[0] != 'mat' else None
            gels = [got]
        else:
            if got[0] != 'mat':
                gshape = None; gels = []
            else:
                gshape = (got[2], got[3]); gels = list(got[4])
        if gshape != (res["r"], res["c"]):
            rep.fail(sig + "/shape", f"{req['stmts']} has shape {absval.short(got)}, expected {res['r']}x{res['c']}", replay); continue
        bad = None; ndef = 0
        for p, (e, g) in enumerate(zip(res["d"], gels)):
            if not e["def"]: continue
            ndef += 1
            want = conc(rk, e["v"])
            if g != want:
                bad = (p + 1, g, want); break
        if bad:
            rep.fail(sig + "/wrong-value", f"{req['stmts']} element {bad[0]} = {absval.short(bad[1])}, expected {absval.short(bad[2])}", replay); continue
        tally["exact_ok" if ndef else "free"] += 1
        # C19 side-check: one re-evaluation step leaves the result unchanged
        stp = st[nset + 1]
        if stp.get("r") == "ok" and absval.absval(stp["v"]) != got:
            rep.fail(sig + "/step-changes-result", f"{req['stmts']}: step changes the result to {absval.short(absval.absval(stp['v']))}", replay)
    rep.cov.update({"states": t.generated, "transitions": max(t.generated - 1, 1), "distinct_states": t.distinct,
                    "traces_validated_against_impl": len(reqs) + ncons, "cases_emitted": len(cases), "cases_replayed": len(reqs),
                    "exact_matched": tally["exact_ok"], "rejects_matched": tally["reject_ok"], "free_outcomes": tally["free"],
                    "arms_hit": len(arms), "operands_not_representable_in_kind(skipped)": skipped[0], "result_not_representable(free)": tally["result_not_representable"], "scalar_accepting_op_kinds": sum(1 for v in sacc.values() if v), "exhaustive": True,
                    "rule": "every operator x kind class x (lhs shape, rhs shape) of the bounded MechBroadcast model, replayed for every concrete kind of the class (14 numeric kinds, bool, string); result shape and every model-defined element compared"})
    rep.add_samples([{"stmts": r["stmts"][:-1], "exp": m[0]["exp"], "sig": m[0]["sig"]} for r, m in zip(reqs, meta)])
    rep.assumptions += ["TLC 1.8.0", "harness projection", "renderer lib/render.py", "value pools in spec/MC_C01.tla keep results representable"]
