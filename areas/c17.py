"""C17 — state machines run their declared transitions to the terminal state.

spec -> impl: MC_C17 (MechFsm) enumerates a family of machines (generated transition systems with 1-3 working
states and 1-3 payload fields, array-pattern and literal-pattern machines, ill-formed declarations) and runs each
on all small inputs in the model; every machine is rendered to Mech text, every invocation is run on the real
interpreter (max_steps = the model's MaxSteps) and result, error class (transition limit) and the sequence of
states visited are compared with the model.
impl -> spec: the interpreter's [trace][fsm] events of the invocations (start, step, arm check, guard check,
transition, output, halt) are converted to ndjson, the machine record first, and validated event by event by TLC
against Trace_C17, which reuses MechFsm.Step.
"""
import os, re, json, random, collections, threading, time
from fractions import Fraction
import tlc, execpool, absval
from core import log

PROP = "C17"
OUT = tlc.OUT

# ---------------------------------------------------------------- rendering (machine record -> Mech text)
def u(n): return f"{n}u64"
OPS = {"add": "+", "sub": "-"}
def r_expr(e, top=True):
    op = e["op"]
    if op == "lit": return u(e["n"])
    if op == "var": return e["v"]
    if op == "nil": return "[]"
    if op == "cat": return f"[{r_expr(e['l'], False)} {r_expr(e['r'], False)}]"
    # a sum of sums is written flat (left-associative): an output or target that starts with "(" would be read
    # as a tuple pattern by the machine grammar
    left = r_expr(e["l"], True) if op == "add" and e["l"]["op"] == "add" else r_expr(e["l"], False)
    s = f"{left} {OPS[op]} {r_expr(e['r'], False)}"
    return s if top else "(" + s + ")"

CMP = {"gt": ">", "ge": ">=", "lt": "<", "eq": "==", "ne": "!="}
def r_cond(c):
    if c["op"] == "any": return "*"
    return f"{r_expr(c['l'])} {CMP[c['op']]} {r_expr(c['r'])}"

def r_ppat(p):
    k = p["k"]
    if k == "var": return p["v"]
    if k == "lit": return u(p["n"])
    if k == "wild": return "*"
    if k == "nil": return "[]"
    if k == "one": return f"[{p['v']}]"
    if k == "cons": return f"[{p['v']} | {p['r']}]"
    if k == "cons2": return f"[{p['v']}, {p['w']} | {p['r']}]"
    if k == "ends": return f"[{p['v']} ... {p['w']}]"
    if k == "tail2": return f"[... {p['v']} {p['w']}]"
    if k == "ends3": return f"[{p['r']} ... {p['v']} {p['w']}]"
    raise ValueError(p)

def r_target(t): return f":{t['state']}(" + ", ".join(r_expr(a) for a in t["args"]) + ")"
def r_state(arm): return f":{arm['state']}(" + ", ".join(r_ppat(p) for p in arm["pats"]) + ")"

def box(lines):
    """prefix a list of lines with the box-drawing branch markers"""
    return [("  └ " if i == len(lines) - 1 else "  ├ ") + ln for i, ln in enumerate(lines)]

def r_machine(m):
    name = m["name"]
    ins = ", ".join(f"{n}<{k}>" for n, k in zip(m["inputs"], m["inkinds"]))
    spec = [f"#{name}({ins}) => <{m['outkind']}>"]
    spec += box([f":{d['name']}(" + ", ".join(f"f{i}<{k}>" for i, k in enumerate(d["kinds"])) + ")" for d in m["declared"]])
    impl = [f"#{name}({ins}) -> {r_target(m['start'])}"]
    for arm in m["arms"]:
        if arm["kind"] == "trans": impl.append(f"  {r_state(arm)} -> {r_target(arm['to'])}")
        elif arm["kind"] == "out": impl.append(f"  {r_state(arm)} => {r_expr(arm['out'])}")
        else:
            impl.append(f"  {r_state(arm)}")
            gl = []
            for g in arm["guards"]:
                gl.append(f"{r_cond(g['cond'])} -> {r_target(g['to'])}" if g["kind"] == "trans" else f"{r_cond(g['cond'])} => {r_expr(g['out'])}")
            impl += ["  " + x for x in box(gl)]
    return "\n".join(spec) + ".", "\n".join(impl) + "."

def r_val(v):
    return u(v["n"]) if v["t"] == "n" else "[" + " ".join(u(x) for x in v["e"]) + "]"
BADARG = {"f64": "2", "string": '"a"', "u8": "2u8", "[u64]": "[1u64 2u64]", "u64": "1u64"}

# ---------------------------------------------------------------- trace lines -> events
_item = re.compile(r"u64\(@[0-9a-f]{4}:(\d+)\)|\[u64\]:(\d+),(\d+)\(")
_state = re.compile(r"^@[0-9a-f]{4} :([\w\-]+)\(@[0-9a-f]{4}\)(.*)$")
def obs_items(txt):
    out = []
    for m in _item.finditer(txt):
        if m.group(1) is not None:
            n = int(m.group(1))
            out.append({"t": "n", "n": n} if n < (1 << 30) else {"t": "opq", "n": 0})
        else: out.append({"t": "arr", "n": int(m.group(2)) * int(m.group(3))})
    return out
def obs_cfg(txt):
    m = _state.match(txt.strip())
    if not m: return None
    return {"state": m.group(1), "pay": obs_items(m.group(2))}

_start = re.compile(r"^\[trace\]\[fsm\]\[ start\] name=([\w\-]+) state=(.*)$")
_step = re.compile(r"^\[trace\]\[fsm\]\[  step\]\s+(\d+) state=(.*)$")
_arm = re.compile(r"^\[trace\]\[fsm\]\[   arm\] \[(\d+)\] check (?:transition|guard) pattern=.* (✓|✗)$")
_guard = re.compile(r"^\[trace\]\[fsm\]\[ guard\] arm\[(\d+)\] check guard\[(\d+)\] condition=.* (✓|✗)$")
_trans = re.compile(r"^\[trace\]\[fsm\]\[transition\] arm\[(\d+)\] (.*) -> (.*)$")
_outp = re.compile(r"^\[trace\]\[fsm\]\[output\] value=(.*)$")
_halt = re.compile(r"^\[trace\]\[fsm\]\[  halt\] state=(.*)$")

def to_events(lines, err_class):
    evs = []
    for ln in lines:
        m = _start.match(ln)
        if m:
            c = obs_cfg(m.group(2))
            if c is None: return None
            evs.append(dict(ev="Start", **c)); continue
        m = _step.match(ln)
        if m:
            c = obs_cfg(m.group(2))
            if c is None: return None
            evs.append(dict(ev="Step", n=int(m.group(1)), **c)); continue
        m = _arm.match(ln)
        if m: evs.append({"ev": "Arm", "arm": int(m.group(1)), "ok": m.group(2) == "✓"}); continue
        m = _guard.match(ln)
        if m: evs.append({"ev": "Guard", "arm": int(m.group(1)), "g": int(m.group(2)), "ok": m.group(3) == "✓"}); continue
        m = _trans.match(ln)
        if m:
            a, b = obs_cfg(m.group(2)), obs_cfg(m.group(3))
            if a is None or b is None: return None
            evs.append({"ev": "Trans", "arm": int(m.group(1)), "from": a, "to": b}); continue
        m = _outp.match(ln)
        if m:
            it = obs_items(m.group(1))
            evs.append({"ev": "Output", "v": it[0] if len(it) == 1 else {"t": "opq", "n": 0}}); continue
        m = _halt.match(ln)
        if m:
            c = obs_cfg(m.group(1))
            if c is None: return None
            evs.append(dict(ev="Halt", **c)); continue
        if ln.startswith("[trace][fsm]"): return None
        # other channels (plan, native arithmetic arms) are not part of the machine's behaviour
    if err_class == "FsmExceededTransitionLimit": evs.append({"ev": "Limit"})
    elif err_class is not None: evs.append({"ev": "Err"})
    return evs

# ---------------------------------------------------------------- TLC trace validation
_msg_re = re.compile(r'^<<"MSG", "(.*)">>')
def run_trace(path, tag, timeout=1800):
    """TLC on Trace_C17 -> (accepted, first unmatched record or None).  A failed POSTCONDITION makes TLC exit
    non-zero (tlc.run raises): the MSG line is then read from the log."""
    logp = os.path.join(OUT, f"tlc_{tag}.log")
    try:
        t = tlc.run("Trace_C17", "Trace_C17.cfg", workers=1, env={"TRACE": path}, deque=True, xss="1g", xmx="2g", timeout=timeout, tag=tag)
        if t.ok and not t.errors and not t.msgs: return True, None
    except tlc.TlcError as e:
        if "timeout" in str(e): raise
    for line in open(logp, errors="replace"):
        m = _msg_re.match(line.rstrip("\n"))
        if m: return False, json.loads(tlc._unescape(m.group(1)))
    raise tlc.TlcError(f"Trace_C17 gave no verdict, see {logp}: " + open(logp, errors="replace").read()[-1500:])

def write_runs(path, chunk, start=0):
    index = []
    with open(path, "w") as fh:
        for ri, (d, evs, meta) in enumerate(chunk[start:], start):
            for e in [d] + evs + [{"ev": "Reset"}]:
                fh.write(json.dumps(e, ensure_ascii=True) + "\n"); index.append(ri)
    return index

def validate_traces(runs, tag, nproc=4):
    """runs: list of (machine_record, events, meta) -> (events accepted, runs accepted, [(meta, message)])"""
    if not runs: return 0, 0, []
    chunks = [c for c in (runs[i::nproc] for i in range(nproc)) if c]
    results = [None] * len(chunks); errs = []
    def work(ci):
        try:
            chunk = chunks[ci]; path = os.path.join(OUT, f"trace_C17_{tag}_{ci}.ndjson")
            done = 0; rej = []; start = 0
            while start < len(chunk):
                index = write_runs(path, chunk, start)
                accepted, msg = run_trace(path, f"Trace_C17_{tag}_{ci}")
                if accepted:
                    done += len(index); break
                ri = index[msg["unmatched"] - 1]
                first = index.index(ri)
                done += first
                rej.append((chunk[ri][2], f"event {msg['unmatched'] - first} of the run is not a step of the model: {json.dumps(msg['ev'])[:300]}"))
                start = ri + 1
                if len(rej) > 25: break
            results[ci] = (done, rej)
        except Exception as ex: errs.append(ex)
    ths = [threading.Thread(target=work, args=(i,)) for i in range(len(chunks))]
    for th in ths: th.start()
    for th in ths: th.join()
    if errs or any(r is None for r in results): raise tlc.TlcError(f"Trace_C17: a validation process failed: {errs[:1]}")
    rej = [x for r in results for x in r[1]]
    return sum(r[0] for r in results), len(runs) - len(rej), rej

def negative_controls(runs):
    """corrupt one event of accepted runs; TLC must reject every corrupted trace"""
    jobs = []
    # (a) swap which guard won: guard g >= 1 fired, the corrupted trace claims guard 0 did
    for d, evs, meta in runs:
        gi = [i for i, e in enumerate(evs) if e["ev"] == "Guard" and e["ok"] and e["g"] >= 1]
        if gi:
            i = gi[0]
            j = max(k for k in range(i) if evs[k]["ev"] == "Guard" and evs[k]["g"] == 0)
            bad = [dict(e) for e in evs[:j + 1]] + [dict(e) for e in evs[i + 1:]]
            bad[j]["ok"] = True
            jobs.append(("swapguard", d, bad)); break
    # (b) an extra transition: one Step/Arm/.../Trans block is repeated
    for d, evs, meta in runs:
        ti = [i for i, e in enumerate(evs) if e["ev"] == "Trans"]
        si = [i for i, e in enumerate(evs) if e["ev"] == "Step"]
        if ti and len(si) >= 2:
            blk = evs[si[0]:ti[0] + 1]
            jobs.append(("extratransition", d, evs[:ti[0] + 1] + blk + evs[ti[0] + 1:])); break
    # (c) a wrong successor payload
    for d, evs, meta in runs:
        ti = [i for i, e in enumerate(evs) if e["ev"] == "Trans" and any(p["t"] == "n" for p in e["to"]["pay"])]
        if ti:
            bad = json.loads(json.dumps(evs))
            for p in bad[ti[0]]["to"]["pay"]:
                if p["t"] == "n": p["n"] += 1; break
            jobs.append(("wrongpayload", d, bad)); break
    # (d) a wrong output value
    for d, evs, meta in runs:
        if evs and evs[-1]["ev"] == "Output" and evs[-1]["v"]["t"] == "n":
            bad = json.loads(json.dumps(evs)); bad[-1]["v"]["n"] += 1
            jobs.append(("wrongoutput", d, bad)); break
    # (e) the start state is ignored: the run starts in another declared state
    for d, evs, meta in runs:
        others = [x["name"] for x in d["m"]["declared"] if x["name"] not in (evs[0]["state"], "Done")] if evs and evs[0]["ev"] == "Start" else []
        if others:
            bad = json.loads(json.dumps(evs)); bad[0]["state"] = others[0]
            jobs.append(("startstate", d, bad)); break
    res = {}
    def one(name, d, evs):
        path = os.path.join(OUT, f"trace_C17_neg_{name}.ndjson")
        write_runs(path, [(d, evs, None)])
        try:
            accepted, msg = run_trace(path, f"Trace_C17_neg_{name}", timeout=600)
            res[name] = not accepted
        except Exception as ex: res[name] = ex
    ths = [threading.Thread(target=one, args=j) for j in jobs]
    for th in ths: th.start()
    for th in ths: th.join()
    for v in res.values():
        if isinstance(v, Exception): raise v
    return sum(1 for v in res.values() if v is True), len(jobs)

# ---------------------------------------------------------------- the check
def machine_sig(cs):
    if cs["fam"] == "gen":
        return "C17/gen/" + "+".join(sorted(set(cs["shape"])))
    return f"C17/{cs['fam']}/{cs['which']}"

# ---------------------------------------------------------------- argument kinds (MC_C17k): tuple-kinded parameters
def _kind_text(k):
    return k["k"] if k["t"] == "leaf" else "(" + ",".join(_kind_text(e) for e in _seqk(k["e"])) + ")"
def _seqk(x): return x if isinstance(x, list) else [x[str(i)] for i in range(1, len(x) + 1)] if isinstance(x, dict) else list(x)
def _val_text(v):
    if v["t"] == "leaf":
        return {"u64": f"{v['n']}u64", "f64": f"{v['n']}.5", "string": '"s"'}[v["k"]]
    return "(" + ", ".join(_val_text(e) for e in _seqk(v["e"])) + ")"
def _pat(k, names):
    if k["t"] == "leaf":
        n = "abcdefgh"[len(names)]; names.append(n); return n
    return "(" + ", ".join(_pat(e, names) for e in _seqk(k["e"])) + ")"

def kind_family(rep, tier):
    """every (tuple parameter kind, argument value) pair of MC_C17k: the machine `#Sum(t<K>)` destructures its argument and
    returns the sum of the leaves; a value that is not of kind K (wrong arity at any level, wrong element kind, a scalar) must
    be rejected before the machine starts.  Every call is made with the value written in place and through a variable."""
    t = tlc.run("MC_C17k", "MC_C17k.cfg", workers=4, timeout=600)
    if t.violations or not t.ok:
        rep.fail("C17/model", "TLC reported a violation of the kind-matching laws: " + "; ".join(t.errors[:3]), {"log": t.log})
    cases = sorted(t.cases, key=lambda c: json.dumps(c, sort_keys=True))
    bykind = collections.defaultdict(list)
    for c in cases: bykind[_kind_text(c["k"])].append(c)
    reqs = []; meta = []
    for kt, cl in sorted(bykind.items()):
        names = []; pat = _pat(cl[0]["k"], names)
        machine = (f"#Sum(t<{kt}>) => <u64>\n  \u251c :Start(t<{kt}>)\n  \u2514 :Done(out<u64>).\n\n"
                   f"#Sum(t<{kt}>) -> :Start(t)\n  :Start({pat}) -> :Done({' + '.join(names)})\n  :Done(out) => out.")
        for form in ("inplace", "variable"):
            stmts = [machine]; tags = [None]
            for i, c in enumerate(cl):
                vt = _val_text(c["v"])
                if form == "inplace": stmts.append(f"#Sum({vt})"); tags.append(c)
                else:
                    stmts.append(f"zv{i} := {vt}"); tags.append(None)
                    stmts.append(f"#Sum(zv{i})"); tags.append(c)
            reqs.append({"id": len(reqs), "mode": "session", "stmts": stmts, "opts": {"max_steps": 50}}); meta.append((kt, form, tags))
    outs = execpool.run_requests(reqs, nworkers=8, timeout=300)
    n = 0; okn = 0
    for req, (resp, oc), (kt, form, tags) in zip(reqs, outs, meta):
        replay = {"stmts": req["stmts"][:1], "kind": kt, "form": form}
        if oc != "ok" or "steps" not in (resp or {}):
            rep.fail(f"C17/argkind/host-{oc}", f"machine over {kt}: interpreter process {oc}", replay); continue
        st0 = resp["steps"][0]
        if st0.get("r") != "ok" or not (st0.get("shape") and st0["shape"][0].startswith("MechCode")):
            rep.fail("C17/argkind/setup", f"the machine over {kt} is not accepted: {st0.get('p')} {st0.get('class')} {st0.get('msg')}", replay); continue
        for stx, st, c in zip(req["stmts"], resp["steps"], tags):
            if c is None: continue
            n += 1
            ok = st.get("r") == "ok"
            rp = dict(replay, stmt=stx)
            vk = "scalar" if c["v"]["t"] == "leaf" else f"arity{len(_seqk(c['v']['e']))}"
            if c["ok"]:
                want = ('num', 'u64', Fraction(c["sum"]))
                got = absval.absval(st["v"]) if ok else None
                if not ok: rep.fail(f"C17/argkind/{kt}/{form}/rejects-well-kinded", f"{stx!r} -> error {st.get('class')} although the value has kind {kt}", rp)
                elif got != want: rep.fail(f"C17/argkind/{kt}/{form}/wrong-value", f"{stx!r} = {absval.short(got)}, expected {c['sum']}", rp)
                else: okn += 1
            else:
                if ok: rep.fail(f"C17/argkind/{kt}/{form}/{vk}/accepted", f"{stx!r} = {absval.short(absval.absval(st['v']))} although the machine takes one argument of kind {kt}", rp)
                else: okn += 1
    log(f"[C17] argument kinds: {okn}/{n} invocations of tuple-kinded machines behave as MC_C17k states")
    rep.cov.update({"argkind_invocations": n, "argkind_ok": okn})
    return len(reqs)

def run(rep, tier, seed):
    nkind = kind_family(rep, tier)
    rnd = random.Random(seed)
    cfg = "MC_C17_quick.cfg" if tier == "quick" else "MC_C17_thorough.cfg"
    t = tlc.run("MC_C17", cfg, workers=16, timeout=3000)
    if t.violations or not t.ok:
        rep.fail("C17/model", "TLC reported a violation of a model-level law: " + "; ".join(t.errors[:3]), {"log": t.log})
    cases = t.cases
    cases.sort(key=lambda c: json.dumps([c["fam"], c["which"], c["g"]], sort_keys=True))
    log(f"[C17] TLC: {t.generated} states, {len(cases)} machines in {t.wall:.1f}s")

    reqs = []; meta = []
    for cs in cases:
        m = cs["machine"]
        spec, impl = r_machine(m)
        stmts = [spec, impl]; tags = [("setup",), ("setup",)]
        for k, call in enumerate(cs["calls"]):
            stmts.append(f"#{m['name']}(" + ", ".join(r_val(a) for a in call["args"]) + ")"); tags.append(("call", k))
        for k, b in enumerate(cs["badcalls"]):
            stmts.append(f"#{m['name']}(" + ", ".join(BADARG[x] for x in b["kinds"]) + ")"); tags.append(("bad", k))
        # history independence (MechFsm.Run is a FUNCTION of declaration and arguments): the same invocations once more in the
        # same interpreter - after successful runs, after runs stopped by the limit, after rejected calls - must behave the same
        for k, call in enumerate(cs["calls"]):
            stmts.append(f"#{m['name']}(" + ", ".join(r_val(a) for a in call["args"]) + ")"); tags.append(("call", k, "again"))
        reqs.append({"id": len(reqs), "mode": "session", "stmts": stmts, "opts": {"trace": True, "max_steps": cs["maxsteps"]}})
        meta.append((cs, tags))
    log(f"[C17] replaying {len(reqs)} machines ({sum(len(r['stmts']) - 2 for r in reqs)} invocations) on the interpreter")
    t0 = time.time()
    outs = execpool.run_requests(reqs, nworkers=16, timeout=300)
    log(f"[C17] interpreter replay took {time.time() - t0:.1f}s")

    tally = collections.Counter(); runs = []; ncalls = 0
    for req, (resp, oc), (cs, tags) in zip(reqs, outs, meta):
        base = machine_sig(cs)
        m = cs["machine"]
        replay = {"stmts": req["stmts"][:2], "machine": {"fam": cs["fam"], "which": cs["which"], "g": cs["g"]}, "max_steps": cs["maxsteps"]}
        if oc != "ok" or "steps" not in (resp or {}):
            rep.fail(base + "/host-" + oc, f"{req['stmts'][1]!r} ... -> interpreter process {oc} (a machine that does not terminate must be stopped by the transition limit)", replay); continue
        steps = resp["steps"]; bad = False
        for stx, st, tg in zip(req["stmts"], steps, tags):
            if st.get("p") != "ok" or not (st.get("shape") and st["shape"][0].startswith("MechCode")):
                rep.fail(base + "/noparse", f"{stx!r} did not parse as code: {st.get('p')} {st.get('shape')}", replay); bad = True; break
            if tg[0] == "setup" and st.get("r") != "ok":
                rep.fail(base + "/setup", f"{stx!r} failed: {st.get('class')} {st.get('msg')}", replay); bad = True; break
        if bad: continue
        first = {}
        for stx, st, tg in zip(req["stmts"], steps, tags):
            if tg[0] == "setup": continue
            ok = st.get("r") == "ok"; cls = st.get("class")
            got = absval.absval(st["v"]) if ok else None
            shown = absval.short(got) if ok else f"error {cls}"
            rp = dict(replay, stmt=stx)
            ncalls += 1
            if tg[0] == "bad":
                b = cs["badcalls"][tg[1]]
                if ok and not b["ok"]:
                    rep.fail("C17/args/" + ",".join(b["kinds"]) + "/accepted", f"{stx!r} = {shown} although the machine takes ({', '.join(m['inkinds'])})", rp)
                else: tally["reject"] += 1
                continue
            call = cs["calls"][tg[1]]; exp = call["exp"]; failed = False
            if len(tg) == 2: first[tg[1]] = (ok, got)
            else:
                # the repeated invocation is judged against the FIRST one only (what the first one should have been is judged above)
                if first.get(tg[1]) != (ok, got):
                    f_ok, f_got = first.get(tg[1], (None, None))
                    rep.fail(machine_sig(cs) + "/history-dependent", f"{stx!r}: the first invocation gave {absval.short(f_got) if f_ok else 'an error'}, the same invocation later in the same interpreter gives {shown}", rp)
                else: tally["repeat_same"] += 1
                continue
            if exp == "out":
                if call["v"]["t"] == "n": want = ('num', 'u64', Fraction(call["v"]["n"])); wtxt = call["v"]["n"]
                else:
                    want = ('mat', 'u64', 1, len(call["v"]["e"]), tuple(('num', 'u64', Fraction(x)) for x in call["v"]["e"])); wtxt = call["v"]["e"]
                if not ok: rep.fail(base + "/error", f"{stx!r}: {shown}, expected {wtxt} after states {call['path']}", rp); failed = True
                elif got != want: rep.fail(base + "/wrong-value", f"{stx!r} = {shown}, expected {wtxt} after states {call['path']}", rp); failed = True
                else: tally["exact"] += 1
            elif exp == "limit":
                if ok: rep.fail(base + "/limit-not-enforced", f"{stx!r} = {shown}, expected the transition-limit error after {cs['maxsteps']} steps", rp); failed = True
                else:
                    tally["limit"] += 1       # the property asks for "an error"; which kind is reported is informational
                    if cls != "FsmExceededTransitionLimit": tally["limit_reported_with_another_error_kind"] += 1
            elif exp == "reject":
                if ok:
                    rep.fail(f"C17/validate/{cs['which'] if cs['fam'] == 'ill' else call['why']}/accepted", f"{stx!r} = {shown} although the declaration is ill-formed ({call['why']})", rp); failed = True
                else: tally["reject"] += 1
            else: tally["free"] += 1
            # the states visited (Step events) are the ones the declaration determines
            evs = to_events(st.get("trace", []), None if ok else cls)
            if evs is None:
                rep.fail(base + "/trace-unreadable", f"{stx!r}: a trace line could not be interpreted: {[x for x in st.get('trace', []) if x.startswith('[trace][fsm]')][:3]}", rp); continue
            if exp in ("out", "limit") and not failed:
                visited = [e["state"] for e in evs if e["ev"] == "Step"]
                wantp = call["path"][:cs["maxsteps"]]
                if visited != wantp:
                    rep.fail(base + "/wrong-path", f"{stx!r} visited {visited}, the declaration determines {wantp}", rp); failed = True
                else: tally["path"] += 1
            if not failed:
                d = {"ev": "Machine", "m": m, "args": call["args"], "maxsteps": cs["maxsteps"]}
                runs.append((d, evs, {"sig": base + "/trace", "stmts": req["stmts"][:2], "stmt": stx, "exp": exp, "n": len(evs)}))

    # ------------------------------------------------ impl -> spec
    if tier == "quick":
        lim = [r for r in runs if r[2]["exp"] == "limit"]; oth = [r for r in runs if r[2]["exp"] != "limit"]
        fixed = [r for r in oth if not r[2]["sig"].startswith("C17/gen/")]
        gen = [r for r in oth if r[2]["sig"].startswith("C17/gen/")]
        rnd.shuffle(lim); rnd.shuffle(gen)
        sel = fixed + gen[:6000] + lim[:200]
    else:
        lim = [r for r in runs if r[2]["exp"] == "limit"]; oth = [r for r in runs if r[2]["exp"] != "limit"]
        rnd.shuffle(lim); rnd.shuffle(oth)
        sel = oth[:40000] + lim[:1500]
    t0 = time.time()
    neg = {}
    def negjob():
        try: neg["r"] = negative_controls(sorted(sel, key=lambda r: -r[2]["n"])[:300] + sel[:300])
        except Exception as ex: neg["e"] = ex
    nth = threading.Thread(target=negjob); nth.start()
    nev, nruns, rej = validate_traces(sel, tier, nproc=4 if tier == "quick" else 14)
    nth.join()
    if "e" in neg: raise neg["e"]
    passed, tried = neg["r"]
    for mm, msg in rej:
        rep.fail(mm["sig"], f"{mm['stmt']!r}: {msg}", {"stmts": mm["stmts"], "stmt": mm["stmt"]})
    log(f"[C17] trace validation: {nruns} of {len(runs)} traced runs selected / {nev} events accepted by Trace_C17, {len(rej)} rejected")
    log(f"[C17] trace validation and negative controls took {time.time() - t0:.1f}s")
    log(f"[C17] negative controls: {passed}/{tried} corrupted traces rejected")
    if tried == 0 or passed != tried:
        raise tlc.TlcError(f"C17 negative control failed: {passed}/{tried} corrupted traces were rejected by Trace_C17")

    rep.cov.update({"states": t.generated, "transitions": max(t.generated - 1, 1), "distinct_states": t.distinct,
                    "traces_validated_against_impl": ncalls + nruns + nkind, "machines": len(cases), "invocations_replayed": ncalls,
                    "machines_by_family": dict(collections.Counter(c["fam"] for c in cases)),
                    "exact_matched": tally["exact"], "limits_matched": tally["limit"], "rejects_matched": tally["reject"],
                    "paths_matched": tally["path"], "free_outcomes": tally["free"], "repeated_invocations_same": tally["repeat_same"],
                    "trace_runs_validated": nruns, "trace_events_validated": nev, "trace_runs_rejected": len(rej),
                    "negative_controls_passed": passed, "negative_controls_tried": tried, "exhaustive": True,
                    "rule": "every machine of the generated family (1-3 working states x arm shape from {step, dec, first, first2, stuck, wild, gout, out} x target, "
                            "1-3 payload fields, every start state), array-pattern and literal-pattern machines and ill-formed declarations, each invoked on all small inputs "
                            "with max_steps = 25; result, transition-limit error and visited states compared; [trace][fsm] events validated event by event by Trace_C17"})
    rep.add_samples([{"stmts": r["stmts"][:4], "fam": m[0]["fam"], "shape": m[0]["shape"],
                      "expect": [(c["exp"], c["v"]["n"], c["path"]) for c in m[0]["calls"][:3]]} for r, m in zip(reqs, meta)])
    rep.assumptions += ["TLC 2 (tla2tools)", "harness projection of values", "renderer in areas/c17.py (machine record -> Mech text)",
                        "trace line parser in areas/c17.py (matrix payloads are compared by length only: the interpreter's trace prints their shape, not their elements)",
                        "harness option max_steps sets Interpreter::max_steps"]
