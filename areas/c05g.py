"""C05, generic part (impl -> spec on the repository's own programs): MechSessionGen is the session specification over
OPAQUE values.  TLC (a) model-checks it (four C05 action properties; the judge accepts every specification step and
rejects every single-point corruption), (b) validates, event by event, traces recorded while the real interpreter
executes every program of tests/interpreter.rs (thorough: also the code of docs/**/*.mec) ITEM BY ITEM, followed by a
generic probe tail (redefinitions, assignments to undefined / immutable names, copies, destructuring onto existing
names) — whatever kinds of values the program holds."""
import glob, json, os, re, hashlib
import tlc, execpool
from core import log

ALIAS_SIG = "C05/NoInterference/alias-after-define-from-variable"
ALIAS_SUB_SIG = "C05/NoInterference/alias-after-define-from-subexpression"

def corpus(tier):
    from areas.c09 import repo_programs
    progs = [("test", p) for p in repo_programs()]
    if tier != "quick":
        for f in sorted(glob.glob("/repo/docs/**/*.mec", recursive=True)) + sorted(glob.glob("/repo/tests/*.mec")):
            try:
                s = open(f, encoding="utf8").read()
            except Exception:
                continue
            if len(s) <= 12000:
                progs.append(("doc:" + os.path.relpath(f, "/repo"), s))
    return progs

def closure(pairs):
    """symmetric transitive closure of the define-from-variable relation"""
    adj = {}
    for a, b in pairs:
        adj.setdefault(a, set()).add(b); adj.setdefault(b, set()).add(a)
    comp = {}
    for n in adj:
        if n in comp: continue
        stack = [n]; seen = {n}
        while stack:
            x = stack.pop()
            for y in adj.get(x, ()):
                if y not in seen: seen.add(y); stack.append(y)
        for x in seen: comp[x] = seen
    return comp

def run(rep, tier, seed):
    # ---- model level
    t = tlc.run("MC_C05g", "MC_C05g_quick.cfg" if tier == "quick" else "MC_C05g_thorough.cfg", workers=8, timeout=1800, collect=())
    if t.violations or not t.ok:
        rep.fail("C05/model-gen", "TLC reported a violation on MechSessionGen: " + "; ".join(t.errors[:3]), {"log": t.log})
    log(f"[C05g] MechSessionGen: {t.generated} transitions, {t.distinct} distinct states in {t.wall:.1f}s")
    rep.cov["gen_model_states"] = t.distinct; rep.cov["gen_model_transitions"] = t.generated
    # ---- record
    progs = corpus(tier)
    reqs = [{"id": i, "mode": "stepwise", "text": p, "probes": True, "max_probe_names": 3 if tier == "quick" else 5}
            for i, (_, p) in enumerate(progs)]
    outs = execpool.run_requests(reqs, nworkers=16, timeout=300)
    os.makedirs(os.path.join(tlc.OUT, "traces"), exist_ok=True)
    path = os.path.join(tlc.OUT, "traces", f"c05g_{tier}.ndjson")
    index = []; nev = 0; nprog = 0; nprobe = 0; kinds = {}
    SENT = {"$": "-"}
    with open(path, "w") as fh:
        for i, ((origin, text), (resp, oc)) in enumerate(zip(progs, outs)):
            if oc != "ok" or resp is None or "events" not in resp:
                rep.fail(f"C05/HostSurvives/{oc}", f"program {origin} {text[:80]!r}: interpreter process {oc}", {"text": text}); continue
            evs = resp["events"]
            if not evs: continue
            nprog += 1
            fh.write(json.dumps({"sess": i, "kind": "Reset", "targets": [], "mutable": False, "from": "-", "annotated": False,
                                 "ok": True, "store": SENT, "mut": []}) + "\n"); index.append((i, -1)); nev += 1
            for j, e in enumerate(evs):
                st = {k: v for k, v in e["store"].items() if k != "ans"}; st.update(SENT)
                if e["class"] == "PANIC":
                    rep.fail(f"C05/HostSurvives/panic/{e['kind']}", f"{origin}: `{e['text']}` panicked out of interpret", {"text": text, "item": e["text"]})
                fh.write(json.dumps({"sess": i, "kind": e["kind"], "targets": [x for x in e["targets"]], "mutable": e["mutable"],
                                     "from": e["from"], "annotated": bool(e.get("annotated")), "ok": e["ok"], "store": st,
                                     "mut": [m for m in e["mut"] if m != "ans"]}) + "\n")
                index.append((i, j)); nev += 1
                kinds[e["kind"]] = kinds.get(e["kind"], 0) + 1
                if e["origin"] == "probe": nprobe += 1
    # ---- validate
    tt = tlc.run("Trace_C05g", "Trace_C05g.cfg", workers=1, env={"TRACE": path}, deque=True, xss="1g", xmx="4g", timeout=1800,
                 tag=f"Trace_C05g_{tier}")
    mism = [m for m in tt.msgs if "l" in m]
    if any("unconsumed" in m for m in tt.msgs) or (tt.rc != 0 and not tt.ok):
        raise tlc.TlcError(f"Trace_C05g did not consume the trace: {tt.msgs[:2]} {tt.errors[:2]}")
    lines = open(path).read().splitlines()
    for m in mism:
        sidx, j = index[m["l"] - 1]
        ev = json.loads(lines[m["l"] - 1]); prev = json.loads(lines[m["l"] - 2])
        evs = outs[sidx][0]["events"]
        # names related by define-from-variable earlier in this program
        pairs = []; subpairs = []
        for e in evs[:j]:
            if e["ok"] and e["from"] != "-":
                for tname in e["targets"]: pairs.append((tname, e["from"]))
            # a define whose right-hand side reads PART of a variable (x.a, x.1, x[i], [x]; the probe family (b) `~zzaK := <such a source>`
            # and the program's own statements): on the pinned tree it shares storage with that variable
            if e["ok"] and e.get("bases") and e["kind"] in ("Define", "Destructure", "OpAssign"):      # OpAssign: only `table += record`
                for tname in e["targets"]:
                    for b in e["bases"]: subpairs.append((tname, b))
        comp = closure(pairs + subpairs)
        pre, post = prev["store"], ev["store"]
        changed = [n for n in pre if n in post and pre[n] != post[n]]
        others = [n for n in changed if n not in ev["targets"]]
        rules = sorted(m["rules"])
        tgt = ev["targets"][0] if ev["targets"] else "-"
        defined_by = {}
        for e in evs[:j]:
            if e["ok"]:
                for tname in e["targets"]: defined_by.setdefault(tname, e["kind"])
        origin, text = progs[sidx]
        sigs = []
        alias_part = bool(others) and all(n in comp.get(tgt, ()) for n in others)
        destr_part = "AssignImmutableAccepted" in rules and defined_by.get(tgt) == "Destructure"
        rest = set(rules)
        if alias_part:
            via_sub = any(tgt == a or tgt == b for a, b in subpairs) or any(n == a for n in others for a, b in subpairs)
            sigs.append(ALIAS_SUB_SIG if via_sub else ALIAS_SIG); rest -= {"NoInterference", "ImmutableStable"}
        if destr_part: sigs.append("C05/Mutability/Destructure"); rest -= {"AssignImmutableAccepted", "ImmutableStable"}
        if rest or not sigs:
            # anything else is keyed by the rules broken, the statement kind and the specific program
            ph = hashlib.sha1(text.encode()).hexdigest()[:8]
            sigs = ["C05/gen/" + "+".join(rules) + "/" + ev["kind"] + ("[]" if evs[j].get("sub") and ev["kind"] != "Define" else "")
                    + "/" + origin.split(":")[0] + ":" + ph]
        items = [e["text"] for e in evs[:j + 1]]
        for sig in sigs:
          rep.fail(sig, f"{origin}: after items {items[-4:]} the step `{evs[j]['text']}` ({'ok' if ev['ok'] else 'error ' + evs[j]['class']}) breaks {rules}; changed: {changed}",
                 {"program": text, "items": items, "rules": rules, "changed": changed, "pre": {n: pre[n][17:] for n in changed}, "post": {n: post[n][17:] for n in changed}})
    log(f"[C05g] corpus trace validation: {nprog} programs, {nev} events ({nprobe} probe steps) checked by TLC in {tt.wall:.1f}s, {len(mism)} rejected steps; kinds {kinds}")
    # ---- negative control: corrupt the value of a non-target name in one event; TLC must report exactly that event
    nc = 0
    cand = None
    for k, ln in enumerate(lines[:4000]):
        e = json.loads(ln)
        if e["kind"] == "Expression" and e["ok"] and len(e["store"]) >= 2 and k > 0 and json.loads(lines[k - 1])["kind"] != "Reset":
            cand = k; break
    if cand is not None:
        e = json.loads(lines[cand]); n = sorted(x for x in e["store"] if x != "$")[0]; e["store"][n] = "corrupted"
        neg = lines[:cand] + [json.dumps(e)] + lines[cand + 1:cand + 50]
        p2 = path.replace(".ndjson", "_neg.ndjson"); open(p2, "w").write("\n".join(neg) + "\n")
        tn = tlc.run("Trace_C05g", "Trace_C05g.cfg", workers=1, env={"TRACE": p2}, deque=True, xss="1g", xmx="2g", timeout=600, tag="Trace_C05g_neg")
        nc = 1 if any(mm.get("l") == cand + 1 and "NoInterference" in mm.get("rules", []) for mm in tn.msgs) else 0
    if not nc:
        raise tlc.TlcError("negative control failed: a corrupted corpus trace was accepted by Trace_C05g")
    rep.cov.update({"corpus_programs": nprog, "corpus_events_validated": nev, "corpus_probe_steps": nprobe,
                    "corpus_rejected_steps": len(mism), "corpus_statement_kinds": kinds, "corpus_negative_controls_passed": nc})
    return nprog
