"""G04 (growth area) — MechSources: the source registry of the `mech` tool (src/mechfs.rs: add_source, reload_source, add_code,
get_source / get_tree / get_html / contains, the index entry) as a state machine (spec/MechSources.tla).

TLC checks the registry laws on every session of the bounded alphabet (MC_G04: Coherent, IndexRegistered, IndexNonEmpty,
IndexClaimed as invariants; EnvOnly, FailInert, Monotone, Framed, Fresh, ReloadKeepsIndex as action properties), shows with
MC_G04_lag.cfg that the invariant Coherent separates the specification from the implementation's stale-parse deviation (negative
control: that configuration MUST violate Coherent) and emits every maximal session with the expected outcome and observation after
every operation.  Every session is issued, operation by operation, against the REAL `mech::MechSources` over a materialised
directory (executor mode `sources`); after every operation everything a client can ask (source / tree / html of every path, of the
index and of every anonymous text, `contains` for the relative and the absolute spelling, the number of entries) is projected back
to the model's vocabulary (a stored tree / html is identified by the universe text it derives from) and compared with the model."""
import random, collections
import tlc, execpool
from core import log

PROP = "G04"
TEXTS = {"T1": "x := 1\ny := x + 1\n", "T2": "A paragraph of prose, nothing else.\n\nz := [1 2 3]\n"}
HTML_TEXTS = {"T1": "<p>one</p>\n", "T2": "<h1>two</h1>\n"}
PATHS = ["a.mec", "index.mec", "sub/index.mec", "b.html", "index.html"]
HTML_PATHS = ["b.html", "index.html"]

def texts_universe():
    u = {}
    for n, t in TEXTS.items(): u[n] = t
    for n, t in HTML_TEXTS.items(): u["H" + n] = t
    return u

def name_for(p, t):
    """model text name -> universe name (html paths hold the html variant of the text)"""
    if t in ("none", "empty", "-"): return t
    return ("H" + t) if p in HTML_PATHS else t

def fam(op): return op["o"] + ("-html" if op.get("p") in HTML_PATHS else "")

TPATHS = ["a.mec", "index.mec", "sub/index.mec", "b.html", "c.mec", "index.html"]
THTML = ["b.html", "index.html"]
TTEXTS = {"T1": TEXTS["T1"], "T2": TEXTS["T2"], "T3": "q := 5\n", "HT1": HTML_TEXTS["T1"], "HT2": HTML_TEXTS["T2"], "HT3": "<em>three</em>\n"}

def trace_family(rep, tier, rnd):
    """impl -> spec: long random sessions on the real MechSources, validated record by record by TLC (Trace_G04)"""
    import json, os
    nsess, length = (150, 40) if tier == "quick" else (1500, 60)
    def uname(p, t): return t if t in ("none", "-") else (("H" + t) if p in THTML else t)
    sessions = []
    for k in range(nsess):
        fs0 = {p: rnd.choice(["none", "T1", "T1", "T2"]) for p in TPATHS}
        ops = []
        for _ in range(length):
            o = rnd.choices(["add", "reload", "write", "remove", "code"], weights=[5, 6, 6, 2, 1])[0]
            pth = rnd.choice(TPATHS); t = rnd.choice(["T1", "T2", "T3"])
            ops.append({"o": o, "p": pth if o != "code" else "-", "t": t if o in ("write", "code") else "-"})
        sessions.append((fs0, ops))
    reqs = [{"id": i, "mode": "sources", "files": {p: uname(p, t) for p, t in fs0.items() if t != "none"}, "paths": TPATHS, "texts": TTEXTS,
             "ops": [{"o": o["o"], "p": o["p"], "t": uname(o["p"], o["t"])} for o in ops]} for i, (fs0, ops) in enumerate(sessions)]
    outs = execpool.run_requests(reqs, nworkers=16, timeout=300)
    os.makedirs(os.path.join(tlc.OUT, "traces"), exist_ok=True)
    path = os.path.join(tlc.OUT, "traces", f"g04_{tier}.ndjson")
    def back(p, name):
        name = name.rstrip("~")
        return name[1:] if (name.startswith("HT")) else name
    nev = 0; where = []
    with open(path, "w") as fh:
        for (fs0, ops), (resp, oc) in zip(sessions, outs):
            if oc != "ok" or "steps" not in (resp or {}):
                rep.fail(f"G04/trace/host-{oc}", f"random session: executor {oc}", {"ops": ops}); continue
            fh.write(json.dumps({"ev": "Reset", "fs": fs0}) + "\n"); nev += 1; where.append((ops, -1))
            for i, (o, st) in enumerate(zip(ops, resp["steps"])):
                obs = st.get("obs") or {}
                if obs.get("panic"):
                    rep.fail("G04/trace/query-panics", f"a query panicked after {ops[:i + 1]}", {"ops": ops}); break
                rec = {"ev": "Op", "o": o["o"], "p": o["p"], "t": o["t"], "r": "ok" if st.get("r") == "ok" else "fail",
                       "src": {p: back(p, obs["src"][p]) for p in TPATHS}, "tree": {p: back(p, obs["tree"][p]) for p in TPATHS},
                       "html": {p: back(p, obs["html"][p]) for p in TPATHS}, "idx": back("", obs["index"]["src"]),
                       "codes": {t: obs["code"][t]["src"].rstrip("~") == t for t in ("T1", "T2", "T3")}}
                fh.write(json.dumps(rec) + "\n"); nev += 1; where.append((ops, i))
    tt = tlc.run("Trace_G04", "Trace_G04.cfg", workers=1, env={"TRACE": path}, deque=True, xss="1g", xmx="4g", timeout=3000, tag=f"Trace_G04_{tier}")
    lags = [m for m in tt.msgs if m.get("kind") == "lag"]
    for m in tt.msgs:
        if m.get("kind") == "unmatched":
            ops, i = where[m["l"] - 1] if m["l"] - 1 < len(where) else (None, None)
            rep.fail("G04/trace/unexplained", f"record {m['l']} of the trace is not explained by MechSources (nor by its named deviation): {json.dumps(m.get('ev'))[:400]}",
                     {"ops": ops, "op_index": i})
    if tt.violations:
        rep.fail("G04/trace/invariant", "a registry invariant is violated on an observed execution: " + "; ".join(tt.errors[:2]), {"log": tt.log})
    if lags:
        ops, i = where[lags[0]["l"] - 1]
        rep.fail("G04/reload/tree-stale", f"{len(lags)} reload records of the random sessions are explained only by the stale-parse deviation (first: reload({lags[0]['p']}))",
                 {"ops": ops[: i + 1]})
    # negative control: corrupt one observed field of one record; the validation must stop there
    lines = open(path).read().split("\n")
    k = next((j for j, ln in enumerate(lines) if '"ev": "Op"' in ln and '"o": "add"' in ln and '"r": "ok"' in ln), None)
    neg_ok = None
    if k is not None:
        rec = json.loads(lines[k]); rec["src"][rec["p"]] = "T3" if rec["src"][rec["p"]] != "T3" else "T1"
        neg = path.replace(".ndjson", "_neg.ndjson"); open(neg, "w").write("\n".join(lines[:k] + [json.dumps(rec)] + lines[k + 1: k + 5]) + "\n")
        tn = tlc.run("Trace_G04", "Trace_G04.cfg", workers=1, env={"TRACE": neg}, deque=True, xss="1g", xmx="2g", timeout=600, tag="Trace_G04_neg")
        neg_ok = any(m.get("kind") == "unmatched" and m.get("l") == k + 1 for m in tn.msgs)
        if not neg_ok: raise tlc.TlcError(f"negative control failed: Trace_G04 accepted a corrupted record (line {k + 1}): {tn.msgs[:2]}")
    log(f"[G04] trace validation: {nsess} random sessions, {nev} records checked by TLC in {tt.wall:.1f}s; lag records {len(lags)}; negative control rejected: {neg_ok}")
    return {"sessions": nsess, "records_validated_by_TLC": nev, "records_explained_only_by_the_lag_deviation": len(lags), "negative_control_rejected": neg_ok}

def run(rep, tier, seed):
    cfg = "MC_G04_quick.cfg" if tier == "quick" else "MC_G04_thorough.cfg"
    t = tlc.run("MC_G04", cfg, workers=8, timeout=3000)
    if t.violations or not t.ok:
        rep.fail("G04/model", "TLC reported a violation on MechSources: " + "; ".join(t.errors[:3]), {"log": t.log})
    neg = tlc.run("MC_G04", "MC_G04_lag.cfg", workers=4, timeout=3000)
    if not any("Coherent" in v for v in neg.violations):
        rep.fail("G04/model/negative-control", "the stale-parse deviation (ReloadLag = TRUE) was NOT rejected by the invariant Coherent", {})
    # liveness of the watcher (MechWatcher): once the files stop changing the registry comes to describe the disk - under weak fairness
    # of the reload thread; the stale-parse deviation must VIOLATE it (the last event is consumed and the tree stays stale for ever)
    tw = tlc.run("MC_G04w", "MC_G04w.cfg", workers=4, timeout=1800)
    live_checked = "temporal propert" in open(tw.log, errors="replace").read().lower()
    if tw.violations or not tw.ok or not live_checked:
        rep.fail("G04/model/watcher-liveness", "MechWatcher: EventuallyUpToDate / NoLostUpdate not established by TLC: " + "; ".join(tw.errors[:2]) + ("" if live_checked else " (no temporal checking in the log)"), {"log": tw.log})
    twl = tlc.run("MC_G04w", "MC_G04w_lag.cfg", workers=4, timeout=1800)
    if not any("EventuallyUpToDate" in v for v in twl.violations):
        rep.fail("G04/model/watcher-liveness-negative-control", "the stale-parse deviation did NOT violate EventuallyUpToDate", {"log": twl.log})
    rep.cov["watcher_liveness"] = {"states": tw.generated, "distinct": tw.distinct, "temporal_checking_ran": live_checked,
                                   "deviation_violates_EventuallyUpToDate": bool(twl.violations)}
    # unbounded: the TLAPS proof that the registry invariants are inductive for ANY set of paths and texts, and that the restated
    # actions equal the effect functions used here (checked by tlapm on every run)
    ok, nobl, txt = tlc.tlapm("MechSourcesProof", ["MechSources"], timeout=900, threads=6)
    if not ok:
        rep.fail("G04/model/proof", "tlapm could not check MechSourcesProof (Inv inductive, actions = effect functions): " + txt[-600:], {"tlapm": txt})
    rep.cov["tlaps_obligations_proved"] = nobl
    cases = t.cases
    rnd = random.Random(seed)
    cap = 12000 if tier == "quick" else 80000
    exhaustive = len(cases) <= cap
    if not exhaustive: cases = rnd.sample(cases, cap)
    log(f"[G04] TLC: {t.generated} states, {len(t.cases)} sessions ({len(cases)} replayed) in {t.wall:.1f}s; negative control rejected: {bool(neg.violations)}")
    uni = texts_universe()
    init_files = {p: name_for(p, "T1") for p in PATHS if p not in ("sub/index.mec", "index.html")}
    reqs = []
    for ci, cs in enumerate(cases):
        ops = [{"o": o["o"], "p": o["p"], "t": name_for(o["p"], o["t"])} for o in cs["hist"]]
        reqs.append({"id": ci, "mode": "sources", "files": init_files, "paths": PATHS, "texts": uni, "ops": ops})
    outs = execpool.run_requests(reqs, nworkers=16, timeout=120)
    tally = collections.Counter(); fams = collections.Counter()
    for cs, req, (resp, oc) in zip(cases, reqs, outs):
        ops = req["ops"]
        show = [f"{o['o']}({o['p'] if o['o'] != 'code' else o['t']}{',' + o['t'] if o['o'] == 'write' else ''})" for o in ops]
        replay = {"ops": ops, "model": cs["exp"]}
        if oc != "ok" or "steps" not in (resp or {}):
            rep.fail(f"G04/host-{oc}", f"{show} -> executor {oc}", replay); continue
        bad = False
        for i, (op, e, s) in enumerate(zip(cs["hist"], cs["exp"], resp["steps"])):
            f = fam(op); fams[f] += 1
            r = s.get("r"); obs = s.get("obs") or {}
            if obs.get("panic"):
                rep.fail(f"G04/{f}/query-panics", f"{show}: after op {i} a query panicked", replay); bad = True; break
            want_r = e["r"]
            got_r = "ok" if r == "ok" else "fail"
            if got_r != want_r:
                rep.fail(f"G04/{f}/outcome", f"{show}: op {i} -> {r} ({s.get('class')}), model {want_r}", replay); bad = True; break
            if r == "panic":
                tally["fails-by-panic"] += 1      # recorded below as ONE informational finding family, the state is still judged
                rep.cov.setdefault("panics_instead_of_errors", collections.Counter())[f] += 1
            # per-path entries
            for what in ("src", "tree", "html"):
                for p in PATHS:
                    want = name_for(e["hfrom"][p] if what == "html" else p, e[what][p])
                    got = obs[what][p]
                    if got.endswith("~"): got = got[:-1]
                    if got != want:
                        kind = "failed-op-changed-registry" if want_r == "fail" else what
                        stale = ""
                        if op["o"] == "reload" and what in ("tree", "html") and i > 0:
                            prev = name_for(p, cs["exp"][i - 1]["src"][p]) if i > 0 else "none"
                            if got == prev and p == op["p"]: stale = "-stale"
                        rep.fail(f"G04/{f}/{kind}{stale}", f"{show}: after op {i} get_{what}({p}) is {got}, model {want}", replay); bad = True; break
                if bad: break
            if bad: break
            for p in PATHS:
                reg = e["src"][p] != "none"
                if obs["contains"][p] != reg or obs["contains_abs"][p] != reg:
                    rep.fail(f"G04/{f}/contains", f"{show}: after op {i} contains({p}) rel={obs['contains'][p]} abs={obs['contains_abs'][p]}, model {reg}", replay); bad = True; break
            if bad: break
            widx = e["idx"]
            want_index = name_for(widx, e["isrc"]) if widx != "none" else "none"
            got_index = obs["index"]["src"].rstrip("~")
            if got_index != want_index:
                rep.fail(f"G04/{f}/index", f"{show}: after op {i} get_source(\"\") is {got_index}, model {want_index} (index entry {widx})", replay); bad = True; break
            for tn in ("T1", "T2"):
                want = tn if e["codes"][tn] else "none"
                got = obs["code"][tn]
                if got["src"].rstrip("~") != want or got["tree"] != want or got["html"] != want:
                    rep.fail(f"G04/{f}/code", f"{show}: after op {i} anonymous code {tn}: {got}, model {want}", replay); bad = True; break
            if bad: break
            nreg = e["n"] + sum(1 for tn in ("T1", "T2") if e["codes"][tn])
            if obs["n"][0] != nreg:
                rep.fail(f"G04/{f}/count", f"{show}: after op {i} {obs['n'][0]} sources stored, model {nreg}", replay); bad = True; break
        if not bad: tally["ok"] += 1
    trace_cov = trace_family(rep, tier, rnd)
    pc = rep.cov.pop("panics_instead_of_errors", None)
    rep.cov.update({
        "states": t.generated, "distinct_states": t.distinct, "transitions": t.generated,
        "sessions_emitted": len(t.cases), "traces_validated_against_impl": len(cases), "exhaustive": exhaustive,
        "sessions_fully_matched": tally["ok"], "operations_by_family": dict(fams),
        "failing_operations_that_panic_instead_of_returning_an_error": dict(pc or {}),
        "trace_validation": trace_cov,
        "negative_control": "MC_G04_lag.cfg (the implementation's stale-parse deviation) violates Coherent: " + str(bool(neg.violations)),
        "rule": "every session of MC_G04 (add / reload / add_code / write / remove over four paths incl. an HTML source, a nested index.mec "
                "and an absent file) issued against the real mech::MechSources; outcome and the whole client-visible state after every operation = model"})
    rep.add_samples([{"ops": r["ops"]} for r in reqs[:3]])
    return len(reqs)
