"""G04 (growth area) — MechSources: the source registry of the `mech` tool (src/mechfs.rs: add_source, reload_source, add_code,
get_source / get_tree / get_html / contains, the index entry) as a state machine (spec/MechSources.tla).

TLC checks the registry laws on every session of the bounded alphabet (MC_G04: Coherent, IndexRegistered, IndexNonEmpty,
IndexClaimed as invariants; EnvOnly, FailInert, Monotone, Framed, Fresh, ReloadKeepsIndex as action properties), shows with
MC_G04_lag.cfg that the invariant Coherent separates the specification from the implementation's stale-parse deviation (negative
control: that configuration MUST violate Coherent) and emits every maximal session with the expected outcome and observation after
every operation.  Every session is issued, operation by operation, against the REAL `mech::MechSources` over a materialised
directory (executor mode `sources`); after every operation everything a client can ask (source / tree / html of every path, of the
index and of every anonymous text, `contains` for the relative and the absolute spelling, the number of entries) is projected back
to the model's vocabulary (a stored tree / html is identified by the universe text it derives from) and compared with the model."""
import random, collections
import tlc, execpool
from core import log

PROP = "G04"
TEXTS = {"T1": "x := 1\ny := x + 1\n", "T2": "A paragraph of prose, nothing else.\n\nz := [1 2 3]\n"}
HTML_TEXTS = {"T1": "<p>one</p>\n", "T2": "<h1>two</h1>\n"}
PATHS = ["a.mec", "index.mec", "sub/index.mec", "b.html"]
HTML_PATHS = ["b.html"]

def texts_universe():
    u = {}
    for n, t in TEXTS.items(): u[n] = t
    for n, t in HTML_TEXTS.items(): u["H" + n] = t
    return u

def name_for(p, t):
    """model text name -> universe name (html paths hold the html variant of the text)"""
    if t in ("none", "empty", "-"): return t
    return ("H" + t) if p in HTML_PATHS else t

def fam(op): return op["o"] + ("-html" if op.get("p") in HTML_PATHS else "")

def run(rep, tier, seed):
    cfg = "MC_G04_quick.cfg" if tier == "quick" else "MC_G04_thorough.cfg"
    t = tlc.run("MC_G04", cfg, workers=8, timeout=3000)
    if t.violations or not t.ok:
        rep.fail("G04/model", "TLC reported a violation on MechSources: " + "; ".join(t.errors[:3]), {"log": t.log})
    neg = tlc.run("MC_G04", "MC_G04_lag.cfg", workers=4, timeout=3000)
    if not any("Coherent" in v for v in neg.violations):
        rep.fail("G04/model/negative-control", "the stale-parse deviation (ReloadLag = TRUE) was NOT rejected by the invariant Coherent", {})
    cases = t.cases
    rnd = random.Random(seed)
    cap = 8000 if tier == "quick" else 60000
    exhaustive = len(cases) <= cap
    if not exhaustive: cases = rnd.sample(cases, cap)
    log(f"[G04] TLC: {t.generated} states, {len(t.cases)} sessions ({len(cases)} replayed) in {t.wall:.1f}s; negative control rejected: {bool(neg.violations)}")
    uni = texts_universe()
    init_files = {p: name_for(p, "T1") for p in PATHS if p != "sub/index.mec"}
    reqs = []
    for ci, cs in enumerate(cases):
        ops = [{"o": o["o"], "p": o["p"], "t": name_for(o["p"], o["t"])} for o in cs["hist"]]
        reqs.append({"id": ci, "mode": "sources", "files": init_files, "paths": PATHS, "texts": uni, "ops": ops})
    outs = execpool.run_requests(reqs, nworkers=16, timeout=120)
    tally = collections.Counter(); fams = collections.Counter()
    for cs, req, (resp, oc) in zip(cases, reqs, outs):
        ops = req["ops"]
        show = [f"{o['o']}({o['p'] if o['o'] != 'code' else o['t']}{',' + o['t'] if o['o'] == 'write' else ''})" for o in ops]
        replay = {"ops": ops, "model": cs["exp"]}
        if oc != "ok" or "steps" not in (resp or {}):
            rep.fail(f"G04/host-{oc}", f"{show} -> executor {oc}", replay); continue
        bad = False
        for i, (op, e, s) in enumerate(zip(cs["hist"], cs["exp"], resp["steps"])):
            f = fam(op); fams[f] += 1
            r = s.get("r"); obs = s.get("obs") or {}
            if obs.get("panic"):
                rep.fail(f"G04/{f}/query-panics", f"{show}: after op {i} a query panicked", replay); bad = True; break
            want_r = e["r"]
            got_r = "ok" if r == "ok" else "fail"
            if got_r != want_r:
                rep.fail(f"G04/{f}/outcome", f"{show}: op {i} -> {r} ({s.get('class')}), model {want_r}", replay); bad = True; break
            if r == "panic":
                tally["fails-by-panic"] += 1      # recorded below as ONE informational finding family, the state is still judged
                rep.cov.setdefault("panics_instead_of_errors", collections.Counter())[f] += 1
            # per-path entries
            for what in ("src", "tree", "html"):
                for p in PATHS:
                    want = name_for(p, e[what][p])
                    got = obs[what][p]
                    if got.endswith("~"): got = got[:-1]
                    if got != want:
                        kind = "failed-op-changed-registry" if want_r == "fail" else what
                        stale = ""
                        if op["o"] == "reload" and what in ("tree", "html") and i > 0:
                            prev = name_for(p, cs["exp"][i - 1]["src"][p]) if i > 0 else "none"
                            if got == prev and p == op["p"]: stale = "-stale"
                        rep.fail(f"G04/{f}/{kind}{stale}", f"{show}: after op {i} get_{what}({p}) is {got}, model {want}", replay); bad = True; break
                if bad: break
            if bad: break
            for p in PATHS:
                reg = e["src"][p] != "none"
                if obs["contains"][p] != reg or obs["contains_abs"][p] != reg:
                    rep.fail(f"G04/{f}/contains", f"{show}: after op {i} contains({p}) rel={obs['contains'][p]} abs={obs['contains_abs'][p]}, model {reg}", replay); bad = True; break
            if bad: break
            widx = e["idx"]
            want_index = name_for(widx, e["isrc"]) if widx != "none" else "none"
            got_index = obs["index"]["src"].rstrip("~")
            if got_index != want_index:
                rep.fail(f"G04/{f}/index", f"{show}: after op {i} get_source(\"\") is {got_index}, model {want_index} (index entry {widx})", replay); bad = True; break
            for tn in ("T1", "T2"):
                want = tn if e["codes"][tn] else "none"
                got = obs["code"][tn]
                if got["src"].rstrip("~") != want or got["tree"] != want or got["html"] != want:
                    rep.fail(f"G04/{f}/code", f"{show}: after op {i} anonymous code {tn}: {got}, model {want}", replay); bad = True; break
            if bad: break
            nreg = e["n"] + sum(1 for tn in ("T1", "T2") if e["codes"][tn])
            if obs["n"][0] != nreg:
                rep.fail(f"G04/{f}/count", f"{show}: after op {i} {obs['n'][0]} sources stored, model {nreg}", replay); bad = True; break
        if not bad: tally["ok"] += 1
    pc = rep.cov.pop("panics_instead_of_errors", None)
    rep.cov.update({
        "states": t.generated, "distinct_states": t.distinct, "transitions": t.generated,
        "sessions_emitted": len(t.cases), "traces_validated_against_impl": len(cases), "exhaustive": exhaustive,
        "sessions_fully_matched": tally["ok"], "operations_by_family": dict(fams),
        "failing_operations_that_panic_instead_of_returning_an_error": dict(pc or {}),
        "negative_control": "MC_G04_lag.cfg (the implementation's stale-parse deviation) violates Coherent: " + str(bool(neg.violations)),
        "rule": "every session of MC_G04 (add / reload / add_code / write / remove over four paths incl. an HTML source, a nested index.mec "
                "and an absent file) issued against the real mech::MechSources; outcome and the whole client-visible state after every operation = model"})
    rep.add_samples([{"ops": r["ops"]} for r in reqs[:3]])
    return len(reqs)
