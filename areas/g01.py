"""G01 — matrix algebra and reductions (growth area): MechMatrixOps enumerated by TLC (matrix product, transpose,
stats/sum/row, stats/sum/column, matrix/dot, and the composite expressions of the algebraic laws), every case replayed on the
real interpreter for several element kinds, with literal operands, with operands held in variables, and with operands
materialised through law-justified routes (I ** A, (I ** A')', (A')', 1 x 1 products): the result of an operator depends on the
value of its operands only, not on the expression that computed them."""
import collections
from fractions import Fraction
import tlc, execpool, render, absval
from core import log

PROP = "G01"

# element kinds for which the operators are specified (calibrated with bin/probe on the pinned tree: `**`, `'`, stats/sum/row,
# stats/sum/column and matrix/dot accept every integer kind, both float kinds and r64; `'` also accepts bool and string)
INT_KINDS = ["u8", "u16", "u32", "u64", "u128", "i8", "i16", "i32", "i64", "i128"]
NUMERIC = INT_KINDS + ["f32", "f64", "r64"]
SIGNED = ["i8", "i16", "i32", "i64", "i128"]
ROT_QUICK = ["u8", "i64", "f32", "u64"]
ALWAYS_THOROUGH = ["u8", "i64", "f32", "u64"]
ROT_THOROUGH = ["u16", "u32", "u128", "i8", "i16", "i32", "i128", "r64"]
TOKEN_KINDS = ["bool", "string"]          # transpose only: cells are tokens, not numbers
MATMUL_OPS = {"matmul", "idr", "idl", "mmt", "tmm", "chainl", "chainr"}

def limit(kind):
    """exclusive bound on |numerator| below which the kind represents the value (and every partial sum) exactly"""
    if kind in INT_KINDS: return absval.kind_max(kind) + 1
    if kind == "f32": return 1 << 24
    if kind == "f64": return 1 << 53
    if kind == "r64": return 1 << 31
    raise ValueError(kind)

def operand_ok(kind, m):
    if m["q"] > 0 and kind in INT_KINDS: return False
    if kind[0] == "u" and any(n < 0 for n in m["d"]): return False
    return all(abs(n) < limit(kind) for n in m["d"])

def magnitude_bound(cs):
    """conservative bound on the absolute value of every numerator that can occur while the expression is evaluated in ANY
    order of accumulation (products of the operands' largest magnitudes times the lengths of the sums)"""
    A, B, C = cs["A"], cs["B"], cs["C"]
    ma = max(abs(n) for n in A["d"]); mb = max(abs(n) for n in B["d"]); mc = max(abs(n) for n in C["d"])
    op = cs["op"]
    if op in ("transpose", "tt"): return ma
    if op in ("sumrow", "sumcol", "sumcolT", "sumrowT"): return ma * max(A["r"], A["c"])
    if op == "total": return ma * A["r"] * A["c"]
    if op in ("idr", "idl"): return ma * max(A["r"], A["c"])
    if op in ("matmul", "mmt", "tmm"): return ma * mb * A["c"]
    if op == "dot": return ma * mb * len(A["d"])
    if op in ("chainl", "chainr"): return ma * mb * mc * A["c"] * B["c"]
    raise ValueError(op)

def cell(kind, n, q):
    return ('num', kind, Fraction(n, 1 << q))

def cells(kind, m, tokens=False):
    if tokens: return [render.token_value(kind, n) for n in m["d"]]
    return [cell(kind, n, m["q"]) for n in m["d"]]

def identity(n):
    return {"r": n, "c": n, "q": 0, "d": [1 if (p % n) == (p // n) else 0 for p in range(n * n)]}

def literal(kind, m, tokens=False):
    return render.matrix_literal(m["r"], m["c"], [render.scalar_lit(v) for v in cells(kind, m, tokens)])

def expression(op, a, b, c, i_r, i_c):
    return {"matmul": f"{a} ** {b}", "transpose": f"{a}'", "tt": f"({a}')'",
            "sumrow": f"stats/sum/row({a})", "sumcol": f"stats/sum/column({a})",
            "sumcolT": f"(stats/sum/column({a}'))'", "sumrowT": f"(stats/sum/row({a}'))'",
            "total": f"stats/sum/row(stats/sum/column({a}))",
            "idr": f"{a} ** {i_c}", "idl": f"{i_r} ** {a}",
            "dot": f"matrix/dot({a}, {b})", "mmt": f"({a} ** {b})'", "tmm": f"{b}' ** {a}'",
            "chainl": f"({a} ** {b}) ** {c}", "chainr": f"{a} ** ({b} ** {c})", "chainflat": f"{a} ** {b} ** {c}"}[op]

def storage(sh):
    r, c = sh
    return "one" if (r, c) == (1, 1) else ("row" if r == 1 else ("col" if c == 1 else "mat"))

def shape_classes(cs):
    s = storage(cs["ls"]) + ("~" + cs["ra"] if cs["ra"] != "lit" else "")
    if cs["ar"] >= 2: s += "," + storage(cs["rs"]) + ("~" + cs["rb"] if cs["rb"] != "lit" else "")
    if cs["ar"] == 3: s += "," + storage(cs["ts"])
    return s

def route_expr(rt, kind, m, mt, tokens=False):
    """the operand m (its transpose mt comes from the model too) materialised through route rt (spec/MC_G01.tla, Route)"""
    L = literal(kind, m, tokens)
    if rt == "lit": return L
    if rt == "idl": return f"{literal(kind, identity(m['r']))} ** {L}"
    if rt == "tidl": return f"({literal(kind, identity(m['c']))} ** {literal(kind, mt, tokens)})'"
    if rt == "tt": return f"({L}')'"
    pad = {"r": 1, "c": 2, "q": m["q"], "d": [m["d"][0], 0]}
    if rt == "pv": return f"({literal(kind, identity(1))} ** {literal(kind, pad)}) ** {literal(kind, {'r': 2, 'c': 1, 'q': 0, 'd': [1, 0]})}"
    if rt == "pr": return f"{literal(kind, pad)} ** ({literal(kind, identity(1))} ** {literal(kind, {'r': 1, 'c': 2, 'q': 0, 'd': [1, 0]})})'"
    raise ValueError(rt)

def sub_products(cs):
    """the (lhs shape, rhs shape) of every `**` the expression of the case evaluates, innermost first (from the model's shapes)"""
    l, r, t = tuple(cs["ls"]), tuple(cs["rs"]), tuple(cs["ts"])
    op = cs["op"]
    if op in ("matmul", "mmt"): return [(l, r)]
    if op == "tmm": return [((r[1], r[0]), (l[1], l[0]))]
    if op == "idr": return [(l, (l[1], l[1]))]
    if op == "idl": return [((l[0], l[0]), l)]
    if op == "chainl": return [(l, r), ((l[0], r[1]), t)]
    if op == "chainr": return [(r, t), (l, (r[0], t[1]))]
    return []

def build(cs, kind, form, tokens=False):
    """the statements of one replay: (setup statements, expression text)"""
    op = cs["op"]
    A, B, C = cs["A"], cs["B"], cs["C"]
    I_r, I_c = identity(A["r"]), identity(A["c"])
    eop = "chainflat" if form == "flat" else op
    if form == "lit":
        ar = cs["ar"]
        return [], expression(eop, literal(kind, A, tokens), literal(kind, B) if ar >= 2 else "", literal(kind, C) if ar == 3 else "",
                              literal(kind, I_r) if op == "idl" else "", literal(kind, I_c) if op == "idr" else "")
    if cs["ra"] != "lit" or cs["rb"] != "lit":
        pre = [f"A := {route_expr(cs['ra'], kind, A, cs['At'], tokens)}"]
        if cs["ar"] >= 2: pre.append(f"B := {route_expr(cs['rb'], kind, B, cs['Bt'])}")
        return pre, expression(eop, "A", "B", "C", "I", "I")
    pre = [render.define_matrix("A", kind, A["r"], A["c"], cells(kind, A, tokens))]
    if cs["ar"] >= 2: pre.append(render.define_matrix("B", kind, B["r"], B["c"], cells(kind, B)))
    if cs["ar"] == 3: pre.append(render.define_matrix("C", kind, C["r"], C["c"], cells(kind, C)))
    if op == "idr": pre.append(render.define_matrix("I", kind, I_c["r"], I_c["c"], cells(kind, I_c)))
    if op == "idl": pre.append(render.define_matrix("I", kind, I_r["r"], I_r["c"], cells(kind, I_r)))
    return pre, expression(eop, "A", "B", "C", "I", "I")

def kinds_for(cs, n, tier):
    """f64 always; quick: one rotating kind of u8/i64/f32/u64 (the first of the rotation that can hold the operands and every
    intermediate value); thorough: all four plus one rotating kind of the remaining numeric kinds.  Returns [(kind, in_range)]."""
    bound = magnitude_bound(cs)
    ops = [cs["A"]] + ([cs["B"]] if cs["ar"] >= 2 else []) + ([cs["C"]] if cs["ar"] == 3 else [])
    def fits(k): return all(operand_ok(k, m) for m in ops)
    def inr(k): return bound < limit(k)
    out = [("f64", inr("f64"))]
    def rotate(pool):
        for j in range(len(pool)):
            k = pool[(n + j) % len(pool)]
            if fits(k) and inr(k): return [(k, True)]
        return []
    if tier == "quick":
        out += rotate(ROT_QUICK)
    else:
        for k in ALWAYS_THOROUGH:
            if fits(k): out.append((k, inr(k)))          # out of range: replayed as `free` (overflow must still not kill the host)
        out += rotate(ROT_THOROUGH)
    return out

def run(rep, tier, seed):
    cfg = "MC_G01_quick.cfg" if tier == "quick" else "MC_G01_thorough.cfg"
    t = tlc.run("MC_G01", cfg, workers=16, timeout=3000)
    if t.violations or not t.ok:
        rep.fail("G01/model", "TLC reported a violation of a model-level law: " + "; ".join(t.errors[:3]), {"log": t.log})
    cases = t.cases
    cases.sort(key=lambda c: (c["sig"], c["fill"]))
    log(f"[G01] TLC: {t.generated} states, {t.distinct} distinct, {len(cases)} cases in {t.wall:.1f}s")
    reqs = []; meta = []
    # scalar form of `**` per kind: a kind whose scalar form is rejected is `free` for the product operators
    skinds = NUMERIC + TOKEN_KINDS
    for k in skinds:
        v = render.token_value(k, 1) if k in TOKEN_KINDS else ('num', k, Fraction(3))
        reqs.append({"id": len(reqs), "mode": "session", "stmts": [f"a := {render.scalar_lit(v)}", "a ** a"], "opts": {}})
        meta.append(("scalar", k, None, None, None))
    nscalar = len(reqs)
    skipped = 0
    for n, cs in enumerate(cases):
        ks = kinds_for(cs, n, tier)
        if cs["op"] in ("transpose", "tt") and cs["fill"] == "iota":
            ks = ks + [(TOKEN_KINDS[n % 2], True)] if tier == "quick" else ks + [(k, True) for k in TOKEN_KINDS]
        if len(ks) == 1 and tier == "quick": skipped += 1
        for kind, inrange in ks:
            tokens = kind in TOKEN_KINDS
            routed = cs["ra"] != "lit" or cs["rb"] != "lit"
            if routed and (kind in SIGNED or tokens): continue          # the routes are written with literal matrices
            forms = ["var"] + ([] if kind in SIGNED or routed else ["lit"]) + (["flat"] if cs["op"] == "chainl" else [])
            for form in forms:
                pre, expr = build(cs, kind, form, tokens)
                reqs.append({"id": len(reqs), "mode": "session", "stmts": pre + [expr, {"op": "step", "n": 1}],
                             "opts": {"store": bool(pre), "names": ["A", "B", "C"], "arm": True}})
                meta.append((cs, kind, form, inrange, len(pre)))
    log(f"[G01] replaying {len(reqs) - nscalar} cases on the interpreter")
    outs = execpool.run_requests(reqs, nworkers=16, timeout=120)
    sacc = {}
    for req, (resp, oc), m in zip(reqs[:nscalar], outs[:nscalar], meta[:nscalar]):
        st = (resp or {}).get("steps") or []
        sacc[m[1]] = (oc == "ok" and len(st) == 2 and st[1].get("r") == "ok" and bool(st[1].get("shape")) and st[1]["shape"][0].startswith("MechCode"))
    arms = set(); tally = collections.Counter(); dot_matrix = collections.Counter(); perkind = collections.Counter()
    # storage-class pairs whose plain product `A ** B` is rejected although conformable (each is reported below under its own
    # signature): a composite expression that contains such a product is attributed to that signature, not to a new one
    bad_pairs = set()
    for req, (resp, oc), (cs, kind, form, inrange, npre) in list(zip(reqs, outs, meta))[nscalar:]:
        if cs["op"] == "matmul" and cs["exp"] == "exact" and inrange and sacc.get(kind) and oc == "ok" and len((resp or {}).get("steps", [])) > npre and resp["steps"][npre].get("r") == "err":
            if cs["ra"] == "lit" and cs["rb"] == "lit": bad_pairs.add((storage(cs["ls"]), storage(cs["rs"])))
    for req, (resp, oc), (cs, kind, form, inrange, npre) in list(zip(reqs, outs, meta))[nscalar:]:
        op = cs["op"]; tokens = kind in TOKEN_KINDS
        variant = "" if form == "var" else "/" + form
        sig = cs["sig"] + variant
        fam = f"G01/{op}{variant}"
        replay = {"stmts": req["stmts"], "case": cs, "kind": kind}
        if oc != "ok" or "steps" not in (resp or {}):
            rep.fail(f"{fam}/host-{oc}/{kind}/{shape_classes(cs)}", f"{req['stmts']} -> interpreter process {oc}", replay); continue
        st = resp["steps"]
        if any(s.get("r") != "ok" for s in st[:npre]):
            bad = next(i for i, s in enumerate(st[:npre]) if s.get("r") != "ok")
            if cs["ra"] != "lit" or cs["rb"] != "lit": tally["route_unbuildable"] += 1; continue      # the route expression itself is replayed as a case of its own (idl, tt, chain ...)
            rep.fail(f"G01/setup/{kind}", f"operand could not be built: {req['stmts'][bad]} -> {st[bad].get('class')} {st[bad].get('msg')}", replay); continue
        ev = st[npre]
        if ev.get("p") != "ok" or not (ev.get("shape") and ev["shape"][0].startswith("MechCode")):
            rep.fail(f"{fam}/noparse", f"{req['stmts'][npre]} did not parse as code: {ev.get('p')} {ev.get('shape')}", replay); continue
        arms.add(ev.get("arm")); perkind[kind] += 1
        # purity: the operands are unchanged by the evaluation (accepted or rejected)
        if npre:
            store = ev.get("store", {})
            for name, m, tk in (("A", cs["A"], tokens), ("B", cs["B"], False), ("C", cs["C"], False))[:cs["ar"]]:
                want = ('mat', kind, m["r"], m["c"], tuple(cells(kind, m, tk)))
                got = store.get(name)
                if got is None or absval.absval(got["v"]) != want:
                    rep.fail(f"{fam}/operand-changed/{kind}", f"{req['stmts']} changed {name}: {absval.short(absval.absval(got['v'])) if got else None}", replay)
        ok = ev["r"] == "ok"
        exp = cs["exp"]
        if exp != "reject":
            if op in MATMUL_OPS and not sacc.get(kind): exp = "free"          # scalar form rejected: the kind is outside the operator
            elif not inrange: exp = "free"; tally["out_of_range"] += 1         # overflow / inexact intermediate: outside the model
        if exp == "reject":
            if ok:
                rep.fail(f"G01/{op}{variant}/accepts-incompatible/{shape_classes(cs)}", f"{req['stmts']} returned {absval.short(absval.absval(ev['v']))} for incompatible shapes {cs['sig']}", replay)
            elif ev["r"] != "err":
                rep.fail(f"G01/{op}{variant}/incompatible-not-an-error/{shape_classes(cs)}", f"{req['stmts']}: incompatible shapes end in {ev['r']} ({ev.get('msg')}), not in an error", replay)
            else: tally["reject_ok"] += 1
            continue
        if exp == "free":
            tally["free"] += 1
            if op == "dot" and ok:
                g = absval.absval(ev["v"])
                same = cs["ls"] == cs["rs"]
                frob = sum(a * b for a, b in zip(cs["A"]["d"], cs["B"]["d"])) if same else None
                if g[0] == 'num' and same and g[2] == Fraction(frob, 1 << (cs["A"]["q"] + cs["B"]["q"])): dot_matrix["same-shape matrices: scalar sum of elementwise products"] += 1
                elif g[0] == 'mat': dot_matrix["matrix result"] += 1
                else: dot_matrix["other value"] += 1
            elif op == "dot": dot_matrix["rejected:" + storage(cs["ls"]) + "," + storage(cs["rs"])] += 1
            continue
        # exact
        if not ok:
            root = None
            if cs["ra"] == "lit" and cs["rb"] == "lit":
                root = next(((storage(a), storage(b)) for a, b in sub_products(cs) if (storage(a), storage(b)) in bad_pairs), None)
            fsig = f"G01/matmul/rejects-conformable/{root[0]},{root[1]}" if root else f"G01/{op}{variant}/rejects-conformable/{shape_classes(cs)}"
            rep.fail(fsig, f"{req['stmts']} rejected ({ev.get('class')}: {ev.get('msg')}) but {cs['sig']} is defined", replay); continue
        got = absval.absval(ev["v"])
        res = cs["res"]
        if tokens: want_cells = tuple(render.token_value(kind, n) for n in res["d"])
        else: want_cells = tuple(cell(kind, n, res["q"]) for n in res["d"])
        want = want_cells[0] if res["sc"] else ('mat', kind, res["r"], res["c"], want_cells)
        if got != want:
            if (got[0] == 'mat') != (want[0] == 'mat') or (got[0] == 'mat' and (got[2], got[3]) != (want[2], want[3])):
                rep.fail(f"G01/{op}{variant}/shape/{shape_classes(cs)}", f"{req['stmts']} = {absval.short(got)}, expected {absval.short(want)}", replay)
            else:
                rep.fail(f"G01/{op}{variant}/wrong-value/{kind}/{shape_classes(cs)}", f"{req['stmts']} = {absval.short(got)}, expected {absval.short(want)}", replay)
            continue
        tally["exact_ok"] += 1
        stp = st[npre + 1]
        if stp.get("r") != "ok":
            rep.fail(f"G01/{op}{variant}/step-fails/{shape_classes(cs)}", f"{req['stmts']}: one re-evaluation step fails ({stp.get('class')} {stp.get('msg')})", replay)
        elif absval.absval(stp["v"]) != got:
            rep.fail(f"G01/{op}{variant}/step-changes-result/{shape_classes(cs)}", f"{req['stmts']}: step changes the result to {absval.short(absval.absval(stp['v']))}", replay)
        else: tally["step_ok"] += 1
    nrep = len(reqs) - nscalar
    log(f"[G01] exact {tally['exact_ok']}, rejected as specified {tally['reject_ok']}, free {tally['free']} (of which out of the kind's range {tally['out_of_range']}); matrix/dot outside the documented domain: {dict(dot_matrix)}")
    rep.cov.update({"states": t.generated, "transitions": max(t.generated - 1, 1), "distinct_states": t.distinct,
                    "traces_validated_against_impl": nrep, "cases_emitted": len(cases), "cases_replayed": nrep,
                    "exact_matched": tally["exact_ok"], "rejects_matched": tally["reject_ok"], "free_outcomes": tally["free"],
                    "steps_unchanged": tally["step_ok"], "out_of_range(free)": tally["out_of_range"],
                    "cases_with_no_second_kind": skipped, "replayed_per_kind": dict(sorted(perkind.items())), "arms_hit": len(arms), "routed_operand_unbuildable": tally["route_unbuildable"],
                    "scalar_form_accepting_kinds": sorted(k for k, v in sacc.items() if v),
                    "matrix_dot_outside_documented_domain": dict(dot_matrix), "exhaustive": True,
                    "rule": "every (operator, operand shapes, filling) of the bounded MechMatrixOps model (all shape pairs for ** and matrix/dot, all shapes for ', stats/sum/row, stats/sum/column and the composite expressions of the laws, all conformable triples of the chain dimensions); each replayed for f64 and rotating / further element kinds, with operands in variables and as literals; for the RouteFills also with each operand computed through the routes of spec/MC_G01.tla (f64 and one rotating unsigned/float kind); shape and every element compared exactly; operands unchanged; one re-evaluation step"})
    rep.add_samples([{"stmts": r["stmts"][:-1], "exp": m[0]["exp"], "sig": m[0]["sig"]} for r, m in list(zip(reqs, meta))[nscalar:]])
    rep.assumptions += ["TLC 1.8.0", "harness projection (harness/src/project.rs)", "renderer lib/render.py",
                        "fillings in spec/MC_G01.tla (Discriminating is checked by TLC)",
                        "documentation consulted: /repo/docs/reference/matrix.mec (6.4, 6.5), /repo/machines/matrix/docs/dot.mec, /repo/machines/stats/index.mec, /repo/examples/working/n-body.mec (use of stats/sum/row and stats/sum/column)"]
