"""C16 — function and match arms: the first arm that matches is the one that runs.

spec -> impl: MC_C16 (MechMatch) enumerates every arm list (every order) of each pattern family; every list is
rendered as a function definition and/or a match expression and evaluated on the real interpreter for every value
of the family's domain; results, no-arm errors, arity errors, non-exhaustive matches, broadcast over a matrix and
the recurrences (factorial, power, fibonacci, gcd, countdown) are compared with the model.
impl -> spec: the interpreter's [trace][fn]/[trace][match] events of the function calls are converted to ndjson
(definition first) and validated by TLC against Trace_C16 (which reuses MechMatch).  The match EXPRESSION form
emits no arm-test events in the pinned tree (hook H3 of DESIGN.md is not installed), so only function calls are
trace-validated; match expressions are covered by the replay direction.
"""
import os, re, json, random, collections, threading, time
from fractions import Fraction
import tlc, execpool, absval
from core import log

PROP = "C16"
OUT = tlc.OUT
FNAME = {"fact": "factorial", "pow": "power", "fib": "fib", "fibacc": "fib-acc", "gcd": "gcd", "count": "countdown-acc",
         "countup": "count-up", "gcdp": "gcd-p", "powacc": "pow-acc"}

# ---------------------------------------------------------------- rendering (abstract -> Mech text)
def u(n): return f"{n}u64"

def r_simple(sp):
    return u(sp["c"]) if sp["k"] == "lit" else sp["v"] if sp["k"] == "var" else "*"

def r_pat(p):
    k = p["k"]
    if k == "lit": return u(p["c"])
    if k == "var": return p["v"]
    if k == "wild": return "*"
    if k == "tup": return "(" + ", ".join(r_simple(s) for s in p["s"]) + ")"
    if k == "enum":
        return ":" + p["tag"] + ("(" + ", ".join(r_simple(s) for s in p["s"]) + ")" if p["s"] else "")
    if k == "arr":
        pre = ", ".join(r_simple(s) for s in p["s"]); suf = ", ".join(r_simple(s) for s in p["suf"])
        if p["sp"] == "none": return "[" + pre + "]"
        if p["sp"] == "rest": return "[" + pre + " | " + p["v"] + "]"
        return "[" + " ".join(x for x in (pre, "...", suf) if x) + "]"
    raise ValueError(p)

def r_guard(g):
    if g["g"] == "none": return None
    if g["g"] == "gtc": return f"{g['a']} > {u(g['c'])}"
    if g["g"] == "gt": return f"{g['a']} > {g['b']}"
    if g["g"] == "eq": return f"{g['a']} == {g['b']}"
    raise ValueError(g)

OPS = {"add": "+", "sub": "-", "mul": "*", "mod": "%"}
def r_expr(e, fname, out="u64", top=True):
    op = e["op"]
    if op == "lit":
        return ("true" if e["c"] else "false") if out == "bool" else u(e["c"])
    if op == "var": return e["v"]
    if op == "call": return fname + "(" + ", ".join(r_expr(a, fname, out) for a in e["args"]) + ")"
    s = f"{r_expr(e['l'], fname, out, False)} {OPS[op]} {r_expr(e['r'], fname, out, False)}"
    return s if top else "(" + s + ")"

def r_val(v):
    t = v["t"]
    if t == "n": return u(v["n"])
    if t == "tup": return "(" + ", ".join(u(x) for x in v["e"]) + ")"
    if t == "arr": return "[" + " ".join(u(x) for x in v["e"]) + "]"
    raise ValueError(v)

ENUM_DEF = "<shape> := :circle<u64> | :square<u64> | :dot"
ENUM_SIBLINGS = ["<sib1> := :circle<u64> | :square<u64>", "<sib2> := :circle<u64> | :dot", "<sib3> := :square<u64> | :dot",
                 "<sib4> := :circle<u64> | :other1", "<sib5> := :square<u64> | :other2", "<sib6> := :dot | :other3"]
def enum_lit(v): return ":" + v["tag"] + ("(" + u(v["e"][0]) + ")" if v["e"] else "")

def fn_header(fam, form, name, out="u64"):
    inp = {"scalar": "inp<u64>", "arr": "inp<[u64]>", "enum": "inp<shape>"}.get(fam)
    if fam == "pair": inp = "inp<u64>, inq<u64>" if form == "fn" else "inp<(u64,u64)>"
    return f"{name}({inp}) => <{out}>"

def fn_define(header, arms, name, out="u64"):
    lines = [header]
    for a in arms:
        lines.append(f"  | {r_pat(a['pat'])} => {r_expr(a['body'], name, out)}")
    return "\n".join(lines) + "."

def match_stmt(res, src, arms):
    lines = [f"{res} := {src}?"]
    for a in arms:
        g = r_guard(a["guard"])
        lines.append(f"  | {r_pat(a['pat'])}" + (f", {g}" if g else "") + f" => {r_expr(a['body'], 'f')}")
    return "\n".join(lines) + "."

def call_text(cs, name, val, k):
    """call presenting value val to the definition (k = index of the value, for enum variables)"""
    if cs["fam"] == "pair" and cs["form"] == "fn": return f"{name}({u(val['e'][0])}, {u(val['e'][1])})"
    if cs["fam"] == "enum": return f"{name}(e{k})"
    return f"{name}({r_val(val)})"

# ---------------------------------------------------------------- trace lines -> events
_sc = re.compile(r"^u64\(@[0-9a-f]+:(\d+)\)$")
_tp = re.compile(r"^tuple\(@[0-9a-f]+; len=(\d+); \[(.*)\]\)$")
OPQ = {"t": "opq", "n": 0, "e": [], "tag": ""}

def small(n): return -(1 << 30) < n < (1 << 30)

def obs_value(txt):
    txt = txt.strip()
    m = _sc.match(txt)
    if m and small(int(m.group(1))): return {"t": "n", "n": int(m.group(1)), "e": [], "tag": ""}
    m = _tp.match(txt)
    if m:
        parts = split_top(m.group(2))
        els = [_sc.match(p.strip()) for p in parts]
        if len(parts) == int(m.group(1)) and all(els) and all(small(int(e.group(1))) for e in els):
            return {"t": "tup", "n": 0, "e": [int(e.group(1)) for e in els], "tag": ""}
    return dict(OPQ)

def split_top(s):
    """split an argument summary list at top-level ", " (a matrix kind such as [u64]:1,3 contains a bare comma)"""
    out = []; depth = 0; cur = ""
    for i, ch in enumerate(s):
        if ch in "([": depth += 1
        if ch in ")]": depth -= 1
        if ch == "," and depth <= 0 and s[i + 1:i + 2] == " ":
            out.append(cur); cur = ""
        else: cur += ch
    if cur.strip(): out.append(cur)
    return out

_enter = re.compile(r"^\[trace\]\[fn\] enter ([\w\-/]+)\((.*)\)$")
_exit = re.compile(r"^\[trace\]\[fn\] exit  ([\w\-/]+) => (.*)$")
_test = re.compile(r"^\[trace\]\[match\] arm\[(\d+)\] test pattern=.* args=\[(.*)\] (✓|X)$")
_tail = re.compile(r"^\[trace\]\[match\] arm\[(\d+)\] tail-call ")
_outv = re.compile(r"^\[trace\]\[match\] arm\[(\d+)\] out  value=(.*) kind=")
_targ = re.compile(r"^#\d+=(.*) :[^ ]+$")

def to_events(lines, errored):
    """interpreter trace lines of one call statement -> event dicts; None if a line cannot be understood"""
    evs = []
    for ln in lines:
        m = _enter.match(ln)
        if m:
            evs.append({"ev": "Enter", "a": [obs_value(x) for x in split_top(m.group(2))]}); continue
        m = _test.match(ln)
        if m:
            args = []
            for part in re.split(r", (?=#\d+=)", m.group(2)):
                mm = _targ.match(part.strip())
                args.append(obs_value(mm.group(1)) if mm else dict(OPQ))
            evs.append({"ev": "Test", "arm": int(m.group(1)), "ok": m.group(3) == "✓", "a": args}); continue
        m = _tail.match(ln)
        if m:
            evs.append({"ev": "Tail", "arm": int(m.group(1))}); continue
        m = _outv.match(ln)
        if m:
            v = obs_value(m.group(2))
            if v["t"] != "n": return None
            evs.append({"ev": "Out", "arm": int(m.group(1)), "v": v["n"]}); continue
        m = _exit.match(ln)
        if m:
            v = obs_value(m.group(2))
            if v["t"] != "n": return None
            evs.append({"ev": "Exit", "v": v["n"]}); continue
        if ln.startswith("[trace][fn] fail"): continue          # the error itself is the Err event below
        if ln.startswith("[trace][arm]") or ln.startswith("[trace][fn] native") or ln.startswith("[trace][plan]"): continue
        return None
    if errored: evs.append({"ev": "Err"})
    return evs

def def_record(defn, call, bcast=False, enumfn=False):
    return {"ev": "Def", "nargs": defn["nargs"], "arms": defn["arms"], "params": defn.get("params", []), "call": call, "bcast": bcast,
            "enumfn": enumfn, "variants": ["circle", "square", "dot"] if enumfn else []}

_msg_re = re.compile(r'^<<"MSG", "(.*)">>')
def run_trace(path, tag, timeout=1800):
    """TLC on Trace_C16 with the given ndjson file -> (accepted, first unmatched record or None).
    A failed POSTCONDITION makes TLC exit non-zero (tlc.run raises): the MSG line is then read from the log."""
    logp = os.path.join(OUT, f"tlc_{tag}.log")
    try:
        t = tlc.run("Trace_C16", "Trace_C16.cfg", workers=1, env={"TRACE": path}, deque=True, xss="1g", xmx="2g",
                    timeout=timeout, tag=tag)
        if t.ok and not t.errors and not t.msgs: return True, None
    except tlc.TlcError as e:
        if "timeout" in str(e): raise
    for line in open(logp, errors="replace"):
        m = _msg_re.match(line.rstrip("\n"))
        if m: return False, json.loads(tlc._unescape(m.group(1)))
    raise tlc.TlcError(f"Trace_C16 gave no verdict, see {logp}: " + open(logp, errors="replace").read()[-1500:])

def validate_traces(runs, tag, nproc=4):
    """runs: list of (def_record, events, meta). Validates them with Trace_C16 in nproc parallel TLC processes.
    Returns (events_validated, runs_validated, rejections[list of (meta, message)])."""
    if not runs: return 0, 0, []
    chunks = [runs[i::nproc] for i in range(nproc)]
    chunks = [c for c in chunks if c]
    results = [None] * len(chunks)
    errs = []
    def work(ci):
        try: work1(ci)
        except Exception as ex: errs.append(ex)
    def work1(ci):
        chunk = chunks[ci]
        path = os.path.join(OUT, f"trace_C16_{tag}_{ci}.ndjson")
        index = []                                    # event number (1-based) -> run index
        with open(path, "w") as fh:
            for ri, (d, evs, meta) in enumerate(chunk):
                for e in [d] + evs + [{"ev": "Reset"}]:
                    fh.write(json.dumps(e, ensure_ascii=True) + "\n"); index.append(ri)
        done = 0; rej = []; start = 0
        # on a rejection: report the run, drop it and continue with the rest of the chunk
        while start < len(chunk):
            if start > 0:
                with open(path, "w") as fh:
                    index = []
                    for ri, (d, evs, meta) in enumerate(chunk[start:], start):
                        for e in [d] + evs + [{"ev": "Reset"}]:
                            fh.write(json.dumps(e, ensure_ascii=True) + "\n"); index.append(ri)
            accepted, msg = run_trace(path, f"Trace_C16_{tag}_{ci}")
            if not accepted:
                pos = msg["unmatched"]
                ri = index[pos - 1]
                first = next(i for i, r in enumerate(index) if r == ri)
                done += sum(len(chunk[j][1]) + 2 for j in range(start, ri))
                rej.append((chunk[ri][2], f"event {pos - first} of the run is not a step of the model: {json.dumps(msg['ev'])[:300]}"))
                start = ri + 1
                if len(rej) > 25: break
                continue
            done += len(index); start = len(chunk)
        results[ci] = (done, rej)
    ths = [threading.Thread(target=work, args=(i,)) for i in range(len(chunks))]
    for th in ths: th.start()
    for th in ths: th.join()
    if errs or any(r is None for r in results):
        raise tlc.TlcError(f"Trace_C16: a validation process failed: {errs[:1]}")
    rej = [x for r in results for x in r[1]]
    return sum(r[0] for r in results), len(runs) - len(rej), rej

def negative_controls(runs):
    """corrupt one event of accepted runs; TLC must reject each corrupted trace (the 4 TLC runs go in parallel)"""
    jobs = []
    # (a) swap which arm matched: a run whose arm 1 (or later) succeeded now claims that arm 0 did
    for d, evs, meta in runs:
        ok_ix = [i for i, e in enumerate(evs) if e["ev"] == "Test" and e["ok"] and e["arm"] >= 1]
        if ok_ix and sum(1 for e in evs if e["ev"] == "Enter") == 1:
            i = ok_ix[0]
            bad = [dict(e) for e in evs]
            first = next(j for j, e in enumerate(bad) if e["ev"] == "Test")
            bad[first]["ok"] = True                      # arm 0 "matched"
            bad = bad[:first + 1] + [dict(e, arm=0) if e["ev"] in ("Out", "Tail") else e for e in bad[i + 1:]]
            jobs.append(("swaparm", d, bad)); break
    # (b) a later arm is tested after a success
    for d, evs, meta in runs:
        ok_ix = [i for i, e in enumerate(evs) if e["ev"] == "Test" and e["ok"]]
        if ok_ix and len(d["arms"]) > evs[ok_ix[0]]["arm"] + 1:
            i = ok_ix[0]
            extra = dict(evs[i]); extra["arm"] += 1; extra["ok"] = False
            jobs.append(("latertest", d, evs[:i + 1] + [extra] + evs[i + 1:])); break
    # (c) wrong body value (as if the variable were bound to another component)
    for d, evs, meta in runs:
        oi = [i for i, e in enumerate(evs) if e["ev"] == "Out"]
        if oi:
            bad = [dict(e) for e in evs]
            bad[oi[0]]["v"] += 1
            for e in bad[oi[0]:]:
                if e["ev"] == "Exit": e["v"] += 1; break
            jobs.append(("wrongvalue", d, bad)); break
    # (d) an arm is skipped: tests do not start at index 0
    for d, evs, meta in runs:
        ti = [i for i, e in enumerate(evs) if e["ev"] == "Test"]
        if len(ti) >= 2 and not evs[ti[0]]["ok"]:
            jobs.append(("skiparm", d, evs[:ti[0]] + evs[ti[0] + 1:])); break
    res = {}
    def one(name, d, evs):
        path = os.path.join(OUT, f"trace_C16_neg_{name}.ndjson")
        with open(path, "w") as fh:
            for e in [d] + evs + [{"ev": "Reset"}]: fh.write(json.dumps(e) + "\n")
        try:
            accepted, msg = run_trace(path, f"Trace_C16_neg_{name}", timeout=600)
            res[name] = not accepted
        except Exception as ex:
            res[name] = ex
    ths = [threading.Thread(target=one, args=j) for j in jobs]
    for th in ths: th.start()
    for th in ths: th.join()
    for v in res.values():
        if isinstance(v, Exception): raise v
    return sum(1 for v in res.values() if v is True), len(jobs)

# ---------------------------------------------------------------- the check
def run(rep, tier, seed):
    rnd = random.Random(seed)
    cfg = "MC_C16_quick.cfg" if tier == "quick" else "MC_C16_thorough.cfg"
    t = tlc.run("MC_C16", cfg, workers=16, timeout=3000, xss="1g")
    if t.violations or not t.ok:
        rep.fail("C16/model", "TLC reported a violation of a model-level law: " + "; ".join(t.errors[:3]), {"log": t.log})
    cases = t.cases
    cases.sort(key=lambda c: json.dumps([c["kind"], c.get("fam"), c.get("form"), c.get("ids"), c.get("name"), c.get("args")]))
    log(f"[C16] TLC: {t.generated} states, {len(cases)} cases in {t.wall:.1f}s")

    reqs = []; meta = []
    for cs in cases:
        if cs["kind"] == "list":
            fam, form, arms = cs["fam"], cs["form"], cs["arms"]
            stmts = []; tags = []
            if fam == "enum":
                stmts.append(ENUM_DEF); tags.append(("setup",))
                for k, row in enumerate(cs["rows"]):
                    stmts.append(f"e{k}<shape> := {enum_lit(row['val'])}"); tags.append(("setup",))
                if len(reqs) % 2 == 1:
                    # every other session also defines (after the values exist) SIBLING enums that share variant names with `shape`:
                    # which enum a value belongs to is fixed by the value, never by what the arms of a match happen to name
                    for sd in ENUM_SIBLINGS: stmts.append(sd); tags.append(("setup",))
            if form == "match":
                stmts.append("inq := 7u64"); tags.append(("setup",))      # the outer variable the pair arms 13/14 read / shadow
                for k, row in enumerate(cs["rows"]):
                    src = f"e{k}" if fam == "enum" else f"s{k}"
                    if fam != "enum":
                        stmts.append(f"{src} := {r_val(row['val'])}"); tags.append(("setup",))
                    stmts.append(match_stmt(f"r{k}", src, arms)); tags.append(("row", k))
            else:
                stmts.append(fn_define(fn_header(fam, form, "f"), arms, "f")); tags.append(("setup",))
                for k, row in enumerate(cs["rows"]):
                    stmts.append(call_text(cs, "f", row["val"], k)); tags.append(("row", k))
                stmts.append("f()"); tags.append(("arity", 0))
                stmts.append("f(0u64, 1u64, 2u64)"); tags.append(("arity", 1))
                if cs["bcast"]:
                    els = [0, 1, 2, 3]
                    stmts.append("f([0u64 1u64 2u64 3u64])"); tags.append(("bcast", (1, 4), els))
                    stmts.append("f([0u64 1u64 2u64 3u64]')"); tags.append(("bcast", (4, 1), els))
                    stmts.append("f([0u64 2u64; 1u64 3u64])"); tags.append(("bcast", (2, 2), els))
        elif cs["kind"] == "rec":
            name = FNAME[cs["name"]]
            d = cs["def"]
            inp = ", ".join(f"{pn}<u64>" for pn in d["params"]) if "params" in d else ", ".join(f"in{i}<u64>" for i in range(d["nargs"]))
            stmts = [fn_define(f"{name}({inp}) => <u64>", d["arms"], name), f"{name}(" + ", ".join(u(x) for x in cs["call"]) + ")"]
            tags = [("setup",), ("rec",)]
        else:
            d = cs["def"]
            stmts = [fn_define(fn_header("scalar", "fn", "isz", "bool"), d["arms"], "isz", "bool"),
                     "isz(" + u(cs["elems"][0]) + ")", "isz([" + " ".join(u(x) for x in cs["elems"]) + "])"]
            tags = [("setup",), ("boolscalar",), ("boolbcast",)]
        big = cs["kind"] == "rec" and ((cs["name"] == "count" and cs["args"][0] > 1000) or (cs["name"] == "fib" and cs["args"][0] > 12))
        # history independence (MechMatch: the result is a FUNCTION of definition and arguments): every call / match once more in the
        # same interpreter - after successful calls, after calls no arm matched, after arity errors - must behave as the first time
        if not big:
            n0 = len(stmts)
            for i in range(n0):
                if tags[i][0] == "setup": continue
                again = re.sub(r"^r(\d+) :=", r"rr\1 :=", stmts[i])
                stmts.append(again); tags.append(("again", i))
        reqs.append({"id": len(reqs), "mode": "session", "stmts": stmts, "opts": {"trace": cs.get("form") != "match" and not big}})
        meta.append((cs, tags))
    nst = sum(len(r["stmts"]) for r in reqs)
    log(f"[C16] replaying {len(reqs)} programs ({nst} statements) on the interpreter")
    t0 = time.time()
    outs = execpool.run_requests(reqs, nworkers=16, timeout=300)
    log(f"[C16] interpreter replay took {time.time() - t0:.1f}s")

    tally = collections.Counter(); runs = []; ncalls = 0
    def u64v(n): return ('num', 'u64', Fraction(n))
    for req, (resp, oc), (cs, tags) in zip(reqs, outs, meta):
        base = f"C16/{cs.get('form', cs['kind'])}/{cs.get('fam', cs.get('name', 'bool'))}"
        replay = {"stmts": req["stmts"], "case": {k: v for k, v in cs.items() if k not in ("rows",)}}
        if oc != "ok" or "steps" not in (resp or {}):
            rep.fail(base + "/host-" + oc, f"{req['stmts'][:3]}.. -> interpreter process {oc}", replay); continue
        steps = resp["steps"]
        setup_bad = False
        for stx, st, tg in zip(req["stmts"], steps, tags):
            if st.get("p") != "ok" or not (st.get("shape") and st["shape"][0].startswith("MechCode")):
                rep.fail(base + "/noparse", f"{stx!r} did not parse as code: {st.get('p')} {st.get('shape')}", replay); setup_bad = True; break
            if tg[0] == "setup" and st.get("r") != "ok":
                rep.fail(base + "/setup", f"{stx!r} failed: {st.get('class')} {st.get('msg')}", replay); setup_bad = True; break
        if setup_bad: continue
        outcome = {}
        for si, (stx, st, tg) in enumerate(zip(req["stmts"], steps, tags)):
            if tg[0] == "setup": continue
            ok = st.get("r") == "ok"
            got = absval.absval(st["v"]) if ok else None
            shown = absval.short(got) if ok else f"error {st.get('class')}"
            rp = dict(replay, stmt=stx)
            ncalls += 1
            if tg[0] != "again": outcome[si] = (ok, got)
            else:
                f_ok, f_got = outcome[tg[1]]
                if (f_ok, f_got) != (ok, got):
                    rep.fail(base + "/history-dependent", f"{stx!r}: the first evaluation gave {absval.short(f_got) if f_ok else 'an error'}, the same call later in the same interpreter gives {shown}", rp)
                else: tally["repeat_same"] += 1
                continue
            if tg[0] == "row":
                row = cs["rows"][tg[1]]; kind = row["kind"]
                sig = f"{base}/sel={row['selk']}"
                if kind == "val" or (kind == "freeval" and ok):
                    if not ok:
                        if cs["form"] == "match" and row["gunb"] and st.get("class") == "UndefinedVariable":
                            rep.fail("C16/match/guard-evaluated-on-unmatched-arm", f"{stx!r} on {r_val(row['val']) if row['val']['t'] != 'enum' else enum_lit(row['val'])}: error UndefinedVariable, expected {row['v']} from arm {row['arm']}", rp)
                        else:
                            rep.fail(sig + "/error", f"{stx!r}: {shown}, expected {row['v']} from arm {row['arm']}", rp)
                    elif got != u64v(row["v"]):
                        rep.fail(sig + "/wrong-value", f"{stx!r} = {shown}, expected {row['v']} from arm {row['arm']}", rp)
                    else: tally["exact"] += 1
                elif kind in ("noarm", "reject"):
                    if ok: rep.fail(f"{base}/{'no-arm' if kind == 'noarm' else 'non-exhaustive'}-accepted", f"{stx!r} = {shown}, expected an error ({kind})", rp)
                    else: tally["reject"] += 1
                else: tally["free"] += 1
                # impl -> spec: the events of this call
                if cs["form"] != "match":
                    evs = to_events(st.get("trace", []), not ok)
                    if evs is None:
                        rep.fail(base + "/trace-unreadable", f"{stx!r}: a trace line could not be interpreted: {st.get('trace', [])[:4]}", rp)
                    else:
                        val = row["val"]
                        call = [{"t": "n", "n": x, "e": [], "tag": ""} for x in val["e"]] if cs["nargs"] == 2 else [val]
                        d = def_record({"nargs": cs["nargs"], "arms": cs["arms"]}, call, enumfn=cs["fam"] == "enum")
                        runs.append((d, evs, {"sig": sig + "/trace", "stmts": req["stmts"], "stmt": stx}))
            elif tg[0] == "arity":
                if ok: rep.fail(f"{base}/arity-accepted", f"{stx!r} = {shown} although the function takes {cs['nargs']} argument(s)", rp)
                else: tally["reject"] += 1
            elif tg[0] == "bcast":
                (r, c), els = tg[1], tg[2]
                exp = cs["bcast"]
                if any(e["kind"] != "val" for e in exp):
                    if ok: rep.fail(f"{base}/bcast/no-arm-accepted", f"{stx!r} = {shown} although an element matches no arm", rp)
                    else: tally["reject"] += 1
                elif not ok:
                    rep.fail(f"{base}/bcast/error", f"{stx!r}: {shown}, expected the matrix of the results", rp)
                elif got[0] != 'mat' or (got[2], got[3]) != (r, c) or list(got[4]) != [u64v(e["v"]) for e in exp]:
                    rep.fail(f"{base}/bcast/wrong-value", f"{stx!r} = {shown}, expected {[e['v'] for e in exp]} as {r}x{c}", rp)
                else: tally["exact"] += 1
                if ok or not any(e["kind"] != "val" for e in exp):
                    evs = to_events(st.get("trace", []), not ok)
                    if evs is not None and tg[1] == (1, 4):
                        d = def_record({"nargs": 1, "arms": cs["arms"]}, [{"t": "arr", "n": 0, "e": els, "tag": ""}], bcast=True)
                        runs.append((d, evs, {"sig": base + "/bcast/trace", "stmts": req["stmts"], "stmt": stx}))
            elif tg[0] == "rec":
                sig = f"C16/rec/{cs['name']}"
                if not ok: rep.fail(sig + "/error", f"{stx!r}: {shown}, the recurrence defines {cs['v']}", rp)
                elif got != u64v(cs["v"]): rep.fail(sig + "/wrong-value", f"{stx!r} = {shown}, the recurrence defines {cs['v']}", rp)
                else: tally["exact"] += 1
                if req["opts"]["trace"]:
                    evs = to_events(st.get("trace", []), not ok)
                    if evs is None: rep.fail(sig + "/trace-unreadable", f"{stx!r}: a trace line could not be interpreted", rp)
                    else:
                        call = [{"t": "n", "n": x, "e": [], "tag": ""} for x in cs["call"]]
                        runs.append((def_record(cs["def"], call), evs, {"sig": sig + "/trace", "stmts": req["stmts"], "stmt": stx, "rec": True}))
            elif tg[0] == "boolscalar":
                want = ('bool', bool(cs["res"][0]["v"]))
                if not ok or got != want: rep.fail("C16/bcast/bool/scalar", f"{stx!r}: {shown}, expected {want}", rp)
                else: tally["exact"] += 1
            elif tg[0] == "boolbcast":
                want = [('bool', bool(e["v"])) for e in cs["res"]]
                if not ok: rep.fail("C16/bcast/other-result-kind/error", f"{stx!r}: {shown}, expected the matrix {[w[1] for w in want]} of the function applied to each element", rp)
                elif got[0] != 'mat' or list(got[4]) != want: rep.fail("C16/bcast/other-result-kind/wrong-value", f"{stx!r} = {shown}, expected {[w[1] for w in want]}", rp)
                else: tally["exact"] += 1

    # ------------------------------------------------ impl -> spec: trace validation
    failed_stmts = {(tuple(f.replay.get("stmts", [])), f.replay.get("stmt")) for f in rep.failures}
    clean = [r for r in runs if (tuple(r[2]["stmts"]), r[2]["stmt"]) not in failed_stmts]   # failing calls are already reported
    recs = [r for r in clean if r[2].get("rec")]
    others = [r for r in clean if not r[2].get("rec")]
    if tier == "quick":
        rnd.shuffle(others); others = others[:6000]
        recs = [r for r in recs if len(r[1]) <= 400]
    sel = others + recs
    t0 = time.time()
    neg = {}
    def negjob():
        try: neg["r"] = negative_controls([r for r in sel if not r[2].get("rec")][:400])
        except Exception as ex: neg["e"] = ex
    nth = threading.Thread(target=negjob); nth.start()
    nev, nruns, rej = validate_traces(sel, tier, nproc=4 if tier == "quick" else 14)
    nth.join()
    if "e" in neg: raise neg["e"]
    passed, tried = neg["r"]
    for m, msg in rej:
        rep.fail(m["sig"], f"{m['stmt']!r}: {msg}", {"stmts": m["stmts"], "stmt": m["stmt"]})
    log(f"[C16] trace validation: {nruns} runs / {nev} events accepted by Trace_C16, {len(rej)} rejected")
    log(f"[C16] trace validation and negative controls took {time.time() - t0:.1f}s")
    log(f"[C16] negative controls: {passed}/{tried} corrupted traces rejected")
    if tried == 0 or passed != tried:
        raise tlc.TlcError(f"C16 negative control failed: {passed}/{tried} corrupted traces were rejected by Trace_C16")

    lists = [c for c in cases if c["kind"] == "list"]
    rep.cov.update({"states": t.generated, "transitions": max(t.generated - 1, 1), "distinct_states": t.distinct,
                    "traces_validated_against_impl": ncalls + nruns, "cases_emitted": len(cases), "programs_replayed": len(reqs),
                    "calls_replayed": ncalls, "arm_lists": len(lists),
                    "arm_lists_by_form": dict(collections.Counter(f"{c['fam']}/{c['form']}" for c in lists)),
                    "recurrence_cases": sum(1 for c in cases if c["kind"] == "rec"),
                    "exact_matched": tally["exact"], "rejects_matched": tally["reject"], "free_outcomes": tally["free"],
                    "trace_runs_validated": nruns, "trace_events_validated": nev, "trace_runs_rejected": len(rej),
                    "negative_controls_passed": passed, "negative_controls_tried": tried, "exhaustive": True,
                    "rule": "every list of distinct arms (length <= MaxLen, every order) of the scalar / 2-tuple / array / enum-variant pattern families, "
                            "as a function definition and as a match expression (with guards), evaluated on every value of the family's domain; plus wrong arity, "
                            "broadcast over matrices, factorial/power/fibonacci/gcd/countdown over their modelled domains (countdown to depth 50000); "
                            "function-call traces validated event by event by Trace_C16"})
    rep.add_samples([{"stmts": r["stmts"][:6], "fam": m[0].get("fam", m[0].get("name")), "form": m[0].get("form", m[0]["kind"]),
                      "expect": [(row["kind"], row["v"], row["arm"]) for row in m[0].get("rows", [])][:9] or m[0].get("v")}
                     for r, m in zip(reqs, meta)])
    rep.assumptions += ["TLC 2 (tla2tools)", "harness projection of values", "renderer in areas/c16.py (patterns, guards, bodies -> Mech text)",
                        "trace line parser in areas/c16.py (matrix and enum arguments are opaque in the interpreter's trace and compared by position only)",
                        "match expressions emit no arm-test events on the pinned tree: only function calls are trace-validated"]
