"""C14 — sets: MechSet enumerated by TLC (written sequences, pairs of them, comprehension shapes over abstract
element ids); every case is rendered for concrete element kinds (several spellings per element) and run on the
real interpreter.  Compared: the stored elements as a set, pairwise inequality of stored elements, element kind,
reported size, relation/membership results."""
import re, collections
from fractions import Fraction
import tlc, execpool, absval
from core import log

PROP = "C14"

# ------------------------------------------------------------------------------------------ element kinds
# TupleOf / nested-set tables mirror spec/MC_C14.tla (TupleOf) for ids 1..6
TUPLE_OF = [(1, 2), (2, 1), (2, 3), (3, 3), (3, 1), (1, 1)]
MIX_OF = [(1,), (1, 2), (3,), (1, 2, 3), (2, 3), (4,)]      # nested sets of DIFFERENT cardinality
PAIR_OF = [(1, 2), (1, 3), (2, 3), (1, 4), (2, 4), (3, 4)]
STRINGS = ["", "a", "b", "ab", "a b", "B"]

def num(kind, f): return ('num', kind, Fraction(f))

class Kind:
    """concrete element kind: value(i) canonical value of id i, spell(i) list of source spellings (all equal by ==)"""
    def __init__(self, name, el, n=6, ord_=False, num_=False, eq=False, mat=None, flagged=None, affine=None, union_built=False):
        self.name = name; self.el = el; self.n = n; self.ord = ord_; self.num = num_; self.eq = eq
        self.union_built = union_built   # elements of different cardinality: a literal rejects them, the set is built by unions of singletons;
                                         # kind strings are compared with the cardinalities erased
        self.mat = mat            # None | 'lit' (typed literals in a matrix literal) | 'conv' (x<[K]:r,c> := f64 literal)
        self.flagged = flagged    # name of the known equal-but-kept-twice family this kind can exhibit
        self.affine = affine      # (a0, b0): value(i) = a0 + b0*(i-1) for numeric kinds

def _fl(x):
    x = Fraction(x)
    return str(x.numerator) if x.denominator == 1 else repr(float(x))

def kind_value(k, i):
    n = k.name
    if k.affine:
        return num(k.el, k.affine[0] + k.affine[1] * (i - 1))
    if n == "string": return ('str', STRINGS[i - 1])
    if n == "bool": return ('bool', i == 1)
    if n == "tup": return ('tup', tuple(num('f64', p) for p in TUPLE_OF[i - 1]))
    if n == "tupus":
        return ('tup', (num('u8', [1, 2, 1, 2, 3, 3][i - 1]), ('str', "aabbab"[i - 1])))
    if n in ("set", "setr"): return ('set', frozenset(num('f64', p) for p in PAIR_OF[i - 1]))
    if n == "setmix": return ('set', frozenset(num('f64', p) for p in MIX_OF[i - 1]))
    raise ValueError(n)

def kind_spell(k, i):
    n = k.name
    if n in ("f64", "f64z"):
        v = k.affine[0] + k.affine[1] * (i - 1)
        if n == "f64z" and v == 0: return ["0.0", "-0.0"]
        s = _fl(v)
        return [s, s + "0" if "." in s else s + ".0"]
    if n == "f32":
        v = k.affine[0] + k.affine[1] * (i - 1)
        return [_fl(v) + "<f32>"]
    if n in ("u8", "u64"):
        return [f"{i}u8", f"{i}<u8>", f"0x{i}<u8>"] if n == "u8" else [f"{i}u64", f"{i}<u64>"]
    if n in ("i64", "i8"):
        v = int(k.affine[0] + k.affine[1] * (i - 1))
        if n == "i64" and v > 0: return [f"{v}<i64>", f"0x{v:x}"]
        return [f"{v}<{n}>"]
    if n == "r64":
        f = Fraction(i, 2)
        return [f"{f.numerator * m}/{f.denominator * m}" for m in (1, 2, 3)]
    if n == "string": return ['"' + STRINGS[i - 1] + '"']
    if n == "bool": return ["true" if i == 1 else "false"]
    if n == "tup":
        p, q = TUPLE_OF[i - 1]
        return [f"({p},{q})", f"({p}.0, {q}.0)"]
    if n == "tupus":
        a = [1, 2, 1, 2, 3, 3][i - 1]; s = "aabbab"[i - 1]
        return [f'({a}u8,"{s}")', f'({a}<u8>, "{s}")']
    if n == "set":
        p, q = PAIR_OF[i - 1]
        return [f"{{{p},{q}}}", f"{{{p},{q},{p}}}", f"{{{p}.0, {q}}}"]     # same insertion order, repeats inside
    if n == "setmix":
        m = MIX_OF[i - 1]
        return ["{" + ",".join(str(p) for p in m) + "}", "{" + ", ".join(f"{p}.0" for p in m) + "}"]
    if n == "setr":
        p, q = PAIR_OF[i - 1]
        return [f"{{{p},{q}}}", f"{{{q},{p}}}"]                            # the same set written in the other order
    raise ValueError(n)

KINDS = {k.name: k for k in [
    Kind("f64", "f64", ord_=True, num_=True, eq=True, mat='lit', affine=(Fraction(-3, 2), Fraction(3, 2))),
    Kind("f64z", "f64", ord_=True, num_=True, eq=True, mat='lit', affine=(Fraction(-3, 2), Fraction(3, 2)), flagged="f64:-0.0"),
    Kind("u8", "u8", ord_=True, num_=True, eq=True, mat='lit', affine=(1, 1)),
    Kind("i64", "i64", ord_=True, num_=True, eq=True, mat='conv', affine=(-3, 2)),
    Kind("r64", "r64", ord_=True, num_=True, eq=True, mat='lit', affine=(Fraction(1, 2), Fraction(1, 2))),
    Kind("string", "string", eq=True, mat='lit'),
    Kind("bool", "bool", n=2, eq=True, mat='lit'),
    Kind("tup", "(f64,f64)"),
    Kind("tupus", "(u8,string)"),
    Kind("set", "{f64}:2"),
    Kind("setr", "{f64}:2", flagged="set:order"),
    Kind("setmix", "{f64}", union_built=True),
    Kind("u64", "u64", ord_=True, num_=True, eq=True, mat='lit', affine=(1, 1)),
    Kind("i8", "i8", ord_=True, num_=True, eq=True, mat='conv', affine=(-3, 2)),
    Kind("f32", "f32", ord_=True, num_=True, eq=True, mat='lit', affine=(Fraction(-3, 2), Fraction(3, 2))),
]}
QUICK_KINDS = ["f64", "f64z", "u8", "i64", "r64", "string", "bool", "tup", "tupus", "set", "setr", "setmix"]
THOROUGH_KINDS = QUICK_KINDS + ["u64", "i8", "f32"]

SYM = {"union": "∪", "inter": "∩", "diff": "∖", "sym": "Δ", "sub": "⊆", "sup": "⊇", "psub": "⊊", "psup": "⊋"}
SYM_ALT = {"psub": "⊂", "psup": "⊃"}
WORD = {"union": "set/union", "inter": "set/intersection", "diff": "set/difference", "sym": "set/symmetric-difference",
        "sub": "set/subset", "sup": "set/superset", "psub": "set/proper-subset", "psup": "set/proper-superset",
        "in": "set/element-of", "notin": "set/not-element-of"}
# Word forms that must be accepted.  set/proper-subset is registered under the unparsable name
# "set/proper_subset" (machines/set/src/relations/proper_subset.rs) and cannot be called: acceptance free.
WORD_FREE = {"psub"}
SETOPS = ["union", "inter", "diff", "sym"]
RELOPS = ["sub", "sup", "psub", "psup"]

# ------------------------------------------------------------------------------------------ observed values
def canon(v):
    """canonical, order-free form in which equal-by-== values are identical"""
    t = v[0]
    if t == 'flt' and v[2] == '-0': return ('num', v[1], Fraction(0))
    if t == 'set': return ('set', frozenset(canon(e) for e in v[3]))
    if t == 'tup': return ('tup', tuple(canon(e) for e in v[1]))
    return v

def kind_of(v):
    t = v[0]
    if t in ('num', 'flt'): return v[1]
    if t == 'str': return "string"
    if t == 'bool': return "bool"
    if t == 'tup': return "(" + ",".join(kind_of(e) for e in v[1]) + ")"
    if t == 'set': return "{" + v[1] + "}" + (f":{v[2]}" if v[2] else "")
    return t

def _erase_sizes(k): return re.sub(r":\d+", "", k or "")

def check_set(ev, want, elkind, loose=False):
    """-> None | (failure class, text).  want: collection of canonical values; elkind: expected element kind string;
    loose: cardinalities inside kind strings are not compared (sets of sets of different cardinality)"""
    got = absval.absval(ev["v"])
    if loose:
        r = check_set_loose(got, want, elkind, ev)
        return r
    if got[0] != 'set':
        return ("not-a-set", f"is {absval.short(got)}")
    els = got[3]
    cs = [canon(e) for e in els]
    if len(set(cs)) != len(cs):
        return ("duplicates", f"stores two equal elements: {absval.short(got)}")
    if set(cs) != set(want):
        return ("elements", f"= {absval.short(got)}, expected the {len(set(want))} element(s) {sorted_short(want)}")
    if got[2] != len(els):
        return ("size", f"reports size {got[2]} but holds {len(els)} element(s)")
    if els:
        for e in els:
            if kind_of(e) != got[1]:
                return ("element-kind", f"declares element kind {got[1]} but holds {absval.short(e)} of kind {kind_of(e)}")
        if got[1] != elkind:
            return ("declared-kind", f"declares element kind {got[1]}, expected {elkind}")
        if ev.get("k") != f"{{{elkind}}}:{len(els)}":
            return ("kind-string", f"has kind {ev.get('k')}, expected {{{elkind}}}:{len(els)}")
    return None

def check_set_loose(got, want, elkind, ev):
    if got[0] != 'set': return ("not-a-set", f"is {absval.short(got)}")
    els = got[3]; cs = [canon(e) for e in els]
    if len(set(cs)) != len(cs): return ("duplicates", f"stores two equal elements: {absval.short(got)}")
    if set(cs) != set(want): return ("elements", f"= {absval.short(got)}, expected the {len(set(want))} element(s) {sorted_short(want)}")
    if got[2] != len(els): return ("size", f"reports size {got[2]} but holds {len(els)} element(s)")
    if els:
        for e in els:
            if _erase_sizes(kind_of(e)) != _erase_sizes(got[1]):
                return ("element-kind", f"declares element kind {got[1]} but holds {absval.short(e)} of kind {kind_of(e)}")
        if _erase_sizes(got[1]) != _erase_sizes(elkind): return ("declared-kind", f"declares element kind {got[1]}, expected {elkind}")
    return None

def short_c(v):
    t = v[0]
    if t == 'set' and len(v) == 2: return "{" + ", ".join(sorted(short_c(e) for e in v[1])) + "}"
    if t == 'tup': return "(" + ", ".join(short_c(e) for e in v[1]) + ")"
    return absval.short(v)

def sorted_short(vals): return "{" + ", ".join(sorted(short_c(v) for v in set(vals))) + "}"

# ------------------------------------------------------------------------------------------ rendering
class Session:
    """statements of one interpreter session + what to check after each; spellings rotate per occurrence of an id"""
    def __init__(self, kind, case):
        self.k = kind; self.case = case; self.occ = collections.Counter()
        self.stmts = []; self.checks = []; self.vardeps = {}

    def lit(self, i, deps):
        sp = kind_spell(self.k, i)
        j = self.occ[i] % len(sp); self.occ[i] += 1
        deps.add((i, j))
        return sp[j]

    def add(self, text, check, label, deps):
        self.stmts.append(text); self.checks.append((check, label, frozenset(deps)))

    def set_text(self, seq, deps):
        """source text of the set written as the sequence seq (a literal; for union-built kinds a chain of unions of singletons)"""
        if self.k.union_built and len(seq) > 1:
            return "(" + " ∪ ".join("{" + self.lit(i, deps) + "}" for i in seq) + ")"
        return "{" + ", ".join(self.lit(i, deps) for i in seq) + "}"

    def define_literal(self, name, seq, model_set):
        """model_set: the set the written sequence denotes according to the TLA+ model (FromWritten)"""
        deps = set()
        text = f"{name} := " + self.set_text(seq, deps)
        self.vardeps[name] = deps
        want = [kind_value(self.k, i) for i in model_set]
        self.add(text, ("set", want, self.k.el), "literal", deps)

    def flagged(self, deps):
        if not self.k.flagged: return False
        c = collections.Counter(i for i, _ in deps)
        return any(n > 1 for n in c.values())

def comp_value(k, dom, y, item):
    if dom == "tp":
        if y["k"] == "tup": return ('tup', (num('f64', item[0]), num('f64', item[1])))
        return num('f64', item[0])
    if y["k"] == "tup": return ('tup', (kind_value(k, item[0]), kind_value(k, item[1])))
    if y["k"] == "sum":
        a0, b0 = k.affine
        return num(k.el, 2 * Fraction(a0) + Fraction(b0) * (item[0] - 2))
    return kind_value(k, item[0])

def comp_elkind(k, dom, y):
    base = "f64" if dom == "tp" else k.el
    return f"({base},{base})" if y["k"] == "tup" else base

def comp_applicable(k, sh):
    need = sh["need"]
    if sh["dom"] == "tp": return k.name == "tup"
    if need == "eq" and not k.eq: return False
    if need == "ord" and not k.ord: return False
    if need == "num" and not k.num: return False
    consts = [q["f"]["rc"] for q in sh["quals"] if q["q"] == "flt" and not q["f"]["isvar"]]
    if sh["y"]["k"] == "const": consts.append(sh["y"]["c"])
    return all(c <= k.n for c in consts)

def render_comp(sess, sh, srcs):
    """srcs: source name in the model ("A"/"B") -> expression text"""
    deps = set()
    for nm in set(q["n"] for q in sh["quals"] if q["q"] == "gen"):
        deps |= sess.vardeps.get(srcs[nm], set())
    el = sh["dom"] == "el"
    def const(c): return sess.lit(c, deps) if el else str(c)
    quals = []
    for q in sh["quals"]:
        if q["q"] == "gen":
            pat = q["pat"][0] if len(q["pat"]) == 1 else "(" + ", ".join(q["pat"]) + ")"
            quals.append(f"{pat} <- {srcs[q['n']]}")
        else:
            f = q["f"]
            quals.append(f"{f['l']} {f['op']} {f['rv'] if f['isvar'] else const(f['rc'])}")
    y = sh["y"]
    yt = {"var": y["a"], "tup": f"({y['a']}, {y['b']})", "sum": f"{y['a']} + {y['b']}"}.get(y["k"]) or const(y["c"])
    return "{" + yt + " | " + ", ".join(quals) + "}", deps

def matrix_define(k, name, seq, sess, deps, two_rows):
    n = len(seq)
    if k.mat == 'conv':
        cells = [_fl(kind_value(k, i)[2]) for i in seq]
        for i in seq: deps.add((i, 0))
    else:
        cells = [sess.lit(i, deps) for i in seq]
    if two_rows and n % 2 == 0 and n >= 2:
        h = n // 2
        body = " ".join(cells[:h]) + "; " + " ".join(cells[h:]); r, c = 2, h
    else:
        body = " ".join(cells); r, c = 1, n
    if k.mat == 'conv':
        return f"{name}<[{k.el}]:{r},{c}> := [{body}]"
    return f"{name} := [{body}]"

SOURCE_EVERY = 1     # the operand-source dimension is rendered for every SOURCE_EVERY-th case (quick tier: 3)

def build_session(cs, kname, n):
    k = KINDS[kname]
    s = Session(k, cs)
    a, b = cs["a"], cs["b"]
    s.define_literal("A", a, cs["A"])
    A = cs["A"]
    if cs["fam"] == "one":
        s.add("set/size(A)", ("size", cs["sizeA"]), "set/size", s.vardeps["A"])
        for e in range(1, min(cs["u"], k.n) + 1):
            for which, neg in (("in", False), ("notin", True)):
                deps = set(s.vardeps["A"])
                word = (e + n + neg) % 2 == 1
                lit = s.lit(e, deps)
                text = f"{WORD[which]}({lit}, A)" if word else f"{lit} {'∉' if neg else '∈'} A"
                s.add(text, ("bool", cs["mem"][e - 1] != neg), WORD[which] if word else ("∉" if neg else "∈"), deps)
        # operand SOURCE dimension: the element held in a variable, the set written in place (the answer depends on the values only)
        for e in (range(1, min(cs["u"], k.n) + 1) if n % SOURCE_EVERY == 0 else ()):
            deps = set(s.vardeps["A"])
            s.add(f"ev{e} := {s.lit(e, deps)}", ("setup",), "element-variable", deps)
            nested = k.name in ("set", "setr") or k.union_built      # nested braces inside a call parse two orders of magnitude slower
            for fi, (ev, sl) in enumerate(((True, False), (True, True), (False, True))):
                if sl and k.union_built: continue                      # a union chain written in place: 0.5 s per statement
                neg = (e + n + fi) % 2 == 1; word = (e + n // 2 + fi) % 2 == 1 and not (nested and sl)
                d2 = set(deps)
                el = f"ev{e}" if ev else s.lit(e, d2)
                st = s.set_text(a, d2) if sl else "A"
                which = "notin" if neg else "in"
                text = f"{WORD[which]}({el}, {st})" if word else f"{el} {'∉' if neg else '∈'} {st}"
                src = ("elem-var" if ev else "elem-lit") + "," + ("set-lit" if sl else "set-var")
                s.add(text, ("bool", cs["mem"][e - 1] != neg), (WORD[which] if word else ("∉" if neg else "∈")) + "/" + src, d2)
        if k.mat and a:
            deps = set()
            s.add(matrix_define(k, "m", a, s, deps, n % 2 == 0), ("setup",), "matrix", deps)
            s.vardeps["m"] = deps
            want = [kind_value(k, i) for i in A]
            s.add(f"S<{{{k.el}}}> := m", ("set", want, k.el), "matrix-conversion", deps)
            s.add(f"T<{{{k.el}}}> := m'", ("set", want, k.el), "matrix-conversion", deps)
            s.add("{x | x <- m}", ("set", want, k.el), "comp:matrix-generator", deps)
            if kname in ("u8", "u64"):
                # conversion that maps different written numbers to equal elements: i.25, i.5, i.75 truncate to i
                occ = collections.Counter(); cells = []
                for i in a:
                    cells.append(f"{i}.{['25', '5', '75'][occ[i] % 3]}"); occ[i] += 1
                s.add("mf := [" + " ".join(cells) + "]", ("setup",), "matrix", set())
                s.add(f"F<{{{k.el}}}> := mf", ("set", want, k.el), "matrix-conversion-f64", set())
    else:
        s.define_literal("B", b, cs["B"])
        deps = s.vardeps["A"] | s.vardeps["B"]
        for j, op in enumerate(SETOPS + RELOPS):
            word = (n + j) % 2 == 1
            if word: text = f"{WORD[op]}(A, B)"; label = WORD[op]
            else:
                symb = SYM_ALT[op] if (op in SYM_ALT and (n // 2) % 2 == 1) else SYM[op]
                text = f"A {symb} B"; label = symb
            if op in SETOPS:
                chk = ("set", [kind_value(k, i) for i in cs[op]], k.el)
            else:
                chk = ("bool", cs[op])
            if word and op in WORD_FREE: chk = ("free",) + chk
            s.add(text, chk, label, deps)
            # operand SOURCE dimension: one or both operands written in place instead of held in a variable
            if k.union_built or n % SOURCE_EVERY != 0: continue        # a union chain written in place: 0.5 s per statement
            form = (n + j) % 3
            d2 = set(deps)
            nested = k.name in ("set", "setr")
            la = s.set_text(a, d2) if form in (0, 2) else "A"
            lb = s.set_text(b, d2) if form in (1, 2) else "B"
            if word and nested: symb = SYM[op]
            text2 = f"{WORD[op]}({la}, {lb})" if (word and not nested) else f"{la} {symb} {lb}"
            s.add(text2, chk, label + "/" + ["lit,var", "var,lit", "lit,lit"][form], d2)
        # operators applied to results of operators (the laws TLC checked on the model, replayed on the code)
        s.add("(A ∖ B) ∪ (A ∩ B)", ("set", [kind_value(k, i) for i in cs["A"]], k.el), "law:(A∖B)∪(A∩B)=A", deps)
        s.add("(A ∪ B) ∖ (A ∩ B)", ("set", [kind_value(k, i) for i in cs["sym"]], k.el), "law:(A∪B)∖(A∩B)=AΔB", deps)
        s.add("set/size(A Δ B)", ("size", len(cs["sym"])), "set/size", deps)
    for sh in cs["comps"]:
        if not comp_applicable(k, sh): continue
        text, deps = render_comp(s, sh, {"A": "A", "B": "B"})
        want = [comp_value(k, sh["dom"], sh["y"], it) for it in sh["res"]]
        s.add(text, ("set", want, comp_elkind(k, sh["dom"], sh["y"])), "comp:" + sh["id"], deps)
    return s

def applicable_kinds(cs, kinds):
    top = max(cs["a"] + cs["b"] + [1])
    return [kn for kn in kinds if KINDS[kn].n >= top]

# ------------------------------------------------------------------------------------------ judging
def judge(rep, sess, resp, oc, tally, arms):
    k = sess.k
    replay = {"stmts": sess.stmts, "kind": k.name, "case": {"fam": sess.case["fam"], "a": sess.case["a"], "b": sess.case["b"]}}
    if oc != "ok" or "steps" not in (resp or {}):
        rep.fail(f"C14/host-{oc}/{k.name}", f"{sess.stmts} -> interpreter process {oc}", replay); return
    for text, (chk, label, deps), ev in zip(sess.stmts, sess.checks, resp["steps"]):
        tally["statements"] += 1
        flagged = sess.flagged(deps)
        def fail(cls, msg):
            if flagged:
                sig = f"C14/equal-respelled/{k.flagged}"
            else:
                sig = f"C14/{label}/{k.name}/{cls}"
            rep.fail(sig, f"[{k.name}] {text}  (after {sess.stmts[:2] if text not in sess.stmts[:2] else []}) {msg}",
                     dict(replay, failing=text))
        free = chk[0] == "free"
        if free: chk = chk[1:]
        if ev.get("p") != "ok" or not (ev.get("shape") and ev["shape"][0].startswith("MechCode")):
            fail("noparse", f"did not parse as code: {ev.get('p')} {ev.get('shape')}"); continue
        arms.add(ev.get("arm"))
        if ev.get("r") != "ok":
            if free: tally["free"] += 1
            elif chk[0] == "setup": rep.fail(f"C14/setup/{k.name}", f"operand could not be built: {text} -> {ev.get('class')}", replay)
            else: fail("rejected", f"rejected ({ev.get('class')}: {ev.get('msg')})")
            continue
        if chk[0] == "setup": continue
        if chk[0] == "set":
            bad = check_set(ev, chk[1], chk[2], loose=k.union_built)
            if bad: fail(bad[0], bad[1])
            else: tally["exact"] += 1
        elif chk[0] == "bool":
            got = absval.absval(ev["v"])
            if got != ('bool', chk[1]): fail("value", f"= {absval.short(got)}, expected {'true' if chk[1] else 'false'}")
            else: tally["exact"] += 1
        elif chk[0] == "size":
            got = absval.absval(ev["v"])
            if not (got[0] == 'num' and got[2] == chk[1]): fail("value", f"= {absval.short(got)}, expected {chk[1]}")
            else: tally["exact"] += 1

def run(rep, tier, seed):
    quick = tier == "quick"
    cfg = "MC_C14_quick.cfg" if quick else "MC_C14_thorough.cfg"
    t = tlc.run("MC_C14", cfg, workers=16, timeout=3000)
    if t.violations or not t.ok:
        rep.fail("C14/model", "TLC reported a violation of a model-level law: " + "; ".join(t.errors[:3]), {"log": t.log})
    cases = t.cases
    cases.sort(key=lambda c: (c["fam"], len(c["a"]) + len(c["b"]), c["a"], c["b"]))
    log(f"[C14] TLC: {t.generated} states, {t.distinct} distinct, {len(cases)} cases in {t.wall:.1f}s")
    kinds = QUICK_KINDS if quick else THOROUGH_KINDS
    global SOURCE_EVERY
    SOURCE_EVERY = 3 if quick else 1
    plan = []      # (case, kind name, n)
    for n, cs in enumerate(cases):
        app = applicable_kinds(cs, kinds)
        longest = max(len(cs["a"]), len(cs["b"]))
        if cs["fam"] == "one": per = len(app) if longest <= (3 if quick else 4) else (4 if quick else 2)
        elif cs["fam"] == "big": per = len(app)
        elif quick: per = 2 if longest <= 2 else 1
        else: per = 1 if longest >= 4 else 5
        if per >= len(app): ks = app
        else:
            rot = [kn for kn in app if kn != "bool"]
            ks = [rot[(n * per + j) % len(rot)] for j in range(per)]
            if "bool" in app: ks.append("bool")
            ks = list(dict.fromkeys(ks))
        for kn in ks: plan.append((cs, kn, n))
    log(f"[C14] replaying {len(plan)} sessions on the interpreter")
    tally = collections.Counter(); arms = set(); samples = []; nsess = 0
    CH = 20000
    for off in range(0, len(plan), CH):
        chunk = plan[off:off + CH]
        sessions = [build_session(cs, kn, n) for cs, kn, n in chunk]
        reqs = [{"id": i, "mode": "session", "stmts": s.stmts, "opts": {"arm": True}} for i, s in enumerate(sessions)]
        outs = execpool.run_requests(reqs, nworkers=16, timeout=120)
        for s, (resp, oc) in zip(sessions, outs):
            judge(rep, s, resp, oc, tally, arms)
        nsess += len(sessions)
        if off == 0 or off + CH >= len(plan):
            samples += [{"kind": s.k.name, "fam": s.case["fam"], "a": s.case["a"], "b": s.case["b"], "stmts": s.stmts[:14]}
                        for s in sessions[:: max(1, len(sessions) // 5)]]
        if not quick: log(f"  .. {nsess}/{len(plan)} sessions")
    fam = collections.Counter(c["fam"] for c in cases)
    rep.cov.update({"states": t.generated, "transitions": max(t.generated - 1, 1), "distinct_states": t.distinct,
                    "traces_validated_against_impl": nsess, "cases_emitted": len(cases), "cases_by_family": dict(fam),
                    "cases_replayed": nsess, "statements_checked": tally["statements"], "exact_matched": tally["exact"],
                    "free_outcomes": tally["free"], "arms_hit": len(arms), "element_kinds": kinds, "exhaustive": True,
                    "sampled_cases": fam.get("big", 0),
                    "rule": "every written sequence (family one) and every pair of written sequences (family two) over 4 element ids "
                            "up to the configured lengths, every operator/relation in symbol or word form, membership of every "
                            "universe element, construction by literal / matrix conversion / comprehension (1-2 generators, 0-2 "
                            "filters, joins on repeated variables); family one replayed for every element kind, pairs for rotating "
                            "kinds (all kinds for the short pairs in the thorough tier); thorough adds pseudo-random pairs of 5-6 "
                            "element sequences over 6 ids"})
    rep.add_samples(samples)
    rep.assumptions += ["TLC (tla2tools) exhaustive enumeration of spec/MC_C14.tla", "harness projection (harness/src/project.rs)",
                        "two values are the same element iff Mech's == relates them (floats numerically, rationals reduced, sets order-free)",
                        "NaN excluded from the pools", "word form set/proper-subset cannot be called on the pinned tree (acceptance free)",
                        "comparison filters only for kinds whose scalar == / < are accepted (numeric, string and bool for ==)"]
