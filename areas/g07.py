"""G07 (growth area) — MechReplSyntax: the REPL command language as DOCUMENTED (docs/getting-started/repl.mec, the `:help` table)
against `parse_repl_command` (src/syntax/src/repl.rs).

spec/MechReplSyntax.tla gives the documented meaning of a line `:word arg* terminator` (the WORD decides the command; argument
ranges per command; the terminator and the amount of blank space never matter); spec/MC_G07.tla enumerates every line over 31 words
(every command name and short form, words that merely begin with a command name, a non-command, the empty word) x 12 argument
lists x 3 terminators x 2 gap widths, checks the laws (terminator irrelevant, a short form means its long form, no prefix
commands) and emits every line with its documented meaning.  Every line goes through the REAL parse_repl_command (executor mode
`repl` with parse_only; nothing is executed): recognised or not, the command variant and its arguments must be the documented
ones.  Deviations are findings of this growth area (no listed property names the command language)."""
import collections, re
import tlc, execpool
from core import log

PROP = "G07"
TERM = {"": "", "n": "\n", "rn": "\r\n"}

def render(cs):
    gap = " " * cs["g"]
    return ":" + cs["w"] + "".join(gap + a for a in cs["args"]) + TERM[cs["t"]]

def observed_args(variant, dbg):
    """arguments out of the Debug print of a ReplCommand"""
    if variant == "Step":
        m = re.match(r"Step\((None|Some\((\d+)\)), (None|Some\((\d+)\))\)", dbg)
        if not m: return None
        return (["#" + m.group(2)] if m.group(2) else []) + ([m.group(4)] if m.group(4) else [])
    if variant in ("Load", "Whos"):
        return re.findall(r'"((?:[^"\\]|\\.)*)"', dbg)
    if variant in ("Cd", "Save"):
        m = re.search(r'"((?:[^"\\]|\\.)*)"', dbg); return [m.group(1)] if m else []
    if variant in ("Docs", "Symbols", "Clear"):
        m = re.search(r'Some\("((?:[^"\\]|\\.)*)"\)', dbg)
        return [m.group(1)] if m and m.group(1) != "" else []
    if variant == "Code":
        m = re.search(r'String\("((?:[^"\\]|\\.)*)"\)', dbg); return [m.group(1)] if m else []
    return []

def run(rep, tier, seed):
    t = tlc.run("MC_G07", "MC_G07_quick.cfg" if tier == "quick" else "MC_G07_thorough.cfg", workers=4, timeout=3000)
    if t.violations or not t.ok:
        rep.fail("G07/model", "TLC reported a violation on MechReplSyntax: " + "; ".join(t.errors[:3]), {"log": t.log})
    cases = t.cases
    lines = [render(cs) for cs in cases]
    log(f"[G07] TLC: {t.generated} states, {len(cases)} lines in {t.wall:.1f}s")
    CH = 200
    reqs = [{"id": i, "mode": "repl", "lines": lines[o:o + CH], "opts": {"parse_only": True}} for i, o in enumerate(range(0, len(lines), CH))]
    outs = execpool.run_requests(reqs, nworkers=8, timeout=120)
    obs = []
    for (resp, oc), req in zip(outs, reqs):
        if oc != "ok" or "outs" not in (resp or {}):
            rep.fail(f"G07/host-{oc}", f"executor {oc} on a batch of {len(req['lines'])} lines", {"lines": req["lines"][:5]})
            obs += [None] * len(req["lines"])
        else: obs += resp["outs"]
    tally = collections.Counter()
    # a failure's signature names the word, the number of arguments and what went wrong; the terminator is part of it only when
    # the outcome DEPENDS on it (the same word and arguments are judged differently under another terminator)
    verdict = {}
    for cs, line, o in zip(cases, lines, obs):
        if o is None: continue
        key = (cs["w"], tuple(cs["args"]))
        if o["r"] == "parse-panic": v = "panics"
        elif cs["ok"]:
            if o["r"] != "ok": v = "rejected"
            else:
                variant = re.match(r"\w+", o["cmd"]).group(0)
                if variant != cs["c"]: v = f"taken-as-{variant}"
                else:
                    want = [(" " * cs["g"]).join(cs["args"])] if variant in ("Code", "Docs") else list(cs["args"])
                    if variant == "Docs" and not cs["args"]: want = []
                    if variant == "Code" and not cs["args"]: want = [""]
                    got = observed_args(variant, o["cmd"])
                    if variant == "Code" and got: got = [got[0].replace("\\r", "").replace("\\n", "")]      # the line terminator is not part of the code
                    if variant == "Code" and got == [""] and want == [""]: got = want
                    v = "ok" if got == want or (variant == "Code" and got == want) else "wrong-arguments"
        else:
            v = "ok" if o["r"] != "ok" else "accepted-as-" + re.match(r"\w+", o["cmd"]).group(0)
        verdict.setdefault(key, {})[(cs["t"], cs["g"])] = (v, line, o)
    for (w, args), per in verdict.items():
        vs = {v for v, _, _ in per.values()}
        for (term, g), (v, line, o) in sorted(per.items()):
            if v == "ok": tally["lines_matched"] += 1; continue
            dep = "" if len(vs) == 1 else f"/terminator={term or 'none'}"
            rep.fail(f"G07/{w or 'empty-word'}/{len(args)}-args/{v}{dep}",
                     f"{line!r}: parse_repl_command gives {o.get('cmd', o['r'])}, documented meaning: " + ("no command" if not any(c['ok'] for c in cases if c['w'] == w and tuple(c['args']) == args) else "a command with these arguments"),
                     {"line": line})
    rep.cov.update({"states": t.generated, "distinct_states": t.distinct, "transitions": t.generated, "lines_emitted": len(cases),
                    "traces_validated_against_impl": len(cases), "lines_matched": tally["lines_matched"], "exhaustive": True,
                    "rule": "every line of MC_G07 through the real parse_repl_command (nothing executed): recognised or not, command variant, arguments = the documented meaning"})
    rep.add_samples([{"line": l} for l in lines[:2000:250]])
    return len(cases)
