"""C12 — kind annotations: MechConvert enumerated by TLC (conversion of every source class to every target
class over a boundary pool, in scalar / row / column / matrix form, through the four entry points; every
reshape up to 16 elements; matrix -> set), every case replayed on the real interpreter.

Every source operand is OBSERVED before it is converted (its definition / the bare literal is a statement of
its own and must show the intended value), so the construction route of an operand cannot hide or fake a
conversion result; an operand that cannot be built is counted as `unbuildable`, never judged."""
import collections, random, struct
from fractions import Fraction
import tlc, execpool, render, absval
from core import log

PROP = "C12"
CONC = {"u8": ["u8"], "i8": ["i8"], "u16": ["u16"], "i16": ["i16"], "uw": ["u32", "u64", "u128"], "iw": ["i32", "i64", "i128"],
        "f32": ["f32"], "f64": ["f64"], "rat": ["r64"], "cpx": ["c64"], "str": ["string"], "bool": ["bool"]}
SIGNED = render.SIGNED
NUMCORE = ["u8", "u16", "u32", "u64", "u128", "i8", "i16", "i32", "i64", "i128", "f32", "f64"]


# ------------------------------------------------------------------ values and texts
def frac(v): return Fraction(v["n"], v["d"])

def nearest(kind, q):
    """the number a float variable of `kind` holds when the nominal value q is written"""
    if kind == "f64": return Fraction(float(q))
    if kind == "f32": return Fraction(struct.unpack("f", struct.pack("f", float(q)))[0])
    return q

def num_value(kind, q):
    if kind == "c64": return ('cplx', ('num', 'f64', q), ('num', 'f64', Fraction(0)))
    return ('num', kind, q)

def model_value(kind, v, source=False):
    """model scalar -> canonical observed-domain value in the concrete kind"""
    if v["t"] == "str": return ('str', v["s"])
    if v["t"] == "bool": return ('bool', v["b"])
    q = frac(v)
    if source: q = nearest(kind, q)
    return num_value(kind, q)

def f64_text(q):
    return str(q.numerator) if q.denominator == 1 else repr(float(q))

def lit_text(kind, v):
    """source expression for the model scalar v in `kind` (None: cannot be written)"""
    if v["t"] == "str": return '"%s"' % v["s"]
    if v["t"] == "bool": return "true" if v["b"] else "false"
    q = frac(v)
    if kind == "f64": return f64_text(q)
    if kind == "f32": return f64_text(q) + "<f32>"
    if kind == "r64": return f"{q.numerator}/{q.denominator}"
    if kind == "c64": return None if q < 0 else f64_text(q) + "+0i"
    if kind[0] == "u": return f"{q.numerator}{kind}"
    return f"{q.numerator}<{kind}>"

def plain_literal(kind, v):
    """literal that can take a kind annotation directly (`lit<K>`): unannotated and not negated"""
    if v["t"] in ("str", "bool"): return lit_text(kind, v)
    if frac(v) < 0 or kind in SIGNED or kind in ("f32", "c64"): return None
    return lit_text(kind, v)

def matrix_expr(kind, r, c, L):
    cells = [lit_text(kind, v) for v in L]
    if any(x is None for x in cells): return None
    return render.matrix_literal(r, c, cells)

def define_src(name, kind, form, r, c, L):
    """statement defining the source variable (observed and checked afterwards)"""
    if form == "s":
        v = L[0]
        if v["t"] == "num" and kind in SIGNED and frac(v) < 0:
            return f"{name}<{kind}> := {f64_text(frac(v))}"
        tx = lit_text(kind, v)
        return None if tx is None else f"{name} := {tx}"
    if kind in SIGNED or kind == "f32":
        return f"{name}<[{kind}]:{r},{c}> := " + render.matrix_literal(r, c, [f64_text(frac(v)) for v in L])
    tx = matrix_expr(kind, r, c, L)
    return None if tx is None else f"{name} := {tx}"

def src_expected(kind, form, r, c, L):
    vals = [model_value(kind, v, source=True) for v in L]
    return vals[0] if form == "s" else ('mat', kind, r, c, tuple(vals))

def norm(v):
    """-0 imaginary parts and the like are not distinguished"""
    if v[0] == 'cplx':
        return ('cplx',) + tuple(('num', 'f64', Fraction(0)) if p[0] == 'flt' and p[2] == '-0' else p for p in v[1:])
    if v[0] == 'mat':
        return v[:4] + (tuple(norm(e) for e in v[4]),)
    return v

def is_code(st):
    return st.get("p") == "ok" and bool(st.get("shape")) and st["shape"][0].startswith("MechCode")

def num_of(v):
    if v[0] == 'num': return v[2]
    if v[0] == 'cplx' and v[2][0] == 'num' and v[2][2] == 0 and v[1][0] == 'num': return v[1][2]
    return None


# ------------------------------------------------------------------ checks
class Check:
    """one judged statement of a session"""
    def __init__(self, step, sig, acc, form, kind, r, c, exps, what="conv", rej_sig=None, pair=None):
        self.step = step; self.sig = sig; self.acc = acc; self.form = form; self.kind = kind
        self.r = r; self.c = c; self.exps = exps; self.what = what
        self.rej_sig = rej_sig          # signature of "rejected although it must be accepted" (root-cause keyed)
        self.pair = pair                # (source kind, target kind) for acceptance closure

def judge(chk, st, stmt, src_obs):
    """-> (verdict, signature, text): verdict in ok_exact / ok_reject / free_rejected / free_unspecified / fail"""
    if not is_code(st):
        return ("fail", chk.sig + "/noparse", f"{stmt} did not parse as code ({st.get('p')})")
    ok = st.get("r") == "ok"
    if chk.acc == "reject":
        if ok:
            return ("fail", chk.sig + "/accepted-no-conversion", f"{stmt} returned {absval.short(absval.absval(st['v']))} but no such conversion exists")
        return ("ok_reject", None, None)
    if not ok:
        if chk.acc == "must":
            return ("fail", chk.rej_sig or (chk.sig + "/rejected"), f"{stmt} rejected ({st.get('class')}: {str(st.get('msg'))[:80]})")
        return ("free_rejected", None, None)
    got = norm(absval.absval(st["v"]))
    if chk.what == "set":
        if got[0] != 'set':
            return ("fail", chk.sig + "/not-a-set", f"{stmt} = {absval.short(got)}")
        want = chk.exps
        els = [norm(e) for e in got[3]]
        if got[1] != chk.kind or any(e[0] == 'num' and e[1] != chk.kind for e in els):
            return ("fail", chk.sig + "/kind", f"{stmt} = {absval.short(got)} (kind {got[1]}), expected element kind {chk.kind}")
        if len(els) != len(set(els)):
            return ("fail", chk.sig + "/duplicates-kept", f"{stmt} = {absval.short(got)} keeps duplicates")
        if set(els) != want or got[2] != len(want):
            return ("fail", chk.sig + "/wrong-elements", f"{stmt} = {absval.short(got)}, expected the distinct elements {sorted(map(absval.short, want))}")
        return ("ok_exact", None, None)
    # scalar / matrix conversion
    if chk.form == "s":
        if got[0] == 'mat':
            return ("fail", chk.sig + "/shape", f"{stmt} = {absval.short(got)}, expected a scalar")
        gels = [got]
    else:
        if got[0] != 'mat' or (got[2], got[3]) != (chk.r, chk.c):
            return ("fail", chk.sig + "/shape", f"{stmt} = {absval.short(got)}, expected a {chk.r}x{chk.c} matrix")
        if got[1] != chk.kind:
            return ("fail", chk.sig + "/kind", f"{stmt} = {absval.short(got)}, expected element kind {chk.kind}")
        gels = list(got[4])
    ndef = 0
    for p, (e, g) in enumerate(zip(chk.exps, gels)):
        if e[0] == "free": continue
        if e[0] == "same":
            q = num_of(src_obs[p]) if src_obs is not None else None
            if q is None: continue
            want = num_value(chk.kind, q)
        else:
            want = e[1]
        ndef += 1
        if g != want:
            return ("fail", chk.sig + "/wrong-value", f"{stmt} element {p + 1} = {absval.short(g)}, expected {absval.short(want)}")
    return ("ok_exact" if ndef else "free_unspecified", None, None)


class Session:
    def __init__(self, stmts, src_step, src_want, checks, info):
        self.stmts = stmts; self.src_step = src_step; self.src_want = src_want; self.checks = checks; self.info = info


def ann(kind, form, r=None, c=None, opt=False, shape=True):
    if form == "s": return f"<{kind}{'?' if opt else ''}>"
    return f"<[{kind}]:{r},{c}>" if shape else f"<[{kind}]>"


def conv_sessions(cs, sk, dk):
    """sessions for one model conv case with concrete kinds sk -> dk"""
    form, r, c, L, entry, opt = cs["form"], cs["r"], cs["c"], cs["L"], cs["entry"], cs["opt"]
    sig = f"C12/conv/{sk}>{dk}/{entry}/{form}" + ("/opt" if opt else "")
    exps = []
    for e in cs["res"]:
        if e["st"] == "exact": exps.append(("exact", model_value(dk, e["v"])))
        elif e["st"] == "same": exps.append(("same",))
        else: exps.append(("free",))
    want_src = src_expected(sk, form, r, c, L)
    def mk(step, a=0):
        rej = None
        if sk == dk and not opt:
            # annotating a value with its own kind needs no conversion: keyed by the kind (explicit matrix shape: the reshape path)
            rej = f"C12/reshape/kind={sk}" if (form != "s" and a == 0) else f"C12/identity/kind={sk}"
        elif cs["acc"] == "closure":
            rej = f"C12/matrix-closure/{sk}>{dk}"
        return Check(step, sig, cs["acc"], form, dk, r, c, exps, rej_sig=rej, pair=(sk, dk))
    anns = [ann(dk, form, r, c, opt)] + ([ann(dk, form, shape=False)] if form != "s" else [])
    info = {"case": {k: cs[k] for k in ("src", "dst", "entry", "form", "off", "opt", "acc", "sig")}, "src_kind": sk, "dst_kind": dk}
    if entry == "defvar":
        d = define_src("s", sk, form, r, c, L)
        if d is None: return None
        stmts = [d]; checks = []
        for i, a in enumerate(anns):
            stmts.append(f"y{i + 1}{a} := s"); checks.append(mk(len(stmts) - 1, i))
        if cs["back"] and not opt:
            # widen-then-narrow: converting the result back to the source kind gives the source value again
            stmts.append(f"w{ann(sk, form, r, c)} := y1")
            bexps = [("exact", model_value(sk, v)) for v in L]
            checks.append(Check(len(stmts) - 1, sig + "/back", cs["backacc"], form, sk, r, c, bexps, pair=(dk, sk),
                                rej_sig=f"C12/matrix-closure/{dk}>{sk}" if cs["backacc"] == "closure" else None))
        return Session(stmts, 0, want_src, checks, info)
    if entry == "varann":
        d = define_src("s", sk, form, r, c, L)
        if d is None: return None
        stmts = [d]; checks = []
        for i, a in enumerate(anns):
            stmts.append(f"s{a}"); checks.append(mk(len(stmts) - 1, i))
        return Session(stmts, 0, want_src, checks, info)
    if entry == "deflit":
        tx = lit_text(sk, L[0]) if form == "s" else matrix_expr(sk, r, c, L)
        if tx is None: return None
        stmts = [tx]; checks = []
        for i, a in enumerate(anns):
            stmts.append(f"y{i + 1}{a} := {tx}"); checks.append(mk(len(stmts) - 1, i))
        return Session(stmts, 0, want_src, checks, info)
    if entry == "litann":
        tx = plain_literal(sk, L[0])
        if tx is None: return None
        return Session([tx, f"{tx}{anns[0]}"], 0, want_src, [mk(1)], info)
    raise ValueError(entry)


def reshape_session(cs, sk, dk):
    r, c, r2, c2 = cs["r"], cs["c"], cs["r2"], cs["c2"]
    n = r * c
    if sk == dk: vals = [render.token_value(sk, t) for t in range(1, n + 1)]
    else: vals = [('num', sk, Fraction(10 + t)) for t in range(1, n + 1)]
    cls = lambda a, b: "one" if a * b == 1 else "row" if a == 1 else "col" if b == 1 else "mat"
    sig = (f"C12/reshape/{'equal-count' if cs['ok'] else 'different-count'}/{cls(r, c)}>{cls(r2, c2)}"
           f"{'/conv' if sk != dk else ''}/{cs['entry']}")
    acc = "reject" if not cs["ok"] else "must"
    exps = []
    if cs["ok"]:
        for t in cs["d"]:
            v = vals[t - 1]
            exps.append(("exact", v if sk == dk else ('num', dk, v[2])))
    want_src = ('mat', sk, r, c, tuple(vals))
    info = {"case": {k: cs[k] for k in ("r", "c", "r2", "c2", "conv", "entry", "ok")}, "src_kind": sk, "dst_kind": dk}
    a = f"<[{dk}]:{r2},{c2}>"
    if cs["entry"] == "defvar":
        stmts = [render.define_matrix("m", sk, r, c, vals), f"y{a} := m"]
    else:
        tx = render.matrix_literal(r, c, [render.scalar_lit(v) for v in vals])
        stmts = [tx, f"y{a} := {tx}"]
    return Session(stmts, 0, want_src, [Check(1, sig, acc, "m", dk, r2, c2, exps, rej_sig=f"C12/reshape/kind={sk}" if sk == dk else None)], info)


def set_session(cs, sk, dk, lossy=False):
    r, c = cs["r"], cs["c"]
    if sk == dk: tv = lambda t: render.token_value(sk, t)
    elif lossy: tv = lambda t: ('num', sk, Fraction(10) + Fraction(3 * t, 4))     # 10, 10.75, 11.5, 12.25 (dyadic: exact in f32 / f64): distinct sources, colliding images
    else: tv = lambda t: ('num', sk, Fraction(10 + t))
    vals = [tv(t) for t in cs["d"]]
    # matrix -> set converts every element by the scalar rule (float -> integer truncates toward zero) and keeps the DISTINCT images
    img = (lambda v: ('num', dk, Fraction(int(v[2])))) if lossy else (lambda v: v if sk == dk else ('num', dk, v[2]))
    want = {img(tv(t)) for t in cs["set"]}
    sig = (f"C12/set/{sk}>{dk}" + ("/colliding" if lossy else "")) if sk != dk else f"C12/set/{sk}"
    info = {"case": {k: cs[k] for k in ("r", "c", "d", "set")}, "src_kind": sk, "dst_kind": dk}
    stmts = [render.define_matrix("m", sk, r, c, vals), f"y<{{{dk}}}> := m", f"m<{{{dk}}}>"]
    acc = "must" if sk == dk else "free"
    return Session(stmts, 0, ('mat', sk, r, c, tuple(vals)),
                   [Check(1, sig + "/defvar", acc, "set", dk, r, c, want, what="set"),
                    Check(2, sig + "/varann", "free", "set", dk, r, c, want, what="set")], info)


# ------------------------------------------------------------------ boundaries of the wide kinds
def anc_int(x):
    b, side, o = x["b"], x["side"], x["o"]
    if side == "zero": return o
    return (absval.kind_max(b) if side == "max" else absval.kind_min(b)) + o

def build_int(name, kind, X):
    """statements that leave the integer X in variable `name` of `kind` WITHOUT a decimal literal beyond 2^53
    (typed integer literals pass through f64): small values by conversion of an exact f64 literal, large ones
    by Horner evaluation over 2^62 chunks written as hexadecimal literals.  The result is observed afterwards."""
    if abs(X) < (1 << 53) or kind in ("f32", "f64"):
        return [f"{name}<{kind}> := {X}"]
    neg = X < 0
    P = -X - 1 if neg else X            # for negatives build |X| - 1 first (|Min| itself does not fit)
    chunks = []
    while True:
        chunks.append(P & ((1 << 62) - 1)); P >>= 62
        if P == 0: break
    st = [f"tb<{kind}> := 0x4000000000000000"]
    for i, ch in enumerate(chunks):
        st.append(f"tc{i}<{kind}> := 0x{ch:X}")
    expr = f"tc{len(chunks) - 1}"
    for i in range(len(chunks) - 2, -1, -1):
        expr = f"({expr}) * tb + tc{i}"
    if not neg:
        st.append(f"{name} := {expr}")
    else:
        st += [f"tp := {expr}", f"tone<{kind}> := 1", f"{name} := -tp - tone"]
    return st

def anc_session(cs):
    sk, dk = cs["src"], cs["dst"]
    X = anc_int(cs["x"])
    stmts = build_int("s", sk, X)
    src_step = len(stmts) - 1
    sig = f"C12/bound/{sk}>{dk}/defvar/s"
    res = cs["res"]
    exps = [("exact", ('num', dk, Fraction(anc_int(res["v"])))) if res["st"] == "exact" else ("free",)]
    stmts.append(f"y<{dk}> := s")
    checks = [Check(len(stmts) - 1, sig, cs["acc"], "s", dk, 1, 1, exps)]
    if cs["back"]:
        stmts.append(f"w<{sk}> := y")
        checks.append(Check(len(stmts) - 1, sig + "/back", "must", "s", sk, 1, 1, [("exact", ('num', sk, Fraction(X)))]))
    info = {"case": {k: cs[k] for k in ("src", "dst", "x", "res")}, "src_kind": sk, "dst_kind": dk, "value": str(X)}
    return Session(stmts, src_step, ('num', sk, Fraction(X)), checks, info)


# ------------------------------------------------------------------ float -> integer far beyond 2^53 (MC_C12p)
def pow2_family(rep):
    """+-2^e in f32 / f64 converted to every integer kind, as a scalar and inside matrices: truncate + clamp, decided symbolically"""
    t = tlc.run("MC_C12p", "MC_C12p.cfg", workers=4, timeout=600)
    if t.violations or not t.ok:
        rep.fail("C12/model", "TLC reported a violation on the symbolic float->integer model: " + "; ".join(t.errors[:3]), {"log": t.log})
    cases = sorted(t.cases, key=lambda c: (c["src"], c["dst"], c["form"], c["e"], c["neg"]))
    reqs = []
    for cs in cases:
        e, sk, dk = cs["e"], cs["src"], cs["dst"]
        q, rem = divmod(e, 32)
        st = [f"p<{sk}> := 4294967296", f"r<{sk}> := {2 ** rem}", f"t<{sk}> := 3"]
        prod = " * ".join(["p"] * q + ["r"])
        st.append(f"s := {'-(' + prod + ')' if cs['neg'] else prod}")
        if cs["form"] == "scalar": st.append(f"y<{dk}> := s")
        else:
            st.append({"row": "m := [s t]", "col": "m := [s; t]", "mat": "m := [s t; t s]"}[cs["form"]])
            st.append(f"y<[{dk}]> := m")
        reqs.append({"id": len(reqs), "mode": "session", "stmts": st, "opts": {}})
    outs = execpool.run_requests(reqs, nworkers=16, timeout=120)
    ok = 0; unb = 0
    for cs, req, (resp, oc) in zip(cases, reqs, outs):
        sk, dk, form = cs["src"], cs["dst"], cs["form"]
        sig = f"C12/float-to-int/{sk}>{dk}/{form}/{cs['res']}"
        replay = {"stmts": req["stmts"], "case": cs}
        if oc != "ok" or "steps" not in (resp or {}):
            rep.fail(sig + "/host-" + oc, f"{req['stmts']} -> interpreter process {oc}", replay); continue
        steps = resp["steps"]
        X = (-1 if cs["neg"] else 1) * 2 ** cs["e"]
        src = steps[3]
        if any(x.get("r") != "ok" for x in steps[:-1]) or absval.absval(src["v"]) != ('num', sk, Fraction(X)):
            unb += 1; continue                     # the source value could not be built exactly: not judged
        want = {"exact": X, "max": absval.kind_max(dk), "min": absval.kind_min(dk), "zero": 0}[cs["res"]]
        last = steps[-1]
        if last.get("r") != "ok":
            rep.fail(sig + "/rejected", f"{req['stmts']}: rejected ({last.get('class')}), expected {want} (truncate and clamp)", replay); continue
        got = absval.absval(last["v"])
        w1 = ('num', dk, Fraction(want)); w3 = ('num', dk, Fraction(3))
        wantv = {"scalar": w1, "row": ('mat', dk, 1, 2, (w1, w3)), "col": ('mat', dk, 2, 1, (w1, w3)), "mat": ('mat', dk, 2, 2, (w1, w3, w3, w1))}[form]
        if got != wantv:
            rep.fail(sig + "/wrong-value", f"{req['stmts']} = {absval.short(got)}, expected {absval.short(wantv)}", replay); continue
        ok += 1
    log(f"[C12] float -> integer at powers of two: {len(cases)} cases, {ok} matched, {unb} sources not buildable")
    rep.cov.update({"pow2_cases": len(cases), "pow2_matched": ok, "pow2_unbuildable": unb})
    return len(cases)


# ------------------------------------------------------------------ matrix conversion = elementwise scalar conversion (Trace_C12)
CVALS = {"u8": [3, 127, 200, 255], "u16": [3, 200, 300, 65535], "u32": [3, 300, 70000, 4294967295], "u64": [3, 300, 70000, 1099511627776],
         "u128": [3, 300, 70000, 1099511627776], "i8": [-128, -3, 3, 127], "i16": [-300, -3, 200, 32767], "i32": [-70000, -3, 300, 70000],
         "i64": [-70000, -3, 300, 1099511627776], "i128": [-70000, -3, 300, 1099511627776], "f32": [-3.75, 3.75, 300.5, 70000.25], "f64": [-3.75, 3.75, 300.5, 70000.25]}

def consistency_family(rep, tier):
    import json, os
    kinds = list(CVALS)
    reqs = []; meta = []
    for sk in kinds:
        for dk in kinds:
            for form, (r, c) in (("row", (1, 4)), ("col", (4, 1)), ("mat", (2, 2))):
                vals = CVALS[sk]
                lit = (lambda v: repr(v)) if sk in ("f32", "f64") else (lambda v: str(v))
                st = [f"t{i}<{sk}> := {lit(v)}" for i, v in enumerate(vals)]
                mtx = {"row": "[t0 t1 t2 t3]", "col": "[[t0 t1 t2 t3]']" if False else "[t0 t1 t2 t3]'", "mat": "[[t0 t2]' [t1 t3]']'"}[form]
                st.append(f"m := {mtx}")
                st.append(f"y<[{dk}]> := m")
                st += [f"u{i}<{dk}> := t{i}" for i in range(4)]
                reqs.append({"id": len(reqs), "mode": "session", "stmts": st, "opts": {"shape": False}})
                meta.append((sk, dk, form, r, c))
    outs = execpool.run_requests(reqs, nworkers=16, timeout=120)
    os.makedirs(os.path.join(tlc.OUT, "traces"), exist_ok=True)
    path = os.path.join(tlc.OUT, "traces", f"c12_{tier}.ndjson")
    tokv = lambda v: json.dumps(v, sort_keys=True).replace('"', "'")
    index = []; unb = 0
    with open(path, "w") as fh:
        for req, (resp, oc), (sk, dk, form, r, c) in zip(reqs, outs, meta):
            if oc != "ok" or "steps" not in (resp or {}):
                rep.fail(f"C12/consistency/{sk}>{dk}/host-{oc}", f"{req['stmts']} -> interpreter process {oc}", {"stmts": req["stmts"]}); continue
            st = resp["steps"]
            if any(x.get("r") != "ok" for x in st[:5]): unb += 1; continue
            mv = absval.absval(st[4]["v"])
            if mv[0] != 'mat' or (mv[2], mv[3]) != (r, c): unb += 1; continue      # the source matrix did not get the intended shape
            y = st[5]; ok = y.get("r") == "ok"
            res = []; rr = rc = 0
            if ok and isinstance(y["v"], dict) and y["v"].get("t") == "mat":
                rr, rc = y["v"]["r"], y["v"]["c"]; res = [tokv(x) for x in y["v"]["d"]]
            elif ok: rr = rc = 1; res = [tokv(y["v"])]
            # scalar conversions in the column-major order of the source matrix
            order = {"row": [0, 1, 2, 3], "col": [0, 1, 2, 3], "mat": [0, 1, 2, 3]}[form]
            scal = [tokv(st[6 + i]["v"]) if st[6 + i].get("r") == "ok" else "err" for i in order]
            fh.write(json.dumps({"src": sk, "dst": dk, "r": r, "c": c, "ok": ok, "resr": rr, "resc": rc, "res": res, "scal": scal}) + "\n")
            index.append((req, sk, dk, form))
    tt = tlc.run("Trace_C12", "Trace_C12.cfg", workers=1, env={"TRACE": path}, deque=True, xss="1g", xmx="2g", timeout=1200, tag=f"Trace_C12_{tier}")
    if any("unconsumed" in m for m in tt.msgs) or (tt.rc != 0 and not tt.ok):
        raise tlc.TlcError(f"Trace_C12 did not consume the trace: {tt.msgs[:2]} {tt.errors[:2]}")
    nrej = 0
    for m in tt.msgs:
        if "l" not in m: continue
        nrej += 1
        req, sk, dk, form = index[m["l"] - 1]
        for rule in m["rules"]:
            sig = f"C12/matrix-closure/{sk}>{dk}" if rule == "rejected-although-every-element-converts" else f"C12/consistency/{sk}>{dk}/{form}/{rule}"
            rep.fail(sig, f"{req['stmts']}: {rule}", {"stmts": req["stmts"]})
    log(f"[C12] matrix conversion = elementwise scalar conversion: {len(index)} conversions validated by TLC, {nrej} rejected, {unb} not buildable")
    rep.cov.update({"consistency_conversions": len(index), "consistency_rejected": nrej, "consistency_unbuildable": unb})
    return len(index)


# ------------------------------------------------------------------ main
def run(rep, tier, seed):
    npow2 = pow2_family(rep) + consistency_family(rep, tier)
    quick = tier == "quick"
    cfg = "MC_C12_quick.cfg" if quick else "MC_C12_thorough.cfg"
    t = tlc.run("MC_C12", cfg, workers=16, timeout=3000)
    if t.violations or not t.ok:
        rep.fail("C12/model", "TLC reported a violation of a model-level law: " + "; ".join(t.errors[:3]), {"log": t.log})
    cases = t.cases
    cases.sort(key=lambda c: (c["fam"], c["sig"], c.get("off", 0), c.get("r", 0), c.get("c", 0), c.get("r2", 0), c.get("c2", 0), str(c.get("d"))))
    fam = collections.Counter(c["fam"] for c in cases)
    log(f"[C12] TLC: {t.generated} states, {t.distinct} distinct, {len(cases)} cases {dict(fam)} in {t.wall:.1f}s")
    allk = render.ELEM_KINDS
    sessions = []; skipped = collections.Counter()
    for n, cs in enumerate(cases):
        if cs["fam"] == "conv":
            pairs = [(a, b) for a in CONC[cs["src"]] for b in CONC[cs["dst"]]]
            if quick: pairs = [pairs[n % len(pairs)]]
            for sk, dk in pairs:
                s = conv_sessions(cs, sk, dk)
                if s is None: skipped[f"{cs['entry']}: no syntax for a {sk} source"] += 1
                else: sessions.append(s)
        elif cs["fam"] == "reshape":
            if cs["conv"]:
                k = 1 if quick else (3 if cs["ok"] else 1)
                prs = []
                for j in range(k):
                    a = NUMCORE[(n + 5 * j) % len(NUMCORE)]; b = NUMCORE[(n // 3 + 7 * j + 1) % len(NUMCORE)]
                    if a == b: b = NUMCORE[(NUMCORE.index(b) + 1) % len(NUMCORE)]
                    prs.append((a, b))
            elif cs["ok"]:
                ks = ["f64", allk[n % len(allk)]] if quick else allk
                prs = [(k, k) for k in dict.fromkeys(ks)]
            else:
                ks = [allk[n % len(allk)]] if quick else [allk[n % len(allk)], allk[(n // 2 + 7) % len(allk)]]
                prs = [(k, k) for k in dict.fromkeys(ks)]
            for sk, dk in prs:
                sessions.append(reshape_session(cs, sk, dk))
        elif cs["fam"] == "anc":
            sessions.append(anc_session(cs))
        else:
            ks = [allk[(n + j * 4) % len(allk)] for j in range(3)] if quick else allk
            prs = [(k, k) for k in dict.fromkeys(ks)]
            conv = [("f64", "u8"), ("u8", "u16"), ("u8", "f64"), ("i8", "f64"), ("f32", "i16"), ("u16", "u64")]
            prs += [conv[n % len(conv)]] if quick else conv
            for sk, dk in prs:
                sessions.append(set_session(cs, sk, dk))
            # lossy conversions whose images collide (two distinct elements become one): the set holds the distinct IMAGES and reports their number
            for sk, dk in ([("f64", "u8"), ("f32", "i16")][n % 2:][:1] if quick else [("f64", "u8"), ("f32", "i16"), ("f64", "i64")]):
                sessions.append(set_session(cs, sk, dk, lossy=True))
    reqs = [{"id": i, "mode": "session", "stmts": s.stmts, "opts": {"arm": True}} for i, s in enumerate(sessions)]
    log(f"[C12] replaying {len(reqs)} sessions ({sum(len(r['stmts']) for r in reqs)} statements); not expressible: {dict(skipped)}")
    outs = execpool.run_requests(reqs, nworkers=16, timeout=120)
    # scalar acceptance per concrete kind pair, learned from the scalar define-from-variable cases (for "closure")
    sacc = collections.defaultdict(bool)
    for s, (resp, oc) in zip(sessions, outs):
        c0 = s.checks[0]
        if oc == "ok" and c0.what == "conv" and c0.form == "s" and c0.pair and "/defvar/s" in c0.sig and not c0.sig.endswith("/opt"):
            st = (resp or {}).get("steps", [])
            if len(st) > c0.step and st[c0.step].get("r") == "ok": sacc[c0.pair] = True
    tally = collections.Counter(); arms = set(); unb = collections.Counter(); unb_ex = {}; noconv = set()
    for s, (resp, oc) in zip(sessions, outs):
        replay = dict(s.info); replay["stmts"] = s.stmts
        if oc != "ok" or "steps" not in (resp or {}) or len(resp["steps"]) != len(s.stmts):
            rep.fail(s.checks[0].sig + "/host-" + oc, f"{s.stmts} -> interpreter process {oc}", replay); continue
        steps = resp["steps"]
        st0 = steps[s.src_step]
        src_got = norm(absval.absval(st0["v"])) if st0.get("r") == "ok" and is_code(st0) else None
        if src_got != s.src_want:
            key = f"{s.info['src_kind']} source via `{s.stmts[0].split(' := ')[0] if ' := ' in s.stmts[0] else 'literal'}`"
            unb[key] += 1; unb_ex.setdefault(key, f"{s.stmts[0]} -> {absval.short(src_got) if src_got else (st0.get('r'), st0.get('class'))}")
            tally["unbuildable"] += 1
            continue
        src_obs = [src_got] if src_got[0] != 'mat' else list(src_got[4])
        for chk in s.checks:
            if chk.sig.endswith("/back") and steps[s.checks[0].step].get("r") != "ok":
                continue                  # the value to convert back was never produced (already judged above)
            if chk.acc == "closure":
                chk.acc = "must" if sacc[chk.pair] else "free"
            v, sig, txt = judge(chk, steps[chk.step], s.stmts[chk.step], src_obs)
            tally[v] += 1; tally["checks"] += 1
            if v == "free_rejected" and chk.what == "conv" and chk.form == "s" and "/defvar/s" in chk.sig and not chk.sig.endswith(("/opt", "/back")):
                noconv.add(chk.sig.split("/")[2])
            arms.add(steps[chk.step].get("arm"))
            if v == "fail":
                rep.fail(sig, f"{s.stmts[:chk.step + 1]}: {txt}", replay)
    if unb:
        log("[C12] unbuildable operands (not judged): " + "; ".join(f"{k}: {v} (e.g. {unb_ex[k]})" for k, v in sorted(unb.items())[:12]))
    rep.cov.update({"states": t.generated, "transitions": max(t.generated - 1, 1), "distinct_states": t.distinct,
                    "traces_validated_against_impl": len(reqs) - tally["unbuildable"], "cases_emitted": len(cases), "cases_by_family": dict(fam),
                    "cases_replayed": len(reqs), "checks": tally["checks"], "exact_matched": tally["ok_exact"], "rejects_matched": tally["ok_reject"],
                    "free_outcomes": tally["free_rejected"] + tally["free_unspecified"],
                    "free_rejected_no_conversion": tally["free_rejected"], "free_value_unspecified": tally["free_unspecified"], "unbuildable": tally["unbuildable"], "unbuildable_by_route": dict(unb),
                    "not_expressible": dict(skipped),
                    "scalar_pairs_rejected_where_acceptance_is_free": sorted(noconv), "arms_hit": len(arms), "exhaustive": True,
                    "rule": "every (source class, target class, entry point, form, pool offset) of the bounded MechConvert model, each class instantiated "
                            "with its concrete kinds (quick: one rotating kind pair per case; thorough: all); every reshape (r,c)->(r2,c2) with both counts <= 16 "
                            "(quick: counts differing by at most 1) with and without a kind change; matrix->set over all fillings of small shapes; "
                            "sources are observed before conversion and the widen-then-narrow chain is replayed wherever the model says the value is kept"})
    rnd = random.Random(seed)
    pick = rnd.sample(sessions, min(40, len(sessions)))
    rep.add_samples([{"stmts": s.stmts, "expect": [(c.step, c.acc, c.sig) for c in s.checks]} for s in [sessions[0], sessions[-1]] + pick])
    rep.assumptions += ["TLC 1.8.0", "harness projection (harness/src/project.rs)", "renderer lib/render.py + areas/c12.py",
                        "acceptance table Acc in spec/MC_C12.tla (which kind pairs have a conversion; calibrated on the pinned tree, anchors convert/scalar.rs, convert/mat_to_mat.rs)",
                        "wide integer kinds (u32..u128, i32..i128) are modelled with bounds beyond every pool value: their own boundaries are not exercised"]
