"""G05 (growth area) — MechMathFns: named functions of the standard library whose results are exact on rationals
(math/floor ceil trunc round roundeven rint abs fmod remainder copysign sqrt cbrt, compare/max min, combinatorics/n-choose-k on
numbers and on vectors, string/concat).

spec/MechMathFns.tla defines every function twice (declaratively and by the integer-division formula); spec/MC_G05.tla enumerates
every function on every argument (pair) of the pools, TLC checks the agreement and the algebraic laws (|fmod| < |y| with the sign
of x, |remainder| <= |y|/2, rounding functions odd and equal except at ties, max + min = x + y, Pascal = factorial = multiplicative
binomial, combinations listed exactly once in lexicographic order, ...) and emits the case.  Every case is replayed on the real
interpreter for every element kind that represents its operands and its result: as scalars (operands in variables, read back, so
that literal parsing cannot interfere), and grouped into row / column / matrix operands (a function of a matrix is the elementwise
map; for two operands also matrix-scalar and scalar-matrix where the scalar form is accepted).  The result kind must be the
operand kind, the shape the operand shape, every element exactly the model's rational."""
import collections, random
from fractions import Fraction
import tlc, execpool, absval, render
from core import log

PROP = "G05"
FN = {"floor": "math/floor", "ceil": "math/ceil", "trunc": "math/trunc", "round": "math/round", "roundeven": "math/roundeven",
      "rint": "math/rint", "abs": "math/abs", "fmod": "math/fmod", "remainder": "math/remainder", "copysign": "math/copysign",
      "max": "compare/max", "min": "compare/min", "n-choose-k": "combinatorics/n-choose-k", "sqrt": "math/sqrt", "cbrt": "math/cbrt"}
FLOATS = ["f64", "f32"]
INTS = ["u8", "i8", "u64", "i64", "i32", "u16"]

def fr(q): return Fraction(q["n"], q["d"])

def representable(kind, f):
    if kind in FLOATS:
        d = f.denominator
        return d & (d - 1) == 0 and abs(f) < 2 ** 20
    if kind == "r64": return abs(f.numerator) < 2 ** 30 and f.denominator < 2 ** 30
    return f.denominator == 1 and absval.kind_min(kind) < f < absval.kind_max(kind)       # strictly inside: extremes are C13's subject

def kinds_for(fam, f):
    if fam == "unary": return FLOATS + (["i8", "i64", "i32", "r64"] if f == "abs" else [])
    if fam == "binary": return FLOATS + (INTS + ["r64"] if f in ("max", "min") else [])
    if fam == "choose": return ["f64", "u8", "u64", "i64", "f32", "u16"]
    if fam in ("sqrt", "cbrt"): return FLOATS
    return ["f64"]

def lit(kind, f):
    return render.scalar_lit(('num', kind, Fraction(f)))

def vec_lit(kind, fs, shape):
    r, c = shape
    vals = [('num', kind, Fraction(f)) for f in fs]
    return render.define_matrix("$", kind, r, c, vals).split(":= ", 1)[1], (kind in render.SIGNED)

def num_of(v):
    """the rational a numeric value denotes (IEEE -0 denotes 0: ceil(-0.75), fmod(-9, -3), copysign(0, -1) are -0 by the standard)"""
    if v and v[0] == 'flt' and v[2] == '-0': return Fraction(0)
    return v[2] if v and v[0] == 'num' else None

def run(rep, tier, seed):
    cfg = "MC_G05_quick.cfg" if tier == "quick" else "MC_G05_thorough.cfg"
    t = tlc.run("MC_G05", cfg, workers=8, timeout=3000)
    if t.violations or not t.ok:
        rep.fail("G05/model", "TLC reported a violation on MechMathFns: " + "; ".join(t.errors[:3]), {"log": t.log})
    cases = t.cases
    log(f"[G05] TLC: {t.generated} states, {len(cases)} cases in {t.wall:.1f}s")
    rnd = random.Random(seed)
    reqs = []; meta = []
    def add(stmts, m):
        reqs.append({"id": len(reqs), "mode": "session", "stmts": stmts, "opts": {}}); meta.append(m)
    by_fn = collections.defaultdict(list)
    for cs in cases:
        fam, f = cs["fam"], cs["f"]
        x, y, r = fr(cs["x"]), fr(cs["y"]), fr(cs["r"])
        by_fn[(fam, f)].append(cs)
        if fam == "combos": continue
        two = fam in ("binary", "choose")
        for kind in kinds_for(fam, f):
            if not representable(kind, x) or (two and not representable(kind, y)): continue
            if kind.startswith("u") and (x < 0 or (two and y < 0)): continue
            stmts = [f"a := {lit(kind, x)}"] + ([f"b := {lit(kind, y)}"] if two else [])
            stmts.append(f"{FN[f]}(a, b)" if two else f"{FN[f]}(a)")
            add(stmts, {"form": "scalar", "cs": cs, "kind": kind, "ops": [x] + ([y] if two else []), "want": [r], "shape": None})
    # matrix forms: consecutive cases of one function grouped into vectors
    for (fam, f), lst in sorted(by_fn.items()):
        if fam in ("combos", "choose"): continue
        two = fam == "binary"
        for kind in (["f64", "f32"] if tier == "quick" else kinds_for(fam, f)):
            ok = [c for c in lst if representable(kind, fr(c["x"])) and (not two or representable(kind, fr(c["y"])))
                  and not (kind.startswith("u") and (fr(c["x"]) < 0 or fr(c["y"]) < 0)) and representable(kind, fr(c["r"]))]
            rnd.shuffle(ok)
            shapes = [(1, 4), (4, 1), (2, 3), (3, 2), (1, 2), (2, 2)]
            i = 0; si = 0
            while i + 2 <= len(ok) and si < (12 if tier == "quick" else 60):
                r_, c_ = shapes[si % len(shapes)]; n = r_ * c_
                grp = ok[i:i + n]
                if len(grp) < n: break
                i += n; si += 1
                xs = [fr(c["x"]) for c in grp]; ys = [fr(c["y"]) for c in grp]; rs = [fr(c["r"]) for c in grp]
                xl, _ = vec_lit(kind, xs, (r_, c_))
                ann = f"<[{kind}]:{r_},{c_}>" if kind in render.SIGNED else ""
                stmts = [f"a{ann} := {xl}"]
                if two:
                    yl, _ = vec_lit(kind, ys, (r_, c_))
                    stmts += [f"b{ann} := {yl}", f"{FN[f]}(a, b)"]
                else:
                    stmts += [f"{FN[f]}(a)"]
                add(stmts, {"form": "matrix", "cs": grp[0], "kind": kind, "ops": [xs] + ([ys] if two else []), "want": rs, "shape": (r_, c_)})
                if two:
                    # matrix-scalar and scalar-matrix: the scalar is the first case's y / x
                    y0 = ys[0]; x0 = xs[0]
                    from_model = {(fr(c["x"]), fr(c["y"])): fr(c["r"]) for c in lst}
                    if all((xx, y0) in from_model for xx in xs):
                        add([f"a{ann} := {xl}", f"b := {lit(kind, y0)}", f"{FN[f]}(a, b)"],
                            {"form": "matrix-scalar", "cs": grp[0], "kind": kind, "ops": [xs, y0], "want": [from_model[(xx, y0)] for xx in xs], "shape": (r_, c_), "free_reject": True})
                    if all((x0, yy) in from_model for yy in ys):
                        yl, _ = vec_lit(kind, ys, (r_, c_))
                        add([f"a := {lit(kind, x0)}", f"b{ann} := {yl}", f"{FN[f]}(a, b)"],
                            {"form": "scalar-matrix", "cs": grp[0], "kind": kind, "ops": [x0, ys], "want": [from_model[(x0, yy)] for yy in ys], "shape": (r_, c_), "free_reject": True})
    # combinations of a vector
    for cs in by_fn.get(("combos", "n-choose-k"), []):
        n, k = cs["x"]["n"], cs["k"]
        for kind, vals in (("f64", [Fraction(21 + 2 * i, 2) for i in range(n)]), ("u8", [Fraction(10 + 3 * i) for i in range(n)]),
                           ("i64", [Fraction((-1) ** i * (5 + i)) for i in range(n)])):
            for shape in ((1, n), (n, 1)):
                if n == 1 and shape == (n, 1) : continue
                vl, _ = vec_lit(kind, vals, shape)
                ann = f"<[{kind}]:{shape[0]},{shape[1]}>" if kind in render.SIGNED else ""
                want = [vals[p - 1] for col in cs["m"] for p in col]             # column-major: one combination per column
                add([f"a{ann} := {vl}", f"k := {lit(kind, k)}", f"{FN['n-choose-k']}(a, k)"],
                    {"form": "combos", "cs": cs, "kind": kind, "ops": [vals, Fraction(k)], "want": want, "shape": (k, len(cs["m"]))})
    # string/concat: the free monoid (TLA+ \o); small universe, associativity through nesting
    strs = ["", "a", "b c", "é", "xyz"]
    for s1 in strs:
        for s2 in strs:
            add([f'a := "{s1}"', f'b := "{s2}"', 'string/concat(a, b)'], {"form": "concat", "cs": {"f": "concat", "fam": "concat"}, "kind": "string", "ops": [s1, s2], "want": [s1 + s2], "shape": None})
            for s3 in strs[:3]:
                add([f'a := "{s1}"', f'b := "{s2}"', f'c := "{s3}"', 'string/concat(string/concat(a, b), c)', 'string/concat(a, string/concat(b, c))'],
                    {"form": "concat3", "cs": {"f": "concat", "fam": "concat"}, "kind": "string", "ops": [s1, s2, s3], "want": [s1 + s2 + s3], "shape": None})
    log(f"[G05] replaying {len(reqs)} sessions")
    outs = execpool.run_requests(reqs, nworkers=16, timeout=120)
    tally = collections.Counter(); per_fn = collections.Counter()
    for req, m, (resp, oc) in zip(reqs, meta, outs):
        f = m["cs"]["f"]; kind = m["kind"]; form = m["form"]
        base = f"G05/{f}/{form}/{kind}"
        replay = {"stmts": req["stmts"], "want": [str(w) for w in m["want"]]}
        if oc != "ok" or "steps" not in (resp or {}):
            rep.fail(f"{base}/host-{oc}", f"{req['stmts']} -> executor {oc}", replay); continue
        steps = resp["steps"]
        nops = len(req["stmts"]) - (2 if form == "concat3" else 1)
        # operands must be what was intended (else the case is not judged: literal evaluation is C13's subject)
        okops = True
        for st, want in zip(steps[:nops], m["ops"]):
            if st.get("r") != "ok" or not (st.get("shape") or [""])[0].startswith("MechCode"): okops = False; break
            v = absval.absval(st["v"])
            if isinstance(want, str):
                if v != ('str', want): okops = False
            elif isinstance(want, list):
                if v[0] != 'mat' or v[1] != kind or [num_of(e) for e in v[4]] != want: okops = False
            else:
                if v[0] != 'num' or v[1] != kind or v[2] != want: okops = False
            if not okops: break
        if not okops:
            tally["operand-unbuildable(not judged)"] += 1; continue
        for st in steps[nops:]:
            if not (st.get("shape") or [""])[0].startswith("MechCode"):
                rep.fail(f"{base}/noparse", f"{req['stmts'][-1]} is not parsed as code", replay); break
            r = st.get("r")
            if r != "ok":
                if m.get("free_reject") and r == "err":
                    tally["mixed-shape-form-rejected(free)"] += 1; break
                rep.fail(f"{base}/{'panic' if r == 'panic' else 'rejected'}", f"{req['stmts']} -> {r} {st.get('class')}: {str(st.get('msg'))[:120]}", replay); break
            v = absval.absval(st["v"])
            if form.startswith("concat"):
                if v != ('str', m["want"][0]):
                    rep.fail(f"{base}/wrong-value", f"{req['stmts']} -> {v}, model {m['want'][0]!r}", replay); break
                continue
            if m["shape"] is None:
                if num_of(v) is None:
                    rep.fail(f"{base}/wrong-value", f"{req['stmts']} -> {v}, model {m['want'][0]}", replay); break
                if v[1] != kind:
                    rep.fail(f"{base}/result-kind", f"{req['stmts']} -> kind {v[1]}, operands are {kind}", replay); break
                if num_of(v) != m["want"][0]:
                    rep.fail(f"{base}/wrong-value", f"{req['stmts']} -> {num_of(v)}, model {m['want'][0]}", replay); break
            else:
                if v[0] != 'mat':
                    rep.fail(f"{base}/shape", f"{req['stmts']} -> {v[0]}, model a {m['shape'][0]}x{m['shape'][1]} matrix", replay); break
                if (v[2], v[3]) != tuple(m["shape"]):
                    rep.fail(f"{base}/shape", f"{req['stmts']} -> {v[2]}x{v[3]}, model {m['shape'][0]}x{m['shape'][1]}", replay); break
                if v[1] != kind:
                    rep.fail(f"{base}/result-kind", f"{req['stmts']} -> element kind {v[1]}, operands are {kind}", replay); break
                got = [num_of(e) for e in v[4]]
                if got != m["want"]:
                    rep.fail(f"{base}/wrong-value", f"{req['stmts']} -> {[str(g) for g in got]}, model {[str(w) for w in m['want']]}", replay); break
        else:
            tally["exact_matched"] += 1; per_fn[f"{f}/{form}"] += 1
    # negative controls (vacuity guard): a model value that is off by one unit in the last place of the pool's grid must be noticed
    neg_tried = neg_caught = 0
    for req, m, (resp, oc) in list(zip(reqs, meta, outs))[:: max(1, len(reqs) // 60)]:
        if oc != "ok" or m["form"].startswith("concat") or "steps" not in (resp or {}): continue
        st = resp["steps"][-1]
        if st.get("r") != "ok": continue
        v = absval.absval(st["v"])
        got = [num_of(v)] if m["shape"] is None else ([num_of(e) for e in v[4]] if v[0] == 'mat' else None)
        if got is None or None in got: continue
        wrong = list(m["want"]); wrong[-1] = wrong[-1] + Fraction(1, 8)
        neg_tried += 1
        if got != wrong and got == m["want"]: neg_caught += 1
    if neg_tried and neg_caught != neg_tried and not rep.failures:
        raise tlc.TlcError(f"negative control failed: {neg_tried - neg_caught} perturbed expectations were not distinguished")
    rep.cov.update({"negative_controls_tried": neg_tried, "negative_controls_passed": neg_caught})
    rep.cov.update({"states": t.generated, "distinct_states": t.distinct, "transitions": t.generated, "cases_emitted": len(cases),
                    "traces_validated_against_impl": len(reqs), "exact_matched": tally["exact_matched"],
                    "operand_unbuildable(not judged)": tally["operand-unbuildable(not judged)"],
                    "mixed_shape_form_rejected(free)": tally["mixed-shape-form-rejected(free)"],
                    "matched_by_function_and_form": dict(per_fn), "exhaustive": True,
                    "rule": "every case of MC_G05 for every element kind representing operands and result, as scalars (operands in variables, read back), "
                            "grouped into row / column / matrix operands (elementwise map), matrix-scalar and scalar-matrix where accepted, "
                            "n-choose-k of a vector = the k-combinations as columns in lexicographic order, string/concat as the free monoid"})
    rep.add_samples([{"stmts": r["stmts"]} for r in reqs[:200:25]])
    return len(reqs)
