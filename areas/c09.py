"""C09 — the parser is total: TLC enumerates all token-class strings; every string is parsed (twice, in different
worker processes) on the real parser with the H1 progress hook on; outcome records and loop-progress events are
validated by TLC against MechParse (Trace_C09)."""
import os, re, glob, random, collections, json
import tlc, execpool
from core import log

PROP = "C09"
TOK = {
 "ID": ["x", "y1", "foo", "α"], "DIG": ["1", "23", "4.5", "0x1F"], "DEF": [":="], "EQ": ["="],
 "OP": ["+", "-", "*", "/", "^", "<", "==", "&&", "'", "..", "!", ">", "|>"],
 "LB": ["["], "RB": ["]"], "LP": ["("], "RP": [")"], "LC": ["{"], "RC": ["}"],
 "SEP": ["\n", ";", " ", ",", "\n\n", "\t"], "Q": ['"'],
 "ST": ["|", "```", "#", "⸢", "⸥", "╭", "╯", "~", ":", "<", "-", ".", "=>", "->", "├", "└", "@", "%%", "--", "*", "_", "$$", "~~~", ">", "1.", "(i)>",
        "<<:", ":>>", ">:", "(?)>", "(!)>", "(x)>", "(+)>", "(*)>"],
 "EMO": ["😀", "👩‍👩‍👧", "🤖"], "CMB": ["é", "ạ̈", "́"], "BOX": ["│", "─", "┼", "╲"],
}

def render(toks, n):
    parts = []
    for i, c in enumerate(toks):
        opts = TOK[c]
        parts.append(opts[(n // (7 ** i) + i * 3 + n) % len(opts)])
    sep = ["", " ", ""][n % 3]
    return sep.join(parts)

def repo_programs():
    """string literals of the repository's interpreter tests (programs that parse today)"""
    src = open("/repo/tests/interpreter.rs", encoding="utf8").read()
    progs = []
    for m in re.finditer(r'test_interpreter!\(\s*\w+\s*,\s*(r#"(.*?)"#|"((?:[^"\\]|\\.)*)")', src, re.S):
        s = m.group(2) if m.group(2) is not None else bytes(m.group(3), "utf8").decode("unicode_escape", "replace")
        try: s.encode("utf8")
        except Exception: continue
        progs.append(s)
    return progs

def mutate(p, rnd):
    """single-token mutations: delete, duplicate, swap, unbalance, truncate"""
    toks = re.findall(r"\s+|\w+|[^\w\s]", p)
    if len(toks) < 2: return []
    out = []
    i = rnd.randrange(len(toks))
    out.append("".join(toks[:i] + toks[i + 1:]))
    out.append("".join(toks[:i] + [toks[i]] + toks[i:]))
    j = rnd.randrange(len(toks) - 1)
    out.append("".join(toks[:j] + [toks[j + 1], toks[j]] + toks[j + 2:]))
    out.append(p[:rnd.randrange(1, len(p))] if len(p) > 1 else p)
    br = [k for k, t in enumerate(toks) if t in "[](){}\"|"]
    if br:
        k = rnd.choice(br); out.append("".join(toks[:k] + toks[k + 1:]))
    out.append(p + rnd.choice(["⸥", "⸢", "```", "[", "{", '"', "|", "́", "👩‍👩‍👧"]))
    return out

def run(rep, tier, seed):
    rnd = random.Random(seed)
    cfg = "MC_C09_quick.cfg" if tier == "quick" else "MC_C09_thorough.cfg"
    t = tlc.run("MC_C09", cfg, workers=16, timeout=3000)
    if not t.ok:
        raise tlc.TlcError("MC_C09 did not complete")
    texts = []; origin = []
    t.cases.sort(key=lambda c: json.dumps(c, sort_keys=True))
    for n, cs in enumerate(t.cases):
        texts.append(render(cs["toks"], n)); origin.append("tokens:" + " ".join(cs["toks"]))
    nmodel = len(texts)
    progs = repo_programs()
    rnd.shuffle(progs)
    for p in progs[: (150 if tier == "quick" else 700)]:
        texts.append(p); origin.append("test-program")
        for m in mutate(p, rnd):
            texts.append(m); origin.append("mutated-test-program")
    # EVERY single-token deletion of every test program (truncated constructs: a pattern without its binding, an
    # operator without operand, an unbalanced bracket, ...), deduplicated
    seen = set(texts)
    for p in progs:
        toks = re.findall(r"\s+|\w+|[^\w\s]", p)
        if len(toks) > (250 if tier == "quick" else 1200): continue
        for i in range(len(toks)):
            if toks[i].isspace(): continue
            m = "".join(toks[:i] + toks[i + 1:])
            if m not in seen:
                seen.add(m); texts.append(m); origin.append("token-deleted-test-program")
    # comments whose text is only partly valid rich text (an unclosed link, emphasis, code span, eval, ...), at the start of the
    # text, behind code and on later lines: the report ranges of the inner re-parse must still lie within the source
    for op in ["[", "*", "`", "{{", "{", "_", "~", "**", "(", "$$", "^", "<", "![", "[^", "\"", "|"]:
        for m in (f"-- abc {op}d", f"x := 1 -- total {op}oops", f"x := 1\n-- see {op}this", f"y := 2\n\n-- a {op}b c\nz := 3",
                  f"a\nbb\n-- see [link]({op}", f"```mech\nx := 1 -- {op}\n```"):
            if m not in seen:
                seen.add(m); texts.append(m); origin.append("half-valid-comment")
    # every ordered PAIR of concrete alphabet members, glued and space-separated (the class strings above rotate members)
    members = sorted({m for ms in TOK.values() for m in ms})
    for a in members:
        for b in members:
            for sep in ("", " "):
                m = a + sep + b
                if m not in seen:
                    seen.add(m); texts.append(m); origin.append("member-pair")
    # repository documents: whole small files and line prefixes
    files = sorted(glob.glob("/repo/docs/**/*.mec", recursive=True))
    small = [f for f in files if os.path.getsize(f) <= (1500 if tier == "quick" else 6000)]
    rnd.shuffle(small)
    for f in small[: (12 if tier == "quick" else 60)]:
        src = open(f, encoding="utf8", errors="replace").read()
        lines = src.split("\n")
        cuts = sorted(set([len(lines)] + [rnd.randrange(1, len(lines) + 1) for _ in range(3 if tier == "quick" else 8)]))
        for c in cuts:
            texts.append("\n".join(lines[:c])); origin.append("doc-prefix:" + os.path.relpath(f, "/repo"))
        if tier != "quick" and len(src) < 1200:
            for c in range(1, len(src), max(1, len(src) // 40)):
                texts.append(src[:c]); origin.append("doc-char-prefix:" + os.path.relpath(f, "/repo"))
    log(f"[C09] TLC: {t.generated} states, {nmodel} token strings; {len(texts) - nmodel} repository-derived texts")
    reqs = [{"id": i, "mode": "parse", "text": x, "events": True} for i, x in enumerate(texts)]
    outs1 = execpool.run_requests(reqs, nworkers=16, timeout=300)
    # determinism: second parse, shuffled so that it lands in another process
    order = list(range(len(reqs))); rnd.shuffle(order)
    o2 = execpool.run_requests([dict(reqs[i], events=False) for i in order], nworkers=16, timeout=300)
    outs2 = [None] * len(reqs)
    for pos, i in enumerate(order): outs2[i] = o2[pos]
    os.makedirs(os.path.join(tlc.OUT, "traces"), exist_ok=True)
    path = os.path.join(tlc.OUT, "traces", f"c09_{tier}.ndjson")
    nev = 0; tally = collections.Counter()
    def core(r): return {k: r.get(k) for k in ("outcome", "n", "ranges", "shape", "class", "fmt_ok")} if r else None
    with open(path, "w") as fh:
        for i, (x, (r1, oc1), (r2, oc2)) in enumerate(zip(texts, outs1, outs2)):
            replay = {"text": x, "origin": origin[i]}
            if oc1 != "ok" or r1 is None or "outcome" not in r1:
                rep.fail(f"C09/{'hang' if oc1 == 'hang' else 'abort'}", f"parse of {x!r} ({origin[i]}): process {oc1}", replay); continue
            tally[r1["outcome"]] += 1
            if r1.get("fmt_ok") is False: tally["report_renderer_panics(informational)"] += 1
            if r1["outcome"] == "panic":
                ev = r1.get("events") or []
                # a no-progress panic of the hook: the last repeated site
                site = None
                cnt = collections.Counter((e[0], e[1], e[2]) for e in ev)
                for (s, inst, cur), c in cnt.items():
                    if c >= 3: site = s
                rep.fail(f"C09/no-progress/{site}" if site else "C09/panic", f"parse of {x!r} ({origin[i]}) " + (f"never terminates: loop `{site}` makes no progress" if site else "panics"), replay)
                continue
            if oc2 == "ok" and r2 and core(r1) != core(r2):
                rep.fail("C09/nondeterministic", f"two parses of {x!r} differ: {core(r1)} vs {core(r2)}", replay); continue
            fh.write(json.dumps({"ev": "Parse", "pid": i, "len": r1.get("ng", 0), "outcome": r1["outcome"], "n": r1.get("n", 0),
                                 "ranges": r1.get("ranges", []), "lw": r1.get("lw", [0]), "fmt": bool(r1.get("fmt_ok", True))}) + "\n")
            nev += 1
            for (site, inst, cur, ln) in (r1.get("events") or [])[:400]:
                fh.write(json.dumps({"ev": "Loop", "pid": i, "site": site, "inst": inst, "cursor": cur, "len": ln}) + "\n"); nev += 1
    # ---- history independence: "the same text always gives the same outcome" - also after ANY history of parses in the same process
    #      (parsing depends on nothing but the text).  Every stress text is parsed 40 times in a row in one process, then a fixed list of
    #      probe texts; the repeats must agree with each other and every probe with its outcome in a fresh process.
    wrappers = ["<<:", ":>>", ">:", ">", "(?)>", "(i)>", "(*)>", "(!)>", "(x)>", "(+)>", "%%", "-", "1.", "```mech\n", "$$", "[^1]:", "|", "#", "⸢"]
    inner_bad = ["]", ")", "}", '"', "[", "{{", "```", "x := ", "|", "", "<<:]", ">:)"]
    stress = [w + sp + b for w in wrappers for b in inner_bad for sp in ("", " ")]
    stress += [w * 3 + b for w in wrappers[:4] for b in inner_bad[:4]] + [wrappers[0] + wrappers[2] + b for b in inner_bad[:4]]
    reports = sorted({x for x, (r, oc) in zip(texts, outs1) if oc == "ok" and r and r.get("outcome") == "report" and len(x) < 160})
    rnd.shuffle(reports); stress += reports[: (200 if tier == "quick" else 3000)]
    probes = ["<<: a floated paragraph", ":>> a floated paragraph on the right", ">: x := 1", ">: a prompt", "> a quote", "(i)> some information",
              "(?)> a question", "(!)> a warning", "%% an abstract", "x := 1 + 2", "[1 2; 3 4]", "f(x<u64>) = y<u64> :=\n  y := x + 1<u64>.", "- item\n- item",
              "Some prose.", "# A title\n\nText.", "```mech\nx := 1\n```", "<<:]", ">:]", "x := [1 2", '"abc', "<<: >: nested", "{1, 2} ∪ {3}",
              "<<: <<: <<: deep", ">: >: >: >: deep prompt", "| a | b |\n|---|---|\n| 1 | 2 |", "$$ x^2"]
    REPS = 40
    base, boc = execpool.run_requests([{"id": 0, "mode": "parseseq", "texts": probes}], nworkers=1, timeout=300)[0]
    if boc != "ok" or not base or len(base.get("outs", [])) != len(probes):
        raise tlc.TlcError(f"history family: the probe texts could not be parsed in a fresh process ({boc})")
    hreqs = [{"id": i, "mode": "parseseq", "texts": [x] * REPS + probes} for i, x in enumerate(stress)]
    houts = execpool.run_requests(hreqs, nworkers=16, timeout=600)
    nhist = 0
    for x, (r, oc) in zip(stress, houts):
        replay = {"history": [x] * REPS, "probes": probes}
        if oc != "ok" or not r or "outs" not in r:
            rep.fail(f"C09/{'hang' if oc == 'hang' else 'abort'}", f"{REPS} parses of {x!r} in a row: process {oc}", replay); continue
        outs = r["outs"]
        first = core(outs[0])
        if first and first.get("outcome") == "panic":
            rep.fail("C09/panic", f"parse of {x!r} (history family) panics", replay); continue
        dif = [k for k in range(1, REPS) if core(outs[k]) != first]
        if dif:
            rep.fail("C09/history-dependent", f"parse number {dif[0] + 1} of {x!r} in the same process differs from the first: {core(outs[dif[0]])} vs {first}", replay); continue
        bad = [(probes[j], core(outs[REPS + j]), core(base["outs"][j])) for j in range(len(probes)) if core(outs[REPS + j]) != core(base["outs"][j])]
        if bad:
            rep.fail("C09/history-dependent", f"after {REPS} parses of {x!r} the text {bad[0][0]!r} gives {bad[0][1]}, in a fresh process {bad[0][2]}", replay); continue
        nhist += 1
    rep.cov["history_sessions"] = len(stress); rep.cov["history_sessions_ok"] = nhist; rep.cov["history_parses"] = len(stress) * (REPS + len(probes))
    tt = tlc.run("Trace_C09", "Trace_C09.cfg", workers=1, env={"TRACE": path}, deque=True, xss="1g", xmx="6g", timeout=3000, tag=f"Trace_C09_{tier}")
    if any("unconsumed" in m for m in tt.msgs):
        raise tlc.TlcError(f"Trace_C09 did not consume the trace: {tt.msgs[:2]}")
    for m in tt.msgs:
        i = m["pid"]
        rep.fail(f"C09/{m['kind']}", f"parse of {texts[i]!r} ({origin[i]}): {m['kind']} law violated at trace line {m['l']} (outcome {core(outs1[i][0])})", {"text": texts[i], "origin": origin[i]})
    # negative control: a range past the end of the source must be reported
    neg = os.path.join(tlc.OUT, "traces", "c09_neg.ndjson")
    with open(neg, "w") as fh:
        fh.write(json.dumps({"ev": "Parse", "pid": 0, "len": 3, "outcome": "report", "n": 1, "ranges": [[1, 1, 9, 1]], "lw": [2], "fmt": True}) + "\n")
        fh.write(json.dumps({"ev": "Loop", "pid": 0, "site": "body", "inst": 1, "cursor": 2, "len": 3}) + "\n")
        fh.write(json.dumps({"ev": "Loop", "pid": 0, "site": "body", "inst": 1, "cursor": 1, "len": 3}) + "\n")
    tn = tlc.run("Trace_C09", "Trace_C09.cfg", workers=1, env={"TRACE": neg}, deque=True, xss="1g", xmx="2g", timeout=600, tag="Trace_C09_neg")
    kinds = sorted(m.get("kind", "") for m in tn.msgs)
    if kinds != ["outcome", "progress"]:
        raise tlc.TlcError(f"negative control failed: Trace_C09 reported {kinds} on a corrupted trace")
    log(f"[C09] {len(texts)} texts parsed twice; outcomes {dict(tally)}; {nev} events validated by TLC in {tt.wall:.1f}s")
    rep.cov.update({"states": t.generated, "transitions": max(t.generated - 1, 1), "distinct_states": t.distinct,
                    "traces_validated_against_impl": len(texts), "texts": len(texts), "token_strings": nmodel,
                    "outcomes": dict(tally), "trace_events_validated": nev, "negative_controls_passed": 1, "exhaustive": True,
                    "rule": "all strings of <= 3 (quick) / <= 4 (thorough) tokens over 14 / 17 token classes (members rotate: identifiers, numbers, operators, brackets, quotes, separators, structure sigils incl. fences, Mika delimiters, emoji ZWJ sequences, combining marks, box drawing) + the repository's test programs with single-token mutations + whole documents and prefixes; each parsed twice in different processes; outcome records and H1 loop-progress events validated by TLC; history independence: every stress text (wrapper sigils x malformed inner elements, a sample of the texts that gave error reports) parsed 40 times in one process followed by 26 probe texts - repeats agree, probes agree with a fresh process"})
    rep.add_samples([{"text": x, "origin": o} for x, o in zip(texts, origin)])
    rep.assumptions += ["TLC 1.8.0", "hook H1 (cfg mech_verif) in the parser's hand-written loops", "the parser's own grapheme segmentation for line widths"]
