"""G03 — MechSetMore: the set functions of machines/set that C14 does not name (set/powerset, set/cartesian-product,
set/insert, set/remove, set/disjoint, set/equals, set/not-equals, set/complement, set/size, proper subset / superset,
not-element-of).

spec/MechSetMore.tla gives them over TLA+'s native sets (SUBSET, \\X, ...) next to independently written loop-shaped
definitions; spec/MC_G03.tla enumerates (element kind, written sequence a, function, aspect, second operand) and TLC
checks the agreement and the algebraic laws on every case before emitting it.  Every case is rendered for its
element kind (several source spellings per element, written order and repeats as enumerated), run in ONE fresh
session on the real interpreter and compared: a set result as a set (order of the stored elements is irrelevant; no
two equal elements; every element of the right kind; reported size = number of elements; the declared element kind
describes the elements), booleans and sizes exactly."""
import collections, copy
from fractions import Fraction
import tlc, execpool, absval, render
from core import log

PROP = "G03"

# ------------------------------------------------------------------------------------------ element kinds
F64_OF = [Fraction(1), Fraction(5, 2), Fraction(-3), Fraction(0), Fraction(9, 2), Fraction(6)]     # id 1 is numerically 1u8's value
I64_OF = [1, -2, 3, 0, -5, 6]
TUPLE_OF = [(1, 2), (2, 1), (2, 3), (3, 3), (3, 1), (1, 1)]
PAIR_OF = [(1, 2), (1, 3), (2, 3), (1, 4), (2, 4), (3, 4)]
STRINGS = ["", "a", "b", "ab", "a b", "B"]

def num(kind, f): return ('num', kind, Fraction(f))

# type of a value: ('el', scalar kind) | ('set', T) | ('tup', (T, ...))
KIND_TYPE = {"f64": ('el', 'f64'), "u8": ('el', 'u8'), "u64": ('el', 'u64'), "i64": ('el', 'i64'), "r64": ('el', 'r64'),
             "string": ('el', 'string'), "bool": ('el', 'bool'),
             "tup": ('tup', (('el', 'f64'), ('el', 'f64'))), "set": ('set', ('el', 'f64'))}
KIND_N = {"bool": 2}

def kind_value(k, i):
    """canonical value of id i read in element kind k"""
    if k == "f64": return num('f64', F64_OF[i - 1])
    if k in ("u8", "u64"): return num(k, i)
    if k == "i64": return num('i64', I64_OF[i - 1])
    if k == "r64": return num('r64', Fraction(i, 2))
    if k == "string": return ('str', STRINGS[i - 1])
    if k == "bool": return ('bool', i == 1)
    if k == "tup": return ('tup', tuple(num('f64', p) for p in TUPLE_OF[i - 1]))
    if k == "set": return ('set', frozenset(num('f64', p) for p in PAIR_OF[i - 1]))
    raise ValueError(k)

def _fl(x):
    x = Fraction(x)
    return str(x.numerator) if x.denominator == 1 else repr(float(x))

def kind_spell(k, i):
    """source spellings of id i in kind k; all denote the same value"""
    if k == "f64":
        s = _fl(F64_OF[i - 1])
        return [s, s + "0" if "." in s else s + ".0"]
    if k == "u8": return [f"{i}u8", f"{i}<u8>", f"0x{i}<u8>"]
    if k == "u64": return [f"{i}u64", f"{i}<u64>"]
    if k == "i64":
        v = I64_OF[i - 1]
        return [f"{v}<i64>", f"0x{v:x}"] if v > 0 else [f"{v}<i64>"]
    if k == "r64":
        f = Fraction(i, 2)
        return [f"{f.numerator * m}/{f.denominator * m}" for m in (1, 2, 3)]
    if k == "string": return ['"' + STRINGS[i - 1] + '"']
    if k == "bool": return ["true" if i == 1 else "false"]
    if k == "tup":
        p, q = TUPLE_OF[i - 1]
        return [f"({p},{q})", f"({p}.0, {q}.0)"]
    if k == "set":
        p, q = PAIR_OF[i - 1]
        return [f"{{{p},{q}}}", f"{{{p},{q},{p}}}", f"{{{p}.0, {q}}}"]      # same insertion order (the order-dependent hash of nested sets is C14's finding)
    raise ValueError(k)

# ------------------------------------------------------------------------------------------ observed values
def canon(v):
    """order-free, hashable form in which equal values are identical"""
    t = v[0]
    if t == 'set': return ('set', frozenset(canon(e) for e in (v[3] if len(v) == 4 else v[1])))
    if t == 'tup': return ('tup', tuple(canon(e) for e in v[1]))
    return v

def show(v):
    t = v[0]
    if t == 'set':
        els = v[3] if len(v) == 4 else v[1]
        return "{" + ", ".join(sorted(show(e) for e in els)) + "}"
    if t == 'tup': return "(" + ", ".join(show(e) for e in v[1]) + ")"
    try: return absval.short(v)
    except Exception: return str(v)

def kind_of(v):
    t = v[0]
    if t in ('num', 'flt'): return v[1]
    if t == 'str': return "string"
    if t == 'bool': return "bool"
    return t

def accept_kinds(T, vals):
    """the kind strings that describe the observed values `vals` (all of type T).  A nested set kind may carry its size
    when all the sets have one size (the literal {{1,2},{3,4}} is {{f64}:2}:2) or omit it (set.mec 2: "the number of elements can
    be omitted to compare sets of different sizes"; set/powerset declares {T}); a set kind without any element anywhere below
    it is {_}."""
    if T[0] == 'el': return {T[1]}
    if T[0] == 'tup':
        out = {""}
        for j, Tj in enumerate(T[1]):
            cj = accept_kinds(Tj, [v[1][j] for v in vals])
            out = {(o + "," if o else "") + c for o in out for c in cj}
        return {"(" + o + ")" for o in out}
    grand = [e for v in vals for e in v[3]]
    inner = accept_kinds(T[1], grand) if grand else {"_"}
    sizes = {len(v[3]) for v in vals}
    out = {"{" + s + "}" for s in inner}
    if len(sizes) == 1 and list(sizes)[0] > 0:
        out |= {"{" + s + "}:" + str(list(sizes)[0]) for s in inner}
    return out

def conforms(v, T, path="result"):
    """observed value v against type T -> None | (failure class, text)"""
    if T[0] == 'el':
        if v[0] not in ('num', 'flt', 'str', 'bool') or kind_of(v) != T[1]:
            return ("element-kind", f"{path}: {show(v)} is not a {T[1]}")
        return None
    if T[0] == 'tup':
        if v[0] != 'tup' or len(v[1]) != len(T[1]): return ("element-kind", f"{path}: {show(v)} is not a {len(T[1])}-tuple")
        for j, Tj in enumerate(T[1]):
            bad = conforms(v[1][j], Tj, path + f".{j + 1}")
            if bad: return bad
        return None
    if v[0] != 'set': return ("not-a-set", f"{path}: {show(v)} is not a set")
    els = v[3]
    cs = [canon(e) for e in els]
    if len(set(cs)) != len(cs): return ("duplicates", f"{path} stores two equal elements: {show(v)}")
    if v[2] != len(els): return ("size", f"{path} reports size {v[2]} but holds {len(els)} element(s): {show(v)}")
    for e in els:
        bad = conforms(e, T[1], path + "∋" + show(e))
        if bad: return bad
    if els and v[1] not in accept_kinds(T[1], els):
        return ("declared-kind", f"{path} declares element kind {v[1]}, its elements are described by {sorted(accept_kinds(T[1], els))}: {show(v)}")
    return None

def check_set(ev, want, T):
    """-> None | (failure class, text).  want: canonical set value; T: its type ('set', ...)"""
    got = absval.absval(ev["v"])
    bad = conforms(got, T)
    if bad and bad[0] == "not-a-set": return bad
    if canon(got) != want:
        return ("value", f"= {show(got)}, expected the {len(want[1])} element(s) {show(want)}")
    if bad: return bad
    if got[3] and ev.get("k") != "{" + got[1] + "}:" + str(len(got[3])):
        return ("kind-string", f"has kind {ev.get('k')} but declares element kind {got[1]} and holds {len(got[3])} element(s)")
    return None

# ------------------------------------------------------------------------------------------ expectation -> concrete
def want_of(cs):
    """(canonical expected value, type)"""
    k, k2, rk, res = cs["kind"], cs["k2"], cs["rk"], cs["res"]
    T, T2 = KIND_TYPE[k], KIND_TYPE[k2]
    S = lambda ids, kk=k: ('set', frozenset(kind_value(kk, i) for i in ids))
    if rk == "set": return S(res), ('set', T)
    if rk == "setset": return ('set', frozenset(S(s) for s in res)), ('set', ('set', T))
    if rk == "setsetset": return ('set', frozenset(('set', frozenset(S(s) for s in ss)) for ss in res)), ('set', ('set', ('set', T)))
    if rk == "pairs":
        return ('set', frozenset(('tup', (kind_value(k, p[0]), kind_value(k2, p[1]))) for p in res)), ('set', ('tup', (T, T2)))
    if rk == "npairs":
        return (('set', frozenset(('tup', (('tup', (kind_value(k, p[0][0]), kind_value(k, p[0][1]))), kind_value(k, p[1]))) for p in res)),
                ('set', ('tup', (('tup', (T, T)), T))))
    if rk == "hset":
        return ('set', frozenset([kind_value(k, i) for i in res["A"]] + [kind_value(k2, res["e"])])), None
    if rk == "bool": return ('bool', bool(res)), None
    if rk == "nat": return ('nat', int(res)), None
    if rk == "bools": return ('bools', tuple(bool(x) for x in res)), None
    raise ValueError(rk)

# ------------------------------------------------------------------------------------------ rendering
WORDS = {"powerset": "set/powerset", "size": "set/size", "insert": "set/insert", "remove": "set/remove",
         "cartesian-product": "set/cartesian-product", "disjoint": "set/disjoint", "equals": "set/equals",
         "not-equals": "set/not-equals", "complement": "set/complement", "proper-subset": "set/proper-subset",
         "proper-superset": "set/proper-superset", "not-element-of": "set/not-element-of", "element-of": "set/element-of"}
SYMBOL = {"proper-subset": ("⊊", "⊂"), "proper-superset": ("⊋", "⊃")}

class Session:
    """statements of one interpreter session; stmts[i] is judged by checks[i]:
       ('setup',) must be accepted | ('operand', name, ids, kind) a defined operand: must hold the model's set |
       ('final', j) the j-th judged statement of the case (probes: several) | ('pure', name, ids, kind) operand unchanged afterwards"""
    def __init__(self, cs, n):
        self.cs = cs; self.n = n; self.occ = collections.Counter(); self.stmts = []; self.checks = []

    def lit(self, k, i):
        sp = kind_spell(k, i)
        j = (self.occ[(k, i)] + self.n) % len(sp); self.occ[(k, i)] += 1
        return sp[j]

    def setlit(self, k, seq): return "{" + ", ".join(self.lit(k, i) for i in seq) + "}"
    def add(self, text, check): self.stmts.append(text); self.checks.append(check)

def build(cs, n):
    """operand forms: a set operand is a variable (A := {..}), a mutable variable (aspect mutable) or the literal itself; an element
    operand is a literal, or a variable (aspect mutable: both mutable variables; aspect elem-var: variable element next to a LITERAL
    set; otherwise, every third case, both immutable variables).  Which form a case gets depends only on its position n."""
    s = Session(cs, n)
    fn, asp, k, k2, a, b, e = cs["fn"], cs["asp"], cs["kind"], cs["k2"], cs["a"], cs["b"], cs["e"]
    cross = asp == "cross-kind"
    mut = asp == "mutable"
    elemvar = asp == "elem-var"
    binary = fn in ("cartesian-product", "disjoint", "equals", "not-equals", "complement", "proper-subset", "proper-superset")
    form = n % 3
    inlineA = elemvar or asp == "literal" or (not mut and form == 2)
    inlineB = (not mut and form >= 1) or (fn == "powerset" and asp == "member")     # B ∈ P(A): B always a literal (a variable element is aspect elem-var)
    til = "~" if mut else ""
    defined = []
    def operand(name, kk, seq, ids, inline):
        if inline: return s.setlit(kk, seq)
        s.add(f"{til}{name} := {s.setlit(kk, seq)}", ('operand', name, ids, kk)); defined.append((name, ids, kk))
        return name
    A = operand("A", k, a, cs["A"], inlineA)
    B = operand("B", k2, b, cs["B"], inlineB) if (binary or (fn == "powerset" and asp == "member")) else None
    def elem(kk, i):
        if mut or elemvar or (form == 1 and not inlineA):
            s.add(f"{til}x := {s.lit(kk, i)}", ('setup',)); return "x"
        return s.lit(kk, i)
    W = WORDS.get(fn)
    final = []
    if fn == "powerset":
        if asp in ("value", "mutable"): final = [f"{W}({A})"]
        elif asp == "size": final = [f"set/size({W}({A}))"]
        elif asp == "twice":
            if n % 2: s.add(f"P := {W}({A})", ('setup',)); final = [f"{W}(P)"]
            else: final = [f"{W}({W}({A}))"]
        elif asp == "member":
            if n % 2: s.add(f"P := {W}({A})", ('setup',)); final = [f"{B} ∈ P"]
            else: final = [f"set/element-of({B}, {W}({A}))"]
    elif fn == "size":
        final = [f"{W}({A})"]
    elif fn in ("insert", "remove"):
        other = WORDS["remove" if fn == "insert" else "insert"]
        if asp in ("value", "mutable", "elem-var"): final = [f"{W}({A}, {elem(k, e)})"]
        elif cross: final = [f"{W}({A}, {s.lit(k2, e)})"]
        elif asp == "fold":
            # nested calls for short sequences, a chain of definitions otherwise (the parser's time triples with every level of call nesting)
            t = A
            for j, i in enumerate(b):
                t = f"{W}({t}, {s.lit(k, i)})"
                if j + 1 < len(b) and (len(b) > 3 or n % 2):
                    s.add(f"C{j + 1} := {t}", ('setup',)); t = f"C{j + 1}"
            final = [t]
        else:
            first = f"{W}({A}, {s.lit(k, e)})"
            if n % 2: s.add(f"C := {first}", ('setup',)); first = "C"
            e2 = s.lit(k, e)
            if asp == "idempotent": final = [f"{W}({first}, {e2})"]
            elif asp == "size": final = [f"set/size({first})"]
            elif asp in ("then-remove", "then-insert"): final = [f"{other}({first}, {e2})"]
            elif asp == "member": final = [f"{e2} ∈ {first}" if n % 4 < 2 else f"set/element-of({e2}, {first})"]
    elif fn in ("not-element-of", "element-of"):
        el = s.lit(k2, e) if cross else elem(k, e)
        sym = "∉" if fn == "not-element-of" else "∈"
        if asp == "word" or (asp in ("cross-kind", "elem-var") and n % 2): final = [f"{W}({el}, {A})"]
        else: final = [f"{el} {sym} {A}"]
    elif fn == "cartesian-product":
        if asp in ("value", "mutable") or cross: final = [f"{W}({A}, {B})"]
        elif asp == "size": final = [f"set/size({W}({A}, {B}))"]
        elif asp == "nested": final = [f"{W}({W}({A}, {B}), {A})"]
        elif asp == "member":
            s.add(f"P := {W}({A}, {B})", ('setup',))
            u = cs["u"]
            for x in range(1, u + 1):
                for y in range(1, u + 1):
                    t = f"({s.lit(k, x)}, {s.lit(k, y)})"
                    final.append(f"{t} ∈ P" if (x + y + n) % 2 else f"set/element-of({t}, P)")
    elif fn in ("disjoint", "not-equals", "complement"):
        final = [f"{W}({A}, {B})"]
    elif fn == "equals":
        final = [f"{W}(set/powerset({A}), set/powerset({B}))"] if asp == "of-powersets" else [f"{W}({A}, {B})"]
    elif fn in SYMBOL:
        if asp == "word": final = [f"{W}({A}, {B})"]
        else: final = [f"{A} {SYMBOL[fn][0 if asp == 'symbol' else 1]} {B}"]
    if not final: raise ValueError((fn, asp))
    for j, t in enumerate(final): s.add(t, ('final', j))
    for name, ids, kk in defined: s.add(name, ('pure', name, ids, kk))
    return s

# ------------------------------------------------------------------------------------------ judging
def judge(rep, s, resp, oc, tally):
    """-> True iff nothing was reported"""
    cs = s.cs
    sig0 = cs["sig"]
    replay = {"stmts": s.stmts, "case": {f: cs[f] for f in ("fn", "asp", "kind", "k2", "a", "b", "e", "exp", "rk", "res")}}
    if oc != "ok" or "steps" not in (resp or {}):
        rep.fail(f"{sig0}/host-{oc}", f"{s.stmts} -> interpreter process {oc}", replay); return False
    want, T = want_of(cs)
    free = cs["exp"] == "free"
    good = True
    def fail(cls, text, j, sig=None):
        nonlocal good
        good = False
        rep.fail(sig or f"{sig0}/{cls}", f"[{cs['sig']}] {s.stmts[:j + 1]}: {text}", dict(replay, failing=s.stmts[j]))
    for j, (text, chk, ev) in enumerate(zip(s.stmts, s.checks, resp["steps"])):
        tally["statements"] += 1
        if ev.get("p") != "ok" or not (ev.get("shape") and ev["shape"][0].startswith("MechCode")):
            # a name the grammar cannot spell is the same family as a name that is not registered
            if chk[0] == 'final': fail("noparse", f"did not parse as code ({ev.get('p')} {ev.get('shape')})", j)
            else: fail("setup", f"operand did not parse as code ({ev.get('p')})", j, f"G03/setup/{cs['kind']}/noparse")
            return False
        r = ev.get("r")
        err = f"{ev.get('class')}: {str(ev.get('msg'))[:160]}"
        if chk[0] in ('setup', 'operand', 'pure'):
            if r != "ok":
                if chk[0] == 'setup' and free: tally["free"] += 1; tally["free_rejected"] += 1; return good
                if chk[0] == 'setup':      # an intermediate result of the case's own function (C := set/insert(A, e), P := set/powerset(A))
                    if ev.get("class") == "MissingFunction": fail("", f"rejected ({err})", j, f"G03/{cs['fn']}/any/{cs['asp']}/missing-function")
                    else: fail("rejected", f"rejected ({err})", j)
                else: fail("", f"operand rejected ({err})", j, f"G03/setup/{cs['kind']}/rejected")
                return False
            if chk[0] == 'setup': continue
            _, name, ids, kk = chk
            w = ('set', frozenset(canon(kind_value(kk, i)) for i in ids))
            bad = check_set(ev, w, ('set', KIND_TYPE[kk]))
            if bad:
                if chk[0] == 'operand': fail("", f"operand {name} {bad[1]}", j, f"G03/setup/{kk}/{bad[0]}"); return False
                fail("operand-changed", f"after the call {name} {bad[1]}", j); return False
            continue
        # ---- a judged statement
        if r == "panic":
            fail("panic", "panicked out of the interpreter", j); return False
        if r != "ok":
            if free: tally["free"] += 1; tally["free_rejected"] += 1; continue
            if ev.get("class") == "MissingFunction":
                fail("", f"rejected ({err}): the function cannot be called", j, f"G03/{cs['fn']}/any/{cs['asp']}/missing-function")
            else: fail("rejected", f"rejected ({err}), expected {show(want) if want[0] in ('set', 'bool') else want[1]}", j)
            continue
        if want[0] == 'set':
            if T is None:        # heterogeneous expectation (cross-kind insert): elements only
                got = absval.absval(ev["v"])
                if got[0] != 'set': fail("not-a-set", f"= {show(got)}", j)
                elif canon(got) != want: fail("value", f"= {show(got)}, expected the elements {show(want)}", j)
                elif got[2] != len(got[3]): fail("size", f"reports size {got[2]} but holds {len(got[3])}", j)
                else: tally["free"] += 1; tally["free_accepted"] += 1
                continue
            bad = check_set(ev, want, T)
            if bad: fail(bad[0], bad[1], j)
            elif free: tally["free"] += 1; tally["free_accepted"] += 1
            else: tally["exact"] += 1
        elif want[0] in ('bool', 'bools'):
            w = want[1] if want[0] == 'bool' else want[1][chk[1]]
            got = absval.absval(ev["v"])
            if got != ('bool', w): fail("value", f"= {show(got)}, expected {'true' if w else 'false'}", j)
            elif free: tally["free"] += 1; tally["free_accepted"] += 1
            else: tally["exact"] += 1
        elif want[0] == 'nat':
            got = absval.absval(ev["v"])
            if not (got[0] == 'num' and got[2] == want[1]): fail("value", f"= {show(got)}, expected {want[1]}", j)
            elif got[1] != 'u64': fail("kind", f"= {show(got)}: set/size documents a u64 (machines/set/src/setdata/size.rs)", j)
            else: tally["exact"] += 1
    return good

class _Scratch:
    def __init__(self): self.n = 0
    def fail(self, *a): self.n += 1

def _wrong(cs):
    """the case with a deliberately wrong expectation (or None)"""
    m = copy.deepcopy(cs); rk = cs["rk"]
    if cs["exp"] != "exact": return None
    if rk == "bool": m["res"] = not cs["res"]
    elif rk == "nat": m["res"] = cs["res"] + 1
    elif rk == "bools": m["res"] = [not cs["res"][0]] + cs["res"][1:]
    elif rk == "set":
        if not cs["res"]: return None
        m["res"] = cs["res"][1:]
    elif rk in ("setset", "pairs", "npairs", "setsetset"):
        if len(cs["res"]) < 2: return None
        m["res"] = cs["res"][:-1]
    else: return None
    return m

def negative_controls(built, outs, limit=80):
    """the comparison is not vacuous: a passing case judged against a wrong expectation must be reported"""
    tried = caught = 0; per = collections.Counter()
    for s, (resp, oc) in zip(built, outs):
        if tried >= limit: break
        key = (s.cs["fn"], s.cs["rk"])
        if oc != "ok" or per[key] >= 2: continue
        s0 = _Scratch()
        if not judge(s0, s, resp, oc, collections.Counter()) or s0.n: continue
        m = _wrong(s.cs)
        if m is None: continue
        s2 = build(m, s.n)
        if s2.stmts != s.stmts: continue
        per[key] += 1; tried += 1
        s1 = _Scratch()
        judge(s1, s2, resp, oc, collections.Counter())
        if s1.n: caught += 1
    return tried, caught

def run(rep, tier, seed):
    quick = tier == "quick"
    cfg = "MC_G03_quick.cfg" if quick else "MC_G03_thorough.cfg"
    t = tlc.run("MC_G03", cfg, workers=16, timeout=3000)
    if t.violations or not t.ok:
        rep.fail("G03/model", "TLC reported a violation of a model-level law: " + "; ".join(t.errors[:3]), {"log": t.log})
    cases = t.cases
    cases.sort(key=lambda c: (c["fam"], c["kind"], c["fn"], c["asp"], len(c["a"]) + len(c["b"]), c["a"], c["b"], c["e"]))
    log(f"[G03] TLC: {t.generated} states, {t.distinct} distinct, {len(cases)} cases in {t.wall:.1f}s")
    tally = collections.Counter(); nsess = 0; passed = 0; samples = []; neg_tried = neg_caught = 0
    CH = 20000
    for off in range(0, len(cases), CH):
        chunk = cases[off:off + CH]
        built = [build(cs, off + i) for i, cs in enumerate(chunk)]
        reqs = [{"id": i, "mode": "session", "stmts": s.stmts, "opts": {}} for i, s in enumerate(built)]
        outs = execpool.run_requests(reqs, nworkers=16, timeout=120)
        for s, (resp, oc) in zip(built, outs):
            if judge(rep, s, resp, oc, tally): passed += 1
        nsess += len(chunk)
        if off == 0:
            step = max(1, len(built) // 400)
            neg_tried, neg_caught = negative_controls(built[::step], outs[::step])
            if neg_tried == 0 or neg_caught != neg_tried:
                rep.fail("G03/negative-control", f"only {neg_caught} of {neg_tried} deliberately wrong expectations were reported", {})
        step = max(1, len(chunk) // 6)
        samples += [{"sig": s.cs["sig"], "exp": s.cs["exp"], "stmts": s.stmts,
                     "observed": [(x.get("r"), x.get("k")) for x in (o[0] or {}).get("steps", [])] if o[1] == "ok" else o[1]}
                    for s, o in list(zip(built, outs))[::step]]
        if not quick: log(f"  .. {nsess}/{len(cases)} sessions")
    byfn = collections.Counter(f"{c['fn']}/{c['asp']}" for c in cases)
    bykind = collections.Counter(c["kind"] for c in cases)
    exps = collections.Counter(c["exp"] for c in cases)
    rep.cov.update({"states": t.generated, "transitions": max(t.generated - 1, 1), "distinct_states": t.distinct,
                    "traces_validated_against_impl": nsess, "cases_emitted": len(cases), "cases_replayed": nsess, "cases_passed": passed,
                    "cases_by_function": dict(byfn), "cases_by_kind": dict(bykind), "cases_by_expectation": dict(exps),
                    "sampled_cases": sum(1 for c in cases if c["fam"] == "big"),
                    "statements_checked": tally["statements"], "exact_matched": tally["exact"], "free_outcomes": tally["free"],
                    "free_accepted": tally["free_accepted"], "free_rejected": tally["free_rejected"],
                    "negative_controls_tried": neg_tried, "negative_controls_passed": neg_caught, "exhaustive": True,
                    "rule": "every element kind x every written sequence a (order and repeats as written) up to the configured lengths x every "
                            "function application: powerset (value, size, twice, membership of every written B), size, insert / remove of every "
                            "universe element (value, twice, size, undone by the opposite function, membership, folded over a sequence, mutable "
                            "operands, an element of another kind), not-element-of, and with every second written sequence b: cartesian-product "
                            "(value, size, membership of every universe pair, nested, mutable, B of another kind), disjoint, equals (also of the "
                            "powersets), not-equals, complement, proper-subset / proper-superset in both symbols and the word form; thorough adds "
                            "pseudo-random 5-9 element sequences over 6 ids; operands are checked to be unchanged after the call"})
    rep.add_samples(samples)
    rep.assumptions += ["TLC (tla2tools) exhaustive enumeration of spec/MC_G03.tla; agreement of the loop-shaped definitions and the laws of spec/MechSetMore.tla as invariants",
                        "harness projection (harness/src/project.rs): a set is its stored elements, its declared element kind and its reported size",
                        "two values are the same element iff they are equal values of the same kind (1 and 1u8 are different elements)",
                        "a nested set kind may carry or omit the size (set.mec 2); an empty set may declare any element kind",
                        "an operand of another element kind is not documented: acceptance is free, an accepted result must be the mathematical one "
                        "(remove: the set unchanged; insert: the set plus the element; disjoint: true; equals: only two empty sets)",
                        "set/complement(U, A) is documented (machines/set/docs/ops/complement.mec) as U ∖ A; set/slice and set/splice (ordered views) are not modelled",
                        "-0.0 and differently ordered nested sets (C14's known findings) are kept out of the element pools except for the aspect "
                        "equals/of-powersets, whose reordered class is keyed apart"]
