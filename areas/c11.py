"""C11 — matrix construction by concatenation: MechConcat enumerated by TLC (every tiling of results up to
3x3 / 4x4 by blocks, every near-miss one unit off, every single block of another kind); every case is
replayed on the real interpreter with the blocks pre-defined as variables holding distinct values.

Replay runs in two passes.  Pass 1 packs neighbouring cases into one session that shares a pool of block
variables (one variable per (shape, kind, instance)), which makes the full product affordable.  Every case
that does not behave as the model says in pass 1 is re-run ALONE in a fresh interpreter in the canonical
form `b1 := ..; b2 := ..; [b1 b2; b3]`; the verdict comes from that isolated run (pass 2)."""
import collections, random
from fractions import Fraction
import tlc, execpool, render, absval
from core import log

PROP = "C11"
QUICK_KINDS = ["f64", "u8", "bool", "string"]
POOL_CELLS = 100       # distinct cell values per pooled session (i8 offers 117)
POOL_CASES = 48


# ------------------------------------------------------------------ rendering
def block_cells(kind, base, n):
    return [render.token_value(kind, base + p) for p in range(1, n + 1)]

def define_block(name, kind, h, w, vals, one):
    """statement defining a block variable WITHOUT going through multi-row signed concatenation"""
    if h == 1 and w == 1 and one == "s":
        if kind in render.SIGNED:
            return f"{name}<{kind}> := {render._f64_lit(vals[0][2])}"
        return f"{name} := {render.scalar_lit(vals[0])}"
    return render.define_matrix(name, kind, h, w, vals)

def block_value(kind, h, w, vals, one):
    if h == 1 and w == 1 and one == "s":
        return vals[0]
    return ('mat', kind, h, w, tuple(vals))

def literal_text(rows_of_names):
    return "[" + "; ".join(" ".join(r) for r in rows_of_names) + "]"


class Inst:
    """one case instantiated for a concrete kind: which variable stands for which block"""
    __slots__ = ("cs", "kind", "other", "one", "names", "kinds", "bases", "steps_rows", "step_full", "step_defs", "tv")
    def __init__(self, cs, kind, other, one):
        self.cs = cs; self.kind = kind; self.other = other; self.one = one
        self.names = []; self.kinds = []; self.bases = []     # per block, reading order
        self.tv = None

    def blocks(self):
        return [b for row in self.cs["rows"] for b in row]

    def rows_of_names(self):
        out = []; q = 0
        for row in self.cs["rows"]:
            out.append(self.names[q:q + len(row)]); q += len(row)
        return out

    def token_values(self):
        """model token (1..n, block by block in reading order) -> concrete value of that cell"""
        if self.tv is not None: return self.tv
        vals = self.tv = {}
        t = 0
        for b, k, base in zip(self.blocks(), self.kinds, self.bases):
            for p in range(1, b[0] * b[1] + 1):
                t += 1
                vals[t] = render.token_value(k, base + p)
        return vals

    def expected(self, res):
        tv = self.token_values()
        return ('mat', self.kind, res["r"], res["c"], tuple(tv[t] for t in res["d"]))


def isolated_session(inst):
    """canonical stand-alone form of a case: b1 := .. ; b2 := .. ; [rows] ; [literal]"""
    cs = inst.cs
    iso = Inst(cs, inst.kind, inst.other, inst.one)
    stmts = []; defs = []
    base = 0
    for n, b in enumerate(iso.blocks(), 1):
        h, w, k = b
        kind = inst.kind if k == 0 else inst.other
        vals = block_cells(kind, base, h * w)
        iso.names.append(f"b{n}"); iso.kinds.append(kind); iso.bases.append(base)
        stmts.append(define_block(f"b{n}", kind, h, w, vals, inst.one))
        defs.append((len(stmts) - 1, block_value(kind, h, w, vals, inst.one)))
        base += h * w
    rn = iso.rows_of_names()
    iso.steps_rows = []
    if len(rn) > 1:
        for r in rn:
            stmts.append(literal_text([r])); iso.steps_rows.append(len(stmts) - 1)
    stmts.append(literal_text(rn)); iso.step_full = len(stmts) - 1
    iso.step_defs = defs
    return iso, stmts


def pooled_sessions(insts):
    """pack instances (same kind / one-form, sorted by layout) into sessions sharing a pool of block variables"""
    sessions = []
    cur = None
    def fresh():
        return {"stmts": [], "pool": {}, "cells": 0, "insts": [], "defs": [], "texts": {}, "lits": []}
    for inst in insts:
        need = collections.Counter((b[0], b[1], b[2]) for b in inst.blocks())
        if cur is not None:
            extra = sum(h * w * max(0, c - sum(1 for key in cur["pool"] if key[:3] == (h, w, k)))
                        for (h, w, k), c in need.items())
            if cur["cells"] + extra > POOL_CELLS or len(cur["insts"]) >= POOL_CASES or cur["other"] != inst.other:
                sessions.append(cur); cur = None
        if cur is None:
            cur = fresh(); cur["other"] = inst.other
        seen = collections.Counter()
        for b in inst.blocks():
            h, w, k = b
            seen[(h, w, k)] += 1
            key = (h, w, k, seen[(h, w, k)])
            if key not in cur["pool"]:
                kind = inst.kind if k == 0 else inst.other
                name = f"b{len(cur['pool']) + 1}"
                base = cur["cells"]
                vals = block_cells(kind, base, h * w)
                cur["pool"][key] = (name, kind, base)
                cur["cells"] += h * w
                cur["defs"].append((define_block(name, kind, h, w, vals, inst.one), block_value(kind, h, w, vals, inst.one)))
            name, kind, base = cur["pool"][key]
            inst.names.append(name); inst.kinds.append(kind); inst.bases.append(base)
        cur["insts"].append(inst)
    if cur is not None:
        sessions.append(cur)
    # statements: all definitions first, then every distinct literal text once
    for s in sessions:
        stmts = [d[0] for d in s["defs"]]
        for inst in s["insts"]:
            rn = inst.rows_of_names()
            inst.steps_rows = []
            if len(rn) > 1:
                for r in rn:
                    tx = literal_text([r])
                    if tx not in s["texts"]:
                        stmts.append(tx); s["texts"][tx] = len(stmts) - 1
                    inst.steps_rows.append(s["texts"][tx])
            tx = literal_text(rn)
            if tx not in s["texts"]:
                stmts.append(tx); s["texts"][tx] = len(stmts) - 1
            inst.step_full = s["texts"][tx]
        s["stmts"] = stmts
    return sessions


# ------------------------------------------------------------------ judging
def row_pat(row):
    return ",".join("s" if (b[0], b[1]) == (1, 1) else "r" if b[0] == 1 else "c" if b[1] == 1 else "m" for b in row)

def is_code(st):
    return st.get("p") == "ok" and bool(st.get("shape")) and st["shape"][0].startswith("MechCode")

def check_value(st, want):
    """None if the step returned `want`, else a (what, text) pair"""
    got = absval.absval(st["v"])
    if got == want:
        return None
    if want[2] * want[3] == 1 and got == want[4][0]:
        return None                                   # a 1x1 result may come back as the bare element
    if got[0] != 'mat':
        return ("wrong-shape", f"{absval.short(got)}, expected {absval.short(want)}")
    if (got[2], got[3]) != (want[2], want[3]):
        return ("wrong-shape", f"{absval.short(got)}, expected {absval.short(want)}")
    if got[1] != want[1]:
        return ("wrong-kind", f"{absval.short(got)}, expected {absval.short(want)}")
    return ("wrong-value", f"{absval.short(got)}, expected {absval.short(want)}")

def judge(inst, steps, stmts, defs_ok):
    """-> (verdict, sig, text); verdict in exact_ok / reject_ok / fail"""
    cs = inst.cs; kind = inst.kind
    if defs_ok is not None:
        return ("fail", f"C11/setup/kind={defs_ok[0]}", defs_ok[1])
    rows = cs["rows"]
    # 1. every row on its own (only written out when there is more than one row)
    for i, si in enumerate(inst.steps_rows):
        st = steps[si]; rr = cs["rowres"][i]; pat = row_pat(rows[i])
        if not is_code(st):
            return ("fail", f"C11/horzcat/kind={kind}/{pat}/noparse", f"{stmts[si]} did not parse as code")
        ok = st.get("r") == "ok"
        if rr["ok"]:
            if not ok:
                return ("fail", f"C11/horzcat/kind={kind}/{pat}/rejected", f"{stmts[si]} rejected ({st.get('class')}) but the heights agree")
            rkind = inst.kinds[sum(len(r) for r in rows[:i])]
            tv = inst.token_values()
            want = ('mat', rkind, rr["r"], rr["c"], tuple(tv[t] for t in rr["d"]))
            bad = check_value(st, want)
            if bad:
                return ("fail", f"C11/horzcat/kind={kind}/{pat}/{bad[0]}", f"{stmts[si]} = {bad[1]}")
        elif ok:
            why = "kind" if len({b[2] for b in rows[i]}) > 1 else "height"
            return ("fail", f"C11/horzcat/kind={kind}/{pat}/accepts-invalid-{why}",
                    f"{stmts[si]} returned {absval.short(absval.absval(st['v']))} for blocks of different {why}")
    # 2. the literal
    si = inst.step_full; st = steps[si]
    stage = "vertcat" if len(rows) > 1 else "horzcat"
    pat = cs["pat"]
    if not is_code(st):
        return ("fail", f"C11/{stage}/kind={kind}/{pat}/noparse", f"{stmts[si]} did not parse as code")
    ok = st.get("r") == "ok"
    if cs["exp"] == "exact":
        if not ok:
            sig = f"C11/vertcat/kind={kind}" if stage == "vertcat" else f"C11/horzcat/kind={kind}/{pat}/rejected"
            return ("fail", sig, f"{stmts[si]} rejected ({st.get('class')}: {str(st.get('msg'))[:90]}) but the tiling is valid")
        bad = check_value(st, inst.expected(cs["res"]))
        if bad:
            return ("fail", f"C11/{stage}/kind={kind}/{pat}/{bad[0]}", f"{stmts[si]} = {bad[1]}")
        return ("exact_ok", None, None)
    if ok:
        return ("fail", f"C11/{stage}/kind={kind}/accepts-invalid-{cs['why']}/{pat}",
                f"{stmts[si]} returned {absval.short(absval.absval(st['v']))} but the tiling is invalid ({cs['why']})")
    return ("reject_ok", None, None)

def defs_check(steps, defs, stmts):
    """defs: list of (step index, intended value, kind) -> None or (kind, text) for the first block that was not built"""
    for si, want in defs:
        st = steps[si]
        k = want[1] if want[0] in ('num', 'mat') else {'bool': 'bool', 'str': 'string'}[want[0]]
        if st.get("r") != "ok" or not is_code(st):
            return (k, f"block could not be built: {stmts[si]} -> {st.get('r')} {st.get('class')}")
        if absval.absval(st["v"]) != want:
            return (k, f"block built wrong: {stmts[si]} -> {absval.short(absval.absval(st['v']))}")
    return None


# ------------------------------------------------------------------ main
def run(rep, tier, seed):
    quick = tier == "quick"
    cfg = "MC_C11_quick.cfg" if quick else "MC_C11_thorough.cfg"
    t = tlc.run("MC_C11", cfg, workers=16, timeout=3000)
    if t.violations or not t.ok:
        rep.fail("C11/model", "TLC reported a violation of a model-level law: " + "; ".join(t.errors[:3]), {"log": t.log})
    cases = t.cases
    cases.sort(key=lambda c: (tuple(sorted(tuple(b) for r in c["rows"] for b in r)), tuple(tuple(tuple(b) for b in r) for r in c["rows"])))
    nvalid = sum(1 for c in cases if not c["mut"])
    log(f"[C11] TLC: {t.generated} states, {t.distinct} distinct, {len(cases)} cases ({nvalid} tilings, {len(cases) - nvalid} near-misses) in {t.wall:.1f}s")

    # --- which (kind, 1x1 form) every case is replayed with
    allk = render.ELEM_KINDS
    groups = collections.defaultdict(list)      # (kind, one) -> [case index]
    for n, cs in enumerate(cases):
        if quick:
            ks = [(k, "s") for k in QUICK_KINDS] + [(allk[n % len(allk)], "s"), (allk[(n // 3 + 7) % len(allk)], "m")]
        elif not cs["mut"] or cs["n"] <= 9:
            ks = [(k, "s") for k in allk] + [(allk[(n + j * 7) % len(allk)], "m") for j in range(2)]
        elif cs["why"] == "kind":
            # one block of another kind in a larger tiling: one rotating kind (the other kind rotates too)
            ks = [(allk[n % len(allk)], "s" if n % 4 else "m")]
        else:
            # shape near-misses of the larger tilings: one of the quick kinds and one rotating kind
            ks = [(QUICK_KINDS[n % 4], "s"), (allk[(n // 4) % len(allk)], "s" if n % 3 else "m")]
        for key in dict.fromkeys(ks):
            groups[key].append(n)
    insts = []; sessions = []
    for (kind, one), idxs in sorted(groups.items()):
        others = [k for k in allk if k != kind]
        gi = []
        for q, n in enumerate(idxs):
            other = others[(q // POOL_CASES) % len(others)]
            gi.append(Inst(cases[n], kind, other, one))
        ss = pooled_sessions(gi)
        sessions += ss; insts += gi
    reqs = [{"id": i, "mode": "session", "stmts": s["stmts"], "opts": {"arm": True}} for i, s in enumerate(sessions)]
    log(f"[C11] pass 1: {len(insts)} case instances in {len(reqs)} pooled sessions ({sum(len(r['stmts']) for r in reqs)} statements)")
    outs = execpool.run_requests(reqs, nworkers=16, timeout=300)
    tally = collections.Counter(); arms = set(); suspects = []
    for s, (resp, oc) in zip(sessions, outs):
        if oc != "ok" or "steps" not in (resp or {}) or len(resp["steps"]) != len(s["stmts"]):
            suspects += s["insts"]; tally["pooled_session_" + oc] += 1
            continue
        steps = resp["steps"]
        dchk = defs_check(steps, [(i, d[1]) for i, d in enumerate(s["defs"])], s["stmts"])
        for inst in s["insts"]:
            v, sig, txt = judge(inst, steps, s["stmts"], dchk)
            if v == "fail": suspects.append(inst)
            else:
                tally[v] += 1
                arms.add(steps[inst.step_full].get("arm"))

    # --- pass 2: every suspect alone, in the canonical form; this run decides
    log(f"[C11] pass 2: {len(suspects)} case instances re-run alone in a fresh interpreter")
    iso = [isolated_session(inst) for inst in suspects]
    reqs2 = [{"id": i, "mode": "session", "stmts": st, "opts": {"arm": True}} for i, (_, st) in enumerate(iso)]
    outs2 = execpool.run_requests(reqs2, nworkers=16, timeout=120) if reqs2 else []
    for (inst, stmts), (resp, oc) in zip(iso, outs2):
        cs = inst.cs
        replay = {"stmts": stmts, "case": {k: cs[k] for k in ("rows", "exp", "why", "res")}, "kind": inst.kind, "other_kind": inst.other}
        if oc != "ok" or "steps" not in (resp or {}):
            rep.fail(f"C11/host-{oc}/kind={inst.kind}", f"{stmts} -> interpreter process {oc}", replay); continue
        steps = resp["steps"]
        v, sig, txt = judge(inst, steps, stmts, defs_check(steps, inst.step_defs, stmts))
        if v == "fail":
            rep.fail(sig, txt, replay)
        else:
            # the pooled run disagreed with the model but the isolated run does not: the value of a literal
            # depended on unrelated earlier statements of the session
            rep.fail(f"C11/session-dependent/kind={inst.kind}", f"{stmts} behaves as specified alone but not after other literals in the same session", replay)

    nrep = len(insts)
    rep.cov.update({"states": t.generated, "transitions": max(t.generated - 1, 1), "distinct_states": t.distinct,
                    "traces_validated_against_impl": nrep, "cases_emitted": len(cases), "cases_replayed": nrep,
                    "tilings": nvalid, "near_misses": len(cases) - nvalid,
                    "pooled_sessions": len(reqs), "isolated_reruns": len(suspects),
                    "exact_matched": tally["exact_ok"], "rejects_matched": tally["reject_ok"], "free_outcomes": 0,
                    "arms_hit": len(arms), "kinds": sorted({i.kind for i in insts}), "exhaustive": True,
                    "rule": "every tiling of an R x C result (quick: R, C <= 3 plus 1x4, 2x4, 4x1, 4x2; thorough: R, C <= 4 plus 5x6, 9x2, 2x9, 1x7, 7x1 by <= 2 rows of <= 3 blocks) by all compositions of the "
                            "height into rows and of every row's width into blocks, every near-miss (one block one unit taller/shorter/"
                            "wider/narrower or of another kind; quick: of the tilings up to 3x3), de-duplicated by layout; each replayed per element kind with pre-defined "
                            "block variables holding distinct values; rows are also evaluated on their own"})
    rnd = random.Random(seed)
    pick = [insts[0], insts[-1]] + rnd.sample(insts, min(30, len(insts)))
    rep.add_samples([{"stmts": isolated_session(i)[1], "exp": i.cs["exp"], "why": i.cs["why"], "sig": i.cs["sig"], "kind": i.kind} for i in pick])
    rep.assumptions += ["TLC 1.8.0", "harness projection (harness/src/project.rs)", "renderer lib/render.py + areas/c11.py",
                        "block operands are built by typed literals (unsigned, float, rational, bool, string) or by conversion of an f64 literal (signed kinds); every block definition is checked against its intended value before it is used"]
