"""C04 — indexed assignment / op-assignment: MechIndex Update model enumerated by TLC, replayed on the interpreter."""
import os, random, collections
from fractions import Fraction
import tlc, execpool, render, absval
from core import log
from areas.c03 import render_form

PROP = "C04"
NUMK = ["f64", "u8", "u16", "u32", "u64", "u128", "i8", "i16", "i32", "i64", "i128", "f32", "r64"]

def conc(kind, n):
    """concrete canonical value for model integer n in the given kind"""
    if kind == "bool": return ('bool', render._BOOLBITS[n % len(render._BOOLBITS)] == '1')
    if kind == "string": return ('str', f"s{n}")
    return ('num', kind, Fraction(n))

def fits(kind, vals):
    if kind in absval.INT_KINDS:
        return all(absval.kind_min(kind) <= v <= absval.kind_max(kind) for v in vals)
    return True

def run(rep, tier, seed):
    rnd = random.Random(seed)
    cfg = "MC_C04_quick.cfg" if tier == "quick" else "MC_C04_thorough.cfg"
    t = tlc.run("MC_C04", cfg, workers=16, timeout=3000)
    if t.violations or not t.ok:
        rep.fail("C04/model", "TLC reported a violation of a model-level law: " + "; ".join(t.errors[:3]), {"log": t.log})
    cases = t.cases
    cases.sort(key=lambda c: (c["sig"], str(c["f1"]), str(c["f2"]), c["op"]))
    log(f"[C04] TLC: {t.generated} states, {len(cases)} cases in {t.wall:.1f}s")
    reqs = []; meta = []
    # thorough: the full product is ~1e6 statements; keep every case of the small shapes and a seeded 30% of the rest
    keep_pct = 100 if tier == "quick" or len(cases) < 80000 else 30
    rsel = random.Random(seed)
    for n, cs in enumerate(cases):
        op = cs["op"]
        if tier == "quick" and op != "=" and (n % 4) != ["+=", "-=", "*=", "/="].index(op):
            continue
        if keep_pct < 100 and cs["r"] * cs["c"] > 6 and rsel.randrange(100) >= keep_pct:
            continue
        allv = cs["x"] + cs["srcv"] + cs["post"]
        ks = ["f64"]
        k2 = NUMK[1 + (n % (len(NUMK) - 1))]
        if not fits(k2, allv): k2 = "i16"
        ks.append(k2)
        if op == "=":
            ks.append(["bool", "string"][n % 2])
        if tier != "quick":
            ks += ["u8", "i64"]
        for kind in dict.fromkeys(ks):
            if not fits(kind, allv): continue
            r, c = cs["r"], cs["c"]
            vals = [conc(kind, v) for v in cs["x"]]
            stmts = [render.define_matrix("x", kind, r, c, vals, mutable=True)]
            idx = render_form(cs["f1"], "f64", n % 2 == 1)
            if cs["nd"] == 2:
                idx += "," + render_form(cs["f2"], "f64", n % 2 == 0)
            if cs["src"] == "S":
                src = render.scalar_lit(conc(kind, cs["srcv"][0]))
            else:
                src = "[" + " ".join(render.scalar_lit(conc(kind, v)) for v in cs["srcv"]) + "]"
            stmts.append(f"x[{idx}] {op} {src}")
            reqs.append({"id": len(reqs), "mode": "session", "stmts": stmts,
                         "opts": {"store": True, "names": ["x"], "arm": True}})
            meta.append((cs, kind, ""))
            # the same statement with index AND source held by variables (a third of the f64 cases)
            if kind == "f64" and n % 4 == 0:
                pre = []; parts = []
                for q, f in enumerate([cs["f1"]] + ([cs["f2"]] if cs["nd"] == 2 else [])):
                    if f["f"] == "a": parts.append(":")
                    else:
                        pre.append(f"i{q + 1} := {render_form(f, 'f64', (n % 2 == 1) if q == 0 else (n % 2 == 0))}"); parts.append(f"i{q + 1}")
                pre.append(f"sv := {src}")
                reqs.append({"id": len(reqs), "mode": "session", "stmts": [stmts[0]] + pre + [f"x[{','.join(parts)}] {op} sv"],
                             "opts": {"store": True, "names": ["x"], "arm": True}})
                meta.append((cs, kind, "/var"))
    log(f"[C04] replaying {len(reqs)} cases on the interpreter")
    outs = execpool.run_requests(reqs, nworkers=16, timeout=120)
    arms = set(); rejected = []; tally = collections.Counter(); cal = collections.defaultdict(collections.Counter)
    unbuildable = 0
    deferred = []; literal_sigs = set()
    real_fail = rep.fail
    def fail(sg, what, rp):
        # a variable-operand variant that fails exactly like its literal twin is the same defect: same signature
        if "/var" in sg: deferred.append((sg, what, rp))
        else: literal_sigs.add(sg); real_fail(sg, what, rp)
    rep.fail = fail
    for req, (resp, oc), (cs, kind, variant) in zip(reqs, outs, meta):
        sig = cs["sig"] + variant
        replay = {"stmts": req["stmts"], "case": cs, "kind": kind}
        if oc != "ok" or "steps" not in (resp or {}):
            rep.fail(sig + "/host-" + oc, f"{req['stmts']} -> interpreter process {oc}", replay); continue
        st = resp["steps"]
        if st[0].get("r") != "ok":
            rep.fail("C04/setup/" + kind, f"operand could not be built: {req['stmts'][0]} -> {st[0].get('class')}", replay); continue
        if any(x.get("r") != "ok" for x in st[1:-1]):
            unbuildable += 1; continue          # an index / source value that cannot be held by a variable (e.g. an empty range)
        asg = st[-1]
        if asg.get("p") != "ok" or not (asg.get("shape") and asg["shape"][0].startswith("MechCode")):
            rep.fail(sig + "/noparse", f"{req['stmts'][-1]} did not parse as code: {asg.get('p')} {asg.get('shape')}", replay); continue
        arms.add(asg.get("arm"))
        xs = asg.get("store", {}).get("x")
        r, c = cs["r"], cs["c"]
        pre = ('mat', kind, r, c, tuple(conc(kind, v) for v in cs["x"]))
        post = ('mat', kind, r, c, tuple(conc(kind, v) for v in cs["post"]))
        got = absval.absval(xs["v"]) if xs else None
        ok = asg["r"] == "ok"
        exp = cs["exp"]
        shown = absval.short(got) if got else None
        cal[sig][("ok-post" if got == post else "ok-other") if ok else ("err-unchanged" if got == pre else "err-changed")] += 1
        if not ok:
            if got != pre:
                rep.fail("C04/failure-not-atomic/" + cs["sig"].split("/")[-1], f"{req['stmts']} failed ({asg.get('class')}) but x is now {shown}", replay); continue
            if exp == "exact" and variant:
                tally["free"] += 1; tally["var_form_not_accepted"] += 1     # which forms accept variable-held operands is not specified
            elif exp == "exact":
                rejected.append((cs, kind, req, asg, replay, variant))
            else: tally["reject_ok" if exp == "reject" else "free"] += 1
            continue
        # statement succeeded
        if got is None or got[0] != 'mat' or got[1] != kind or (got[2], got[3]) != (r, c):
            rep.fail(sig + "/shape-or-kind-changed", f"{req['stmts']} changed shape/kind of x: {shown}", replay); continue
        if exp == "reject":
            fsig = "C04/mask-wrong-length-accepted/" + "/".join(cs["sig"].split("/")[1:]) if cs.get("why") == "mask-length" else sig + "/accepts-out-of-range"
            rep.fail(fsig, f"{req['stmts']} succeeded (x = {shown}) but the target addresses no element", replay); continue
        addr = set(cs["addr"])
        if exp == "frame" or (exp == "free" and not addr):
            bad = [p for p in range(1, r * c + 1) if p not in addr and got[4][p - 1] != pre[4][p - 1]]
            if bad:
                rep.fail(sig + "/frame", f"{req['stmts']} changed unaddressed cell(s) {bad}: x = {shown}", replay)
            else: tally["frame_ok"] += 1
            continue
        if got == post:
            tally["exact_ok"] += 1
        else:
            op = cs["op"]
            bad_frame = [p for p in range(1, r * c + 1) if p not in addr and got[4][p - 1] != pre[4][p - 1]]
            kindsig = "/frame" if bad_frame else "/wrong-value"
            rep.fail(sig + kindsig, f"{req['stmts']} gives x = {shown}, expected {absval.short(post)}", replay)
    # a supported form rejected only for some element kinds is a missing generated arm for that kind
    f64_ok = set()
    for req, (resp, oc), (cs, kind, variant) in zip(reqs, outs, meta):
        if kind == "f64" and not variant and oc == "ok" and resp and resp.get("steps") and len(resp["steps"]) > 1 and resp["steps"][1].get("r") == "ok":
            f64_ok.add(id(cs))
    for cs, kind, req, asg, replay, variant in rejected:
        if kind != "f64" and id(cs) in f64_ok:
            fsig = f"C04/kind-arm-missing/{kind}/" + "/".join(cs["sig"].split("/")[1:3])
        else:
            fsig = cs["sig"] + variant + "/rejects-supported"
        rep.fail(fsig, f"{req['stmts']} rejected ({asg.get('class')}) but the form is supported", replay)
    rep.fail = real_fail
    for sg, what, rp in deferred:
        base = sg.replace("/var", "")
        rep.fail(base if base in literal_sigs else sg, what, rp)
    if os.environ.get("VERIF_CALIBRATE"):
        for s in sorted(cal): print("CAL", s, dict(cal[s]))
    rep.cov.update({"states": t.generated, "transitions": max(t.generated - 1, 1), "distinct_states": t.distinct,
                    "traces_validated_against_impl": len(reqs), "cases_emitted": len(cases), "cases_replayed": len(reqs),
                    "exact_matched": tally["exact_ok"], "rejects_matched": tally["reject_ok"], "frame_only": tally["frame_ok"],
                    "free_outcomes": tally["free"], "variable_operand_forms_not_accepted(free)": tally["var_form_not_accepted"], "variable_operand_unbuildable": unbuildable, "arms_hit": len(arms), "exhaustive": True,
                    "rule": "every (shape, index form pair incl. out-of-range and wrong-length masks, scalar/vector source, operator = += -= *= /=) of the bounded MechIndex Update model; the whole matrix is compared after the statement (frame, written cells, shape, kind), also after failures"})
    rep.add_samples([{"stmts": r["stmts"], "exp": m[0]["exp"], "sig": m[0]["sig"], "post": m[0]["post"]} for r, m in zip(reqs, meta)])
    rep.assumptions += ["TLC 1.8.0", "harness projection", "renderer lib/render.py", "Supported tables in spec/MC_C04.tla"]
