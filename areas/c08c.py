"""Renderer for the construct universe MC_C08c (C08): (family, choices) -> Mech program text."""
ARROW = {"next": "->", "async": "~>", "out": "=>"}

def pat(kind, i=0):
    """pattern text, variables it binds, a body that uses them"""
    return {
        "lit": ("0u64", "1u64"), "var": ("n", "n + 1u64"), "wild": ("*", "2u64"),
        "tuple": ("(a, b)", "a + b"), "tuplelit": ("(0u64, b)", "b"), "arrhead": ("[h ... t]", "h + t"),
        "arrrest": ("[h | rest]", "h"), "arrlast": ("[... l]", "l"), "enum": (":circle(r)", "r"), "enum0": (":dot", "3u64"),
        "atom": (":ok", "4u64"),
    }[kind]

def guard(g, kind):
    v = {"var": "n", "tuple": "a", "tuplelit": "b", "arrhead": "h", "arrrest": "h", "arrlast": "l", "enum": "r"}.get(kind)
    if g == "none" or v is None: return ""
    return f", {v} > 1u64" if g == "gt" else f", {v} == 1u64"

LIT = {"int": "42", "float": "2.5", "neg": "-3", "hex": "0xFF", "oct": "0o17", "bin": "0b1010", "dec": "0d19", "sci": "1.5e3", "scineg": "2.5e-2",
       "scicap": "1.5E3", "rat": "3/4", "cplx": "1+2i", "cplxneg": "1.5-2.5i", "imag": "2i", "typed": "5u8", "annot": "5<u8>", "str": '"hi"',
       "stresc": '"a\\"b"', "strnl": '"one\\ntwo"', "strraw": '"one\ntwo"', "strtab": '"a\\tb"', "strsp": '"  two  spaces  "', "strempty": '""',
       # quotes / backslashes at every position class of a string: at the end, at the start, alone, doubled, backslash before the closing quote
       "strqend": '"a\\""', "strqstart": '"\\"a"', "strqonly": '"\\""', "strq2end": '"a\\"\\""', "strbsend": '"a\\\\"', "strbsonly": '"\\\\"',
       "strbsq": '"a\\\\\\""', "strq2mid": '"a\\"\\"b"', "strq3mid": '"a\\"\\"\\"b"', "strbrace": '"{x} [y]"', "struni": '"h\u00e9 \u2211"', "strsemi": '"a; b -- c"', "strdash": '"-- x"',
       "atom": ":ok", "empty": "_", "true": "true", "false": "false", "big": "123456789012", "leaddot": ".5"}
# complex literals: (real part form) x (sign) x (imaginary part form), and negated real literals (spec/MC_C08c.tla Lits)
LIT.update({'cx_int_p_int': '2+2i', 'cx_int_p_float': '2+1.5i', 'cx_int_p_sci': '2+1.5e3i', 'cx_int_p_scineg': '2+2.5e-3i', 'cx_int_m_int': '2-2i', 'cx_int_m_float': '2-1.5i', 'cx_int_m_sci': '2-1.5e3i', 'cx_int_m_scineg': '2-2.5e-3i', 'cx_float_p_int': '1.5+2i', 'cx_float_p_float': '1.5+1.5i', 'cx_float_p_sci': '1.5+1.5e3i', 'cx_float_p_scineg': '1.5+2.5e-3i', 'cx_float_m_int': '1.5-2i', 'cx_float_m_float': '1.5-1.5i', 'cx_float_m_sci': '1.5-1.5e3i', 'cx_float_m_scineg': '1.5-2.5e-3i', 'cx_sci_p_int': '1.5e3+2i', 'cx_sci_p_float': '1.5e3+1.5i', 'cx_sci_p_sci': '1.5e3+1.5e3i', 'cx_sci_p_scineg': '1.5e3+2.5e-3i', 'cx_sci_m_int': '1.5e3-2i', 'cx_sci_m_float': '1.5e3-1.5i', 'cx_sci_m_sci': '1.5e3-1.5e3i', 'cx_sci_m_scineg': '1.5e3-2.5e-3i', 'cx_scineg_p_int': '2.5e-3+2i', 'cx_scineg_p_float': '2.5e-3+1.5i', 'cx_scineg_p_sci': '2.5e-3+1.5e3i', 'cx_scineg_p_scineg': '2.5e-3+2.5e-3i', 'cx_scineg_m_int': '2.5e-3-2i', 'cx_scineg_m_float': '2.5e-3-1.5i', 'cx_scineg_m_sci': '2.5e-3-1.5e3i', 'cx_scineg_m_scineg': '2.5e-3-2.5e-3i', 'negfloat': '-2.5', 'negsci': '-1.5e3', 'negscineg': '-2.5e-2', 'negrat': '-3/4', 'negimag': '-2i', 'imagsci': '1e3i', 'negimagsci': '-1e3i'})

def render(cs):
    f, a, b, c, d = cs["fam"], cs["a"], cs["b"], cs["c"], cs["d"]
    if f == "fsm":
        g = (f"    ├ x > 0u64 {ARROW[b]} :A(x - 1u64)\n    └ * => x." if b != "out" else "    ├ x > 0u64 => x\n    └ * => 0u64.")
        t = f"#T(n<u64>) -> :A(n)\n  :A(x) {ARROW[a]} :B(x)\n  :B(x)\n{g}"
        if c != "none": t += f"\ny := #T(5u64) {ARROW[c]} :A"
        return t
    if f == "fsmspec":
        states = ["  ├ :A(x<u64>)", "  ├ :B(x<u64>, y<u64>)", "  ├ :C"][: int(a) - 1]
        return "#T(n<u64>) => <u64>\n" + "\n".join(states + ["  └ :Done(out<u64>)."])
    if f == "match":
        p, body = pat(a)
        last = "*" if c == "wild" else "z"
        return f"r := t?\n  | {p}{guard(b, a)} => {body}\n  | {last} => 9u64."
    if f == "fn":
        p, body = pat(a)
        if b == "1": return f"f(inp<u64>) => <u64>\n  | {p} => {body}\n  | * => 9u64."
        return f"f(inp<u64>, inq<u64>) => <u64>\n  | ({p}, q) => q\n  | * => 9u64."
    if f == "compr":
        o, cl = ("{", "}") if a == "set" else ("[", "]")
        gens = "x <- xs" if b == "1" else "x <- xs, y <- ys"
        expr = "x * 2" if b == "1" else "(x, y)" if a == "set" else "x + y"
        parts = [gens] + (["k := 2"] if d == "let" else []) + (["x > 1"] if c == "cmp" else [])
        return f"r := {o}{expr} | {', '.join(parts)}{cl}"
    if f == "opassign":
        tg = {"var": "x", "idx1": "x[2]", "idx2": "x[1,2]", "range": "x[1..3]", "all": "x[:]", "field": "x.a"}[b]
        return f"{tg} {a} 5"
    if f == "sub":
        s = {"s": "x[2]", "ss": "x[1,2]", "all": "x[:]", "alls": "x[:,2]", "sall": "x[1,:]", "range": "x[1..3]", "rangeincl": "x[1..=3]",
             "rangestep": "x[1..2..=5]", "vec": "x[[1 3]]", "mask": "x[x > 2]", "dot": "x.a", "dotint": "x.1", "brace": 'x{"k"}', "swizzle": "x.a,b",
             "chain2": "x.a[2]", "dotidx": "x[1].a"}[a]
        return s if b == "expr" else f"y := {s}"
    if f == "lit":
        l = LIT[a]
        return {"expr": l, "inmat": f"m := [{l} {l}]", "arg": f"r := foo({l})",
                # every literal in every embedding context: statement-body function, match-arm function, match expression arm,
                # record field, tuple element, set element, state-machine output arm, right-hand side of an assignment
                "fnbody": f"f(x<u64>) = y<u64> :=\n  y := {l}.", "fnbody2": f"f(x<u64>) = y<u64> :=\n  k := {l}\n  y := k.",
                "fnarm": f"f(inp<u64>) => <u64>\n  | 0u64 => {l}\n  | * => {l}.", "matcharm": f"r := t?\n  | 0u64 => {l}\n  | * => {l}.",
                "rec": f"r := {{a: {l}, b: {l}}}", "tup": f"r := ({l}, {l})", "set": f"r := {{{l}, {l}}}",
                "fsmout": f"#T(n<u64>) -> :A(n)\n  :A(x) -> :B(x)\n  :B(x)\n    ├ x > 0u64 => {l}\n    └ * => {l}.",
                "assign": f"x = {l}", "fence": f"```mech:z\nq := {l}\n```"}[b]
    if f == "enum":
        pl = {"none": ["", "", ""], "u64": ["<u64>", "<u64>", "<u64>"], "tuple": ["<(u64,u64)>"] * 3, "mixed": ["", "<u64>", "<(u64,string)>"]}[b]
        return "<color> := " + " | ".join(f":{n}{p}" for n, p in list(zip(["red", "green", "blue"], pl))[: int(a)])
    if f == "misc":
        return {"comment": "-- a comment\nx := 1", "trailing": "x := 1 -- trailing", "twostmts": "x := 1\ny := 2", "semis": "x := 1; y := 2; x + y",
                "blank": "x := 1\n\ny := 2", "kinddef": "<point> := <(f64,f64)>", "tupledestr": "(a, b) := (1, 2)", "mutdef": "~x := [1 2 3]",
                "call0": "r := foo()", "callnamed2": "r := foo(a: 1, b: 2)", "nestedcall": "r := foo(bar(1), 2)", "fncallstmt": "math/sin(0)",
                "strcat": 'r := "a" + "b"', "neglit": "r := -3 + 2", "parenneg": "r := -(a + b)", "notvar": "r := !p", "transposecall": "r := foo(x)'",
                "rangevar": "r := a..b", "setlit": "r := {1, 2, 3}", "emptyset": "r := {_}", "map": 'r := {"a": 1, "b": 2}', "record": "r := {a: 1, b: 2}",
                "nestedrec": "r := {a: {b: 1}, c: 2}", "table": "t := | x<f64> y<f64> | 1 2 |", "table2rows": "t := | x<f64> y<string> | 1 \"a\" | 2 \"b\" |",
                "tuple3": "r := (1, \"a\", true)", "nestedtuple": "r := ((1, 2), 3)", "matrixrows": "m := [1 2 3; 4 5 6]", "matrixnested": "m := [[1 2] [3 4]]",
                "emptymat": "m := []", "optional": "y<u64?> := _"}[a]
    raise ValueError(cs)

def key(cs):
    return f"c-{cs['fam']}/" + ",".join(x for x in (cs["a"], cs["b"], cs["c"], cs["d"]) if x != "-")
