"""C19 — re-evaluation: MechPlan (cells + plan, implementation-shaped) enumerated by TLC; every program is run with
two step schedules (n single steps / one request for n) in independent interpreter instances and processes; stores
are compared with the model after interpretation and after every re-evaluation."""
import random, collections, json
from fractions import Fraction as F
import tlc, execpool, absval
from core import log

PROP = "C19"

def expr(e):
    if e["e"] == "lit": return str(e["k"])
    if e["e"] == "addk": return f"{e['m']} + {e['k']}"
    return f"{e['m']} + {e['p']}"

def stmt(st):
    if st["s"] == "def": return f"{'~' if st['mu'] else ''}{st['n']} := {expr(st['e'])}"
    if st["s"] == "asg": return f"{st['n']} = {expr(st['e'])}"
    return f"{st['n']} += {st['k']}"

def obs_store(step, names):
    st = step.get("store") or {}
    out = {}
    for n in names:
        if n not in st: out[n] = -1; continue
        v = absval.absval(st[n]["v"])
        out[n] = int(v[2]) if v[0] == 'num' and v[2].denominator == 1 else str(v)
    return out

def run(rep, tier, seed):
    cfg = "MC_C19_quick.cfg" if tier == "quick" else "MC_C19_thorough.cfg"
    t = tlc.run("MC_C19", cfg, workers=16, timeout=3000)
    if t.violations or not t.ok:
        rep.fail("C19/model", "TLC reported a violation on MechPlan: " + "; ".join(t.errors[:3]), {"log": t.log})
    cases = t.cases
    rnd = random.Random(seed)
    if tier != "quick" and len(cases) > 60000:
        cases = rnd.sample(cases, 60000)
    log(f"[C19] TLC: {t.generated} states, {len(cases)} programs in {t.wall:.1f}s")
    reqs = []; meta = []
    for ci, cs in enumerate(cases):
        names = sorted(cs["s0"].keys())
        stmts = [stmt(s) for s in cs["prog"]]
        o = {"store": True, "names": names, "shape": False}
        # schedule A (two independent instances): interpret, then three single steps
        for rep_i in range(2):
            reqs.append({"id": len(reqs), "mode": "session", "stmts": stmts + [{"op": "step", "n": 1}] * 3, "opts": o})
            meta.append((ci, "A", rep_i))
        # schedule B: one request for 3 steps; schedule C: one request for 2
        reqs.append({"id": len(reqs), "mode": "session", "stmts": stmts + [{"op": "step", "n": 3}], "opts": o}); meta.append((ci, "B", 0))
        reqs.append({"id": len(reqs), "mode": "session", "stmts": stmts + [{"op": "step", "n": 2}], "opts": o}); meta.append((ci, "C", 0))
    # shuffle so that the two instances of a program land on different worker processes
    order = list(range(len(reqs))); rnd.shuffle(order)
    outs_sh = execpool.run_requests([reqs[i] for i in order], nworkers=16, timeout=120)
    outs = [None] * len(reqs)
    for pos, i in enumerate(order): outs[i] = outs_sh[pos]
    by_case = collections.defaultdict(dict)
    for (ci, sch, ri), req, (resp, oc) in zip(meta, reqs, outs):
        by_case[ci][(sch, ri)] = (req, resp, oc)
    tally = collections.Counter()
    for ci, cs in enumerate(cases):
        names = sorted(cs["s0"].keys())
        n = len(cs["prog"])
        kinds = "+".join(sorted({s["s"] for s in cs["prog"]}))
        runs = by_case[ci]
        stmts = runs[("A", 0)][0]["stmts"]
        replay = {"stmts": stmts, "model": {k: cs[k] for k in ("s0", "s1", "s2", "s3")}}
        bad = False
        obs = {}
        for key, (req, resp, oc) in runs.items():
            if oc != "ok" or "steps" not in (resp or {}):
                rep.fail(f"C19/host-{oc}", f"{req['stmts']} -> interpreter process {oc}", replay); bad = True; break
            st = resp["steps"]
            if any(s.get("r") != "ok" for s in st[:n]):
                rep.fail(f"C19/interpret-rejects/{kinds}", f"{req['stmts'][:n]} -> {[s.get('r') for s in st[:n]]} (valid program per the model)", replay); bad = True; break
            if any(s.get("r") != "ok" for s in st[n:]):
                r = [s.get("r") for s in st[n:]]
                rep.fail(f"C19/step-fails/{kinds}", f"{req['stmts']} -> step outcome {r}", replay); bad = True; break
            obs[key] = [obs_store(s, names) for s in st[n - 1:]]
        if bad: continue
        a0, a1 = obs[("A", 0)], obs[("A", 1)]
        if a0 != a1:
            rep.fail(f"C19/nondeterministic/{kinds}", f"{stmts}: two interpreter instances disagree: {a0} vs {a1}", replay); continue
        if obs[("B", 0)][1] != a0[3] or obs[("C", 0)][1] != a0[2]:
            rep.fail(f"C19/step-not-additive/{kinds}", f"{stmts}: 3 single steps give {a0[3]}, one request for 3 gives {obs[('B',0)][1]}; 2 single {a0[2]} vs request {obs[('C',0)][1]}", replay); continue
        if cs["noassign"] and any(a0[k] != a0[0] for k in (1, 2, 3)):
            rep.fail(f"C19/noassign-not-idempotent/{kinds}", f"{stmts}: re-evaluation changes a program without assignments: {a0}", replay); continue
        model = [cs["s0"], cs["s1"], cs["s2"], cs["s3"]]
        if a0 != model:
            k = next(i for i in range(4) if a0[i] != model[i])
            rep.fail(f"C19/reactive-value/{kinds}", f"{stmts}: after {k} re-evaluation(s) observed {a0[k]}, model {model[k]}", replay); continue
        tally["ok"] += 1
    rep.cov.update({"states": t.generated, "transitions": max(t.generated - 1, 1), "distinct_states": t.distinct,
                    "traces_validated_against_impl": len(reqs), "programs": len(cases), "sessions_run": len(reqs),
                    "programs_fully_matched": tally["ok"], "exhaustive": tier == "quick" or len(cases) == len(t.cases),
                    "rule": "every valid program of the bounded MechPlan family (define / mutable define / assign / op-assign over literals, var+k, var+var); each run in two independent interpreter instances (different processes where possible) with three single steps, and with one request for 3 and for 2 steps; stores compared pairwise and with the model after interpretation and after every step"})
    # ---- impl -> spec on the repository's own programs, over opaque values (MechStepGen / Trace_C19g)
    from areas import c19g
    rep.cov["traces_validated_against_impl"] += c19g.run(rep, tier, seed)
    # ---- the REPL command layer (MechRepl / MC_C19r): `:step`, `:step n`, `:step #i n`, `:clear`, queries, failing lines
    from areas import c19r
    rep.cov["traces_validated_against_impl"] += c19r.run(rep, tier, seed)
    rep.add_samples([{"stmts": [stmt(s) for s in c["prog"]], "s0": c["s0"], "s1": c["s1"], "s3": c["s3"], "noassign": c["noassign"]} for c in cases])
    rep.assumptions += ["TLC 1.8.0", "harness projection", "statement renderer in areas/c19.py",
                        "bare define-from-variable (y := x) is excluded from the family: its cell sharing is judged by C05"]
