"""C05 — binding isolation: the MechSession state graph is explored completely by TLC (action properties
ImmutableStable / NoInterference / FailureAtomic / NamesMonotone checked on every edge) and every transition
is replayed on the real interpreter: after EACH statement the whole projected store is compared."""
import random, collections, json
import tlc, execpool
from core import log
import sessionlib as S

PROP = "C05"

def build_walks(g, init_key):
    """transition cover: for every state, path to it (avoiding define-from-variable where possible),
    then all its self-loop edges, then one state-changing edge."""
    pen = lambda act: 3 if act["a"] in ("DefineFromVar", "AssignFromVar") else 0
    dist = g.shortest_paths(init_key, pen)
    walks = []
    for k in g.state:
        if k not in dist: continue
        prefix = g.path_to(dist, k)
        loops = [(a, t) for a, t in g.out.get(k, []) if t == k]
        moves = [(a, t) for a, t in g.out.get(k, []) if t != k]
        if not moves:
            if loops: walks.append((prefix, loops, len(prefix)))
            continue
        for i, mv in enumerate(moves):
            lp = loops if i == 0 else []
            walks.append((prefix, lp + [mv], len(prefix)))
    return walks

def classify(names, act, pre_obs, post_obs, post_model, ok_model, ok_obs, alias):
    """model-side attribution of a mismatch -> signature suffix"""
    pre_store, pre_mut = pre_obs
    post_store, post_mut = post_obs
    m_store, m_mut = post_model
    targets = {act["n"]} | ({act["m"]} if act["a"].startswith("Destructure") else set())
    if not ok_model and (post_store != pre_store or post_mut != pre_mut):
        return f"FailureAtomic/{act['a']}"
    if ok_model != ok_obs:
        return f"Outcome/{act['a']}/{'rejected' if ok_model else 'accepted'}"
    diff = [n for n in names if post_store[n] != m_store[n]]
    others = [n for n in diff if n not in targets]
    if others:
        t = act["n"]
        if all((n, t) in alias or (t, n) in alias for n in others):
            return "NoInterference/alias-after-define-from-variable"
        return f"NoInterference/{act['a']}"
    if diff:
        return f"TargetValue/{act['a']}"
    if post_mut != m_mut:
        return f"Mutability/{act['a']}"
    return f"Other/{act['a']}"

def replay_walks(rep, g, walks, names, label):
    reqs = []
    for prefix, tail, _ in walks:
        acts = [a for a, _ in prefix] + [a for a, _ in tail]
        # the definitions of the user functions the FailingCall spellings call come first (they define no variable)
        reqs.append({"id": len(reqs), "mode": "session", "stmts": [S.FN_DEFS] + [S.stmt(a) for a in acts],
                     "opts": {"store": True, "names": list(names), "shape": False}})
    outs = execpool.run_requests(reqs, nworkers=16, timeout=120)
    for r_, (resp_, oc_) in zip(reqs, outs):      # drop the definitions' step
        r_["stmts"] = r_["stmts"][1:]
        if oc_ == "ok" and "steps" in (resp_ or {}): resp_["steps"] = resp_["steps"][1:]
    validated = 0; masked = 0; stmts_run = 0
    for (prefix, tail, npre), req, (resp, oc) in zip(walks, reqs, outs):
        seq = prefix + tail
        if oc != "ok" or "steps" not in (resp or {}):
            rep.fail(f"C05/HostSurvives/{oc}", f"{req['stmts']} -> interpreter process {oc}", {"stmts": req["stmts"]}); continue
        pre_obs = ({n: None for n in names}, [])
        alias = set()
        diverged = False
        for j, ((act, tk), st) in enumerate(zip(seq, resp["steps"])):
            stmts_run += 1
            post_model = S.model_state(g.state[tk], names)
            ok_obs = st.get("r") == "ok"
            if st.get("r") == "panic":
                rep.fail(f"C05/HostSurvives/panic/{act['a']}", f"{req['stmts'][:j+1]} panicked out of interpret", {"stmts": req["stmts"][:j+1]}); diverged = True; break
            post_obs = S.observed_state(st, names)
            if post_obs != post_model or ok_obs != act["ok"]:
                sig = "C05/" + classify(names, act, pre_obs, post_obs, post_model, act["ok"], ok_obs, alias)
                rep.fail(sig, f"{req['stmts'][:j+1]}: model {'ok' if act['ok'] else 'error'} store={fmt(post_model)} ; observed {st.get('r')} store={fmt(post_obs)}",
                         {"stmts": req["stmts"][:j + 1], "act": act, "expected": fmt(post_model), "observed": fmt(post_obs)})
                diverged = True
                masked += len(seq) - j - 1
                break
            # a define from a bare variable shares storage today (known finding); so does the dimension-less annotation <[f64]>.
            # With the source's full kind as annotation (<f64>, <[f64]:1,2>) the value IS copied today: no alias is recorded, an
            # interference after such a define is a finding of its own
            if (act["a"] == "DefineFromVar" or (act["a"] == "DefineFromVarAnnot" and act["i"] == 3)) and act["ok"]:
                alias.add((act["n"], act["m"]))
                for (x, y) in list(alias):      # transitive
                    if y == act["m"]: alias.add((act["n"], x))
                    if x == act["m"]: alias.add((act["n"], y))
            if j >= npre: validated += 1
            pre_obs = post_obs
    return len(reqs), validated, masked, stmts_run

def negative_control(path):
    """copy the first 200 events, change one logged post value, expect TLC to report exactly that event"""
    import os
    lines = open(path).read().splitlines()[:200]
    target = None
    for i, ln in enumerate(lines):
        e = json.loads(ln)
        if e["act"]["a"] == "Define" and e["ok"] and e["post"]["store"][e["act"]["n"]]["cls"] == "sc":
            target = i; break
    if target is None: return 0
    e = json.loads(lines[target]); e["post"]["store"][e["act"]["n"]]["d"] = [4242]; lines[target] = json.dumps(e)
    p2 = path.replace(".ndjson", "_neg.ndjson")
    open(p2, "w").write("\n".join(lines) + "\n")
    t = tlc.run("Trace_C05", "Trace_C05.cfg", workers=1, env={"TRACE": p2}, deque=True, xss="1g", xmx="2g", timeout=600, tag="Trace_C05_neg")
    return 1 if any(m.get("l") == target + 1 for m in t.msgs) else 0

def fmt(state):
    store, mut = state
    import absval
    return {n: (absval.short(v) if v and v[0] != 'setval' else str(v)) for n, v in store.items()}, mut

NAMES3 = ["a", "b", "c"]
UNDEF = {"cls": "undef", "d": []}
LITS = [{"cls": "sc", "d": [5]}, {"cls": "mat", "d": [1, 2]}, {"cls": "rec", "d": [1, 2]}, {"cls": "tup", "d": [1, 2]},
        {"cls": "set", "d": [1, 2]}, {"cls": "tbl", "d": [1, 2]}]

def A(a, n, m="-", k="-", v=None, i=0, mu=False):
    return {"a": a, "n": n, "m": m, "k": k, "v": v or UNDEF, "i": i, "mu": mu, "ok": True}

def random_action(rnd, names, allow_copy):
    n = rnd.choice(names); m = rnd.choice([x for x in names if x != n]); k = rnd.choice([x for x in names if x not in (n, m)])
    r = rnd.random()
    if r < 0.28: return A("Define", n, v=rnd.choice(LITS), mu=rnd.random() < 0.6)
    if r < 0.36: return A("DefineFromVar", n, m, mu=rnd.random() < 0.5) if allow_copy else A("Define", n, v=rnd.choice(LITS), mu=True)
    if r < 0.46: return A("Assign", n, v=rnd.choice([{"cls": "sc", "d": [6]}, {"cls": "mat", "d": [3, 4]}]))
    if r < 0.52: return A("AssignFromVar", n, m)
    if r < 0.64: return A("IndexAssign", n, i=rnd.choice([1, 2, 3]))
    if r < 0.70: return A("OpAssign", n)
    if r < 0.74: return A("OpAssignVar", n, rnd.choice(names), i=rnd.choice([1, 2]))
    if r < 0.80: return A("FieldAssign", n)
    if r < 0.86: return A("TupleElemAssign", n)
    if r < 0.89: return A("Destructure", n, m)
    if r < 0.91: return A("DestructureTooMany", n, m)
    if r < 0.94: return A("DestructureVar", n, m, k)
    if r < 0.97: return A("FailingCall", n, i=rnd.randrange(10))
    return A("Eval", n)

def abstract_value(p):
    """projection -> model value record (cls, d) or cls 'other'"""
    import absval
    v = absval.absval(p)
    def n(x):
        if x[0] == 'num' and x[2].denominator == 1 and abs(x[2]) < 2**30: return int(x[2])
        raise ValueError
    try:
        if v[0] == 'num': return {"cls": "sc", "d": [n(v)]}
        if v[0] == 'mat' and (v[2], v[3]) == (1, 2): return {"cls": "mat", "d": [n(v[4][0]), n(v[4][1])]}
        if v[0] == 'rec' and [f[0] for f in v[1]] == ['x', 'y']: return {"cls": "rec", "d": [n(v[1][0][2]), n(v[1][1][2])]}
        if v[0] == 'tup' and len(v[1]) == 2: return {"cls": "tup", "d": [n(v[1][0]), n(v[1][1])]}
        if v[0] == 'set' and sorted(n(e) for e in v[3]) == [1, 2]: return {"cls": "set", "d": [1, 2]}
        if v[0] == 'tbl' and [c[0] for c in v[2]] == ['x', 'y']:
            return {"cls": "tbl", "d": [n(v[2][j][2][k]) for k in range(v[1]) for j in (0, 1)]}
    except (ValueError, IndexError, TypeError):
        pass
    return {"cls": "other", "d": []}

def trace_validation(rep, tier, seed):
    """impl -> spec: random sessions on the real interpreter, validated by TLC against Trace_C05."""
    import os
    rnd = random.Random(seed * 7919 + 5)
    nsess = 240 if tier == "quick" else 2500
    sessions = []
    for sidx in range(nsess):
        allow_copy = (sidx % 3 != 0)          # a third of the sessions avoid define-from-variable
        acts = [random_action(rnd, NAMES3, allow_copy) for _ in range(rnd.randint(8, 28))]
        sessions.append(acts)
    reqs = [{"id": i, "mode": "session", "stmts": [S.FN_DEFS] + [S.stmt(a) for a in acts],
             "opts": {"store": True, "names": NAMES3, "shape": False}} for i, acts in enumerate(sessions)]
    outs = execpool.run_requests(reqs, nworkers=16, timeout=120)
    for r_, (resp_, oc_) in zip(reqs, outs):      # drop the step of the function definitions
        r_["stmts"] = r_["stmts"][1:]
        if oc_ == "ok" and "steps" in (resp_ or {}): resp_["steps"] = resp_["steps"][1:]
    os.makedirs(os.path.join(tlc.OUT, "traces"), exist_ok=True)
    path = os.path.join(tlc.OUT, "traces", f"c05_{tier}.ndjson")
    nev = 0; index = []
    with open(path, "w") as fh:
        for sidx, (acts, req, (resp, oc)) in enumerate(zip(sessions, reqs, outs)):
            if oc != "ok" or "steps" not in (resp or {}):
                rep.fail(f"C05/HostSurvives/{oc}", f"{req['stmts']} -> interpreter process {oc}", {"stmts": req["stmts"]}); continue
            fh.write(json.dumps({"sess": sidx, "act": A("Reset", "-"), "ok": True, "post": {"store": {n: UNDEF for n in NAMES3}, "mut": []}}) + "\n")
            nev += 1; index.append((sidx, -1))
            for j, (a, st) in enumerate(zip(acts, resp["steps"])):
                store = st.get("store") or {}
                post = {n: (abstract_value(store[n]["v"]) if n in store else UNDEF) for n in NAMES3}
                fh.write(json.dumps({"sess": sidx, "act": a, "ok": st.get("r") == "ok",
                                     "post": {"store": post, "mut": sorted(x for x in st.get("mut", []) if x in NAMES3)}}) + "\n")
                nev += 1; index.append((sidx, j))
    t = tlc.run("Trace_C05", "Trace_C05.cfg", workers=1, env={"TRACE": path}, deque=True, xss="1g", xmx="4g", timeout=1800, tag=f"Trace_C05_{tier}")
    mism = [m for m in t.msgs if "l" in m]
    if any("unconsumed" in m for m in t.msgs) or (t.rc != 0 and not mism and not t.ok):
        raise tlc.TlcError(f"Trace_C05 did not consume the trace: {t.msgs[:2]} {t.errors[:2]}")
    return path, nev, index, sessions, reqs, mism, t

def classify_trace(m, sessions, reqs, index, events_path):
    """attribute a trace mismatch reported by TLC (expected effect vs observed)"""
    sidx, j = index[m["l"] - 1]
    act = m["act"]
    return sidx, j, act

def run(rep, tier, seed):
    t = tlc.run("MC_C05", "MC_C05_quick.cfg", workers=16, timeout=3000, collect=("EDGE",))
    if t.violations or not t.ok:
        rep.fail("C05/model", "TLC reported a violation on the MechSession model: " + "; ".join(t.errors[:3]), {"log": t.log})
    edges = t.cases
    log(f"[C05] TLC: {t.generated} transitions generated, {t.distinct} distinct states, {len(edges)} edges emitted in {t.wall:.1f}s")
    names = ["a", "b"]
    g = S.Graph(edges)
    init = S.skey({"store": {n: {"cls": "undef", "d": []} for n in names}, "mut": []})
    walks = build_walks(g, init)
    nreq, validated, masked, nst = replay_walks(rep, g, walks, names, "2-name exhaustive")
    log(f"[C05] replayed {nreq} walks / {nst} statements; {validated} distinct transitions validated, {masked} masked by an earlier divergence")
    rep.cov.update({"states": t.distinct, "transitions": len(edges), "traces_validated_against_impl": nreq,
                    "walks_replayed": nreq, "statements_executed": nst, "transitions_validated": validated,
                    "transitions_masked_by_divergence": masked, "exhaustive": True,
                    "rule": "complete (store, mutable-set) graph of MechSession over 2 names and 6 value classes; every transition is the last step of a replayed walk (path to its source state + the self-loop edges of that state + one moving edge); the whole store and mutable set are compared after every statement"})
    # ---- op-assignment with a VARIABLE source (+= -= *=; scalar, matrix, broadcast, table row append): its own complete graph
    to = tlc.run("MC_C05", "MC_C05_op.cfg", workers=16, timeout=3000, collect=("EDGE",), tag="MC_C05_op")
    if to.violations or not to.ok:
        rep.fail("C05/model", "TLC reported a violation on the MechSession model (op-assign alphabet): " + "; ".join(to.errors[:3]), {"log": to.log})
    go = S.Graph(to.cases)
    walks_o = build_walks(go, init)
    if tier == "quick" and len(walks_o) > 6000:
        walks_o = random.Random(seed).sample(walks_o, 6000)
    no, vo, mo, so = replay_walks(rep, go, walks_o, names, "2-name op-assign alphabet")
    log(f"[C05] op-assign alphabet: {to.distinct} states, {len(to.cases)} transitions; replayed {no} walks / {so} statements; {vo} transitions validated, {mo} masked")
    rep.cov.update({"op_states": to.distinct, "op_transitions": len(to.cases), "op_walks_replayed": no, "op_transitions_validated": vo})
    nreq += no
    # ---- assignment whose source reads PART of another variable (n = m.x, n = m.1, n = [m], n = m[1]): its own complete graph
    tp = tlc.run("MC_C05", "MC_C05_part.cfg", workers=16, timeout=3000, collect=("EDGE",), tag="MC_C05_part")
    if tp.violations or not tp.ok:
        rep.fail("C05/model", "TLC reported a violation on the MechSession model (part-source alphabet): " + "; ".join(tp.errors[:3]), {"log": tp.log})
    gp = S.Graph(tp.cases)
    walks_p = build_walks(gp, init)
    if tier == "quick" and len(walks_p) > 6000:
        walks_p = random.Random(seed + 1).sample(walks_p, 6000)
    np_, vp, mp, sp = replay_walks(rep, gp, walks_p, names, "2-name part-source alphabet")
    log(f"[C05] part-source alphabet: {tp.distinct} states, {len(tp.cases)} transitions; replayed {np_} walks / {sp} statements; {vp} transitions validated, {mp} masked")
    rep.cov.update({"part_states": tp.distinct, "part_transitions": len(tp.cases), "part_walks_replayed": np_, "part_transitions_validated": vp})
    nreq += np_
    # ---- define from a variable WITH a kind annotation that asks for no conversion (n<f64> := m, n<[f64]:1,2> := m, n<[f64]> := m):
    #      its own graph over three names (two copies of one source)
    ta = tlc.run("MC_C05", "MC_C05_annot.cfg", workers=16, timeout=3000, collect=("EDGE",), tag="MC_C05_annot")
    if ta.violations or not ta.ok:
        rep.fail("C05/model", "TLC reported a violation on the MechSession model (annotated-define alphabet): " + "; ".join(ta.errors[:3]), {"log": ta.log})
    names3 = ["a", "b", "c"]
    ga = S.Graph(ta.cases)
    init3 = S.skey({"store": {n: {"cls": "undef", "d": []} for n in names3}, "mut": []})
    walks_a = build_walks(ga, init3)
    if len(walks_a) > (3000 if tier == "quick" else 40000):
        walks_a = random.Random(seed + 2).sample(walks_a, 3000 if tier == "quick" else 40000)
    na, va, ma, sa = replay_walks(rep, ga, walks_a, names3, "3-name annotated-define alphabet")
    log(f"[C05] annotated-define alphabet: {ta.distinct} states, {len(ta.cases)} transitions; replayed {na} walks / {sa} statements; {va} transitions validated, {ma} masked")
    rep.cov.update({"annot_states": ta.distinct, "annot_transitions": len(ta.cases), "annot_walks_replayed": na, "annot_transitions_validated": va})
    nreq += na
    # ---- thorough: 3-name behaviours sampled by TLC simulation, replayed the same way
    if tier != "quick":
        ts = tlc.run("MC_C05", "MC_C05_sim.cfg", workers=1, simulate=6000, depth=16, timeout=3000, collect=("EDGE",),
                     extra=["-seed", str(seed)], tag="MC_C05_sim")
        behs = []; cur = []
        for e in ts.cases:
            if e["lvl"] <= 1: continue
            if cur and e["lvl"] <= cur[-1]["lvl"]:
                behs.append(cur); cur = []
            cur.append(e)
        if cur: behs.append(cur)
        g3 = S.Graph([])
        walks3 = []
        for b in behs:
            seq = []
            for e in b:
                k = S.skey(e["to"]); g3.state[k] = e["to"]
                seq.append((e["act"], k))
            walks3.append((seq, [], 0))
        n3, v3, m3, s3 = replay_walks(rep, g3, walks3, NAMES3, "3-name simulation")
        log(f"[C05] simulation: {len(behs)} behaviours over 3 names, {s3} statements, {v3} steps validated, {m3} masked")
        rep.cov.update({"sim_behaviours": len(behs), "sim_steps_validated": v3, "sim_steps_masked": m3})
        nreq += n3
    # ---- impl -> spec
    path, nev, index, sessions, reqs, mism, tt = trace_validation(rep, tier, seed)
    lines = open(path).read().splitlines()
    for m in mism:
        sidx, j = index[m["l"] - 1]
        ev = json.loads(lines[m["l"] - 1]); prev = json.loads(lines[m["l"] - 2])
        act = m["act"]
        names = NAMES3
        conv = lambda st: ({n: S.model_value(st["store"][n]) if st["store"][n]["cls"] != "other" else ('other',) for n in names}, sorted(st["mut"]))
        # aliases established earlier in this session
        alias = set()
        for a in sessions[sidx][:j]:
            if a["a"] == "DefineFromVar": alias.add((a["n"], a["m"]))
            if a["a"] == "DestructureVar": alias.add((a["n"], a["k"])); alias.add((a["m"], a["k"]))
        changed = True
        while changed:
            changed = False
            for (x, y) in list(alias):
                for (u, w) in list(alias):
                    if y == w and x != u and (x, u) not in alias: alias.add((x, u)); changed = True
                    if y == u and (x, w) not in alias and x != w: alias.add((x, w)); changed = True
        sig = "C05/" + classify(names, act, conv(prev["post"]), conv(ev["post"]), conv(m["exp"]), m["exp"]["ok"], m["ok_obs"], alias)
        rep.fail(sig, f"session {reqs[sidx]['stmts'][:j+1]}: specification expects {m['exp']['ok']} {m['exp']['store']} mut={m['exp']['mut']}; observed {ev['ok']} {ev['post']}",
                 {"stmts": reqs[sidx]["stmts"][:j + 1], "expected": m["exp"], "observed": ev["post"]})
    log(f"[C05] trace validation: {len(sessions)} sessions, {nev} events checked by TLC in {tt.wall:.1f}s, {len(mism)} mismatching events")
    rep.cov["trace_sessions"] = len(sessions); rep.cov["trace_events_validated"] = nev; rep.cov["trace_mismatching_events"] = len(mism)
    rep.cov["traces_validated_against_impl"] = nreq + len(sessions)
    # negative control: corrupt one event (an immutable variable's value) and require a mismatch report
    nc = negative_control(path)
    rep.cov["negative_controls_passed"] = nc
    if not nc:
        raise tlc.TlcError("negative control failed: a corrupted trace was accepted by Trace_C05")
    # ---- impl -> spec on the repository's own programs, over opaque values (MechSessionGen / Trace_C05g)
    from areas import c05g
    nprog = c05g.run(rep, tier, seed)
    rep.cov["traces_validated_against_impl"] += nprog
    rep.add_samples([{"stmts": [S.stmt(a) for a, _ in (p + tl)]} for p, tl, _ in walks])
    rep.assumptions += ["TLC 1.8.0", "harness projection", "lib/sessionlib.py renderer/projection"]
