"""C20 — source includes: MechInclude (stack machine + declarative characterisation, checked against each other by TLC)
enumerates file systems; each is materialised as a directory tree and loaded through mech::read_mech_source_file;
the H2 hook events (enter / exit / cycle) are validated against the stack discipline."""
import os, re, random, collections, json, threading
import tlc, execpool
from core import log, OUT

PROP = "C20"
PATH = {"a": "a.mec", "b": "b.mec", "c": "sub/c.mec", "d": "sub/deep/d.mec"}

def rel(from_file, to_file, spelling=0):
    """path of to_file spelled relative to the directory of from_file; the same file under several spellings:
    plain, with a leading ./, through a detour into a sibling directory and back (x/../), and with a doubled separator-free ./."""
    if to_file == "missing": return ["nope.mec", "./nope.mec", "nope.mec", "././nope.mec"][spelling % 4]
    here = os.path.dirname(PATH[from_file]) or "."
    p = os.path.relpath(PATH[to_file], here)
    k = spelling % 4
    if k == 1: return "./" + p
    if k == 2:
        # a detour through a directory that exists next to the including file
        # (the directory of sub/c.mec exists in every generated tree; deeper ones are re-entered through their own name)
        return {".": f"sub/../{p}", "sub": f"../sub/{p}", "sub/deep": f"../deep/{p}"}[here]
    if k == 3: return "././" + p
    return p

def render_line(f, i, l, variant):
    k = l["k"]
    if k == "text": return f"line {f}{i} of the text"
    if k == "brace": return ["{6 * 7}", "{foo/bar}", "{{x.mec}}", "{x.mecx}", "{a} {b.mec}"][variant % 5]
    if k == "inc":
        core = "{" + rel(f, l["t"], (variant // 4 + i) % 4) + "}"
        return [core, "  " + core, core + "  ", "\t" + core + " "][variant % 4]
    if k == "open":
        n = 3 + variant % 3
        return ("`" * n + ["", "mech", "python"][variant % 3]) if l["t"] == "B" else ("~" * n)
    if k == "close":
        n = 3 + variant % 3
        extra = [0, 1, 0][variant % 3]          # a closing fence may be longer than the opener
        return ("`" * (n + extra)) if l["t"] == "B" else ("~" * (n + extra))
    raise ValueError(l)

def materialise(fs, variant):
    files = {}; linetext = {}
    for f, lines in fs.items():
        txt = ""
        for i, l in enumerate(lines, 1):
            t = render_line(f, i, l, variant)
            linetext[f"L_{f}_{i}"] = t
            txt += t + ("\n" if l["nl"] else "")
        files[PATH[f]] = txt
    return files, linetext

def expected_text(out, linetext):
    return "".join("\n" if p == "NL" else linetext[p] for p in out)

def check_events(events, status):
    """stack discipline of the H2 events: LIFO, never enter an active file, exits balance on success"""
    stack = []
    for k, p in events:
        if k == "enter":
            if p in stack: return f"file {p} entered while active"
            stack.append(p)
        elif k == "exit":
            if not stack or stack[-1] != p: return f"exit {p} does not match the top of the stack {stack}"
            stack.pop()
        elif k == "cycle":
            if p not in stack: return f"cycle reported for {p} which is not active ({stack})"
    if status == "ok" and stack: return f"expansion succeeded with files still active: {stack}"
    return None

# ---------------------------------------------------------------- impl -> spec: TLC validates the H2 events against the stack machine
RPATH = {v: k for k, v in PATH.items()}
_msg_re = re.compile(r'^<<"MSG", "(.*)">>')
def trace_run(cs, resp):
    """ndjson records of one load: the abstract file system, the hook events, the verdict"""
    evs = [{"ev": "Fs", "root": "a", "fs": cs["fs"]}]
    for k, pth in resp.get("events", []):
        evs.append({"ev": k.capitalize(), "f": RPATH.get(pth, pth)})
    if resp["r"] == "ok": r = "ok"
    else:
        msg = resp.get("msg", "")
        r = "cycle" if "Circular include" in msg else ("missing" if "Include failed" in msg else "other")
    evs.append({"ev": "End", "r": r})
    return evs

def validate_traces(runs, tag, nproc=8):
    """runs: list of (events, meta).  TLC (Trace_C20) must accept every run; returns (events accepted, [(meta, message)])"""
    if not runs: return 0, []
    chunks = [c for c in (runs[i::nproc] for i in range(nproc)) if c]
    results = [None] * len(chunks); errs = []
    def work(ci):
        try:
            chunk = chunks[ci]; path = os.path.join(OUT, f"trace_C20_{tag}_{ci}.ndjson")
            done = 0; rej = []; start = 0
            while start < len(chunk):
                index = []
                with open(path, "w") as fh:
                    for ri in range(start, len(chunk)):
                        for e in chunk[ri][0]:
                            fh.write(json.dumps(e, ensure_ascii=True) + "\n"); index.append(ri)
                logp = os.path.join(OUT, f"tlc_Trace_C20_{tag}_{ci}.log")
                accepted = False; msg = None
                try:
                    t = tlc.run("Trace_C20", "Trace_C20.cfg", workers=1, env={"TRACE": path}, deque=True, xss="1g", xmx="2g", timeout=1500, tag=f"Trace_C20_{tag}_{ci}")
                    accepted = t.ok and not t.errors and not t.msgs
                except tlc.TlcError as e:
                    if "timeout" in str(e): raise
                if accepted:
                    done += len(index); break
                for line in open(logp, errors="replace"):
                    m = _msg_re.match(line.rstrip("\n"))
                    if m: msg = json.loads(tlc._unescape(m.group(1)))
                if msg is None:
                    raise tlc.TlcError(f"Trace_C20 gave no verdict, see {logp}: " + open(logp, errors="replace").read()[-1500:])
                ri = index[msg["unmatched"] - 1]
                first = index.index(ri)
                done += first - (index.index(index[0]) if False else 0)
                rej.append((chunk[ri][1], f"event {msg['unmatched'] - first} of the load is not a step of the stack machine: {json.dumps(msg['ev'])[:200]}"))
                start = ri + 1
                if len(rej) > 25: break
            results[ci] = (done, rej)
        except Exception as ex: errs.append(ex)
    ths = [threading.Thread(target=work, args=(i,)) for i in range(len(chunks))]
    for th in ths: th.start()
    for th in ths: th.join()
    if errs or any(r is None for r in results): raise tlc.TlcError(f"Trace_C20: a validation process failed: {errs[:1]}")
    return sum(r[0] for r in results), [x for r in results for x in r[1]]

def run(rep, tier, seed):
    # liveness on the model: under weak fairness of the loader's steps every behaviour reaches a verdict ("loading always terminates")
    tl = tlc.run("MC_C20", "MC_C20_live.cfg", workers=8, timeout=1500, tag="MC_C20_live", collect=())
    if tl.violations or not tl.ok:
        rep.fail("C20/model/liveness", "TLC reported a violation of EventuallyFinished / the invariants on MechInclude: " + "; ".join(tl.errors[:3]), {"log": tl.log})
    if "Checking temporal properties for the complete state space" not in open(tl.log, errors="replace").read():
        raise tlc.TlcError("MC_C20_live: TLC did not check the temporal property")
    rep.cov["liveness_states"] = tl.distinct
    # unbounded safety of the stack machine (any number of files and lines): the TLAPS proof of MechIncludeProof
    ok, nobl, txt = tlc.tlapm("MechIncludeProof", ["MechIncludeMachine"])
    if not ok:
        rep.fail("C20/model/proof", "tlapm could not check the proof that the files on the include stack are pairwise distinct: " + txt[-600:], {"tlapm": txt})
    rep.cov["tlaps_obligations_proved"] = nobl
    log(f"[C20] liveness checked on {tl.distinct} states; TLAPS: {nobl} proof obligations of MechIncludeProof (StackDistinct, unbounded) proved")
    if tier == "quick":
        t = tlc.run("MC_C20", "MC_C20_quick2.cfg", workers=16, timeout=1500)
    else:
        t = tlc.run("MC_C20", "MC_C20_sim.cfg", workers=1, simulate=30000, depth=40, timeout=3000, extra=["-seed", str(seed)], tag="MC_C20_sim")
    if t.violations or (tier == "quick" and not t.ok):
        rep.fail("C20/model", "TLC reported a violation on MechInclude: " + "; ".join(t.errors[:3]), {"log": t.log})
    cases = t.cases
    if tier != "quick":       # distinct file systems only
        seen = set(); uniq = []
        for c in cases:
            k = json.dumps(c["fs"], sort_keys=True)
            if k not in seen: seen.add(k); uniq.append(c)
        cases = uniq
    cases.sort(key=lambda c: json.dumps(c['fs'], sort_keys=True))
    log(f"[C20] TLC: {t.generated} states, {len(cases)} file systems in {t.wall:.1f}s")
    tmp = os.path.join(OUT, "tmp"); os.makedirs(tmp, exist_ok=True)
    reqs = []; meta = []
    for n, cs in enumerate(cases):
        files, linetext = materialise(cs["fs"], n)
        reqs.append({"id": n, "mode": "include", "files": files, "root": PATH["a"]})
        meta.append((cs, linetext))
    outs = execpool.run_requests(reqs, nworkers=16, timeout=30, env={"MECHVERIF_TMP": tmp})
    tally = collections.Counter(); nevents = 0; truns = []
    for req, (resp, oc), (cs, linetext) in zip(reqs, outs, meta):
        status = cs["status"]
        shape = "+".join(sorted({l["k"] for ls in cs["fs"].values() for l in ls}))
        replay = {"files": req["files"], "root": req["root"], "model": {"status": status, "cyc": cs["cyc"], "mis": cs["mis"]}}
        if oc != "ok" or resp is None or "r" not in resp:
            rep.fail(f"C20/host-{oc}", f"loading {req['files']} -> process {oc} (loading must terminate)", replay); continue
        ev = resp.get("events", [])
        nevents += len(ev)
        if resp["r"] in ("ok", "err") and not any("{a} {b.mec}" in v for v in req["files"].values()):
            truns.append((trace_run(cs, resp), replay))
        bad = check_events(ev, resp["r"])
        if bad:
            rep.fail("C20/stack-discipline", f"{req['files']}: {bad}", replay); continue
        if status == "ok":
            want = expected_text(cs["out"], linetext)
            if resp["r"] != "ok" and any("{a} {b.mec}" in v for v in req["files"].values()):
                rep.fail("C20/two-brace-groups-line-taken-as-include", f"{req['files']} failed ({resp.get('msg')}): a line holding two brace groups is read as one include path", replay)
            elif resp["r"] != "ok":
                rep.fail(f"C20/rejects-acyclic/{shape}", f"{req['files']} failed ({resp.get('msg')}) but the include graph is acyclic and complete", replay)
            elif resp["text"] != want:
                rep.fail(f"C20/wrong-text/{shape}", f"{req['files']} expanded to {resp['text']!r}, expected {want!r}", replay)
            else: tally["text_ok"] += 1
            continue
        # the model fails: cycle and/or missing reachable
        if resp["r"] == "ok":
            rep.fail(f"C20/accepts-{status}", f"{req['files']} loaded ({resp['text']!r}) although the reachable include graph has a {status}", replay); continue
        msg = resp.get("msg", "")
        if "a} {b.mec" in msg:
            rep.fail("C20/two-brace-groups-line-taken-as-include", f"{req['files']} failed ({msg}): a line holding two brace groups is read as one include path", replay); continue
        is_cycle = "Circular include" in msg
        is_missing = "Include failed" in msg
        if is_cycle and not cs["cyc"]:
            rep.fail("C20/false-cycle", f"{req['files']}: circular-include error but the reachable graph has no cycle", replay); continue
        if is_missing and not cs["mis"]:
            rep.fail("C20/false-missing", f"{req['files']}: include error '{msg}' but no reachable target is missing", replay); continue
        if is_missing and "nope.mec" not in msg:
            rep.fail("C20/missing-not-named", f"{req['files']}: include error does not name the missing file: '{msg}'", replay); continue
        if not (is_cycle or is_missing):
            rep.fail("C20/other-error", f"{req['files']}: unexpected error '{msg}'", replay); continue
        # first error in document order, as the stack machine computes it
        if (status == "cycle") != is_cycle:
            tally["other_allowed_error"] += 1
        tally["error_ok"] += 1
    # impl -> spec: every load's hook events must be a behaviour of MechIncludeMachine on that file system (Trace_C20)
    if tier == "quick" and len(truns) > 6000: truns = random.Random(seed).sample(truns, 6000)
    nacc, rejected = validate_traces(truns, tier)
    for meta_r, why in rejected:
        rep.fail("C20/trace/not-a-behaviour-of-the-stack-machine", f"{meta_r['files']}: {why}", meta_r)
    # negative control: a run whose second Enter names another file must be rejected
    ctl = next((evs for evs, _ in truns if sum(1 for e in evs if e["ev"] == "Enter") >= 2 and evs[-1]["r"] == "ok"), None)
    if ctl is not None:
        bad = [dict(e) for e in ctl]; k = [i for i, e in enumerate(bad) if e["ev"] == "Enter"][1]
        bad[k]["f"] = "a"
        _, rj = validate_traces([(bad, {"files": "negative control"})], tier + "_neg", nproc=1)
        if not rj: raise tlc.TlcError("Trace_C20 accepted a corrupted trace (negative control)")
        rep.cov["negative_controls_passed"] = 1
    log(f"[C20] Trace_C20: {len(truns)} loads, {nacc} records accepted by TLC, {len(rejected)} rejected")
    rep.cov.update({"trace_loads_validated": len(truns) - len(rejected), "trace_records_accepted": nacc})
    rep.cov.update({"states": t.generated, "transitions": max(t.generated - 1, 1), "distinct_states": t.distinct,
                    "traces_validated_against_impl": len(reqs) + len(truns) - len(rejected), "file_systems": len(cases), "expanded_text_matched": tally["text_ok"],
                    "errors_matched": tally["error_ok"], "hook_events_validated": nevents, "exhaustive": tier == "quick",
                    "rule": "every file system of the bounded MechInclude instance (3 files quick: include edges incl. self loops, repeats, diamonds, cycles, missing targets, fenced and unclosed-fence includes, other brace lines; 4 files in 3 directories with trailing-newline choices sampled by TLC simulation in thorough); text or error class compared, H2 enter/exit/cycle events checked for the stack discipline"})
    rep.add_samples([{"files": r["files"], "status": m[0]["status"]} for r, m in zip(reqs, meta)])
    rep.assumptions += ["TLC 1.8.0", "hook H2 in src/mechfs.rs (cfg mech_verif)", "line renderer in areas/c20.py"]
