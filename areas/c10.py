"""C10 — literate documents: MechDoc (main session + one session per fence name, prose = stutter, built on the
MechSession Effect function) enumerated by TLC; every document is rendered with rotating prose elements and
interpreted as ONE text; main and sub-interpreter symbol tables are compared with the model."""
import random, collections, json
import tlc, execpool, absval
from core import log, ToolError
import sessionlib as S

PROP = "C10"
PROSE = [
 ("Subtitle", "1. First Section\n-----------------"),
 ("Paragraph", "This is a plain paragraph of several words."),
 ("Paragraph", "Another paragraph, with punctuation; it mentions a and b but defines nothing."),
 ("List", "- first item\n- second item"),
 ("List", "1. first step\n2. second step"),
 ("List", "-[ ] open task\n-[x] closed task"),
 ("QuoteBlock", "> A quoted remark about values."),
 ("ThematicBreak", "***"),
 ("Table", "| Name | Value |\n|------|-------|\n| one  | two   |"),
 ("CodeBlock", "```\na := 99\nb := 98\n```"),
 ("CodeBlock", "```python\na = 99\n```"),
 ("CodeBlock", "~~~\na := 99\n~~~"),
 ("FencedMechCode", "```mech:disabled\na := 99\nb := 98\n```"),
 ("Paragraph", "The text `a := 99` is inline code."),
 ("Paragraph", "Inline evaluation {6 * 7} inside a paragraph."),
 ("InfoBlock", "(i)> An informational block."),
 # inline evaluations that FAIL (an undefined name; a user function whose call fails at run time) are still prose
 ("Paragraph", "Inline evaluation {zzundefq + 1} fails quietly inside a paragraph."),
 ("Paragraph", "The result would be {zzbad(1)} if it worked."),
 ("Paragraph", "No arm matches in {zzpick(5)} here."),
 # comments are prose too: a comment never changes any value, whatever it contains (statement separators, statement-like text)
 ("MechCode:Comment.paragraph", "-- a note about a and b"),
 ("MechCode:Comment.paragraph", "-- keep the limit; a = 6"),
 ("MechCode:Comment.paragraph", "-- a = 6"),
 ("MechCode:Comment.paragraph", "-- remember; a += 1"),
 ("MechCode:Comment.paragraph", "-- one; two; b[1] = 9"),
]
COMMENTS = ["-- a note", "-- keep the limit; a = 6", "-- remember; a += 1", "-- one; two; b[1] = 9", "-- a = 6"]
TITLE = ("Title", "Document Title\n===============")

def calibrate():
    """each prose snippet alone must parse to the intended element kind (so that a later failure is attributable to interleaving)"""
    reqs = [{"id": i, "mode": "parse", "text": t + "\n"} for i, (_, t) in enumerate(PROSE + [TITLE])]
    outs = execpool.run_requests(reqs, nworkers=4, timeout=60)
    good = []
    for (kind, text), (resp, oc) in zip(PROSE + [TITLE], outs):
        shape = (resp or {}).get("shape") or []
        ok = oc == "ok" and resp.get("outcome") == "tree" and len(shape) == 1 and (shape[0] == kind or (kind == "Subtitle" and shape[0] == "SectionSubtitle"))
        good.append(ok)
    return good

# concrete spellings of the model's fence names p and q, rotated over the documents: plain names, names that share an identifier
# prefix and differ only after a character that cannot be part of an identifier (_ . - /), names that begin with a reserved
# word (hidden, disabled), names of which one is a prefix of the other.  The name of a fence is its whole tag.
NAME_PAIRS = [("p", "q"), ("step_1", "step_2"), ("v1.0", "v1.1"), ("ns-a", "ns-b"), ("hidden_layer", "hidden_state"),
              ("disabled_v0", "enabled_v0"), ("x", "xy"), ("data/raw", "data/clean"), ("a1", "a_1"), ("Q", "q")]
def concrete(ns, n):
    if ns == "": return ""
    return NAME_PAIRS[n % len(NAME_PAIRS)][0 if ns == "p" else 1]

def render_block(blk, n, pos, pool):
    if blk["b"] == "prose":
        if pos == 0 and n % 5 == 0: return TITLE[1]
        return pool[(n * 7 + pos * 3) % len(pool)][1]
    lines = [S.stmt(dict(a, i=(n + pos + j) if a["a"] == "FailingCall" else a.get("i", 0))) for j, a in enumerate(blk["st"])]
    # comment lines between the statements of code blocks and fences (inert wherever they stand)
    k = (n * 3 + pos) % 4
    if k <= 1 and len(lines) >= 1:      # never as the first line of a block: `--` right after a list reads as list text
        lines = lines[:1] + [COMMENTS[(n + 2 * pos) % len(COMMENTS)]] + lines[1:]
    if blk["b"] == "code":
        # LAYOUT dimension: top-level statements may be indented (a statement indented deeper than a preceding list item is still a
        # statement, not a continuation of the item)
        ind = "  " if (n + pos) % 2 == 0 else ""
        return "\n".join(ind + ln for ln in lines)
    tag = "mech" if blk["ns"] == "" else "mech:" + concrete(blk["ns"], n)
    fence = "```" if (n + pos) % 2 == 0 else "~~~"
    return f"{fence}{tag}\n" + "\n".join(lines) + f"\n{fence}"

def run(rep, tier, seed):
    rnd = random.Random(seed)
    good = calibrate()
    pool = [p for p, g in zip(PROSE, good[:-1]) if g]
    if len(pool) < len(PROSE) or not good[-1]:
        bad = [p[1] for p, g in zip(PROSE + [TITLE], good) if not g]
        # informational: how the Mechdown grammar classifies a snippet on its own is not what the property is about; snippets
        # that are no longer prose are left out of the pool (the remaining pool must keep at least 8 element kinds)
        rep.cov["prose_snippets_not_prose_any_more(informational)"] = bad
    if len(pool) < 8:
        raise ToolError("prose pool calibration failed for most snippets")
    cfg = "MC_C10_quick.cfg" if tier == "quick" else "MC_C10_thorough.cfg"
    t = tlc.run("MC_C10", cfg, workers=16, timeout=3000)
    if t.violations or not t.ok:
        rep.fail("C10/model", "TLC reported a violation on MechDoc: " + "; ".join(t.errors[:3]), {"log": t.log})
    cases = t.cases
    cases.sort(key=lambda c: json.dumps(c['doc'], sort_keys=True))
    if len(cases) > 60000: cases = rnd.sample(cases, 60000)
    log(f"[C10] TLC: {t.generated} states, {len(cases)} documents in {t.wall:.1f}s")
    names = ["a", "b"]
    reqs = []
    for n, cs in enumerate(cases):
        blocks = [render_block(b, n, i, pool) for i, b in enumerate(cs["doc"])]
        # a prose block that is followed by top-level statements is, in every third document, a LIST (a statement indented deeper than a
        # list item, on the next line or after a blank line, is still a statement)
        for i in range(len(cs["doc"]) - 1):
            if cs["doc"][i]["b"] == "prose" and cs["doc"][i + 1]["b"] == "code" and n % 3 == 0 and blocks[i] != TITLE[1]:
                blocks[i] = ["- first item\n- second item", "1. first step\n2. second step"][(n // 3 + i) % 2]
        blocks.insert(1 if blocks and blocks[0] == TITLE[1] else 0, S.FN_DEFS)       # function definitions change no variable
        # blocks are separated by a blank line; a code block that follows a LIST is, in every third document, put directly on the next line
        text = ""
        for bi, btxt in enumerate(blocks):
            if bi:
                prev = blocks[bi - 1]
                tight = (n // 2) % 2 == 0 and prev.startswith(("- ", "1. ")) and btxt.startswith("  ") \
                        and not btxt.lstrip().startswith(("```", "~~~", "-", ">", "|", "(i)", "*", "1."))
                text += "\n" if tight else "\n\n"
            text += btxt
        text += "\n"
        fns = sorted(concrete(f, n) for f in cs["subs"].keys())
        reqs.append({"id": n, "mode": "session", "stmts": [text], "opts": {"store": True, "names": names, "subs": fns}})
    import re as _re
    rep.cov["documents_with_an_indented_statement_directly_after_a_list"] = sum(1 for r in reqs if _re.search(r"(second item|second step)\n  \S", r["stmts"][0]))
    rep.cov["documents_with_an_indented_statement_after_a_list_and_a_blank_line"] = sum(1 for r in reqs if _re.search(r"(second item|second step)\n\n  \S", r["stmts"][0]))
    rep.cov["documents_with_indented_statements"] = sum(1 for r in reqs if _re.search(r"\n\n  [a-z~(]", r["stmts"][0]))
    outs = execpool.run_requests(reqs, nworkers=16, timeout=120)
    tally = collections.Counter()
    for n, (cs, req, (resp, oc)) in enumerate(zip(cases, reqs, outs)):
        text = req["stmts"][0]
        kinds = "+".join(sorted({b["b"] + (":" + ("named" if b["ns"] else "main") if b["b"] != "prose" else "") for b in cs["doc"]}))
        replay = {"text": text, "model": {"main": cs["main"], "subs": cs["subs"], "aborted": cs["aborted"]}}
        if oc != "ok" or "steps" not in (resp or {}):
            rep.fail(f"C10/host-{oc}", f"{text!r} -> interpreter process {oc}", replay); continue
        st = resp["steps"][0]
        if st.get("p") != "ok":
            rep.fail(f"C10/noparse/{kinds}", f"document does not parse: {text!r}", replay); continue
        exp_shape_code = sum(1 for b in cs["doc"] if b["b"] != "prose")
        ok_obs = st.get("r") == "ok"
        if ok_obs == cs["aborted"]:
            rep.fail(f"C10/outcome/{kinds}", f"{text!r}: model {'aborts' if cs['aborted'] else 'completes'}, interpreter returned {st.get('r')} {st.get('class')}", replay); continue
        main_obs = S.observed_state(st, names)
        main_mod = S.model_state(cs["main"], names)
        if main_obs != main_mod:
            rep.fail(f"C10/main-store/{kinds}", f"{text!r}: main program store {main_obs}, model {main_mod}", replay); continue
        bad = False
        subs = st.get("subs", {})
        for f, ms in cs["subs"].items():
            mod = S.model_state(ms, names)
            cf = concrete(f, n)
            if cf in subs:
                obs = S.observed_state(subs[cf], names)
            else:
                obs = ({x: None for x in names}, [])
                if f in cs["used"] and any(v is not None for v in mod[0].values()):
                    rep.fail(f"C10/sub-missing/{kinds}", f"{text!r}: no sub-interpreter for fence name {cf}", replay); bad = True; break
            if obs != mod:
                rep.fail(f"C10/sub-store/{kinds}", f"{text!r}: fence namespace {cf} holds {obs}, model {mod}", replay); bad = True; break
        if bad: continue
        if st.get("nsubs", 0) > len(cs["used"]):
            rep.fail(f"C10/extra-namespace/{kinds}", f"{text!r}: {st.get('nsubs')} sub-interpreters for fence names {cs['used']}", replay); continue
        tally["ok"] += 1
    rep.cov.update({"states": t.generated, "transitions": max(t.generated - 1, 1), "distinct_states": t.distinct,
                    "traces_validated_against_impl": len(reqs), "documents": len(cases), "documents_matched": tally["ok"],
                    "prose_pool": len(pool), "exhaustive": len(cases) == len(t.cases),
                    "rule": "every document of <= 3 (quick) / <= 4 (thorough) blocks over {prose, top-level statement, unnamed fence, named fence(s)} with 8 statement kinds incl. failing ones; prose blocks are rendered from a calibrated pool of 16 element kinds (title, section, paragraphs, lists, check list, quote, thematic break, table, plain/python/tilde/disabled fences, inline code, inline eval, info block); main and per-name symbol tables compared"})
    rep.add_samples([{"text": r["stmts"][0], "aborted": c["aborted"]} for r, c in zip(reqs, cases)])
    rep.assumptions += ["TLC 1.8.0", "harness projection", "prose pool calibrated at run time (each snippet alone parses to its element kind)", "lib/sessionlib.py"]
