"""C08 — formatting does not change meaning: ASTs generated from MechSyntax by TLC are rendered to source, parsed,
formatted, reparsed and formatted again on the real parser/formatter; the serde projections of the two trees (positions
erased) must be equal (RoundTrip) and the two formatted texts identical (Idempotent).  Also every program of the
repository's tests and every small .mec document."""
import os, re, glob, random, collections, json
import tlc, execpool
from core import log
from areas.c09 import repo_programs

PROP = "C08"
OPS = {"add": "+", "sub": "-", "mul": "*", "div": "/", "mod": "%", "pow": "^", "lt": "<", "le": "<=", "gt": ">", "ge": ">=",
       "eq": "==", "ne": "!=", "and": "&&", "or": "||", "xor": "⊕", "matmul": "**"}
LEAF = {"int": "1", "float": "2.5", "str": '"hi"', "bool": "true", "hex": "0x1F", "rat": "1/2", "sci": "1.5e3", "typed": "5u8",
        "annot": "5<u8>", "atom": ":ok", "empty": "_", "var": "x"}

def rx(e):
    f = e["f"]; k = [rx(c) for c in e["kids"]]
    if f in LEAF: return LEAF[f]
    if f in OPS: return f"{k[0]} {OPS[f]} {k[1]}"
    return {
        "neg": lambda: f"-{k[0]}", "not": lambda: f"!{k[0]}", "paren": lambda: f"({k[0]})", "transpose": lambda: f"{k[0]}'",
        "call1": lambda: f"math/sin({k[0]})", "callnamed": lambda: f"foo(x: {k[0]})", "idx": lambda: f"y[{k[0]}]",
        "idxall": lambda: f"y[:,{k[0]}]", "rowidx": lambda: f"y[{k[0]},:]", "kindannot": lambda: f"[{k[0]}]", "dotfield": lambda: "r.x",
        "row": lambda: f"[{k[0]} {k[1]}]", "col": lambda: f"[{k[0]}; {k[1]}]", "mat": lambda: f"[{k[0]} {k[1]}; {k[1]} {k[0]}]",
        "tuple": lambda: f"({k[0]}, {k[1]})", "set": lambda: "{" + f"{k[0]}, {k[1]}" + "}", "record": lambda: "{" + f"x: {k[0]}, y: {k[1]}" + "}",
        "call2": lambda: f"foo({k[0]}, {k[1]})", "idx2": lambda: f"y[{k[0]},{k[1]}]", "idxrange": lambda: f"y[{k[0]}..{k[1]}]",
        "range": lambda: f"{k[0]}..{k[1]}", "rangeincl": lambda: f"{k[0]}..={k[1]}", "rangestep": lambda: f"{k[0]}..{k[1]}..=9",
        "map": lambda: '{"k": ' + k[0] + ', "j": ' + k[1] + "}", "table": lambda: f"| x<f64> y<f64> | {k[0]} {k[1]} |",
    }[f]()

def render(cs):
    e = rx(cs["e"]); s = cs["stmt"]
    return {"expr": e, "def": f"v := {e}", "mutdef": f"~v := {e}", "kinddef": f"v<f64> := {e}", "assign": f"v = {e}",
            "opassign": f"v += {e}", "idxassign": f"v[1] = {e}", "commented": f"v := {e} -- a note"}[s]

KLEAF = {"f64": "f64", "u8": "u8", "i64": "i64", "string": "string", "bool": "bool", "any": "*", "empty": "_", "atom": ":ok", "custom": "color", "r64": "r64"}
def rk(k):
    """kind tree -> the text between the angle brackets"""
    f = k["k"]; c = [rk(x) for x in k["kids"]]
    if f in KLEAF: return KLEAF[f]
    return {"mat": lambda: f"[{c[0]}]", "mat13": lambda: f"[{c[0]}]:1,3", "matd3": lambda: f"[{c[0]}]:_,3", "mat3d": lambda: f"[{c[0]}]:3,_",
            "matdd": lambda: f"[{c[0]}]:_,_", "mat3": lambda: f"[{c[0]}]:3", "matd": lambda: f"[{c[0]}]:_",
            "set": lambda: "{" + c[0] + "}", "set3": lambda: "{" + c[0] + "}:3", "setd": lambda: "{" + c[0] + "}:_",
            "opt": lambda: f"{c[0]}?", "kindof": lambda: f"<{c[0]}>",
            "tuple": lambda: f"({c[0]},{c[1]})", "map": lambda: "{" + f"{c[0]}:{c[1]}" + "}",
            "table": lambda: f"|x<{c[0]}> y<{c[1]}>|", "table3": lambda: f"|x<{c[0]}> y<{c[1]}>|:3",
            "record": lambda: "{" + f"x<{c[0]}> y<{c[1]}>" + "}"}[f]()

def render_kind(cs):
    k = rk(cs["kind"]); x = cs["ctx"]
    return {"vardef": f"v<{k}> := x", "mutvardef": f"~v<{k}> := x", "kinddefine": f"<kname> := <{k}>", "exprannot": f"w := x<{k}>",
            "litannot": f"w := 5<{k}>", "fnarg": f"foo(a<{k}>) => <u8>\n  | * => 1u8.", "fnout": f"foo(a<u8>) => <{k}>\n  | * => a.",
            "enumpayload": f"<shape> := :circle<{k}> | :dot", "tablecol": f"t := | x<{k}> y<f64> | 1 2 |", "assignannot": f"v<{k}> = x"}[x]

def first_diff(a, b, path=""):
    """path (node names, no list indices) of the first difference between two erased trees"""
    if type(a) != type(b): return path or "/"
    if isinstance(a, dict):
        ka, kb = list(a.keys()), list(b.keys())
        if set(ka) != set(kb):
            return path + "/{" + ",".join(sorted(set(ka) ^ set(kb))) + "}"
        for k in a:
            d = first_diff(a[k], b[k], path + "/" + k)
            if d: return d
        return None
    if isinstance(a, list):
        if len(a) != len(b): return path + "/#len"
        for x, y in zip(a, b):
            d = first_diff(x, y, path)
            if d: return d
        return None
    return None if a == b else path + "/=value"

GENERIC = {"body", "sections", "elements", "MechCode", "Expression", "Statement", "VariableDefine", "expression", "Structure",
           "Formula", "Term", "lhs", "rhs", "Literal", "Number", "Real", "VariableAssign", "OpAssign", "target", "var"}
def normsig(path):
    """emitter signature: the last three non-generic nodes of the first differing path"""
    parts = [p for p in path.split("/") if p and p not in GENERIC]
    return ".".join(parts[-3:]) if parts else "root"

def origin_sig(o, x):
    import hashlib
    if o.startswith("ast:commented/"): return "stmt=commented"
    if o.startswith("ast:c-"): return o[4:]                            # construct universe: family/choices
    if o.startswith("ast:kind-tablecol/"): return "kind-tablecol"      # the table-literal emitter, whatever the column kind
    if o.startswith("ast:"): return o.split("/")[1]
    return o.split(":")[0] + ":" + hashlib.sha1(x.encode("utf8")).hexdigest()[:8]

def run(rep, tier, seed):
    rnd = random.Random(seed)
    cfg = "MC_C08_quick.cfg" if tier == "quick" else "MC_C08_thorough.cfg"
    t = tlc.run("MC_C08", cfg, workers=16, timeout=3000)
    if t.violations or not t.ok:
        rep.fail("C08/model", "TLC reported a violation on MechSyntax: " + "; ".join(t.errors[:3]), {"log": t.log})
    t.cases.sort(key=lambda c: json.dumps(c, sort_keys=True))
    texts = []; origin = []
    for cs in t.cases:
        texts.append(render(cs)); origin.append(f"ast:{cs['stmt']}/{cs['e']['f']}")
    tk = tlc.run("MC_C08k", "MC_C08k_quick.cfg" if tier == "quick" else "MC_C08k_thorough.cfg", workers=8, timeout=3000)
    if tk.violations or not tk.ok:
        rep.fail("C08/model", "TLC reported a violation on MechSyntax (kinds): " + "; ".join(tk.errors[:3]), {"log": tk.log})
    tk.cases.sort(key=lambda c: json.dumps(c, sort_keys=True))
    for cs in tk.cases:
        texts.append(render_kind(cs)); origin.append(f"ast:kind-{cs['ctx']}/{cs['kind']['k']}")
    tc = tlc.run("MC_C08c", "MC_C08c.cfg", workers=4, timeout=600)
    if not tc.ok: raise tlc.TlcError("MC_C08c did not complete")
    from areas import c08c
    for cs in sorted(tc.cases, key=lambda c: json.dumps(c, sort_keys=True)):
        texts.append(c08c.render(cs)); origin.append("ast:" + c08c.key(cs))
    nmodel = len(texts)
    for p in repo_programs():
        texts.append(p); origin.append("test-program")
    files = sorted(glob.glob("/repo/docs/**/*.mec", recursive=True)) + sorted(glob.glob("/repo/examples/**/*.mec", recursive=True))
    small = [f for f in files if os.path.getsize(f) <= (2500 if tier == "quick" else 12000)]
    rnd.shuffle(small)
    for f in small[: (25 if tier == "quick" else 200)]:
        texts.append(open(f, encoding="utf8", errors="replace").read()); origin.append("doc:" + os.path.relpath(f, "/repo"))
    seen = set(); uniq = []
    for x, o in zip(texts, origin):
        if x not in seen: seen.add(x); uniq.append((x, o))
    texts, origin = [u[0] for u in uniq], [u[1] for u in uniq]
    log(f"[C08] TLC: {t.generated} states, {nmodel} generated ASTs; {len(texts)} distinct texts in all")
    reqs = [{"id": i, "mode": "format", "text": x} for i, x in enumerate(texts)]
    outs = execpool.run_requests(reqs, nworkers=16, timeout=600)
    tally = collections.Counter()
    for i, (x, o, (resp, oc)) in enumerate(zip(texts, origin, outs)):
        replay = {"text": x, "origin": o}
        if oc != "ok" or resp is None or "p1" not in resp:
            rep.fail(f"C08/host-{oc}", f"format pipeline on {x[:80]!r}: process {oc}", replay); continue
        p1 = resp["p1"]
        if p1.get("outcome") != "tree":
            tally["unparsable_input(not judged)"] += 1; continue
        if o.startswith("ast:") and not any(s.startswith("MechCode") for s in (p1.get("shape") or [])):
            tally["input_not_code(not judged)"] += 1; continue
        tally["programs"] += 1
        if resp.get("f1") == "panic":
            rep.fail("C08/formatter-panics", f"Formatter::format panics on {x[:100]!r}", replay); continue
        text2 = resp.get("text2", "")
        replay["formatted"] = text2
        p2 = resp.get("p2", {})
        if p2.get("outcome") != "tree":
            d0 = "Reparses"
            rep.fail(f"C08/Reparses/{origin_sig(o, x)}", f"{x[:100]!r} formats to {text2[:100]!r} which does not parse ({p2.get('outcome')})", replay); continue
        d = first_diff(p1["tree"], p2["tree"])
        if d:
            rep.fail(f"C08/RoundTrip/{normsig(d)}", f"{x[:100]!r} formats to {text2[:100]!r}; trees differ at {d}", replay); continue
        tally["roundtrip_ok"] += 1
        if resp.get("f2") == "panic" or resp.get("text3") != text2:
            rep.fail(f"C08/Idempotent/{origin_sig(o, x)}", f"{x[:100]!r}: format(format) differs: {text2[:80]!r} vs {str(resp.get('text3'))[:80]!r}", replay); continue
        tally["idempotent_ok"] += 1
    log(f"[C08] {dict(tally)}")
    rep.cov.update({"states": t.generated, "transitions": max(t.generated - 1, 1), "distinct_states": t.distinct,
                    "traces_validated_against_impl": tally["programs"], "generated_asts": nmodel, "texts": len(texts), **{k: v for k, v in tally.items()},
                    "exhaustive": True,
                    "rule": "every root expression form (12 leaves, 11 unary, 30 binary incl. 16 operators) x every combination of 7 child shapes x statement forms (2 quick / 8 thorough) from MechSyntax, plus every program of tests/interpreter.rs and small repository documents; parse -> format -> parse -> format; serde trees with positions erased compared, first differing node path is the signature"})
    rep.add_samples([{"text": x[:200], "origin": o} for x, o in zip(texts, origin)])
    rep.assumptions += ["TLC 1.8.0", "serde projection with src_range erased and tokens compressed to their text (harness/src/syntaxmode.rs)", "AST renderer in areas/c08.py"]
