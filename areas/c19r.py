"""C19 (REPL family) — MechRepl: the REPL command layer as a state machine over MechPlan (MC_C19r).  TLC checks the REPL-level laws
(failing commands and queries are inert, :clear gives a new interpreter, n + k steps compose, stepping every plan function once in order
is one whole-plan step, no assignment => every step form is the identity) and emits every session of the bounded alphabet; every
session is typed line by line into the REAL `mech::MechRepl` (parse_repl_command + execute_repl_command, plain lines as Code) and the
outcome, the store, the mutable set and the plan headers after every line are compared with the model.  A second, model-shape
independent family checks the law `singles compose` directly on the implementation."""
import random, collections, json
import tlc, execpool, absval
from core import log

HDR = {"vdef": "VariableDefine", "add": "Add", "assign": "Assign", "addassign": "AddAssign"}

def expr(e):
    if e["e"] == "lit": return str(e["k"])
    if e["e"] == "addk": return f"{e['m']} + {e['k']}"
    if e["e"] == "var": return e["m"]
    return f"{e['m']} + {e['p']}"

def stmt(st):
    if st["s"] == "def": return f"{'~' if st['mu'] else ''}{st['n']} := {expr(st['e'])}"
    if st["s"] == "asg": return f"{st['n']} = {expr(st['e'])}"
    return f"{st['n']} += {st['k']}"

def line(c, pos):
    if c["c"] == "code":
        t = stmt(c["st"])
        return (":c " + t) if pos % 2 == 1 else t
    if c["c"] == "all":
        return ":step " if c["n"] == 99 else f":step {c['n']}"
    if c["c"] == "one": return f":step #{c['i']} {c['n']}"
    if c["c"] == "clear": return ":clear"
    return ":" + c["q"]

def hdr_class(h):
    """observed plan header -> model class (None = a function the model does not know)"""
    if h.startswith("VariableDefine"): return "vdef"
    if h.startswith("AddAssign"): return "addassign"
    if h.startswith("Add"): return "add"
    if h.startswith("Assign"): return "assign"
    return None

def obs_store(step, names):
    st = step.get("store") or {}
    out = {}
    for n in names:
        if n not in st: out[n] = -1; continue
        v = absval.absval(st[n]["v"])
        out[n] = int(v[2]) if v[0] == 'num' and v[2].denominator == 1 else str(v)
    return out

def fam(c):
    if c["c"] == "code": return "code-" + c["st"]["s"]
    if c["c"] == "all": return "step-all" + ("-nocount" if c["n"] == 99 else "")
    if c["c"] == "one": return "step-one"
    return c["c"]

def run(rep, tier, seed):
    cfg = "MC_C19r_quick.cfg" if tier == "quick" else "MC_C19r_thorough.cfg"
    t = tlc.run("MC_C19r", cfg, workers=16, timeout=3000)
    if t.violations or not t.ok:
        rep.fail("C19/repl/model", "TLC reported a violation on MechRepl: " + "; ".join(t.errors[:3]), {"log": t.log})
    cases = t.cases
    rnd = random.Random(seed)
    cap = 12000 if tier == "quick" else 120000
    exhaustive = len(cases) <= cap
    if not exhaustive: cases = rnd.sample(cases, cap)
    log(f"[C19r] TLC: {t.generated} states, {len(t.cases)} sessions ({len(cases)} replayed) in {t.wall:.1f}s")
    names = ["a", "b"]
    reqs = []
    for ci, cs in enumerate(cases):
        lines = [line(c, i) for i, c in enumerate(cs["hist"])]
        reqs.append({"id": ci, "mode": "repl", "lines": lines, "opts": {"plan": True, "names": names}})
    outs = execpool.run_requests(reqs, nworkers=16, timeout=120)
    tally = collections.Counter(); fams = collections.Counter()
    shape_info = collections.Counter()
    for cs, req, (resp, oc) in zip(cases, reqs, outs):
        lines = req["lines"]
        replay = {"lines": lines, "model": cs["exp"]}
        if oc != "ok" or "steps" not in (resp or {}):
            rep.fail(f"C19/repl/host-{oc}", f"{lines} -> REPL process {oc}", replay); continue
        steps = resp["steps"]
        shape_ok = True; bad = False
        for i, (c, e) in enumerate(zip(cs["hist"], cs["exp"])):
            f = fam(c); fams[f] += 1
            if i >= len(steps):
                rep.fail(f"C19/repl/{f}/panic", f"{lines}: line {i} ({lines[i-1]!r}) panicked inside the REPL", replay); bad = True; break
            s = steps[i]
            if c["c"] == "one" and not shape_ok:
                tally["unjudged-after-plan-shape-difference"] += 1; break
            r = s.get("r")
            if r == "panic":
                rep.fail(f"C19/repl/{f}/panic", f"{lines}: line {i} {lines[i]!r} panicked inside the REPL", replay); bad = True; break
            if r not in ("ok", "err"):
                rep.fail(f"C19/repl/{f}/{r}", f"{lines}: line {i} {lines[i]!r} -> {r} (cmd {s.get('cmd')})", replay); bad = True; break
            if r != e["r"]:
                rep.fail(f"C19/repl/{f}/outcome", f"{lines}: line {i} {lines[i]!r} -> {r} ({s.get('class')}), model {e['r']}", replay); bad = True; break
            o = obs_store(s, names)
            if o != e["store"]:
                kind = "failed-command-changed-store" if e["r"] == "err" else "store"
                rep.fail(f"C19/repl/{f}/{kind}", f"{lines}: after line {i} {lines[i]!r} observed {o}, model {e['store']}", replay); bad = True; break
            if sorted(s.get("mut") or []) != sorted(e["mut"]):
                rep.fail(f"C19/repl/{f}/mutable-set", f"{lines}: after line {i} {lines[i]!r} mutable {s.get('mut')}, model {e['mut']}", replay); bad = True; break
            hs = [hdr_class(h) for h in (s.get("plan") or [])]
            if hs != list(e["plan"]):
                if shape_ok: shape_info["sessions-with-other-plan-shape"] += 1
                shape_ok = False
        if not bad: tally["ok"] += 1
    # ---- singles compose (shape independent): for sessions made of code only, stepping every plan function once in order
    #      (as many as the implementation's plan has) must equal one whole-plan step
    code_only = [cs for cs in cases if all(c["c"] == "code" for c in cs["hist"]) and any(e["r"] == "ok" for e in cs["exp"])]
    if len(code_only) > 3000: code_only = rnd.sample(code_only, 3000)
    reqs2 = []; lens = []
    probe = execpool.run_requests([{"id": i, "mode": "repl", "lines": [line(c, 0) for c in cs["hist"]], "opts": {"plan": True, "names": names}}
                                   for i, cs in enumerate(code_only)], nworkers=16, timeout=120)
    for cs, (resp, oc) in zip(code_only, probe):
        L = len(((resp or {}).get("steps") or [{}])[-1].get("plan") or []) if oc == "ok" else 0
        lens.append(L)
        base = [line(c, 0) for c in cs["hist"]]
        reqs2.append({"id": len(reqs2), "mode": "repl", "lines": base + [":step 1"], "opts": {"names": names}})
        reqs2.append({"id": len(reqs2), "mode": "repl", "lines": base + [f":step #{i} 1" for i in range(1, L + 1)], "opts": {"names": names}})
    outs2 = execpool.run_requests(reqs2, nworkers=16, timeout=120)
    for k, cs in enumerate(code_only):
        (ra, oa), (rb, ob) = outs2[2 * k], outs2[2 * k + 1]
        base = reqs2[2 * k]["lines"][:-1]
        if lens[k] == 0: continue
        if oa != "ok" or ob != "ok":
            rep.fail(f"C19/repl/singles/host-{oa if oa != 'ok' else ob}", f"{base}: REPL process died while stepping", {"lines": base}); continue
        sa, sb = ra["steps"][-1], rb["steps"][-1]
        if sa.get("r") != "ok" or sb.get("r") != "ok" or len(rb["steps"]) != len(reqs2[2 * k + 1]["lines"]):
            rep.fail("C19/repl/singles/step-fails", f"{base}: :step 1 -> {sa.get('r')}, last :step #i 1 -> {sb.get('r')}", {"lines": base}); continue
        if obs_store(sa, names) != obs_store(sb, names):
            rep.fail("C19/repl/singles/differs", f"{base}: one whole-plan step gives {obs_store(sa, names)}, every plan function once in order gives {obs_store(sb, names)}",
                     {"lines": base, "plan_length": lens[k]}); continue
        tally["singles-ok"] += 1
    rep.cov.setdefault("repl", {}).update({
        "states": t.generated, "distinct_states": t.distinct, "sessions_emitted": len(t.cases), "sessions_replayed": len(cases),
        "exhaustive": exhaustive, "sessions_fully_matched": tally["ok"], "lines_by_family": dict(fams),
        "unjudged_after_plan_shape_difference": tally["unjudged-after-plan-shape-difference"],
        "sessions_with_other_plan_shape": shape_info["sessions-with-other-plan-shape"],
        "singles_compose_sessions": tally["singles-ok"],
        "rule": "every REPL session of MC_C19r (code lines as plain text and as `:c`, `:step `, `:step n`, `:step #i n`, `:clear`, `:whos`, `:plan`, "
                "failing statements of every class) typed into the real MechRepl; outcome, store, mutable set after every line = model; "
                "plan headers compared (informational: a session whose plan shape differs is not judged on `:step #i`); "
                "singles-compose law checked on the implementation with the implementation's own plan length"})
    return len(reqs) + len(reqs2)
