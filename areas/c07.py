"""C07 — bytecode files round-trip and corrupted files are rejected.  MechBytefile gives the layout invariant (validated
by TLC on the header scalars of every emitted program), the fault taxonomy and the verdict function; every fault class
is instantiated at EVERY concrete position of its region in every emitted file and loaded by the real loader, constant
decoder and run_program inside a memory-limited worker (an allocation failure is data: outcome `oom`)."""
import os, random, struct, zlib, collections, json
import tlc, execpool
from core import log, ToolError

PROP = "C07"
PROGRAMS = [
 ["x := 10 - 3", "y := x / 2"], ['s := "Hello World!"', 't := "abc"', "s == t"], ["a := true", "b := false", "a && b"],
 ["m := [1 2; 3 4]", "m[2,1]"], ["~x := [1 2 3]", "x += [10 20 30]"], ["1..4"], ["x := 5u8 > 3u8"],
 ["~q := 10", "q = 20", "q * 2"], ["r := 1/2 + 1/3"], ["v := [1.5 2.5 3.5]", "v[[1 3]]"], ["c := 3<i64> * 4<i64>"],
 ["n := -7"], ["k := [true false true]", "!k"], ["w := 2 ^ 10", "w % 7"],
]
FIELDS = {"reg_count": (9, 4), "instr_count": (13, 4), "feature_count": (17, 4), "feature_off": (21, 8), "types_count": (29, 4),
          "types_off": (33, 8), "const_count": (41, 4), "const_tbl_off": (45, 8), "const_tbl_len": (53, 8), "const_blob_off": (61, 8),
          "const_blob_len": (69, 8), "symbols_len": (77, 8), "symbols_off": (85, 8), "instr_off": (93, 8), "instr_len": (101, 8),
          "dict_off": (109, 8), "dict_len": (117, 8)}

def regions(h, total):
    g = lambda k: int(h[k])
    return {"magic": (0, 4), "version": (4, 9), "counts": (9, 21), "offsets": (21, 45), "lengths": (45, 129),
            "features": (g("feature_off"), g("types_off")), "types": (g("types_off"), g("const_tbl_off")),
            "const-table": (g("const_tbl_off"), g("const_blob_off")), "const-blob": (g("const_blob_off"), g("const_blob_off") + g("const_blob_len")),
            "symbols": (g("symbols_off"), g("symbols_off") + g("symbols_len")), "instrs": (g("instr_off"), g("instr_off") + g("instr_len")),
            "dict": (g("dict_off"), g("dict_off") + g("dict_len")), "trailer": (total - 4, total)}

def boundary(name, size, total, cur):
    mx = (1 << (8 * size)) - 1
    v = {"zero": 0, "one": 1, "len-1": total - 1, "len": total, "len+1": total + 1, "2^31": 1 << 31, "2^32-1": (1 << 32) - 1,
         "2^63": 1 << 63, "2^64-1": (1 << 64) - 1, "x2": cur * 2, "half": cur // 2}[name]
    return min(v, mx)

def le(v, size): return v.to_bytes(size, "little").hex()

def mutations(fault, hx, h, total, rnd, tier):
    """all concrete mutations of one fault class on one file"""
    k = fault["kind"]; reg = regions(h, total)
    dense = tier != "quick"
    if k in ("trunc", "flip", "burst"):
        a, b = reg[fault["region"]]
        if b <= a: return []
        big = total > 1500       # multi-block files (size sweep): one flipped bit per byte (rotating position), sparser bursts
        if k == "trunc": return [{"k": "trunc", "n": n} for n in range(a, b)]
        if k == "flip": return [{"k": "flip", "bit": bit} for bit in (range(8 * a, 8 * b) if not big or dense else [8 * y + y % 8 for y in range(a, b)])]
        w = fault["width"]
        offs = range(8 * a, 8 * b, 1 if not big else 8) if dense else sorted(set(list(range(8 * a, 8 * b, 8 if not big else 8 * 61)) + [rnd.randrange(8 * a, 8 * b) for _ in range(6)]))
        return [{"k": "burst", "bit": o, "w": w, "pat": rnd.getrandbits(32)} for o in offs if o + w <= 8 * total]
    if k == "append":
        return [{"k": "append", "bytes": "00"}, {"k": "append", "bytes": "ff" * 7}, {"k": "append", "bytes": hx[-8:]}]
    if k == "set":
        if fault["region"] == "header":
            off, size = FIELDS[fault["field"]]
            cur = int.from_bytes(bytes.fromhex(hx[2 * off: 2 * (off + size)]), "little")
            return [{"k": "set", "off": off, "bytes": le(boundary(fault["value"], size, total, cur), size), "fixcrc": True}]
        if fault["region"] == "const-table":
            base = int(h["const_tbl_off"]); n = int(h["const_count"])
            fo, size = {"entry.type_id": (0, 4), "entry.enc": (4, 1), "entry.offset": (8, 8), "entry.length": (16, 8)}[fault["field"]]
            out = []
            for i in (range(n) if dense else sorted({0, n // 2, n - 1})):
                off = base + 24 * i + fo
                cur = int.from_bytes(bytes.fromhex(hx[2 * off: 2 * (off + size)]), "little")
                out.append({"k": "set", "off": off, "bytes": le(boundary(fault["value"], size, int(h["const_blob_len"]), cur), size), "fixcrc": True})
            return out
        if fault["region"] == "instrs":
            a, b = reg["instrs"]
            val = {"zero": "00", "one": "01", "2^32-1": "ffffffff", "x2": "80"}[fault["value"]]
            pos = range(a, b) if dense else range(a, b, 3)
            return [{"k": "set", "off": p, "bytes": val, "fixcrc": True} for p in pos]
    if k == "raw":
        out = []
        for _ in range(60 if not dense else 600):
            n = rnd.choice([0, 1, 3, 4, 5, 60, 128, 129, 130, 200, 400])
            body = bytes(rnd.getrandbits(8) for _ in range(n))
            if rnd.random() < 0.5 and n >= 4: body = b"MECH" + body[4:]
            if rnd.random() < 0.3 and n >= 129: body = bytes.fromhex(hx[:258]) + body[129:]     # a real header on random sections
            out.append({"k": "raw", "hex": body.hex(), "fixcrc": fault["fixcrc"]})
        return out
    return []

def run_batch(hx, muts, run_accepted=True):
    """returns list of outcome records aligned with muts; bisects batches that kill or hang the worker"""
    if not muts: return []
    CH = 2500
    chunks = [muts[i:i + CH] for i in range(0, len(muts), CH)]
    reqs = [{"id": i, "mode": "bytes", "hex": hx, "muts": c, "run": run_accepted} for i, c in enumerate(chunks)]
    outs = execpool.run_requests(reqs, nworkers=16, timeout=120, mem_limit_mb=1024)
    res = []
    for c, (resp, oc) in zip(chunks, outs):
        if oc == "ok" and resp and "res" in resp:
            res += resp["res"]
        elif len(c) == 1:
            res.append({"o": "hang" if oc == "hang" else "abort"})
        else:
            mid = len(c) // 2
            res += run_batch(hx, c[:mid], run_accepted) + run_batch(hx, c[mid:], run_accepted)
    return res

def roundtrip_family(rep, tier):
    """first sentence of the property: MechBytecodeEnc (byte-exact model of the instruction section; RoundTrip, SizeLaw and
    injectivity checked by TLC) enumerates instruction lists; the REAL compiler context writes each list into a real file,
    the REAL loader decodes it: section bytes, decoded instructions, header counts, symbols, constants and the re-encoded
    file are compared with what was written."""
    from fractions import Fraction as F
    import absval
    cfg = "MC_C07r_quick.cfg" if tier == "quick" else "MC_C07r_thorough.cfg"
    t = tlc.run("MC_C07r", cfg, workers=8, timeout=1800, xss="64m")
    if t.violations or not t.ok:
        rep.fail("C07/roundtrip/model", "TLC reported a violation on MechBytecodeEnc: " + "; ".join(t.errors[:3]), {"log": t.log})
    cases = sorted(t.cases, key=lambda c: json.dumps(c, sort_keys=True))
    NCONST = 301
    # exactly ONE symbol: the symbol and dictionary sections are written in hash-map iteration order on both sides, so
    # with two or more entries re-encoding is order-dependent; Interpreter::compile never emits symbols (define_symbol has
    # no caller), hence files with several symbols are not "bytes the compiler emits" and are left out
    syms = [{"name": "bq", "reg": 7, "ptr": 2, "mutable": True}]
    reqs = [{"id": i, "mode": "ctx", "instrs": c["instrs"], "nconst": NCONST, "symbols": syms} for i, c in enumerate(cases)]
    outs = execpool.run_requests(reqs, nworkers=16, timeout=120, mem_limit_mb=2048)
    ok = 0; bytes_differ = 0
    for c, req, (resp, oc) in zip(cases, reqs, outs):
        ops = "+".join(i["op"] for i in c["instrs"])
        replay = {"instrs": c["instrs"], "model_hex": c["hex"]}
        if oc != "ok" or not resp:
            rep.fail(f"C07/roundtrip/host-{oc}", f"instruction list {ops}: process {oc} while emitting/loading", replay); continue
        if resp.get("r") != "ok":
            rep.fail(f"C07/roundtrip/emitted-file-{resp.get('r')}", f"instruction list {ops}: a file written by the compiler context does not load: {resp}", replay); continue
        want = [{"op": i["op"], "fxn": i["fxn"], "dst": i["dst"], "args": list(i["args"])} for i in c["instrs"]]
        if resp["section"] != c["hex"]:
            bytes_differ += 1      # informational: the property does not fix the encoding, only that it round-trips (checked below)
        if resp["decoded"] != want:
            k = next((j for j, (a, b) in enumerate(zip(resp["decoded"], want)) if a != b), min(len(want), len(resp["decoded"])))
            rep.fail(f"C07/roundtrip/decoded-instr/{want[k]['op'] if k < len(want) else 'extra'}",
                     f"instruction {k} of {ops} was written as {want[k] if k < len(want) else None} and decoded as {resp['decoded'][k] if k < len(resp['decoded']) else None}", replay); continue
        h = resp["header"]
        if int(h["instr_count"]) != len(want) or int(h["const_count"]) != NCONST:
            rep.fail("C07/roundtrip/header-counts", f"{ops}: header {h} vs {len(want)} instructions of {c['size']} bytes, {NCONST} constants", replay); continue
        if not resp["reenc_eq"]:
            rep.fail(f"C07/roundtrip/reencode/{ops}", f"{ops}: decode + re-encode does not reproduce the emitted bytes", replay); continue
        if resp["symbols"] != [{"name": x["name"], "reg": x["reg"], "mutable": x["mutable"]} for x in syms]:
            rep.fail("C07/roundtrip/symbols", f"{ops}: symbols decoded as {resp['symbols']}", replay); continue
        cv = [absval.absval(x) for x in resp["consts"]]
        if cv != [('num', 'f64', F(2 * k + 1, 2)) for k in range(NCONST)]:
            rep.fail("C07/roundtrip/constants", f"{ops}: constants decoded differently from what was written", replay); continue
        ok += 1
    log(f"[C07] round trip: {len(cases)} instruction lists written by the real compiler context, {ok} decoded byte- and field-exact")
    rep.cov.update({"roundtrip_instruction_lists": len(cases), "roundtrip_exact": ok, "roundtrip_model_states": t.generated,
                    "roundtrip_section_bytes_differ_from_model(informational)": bytes_differ})
    return len(cases)

def constants_family(rep):
    """the constant universe of MechConst (every element kind x container): the file the compiler emits for `x := literal`
    must load, its constants must decode (and hold the value the interpreter computed), and it must re-encode byte for byte"""
    import absval
    from areas.c06 import const_programs, val
    progs, t = const_programs(rep)
    progs = [(f, st) for f, st in progs if len(st) == 1]
    reqs = [{"id": i, "mode": "bytecode", "stmts": st, "want_bytes": True} for i, (_, st) in enumerate(progs)]
    outs = execpool.run_requests(reqs, nworkers=16, timeout=25, mem_limit_mb=4096)
    ok = 0; holds = 0; notcompiled = 0
    for (fam, st), (resp, oc) in zip(progs, outs):
        replay = {"stmts": st}
        if oc != "ok" or not resp:
            notcompiled += 1; continue                       # compile hangs / aborts are C06's subject (tuples)
        if resp.get("interp", {}).get("r") != "ok" or resp.get("compile", {}).get("r") != "ok":
            notcompiled += 1; continue
        ld = resp.get("load", {})
        if ld.get("r") != "ok":
            rep.fail(f"C07/roundtrip/emitted-file-{ld.get('r')}/{fam}", f"{st}: the file the compiler emitted does not load: {ld}", replay); continue
        cv = ld.get("consts", {})
        if cv.get("r") != "ok":
            # records and maps do not decode for ANY element kind (known): keyed by the container; everything else by container/kind
            fsig = fam.split("/")[0] if fam.split("/")[0] in ("const-record", "const-map", "const-tuple") else fam
            rep.fail(f"C07/roundtrip/constants-do-not-decode/{fsig}", f"{st}: the constants of the emitted file do not decode: {cv}", replay); continue
        if not (ld.get("reenc", {}).get("r") == "ok" and ld["reenc"].get("eq")):
            rep.fail(f"C07/roundtrip/reencode/{fam}", f"{st}: decode + re-encode does not reproduce the emitted bytes", replay); continue
        hx = resp.get("hex", "")
        if hx and zlib.crc32(bytes.fromhex(hx[:-8])) != int.from_bytes(bytes.fromhex(hx[-8:]), "little"):
            rep.fail(f"C07/roundtrip/crc/{fam}", f"{st}: trailer is not the CRC-32 of the payload", replay); continue
        ok += 1
        want = val(resp["interp"])
        if want is not None and any(absval.absval(c) == want for c in cv["v"]): holds += 1
    log(f"[C07] constant universe: {len(progs)} literal programs, {ok} emitted files load / decode / re-encode exactly ({holds} hold the interpreter's value among their constants; {notcompiled} not compiled)")
    rep.cov.update({"const_universe_files": ok, "const_universe_value_found": holds, "const_universe_not_compiled": notcompiled})
    return ok


def const_pairs_family(rep, tier):
    """TWO constants in one file (MechBytefile.LayoutInv: every constant entry starts at a multiple of its OWN alignment, whatever
    precedes it): every ordered pair of literals from a pool whose payloads coincide byte for byte across kinds of different
    alignment (zeros and ones of every numeric kind, the empty string, false), behind a first definition whose name length shifts
    the blob offsets through a whole alignment period.  The emitted file must load, its constants must decode and it must
    re-encode byte for byte."""
    kinds = ["u8", "u16", "u32", "u64", "u128", "i8", "i16", "i32", "i64", "i128", "f32"]
    pool = [f"0<{k}>" for k in kinds] + [f"1<{k}>" for k in kinds] + ["0.0", "1.0", '""', '"a"', "false", "true", "0+0i", "1+0i", "0/1", "1/1"]
    lens = list(range(1, 9)) if tier == "quick" else list(range(1, 17))
    progs = []
    for L in lens:
        name = "abcdefghijklmnopq"[:L]
        for i, x in enumerate(pool):
            for j, y in enumerate(pool):
                if tier == "quick" and (i * 7 + j * 3 + L) % 3 != 0: continue      # a third of the pairs per name length (every pair at some length)
                progs.append((f"{x},{y}", [f"{name} := true", f"zq := {x}", f"zs := {y}"]))
    reqs = [{"id": i, "mode": "bytecode", "stmts": st, "want_bytes": True} for i, (_, st) in enumerate(progs)]
    outs = execpool.run_requests(reqs, nworkers=16, timeout=25, mem_limit_mb=4096)
    ok = 0; skipped = 0
    for (pair, st), (resp, oc) in zip(progs, outs):
        replay = {"stmts": st}
        if oc != "ok" or not resp or resp.get("interp", {}).get("r") != "ok" or resp.get("compile", {}).get("r") != "ok":
            skipped += 1; continue
        ld = resp.get("load", {})
        if ld.get("r") != "ok":
            rep.fail(f"C07/roundtrip/pairs/emitted-file-{ld.get('r')}", f"{st}: the file the compiler emitted does not load: {ld}", replay); continue
        cv = ld.get("consts", {})
        if cv.get("r") != "ok":
            rep.fail(f"C07/roundtrip/pairs/constants-do-not-decode/{cv.get('class')}", f"{st}: the constants of the emitted file do not decode: {cv}", replay); continue
        if not (ld.get("reenc", {}).get("r") == "ok" and ld["reenc"].get("eq")):
            rep.fail("C07/roundtrip/pairs/reencode", f"{st}: decode + re-encode does not reproduce the emitted bytes", replay); continue
        ok += 1
    log(f"[C07] constant pairs: {ok}/{len(progs)} emitted files load / decode / re-encode exactly ({skipped} not interpreted or compiled)")
    rep.cov.update({"const_pair_files": ok, "const_pair_programs": len(progs), "const_pair_not_compiled": skipped})
    return ok

SIZE_BOUNDS = [512, 1024, 2048, 4096, 8192, 12288, 16384, 32768, 65536]
def size_family(rep, tier):
    """round trip at every file LENGTH around the block sizes a chunked reader / checksum could use: the emitted file of
    `name := "aaa..."` grows by 8 bytes per 8 characters and by 1 byte per character of the name, so a grid of (name length,
    string length) sweeps contiguous windows of total lengths across 512 ... 65536 (payload = total - 4 included)"""
    reqs = []; meta = []
    bounds = SIZE_BOUNDS if tier != "quick" else SIZE_BOUNDS[:7]
    # (a) EVERY total length from the smallest file up to ~2 200 (quick) / ~9 000 (thorough) bytes, (b) windows around the block sizes
    Ls = set(range(0, 1900 if tier == "quick" else 8700, 8))
    for B in bounds + ([k * 4096 for k in range(5, 16)] if tier != "quick" else []):
        Ls |= set(range(max(B - 360, 0) // 8 * 8, B - 280, 8))
    for L in sorted(Ls):
        for n in range(1, 9):
            reqs.append({"id": len(reqs), "mode": "bytecode", "stmts": [f'{"s" * n} := "{"a" * L}"'], "want_bytes": True}); meta.append((0, n, L))
    outs = execpool.run_requests(reqs, nworkers=16, timeout=60, mem_limit_mb=4096)
    sizes = set(); ok = 0
    for (B, n, L), req, (resp, oc) in zip(meta, reqs, outs):
        desc = f'{"s" * n} := "<{L} x a>"'
        replay = {"stmts": req["stmts"]}
        if oc != "ok" or not resp:
            rep.fail(f"C07/roundtrip/size/host-{oc}", f"{desc}: process {oc}", replay); continue
        if resp.get("interp", {}).get("r") != "ok" or resp.get("compile", {}).get("r") != "ok":
            rep.fail("C07/roundtrip/size/not-compiled", f"{desc}: interpret/compile failed: {resp.get('interp', {}).get('r')} {resp.get('compile')}", replay); continue
        total = len(resp.get("hex", "")) // 2
        near = min(SIZE_BOUNDS, key=lambda b: abs(total - b)); rel = total - near
        where = f"{near}{rel:+d}" if abs(rel) <= 16 else "other"
        ld = resp.get("load", {})
        if ld.get("r") != "ok":
            rep.fail(f"C07/roundtrip/size/emitted-file-{ld.get('r')}", f"{desc}: the emitted file of {total} bytes ({where}) does not load: {ld}", replay); continue
        if not (ld.get("reenc", {}).get("r") == "ok" and ld["reenc"].get("eq")):
            rep.fail("C07/roundtrip/size/reencode", f"{desc}: the emitted file of {total} bytes ({where}) does not re-encode to the same bytes", replay); continue
        if ld.get("consts", {}).get("r") != "ok":
            rep.fail("C07/roundtrip/size/constants", f"{desc}: constants of the emitted file of {total} bytes do not decode: {ld.get('consts')}", replay); continue
        hx = resp["hex"]
        if zlib.crc32(bytes.fromhex(hx[:-8])) != int.from_bytes(bytes.fromhex(hx[-8:]), "little"):
            rep.fail("C07/roundtrip/size/crc", f"{desc}: trailer of the {total}-byte file is not the CRC-32 of the payload", replay); continue
        sizes.add(total); ok += 1
    covered = {B: sorted(t - B for t in sizes if abs(t - B) <= 12) for B in bounds}
    full = [B for B in bounds if all(d in covered[B] for d in range(-4, 13))]
    log(f"[C07] size sweep: {ok}/{len(reqs)} emitted files round-trip; {len(sizes)} distinct file lengths; every length in [B-4, B+12] covered for B in {full}")
    rep.cov.update({"size_sweep_files": ok, "size_sweep_distinct_lengths": len(sizes), "size_sweep_boundaries_fully_covered": full})
    return ok

def run(rep, tier, seed):
    rnd = random.Random(seed)
    nrt = roundtrip_family(rep, tier) + constants_family(rep) + const_pairs_family(rep, tier) + size_family(rep, tier)
    progs = PROGRAMS if tier != "quick" else PROGRAMS[:8]
    # two multi-block files: payload exactly one 4096-byte block (total 4100) and one crossing 8192 with a partial last block
    progs = progs + [[f'ss := "{"a" * 3776}"'], [f'sss := "{"b" * 7880}"']]
    reqs = [{"id": i, "mode": "bytecode", "stmts": p, "want_bytes": True} for i, p in enumerate(progs)]
    outs = execpool.run_requests(reqs, nworkers=8, timeout=60, mem_limit_mb=4096)
    files = []
    os.makedirs(os.path.join(tlc.OUT, "traces"), exist_ok=True)
    hpath = os.path.join(tlc.OUT, "traces", f"c07_headers_{tier}.ndjson")
    with open(hpath, "w") as fh:
        for p, (resp, oc) in zip(progs, outs):
            pd = [x if len(x) <= 80 else x[:60] + f"...<{len(x)} chars>" for x in p]
            if oc != "ok" or not resp or resp.get("compile", {}).get("r") != "ok":
                # whether a program compiles is C06's subject; the fault sweep needs at least half of its base files
                rep.cov.setdefault("base_programs_not_compiled(informational)", []).append(pd); continue
            if resp.get("load", {}).get("r") != "ok":
                rep.fail(f"C07/roundtrip/emitted-file-{resp.get('load', {}).get('r')}", f"{pd}: the file the compiler emitted ({len(resp.get('hex', '')) // 2} bytes) does not load: {resp.get('load')}", {"stmts": p}); continue
            ld = resp["load"]; hx = resp["hex"]; total = len(hx) // 2
            if not (ld["reenc"].get("r") == "ok" and ld["reenc"].get("eq")):
                rep.fail("C07/roundtrip/reencode", f"{p}: decode + re-encode does not reproduce the emitted bytes ({ld['reenc']})", {"stmts": p, "hex": hx})
            if ld["consts"].get("r") != "ok":
                rep.fail("C07/roundtrip/constants", f"{p}: the constants of an emitted file do not decode: {ld['consts']}", {"stmts": p, "hex": hx})
            if zlib.crc32(bytes.fromhex(hx[:-8])) != int.from_bytes(bytes.fromhex(hx[-8:]), "little"):
                rep.fail("C07/roundtrip/crc", f"{p}: trailer is not the CRC-32 of the payload", {"stmts": p, "hex": hx})
            h = dict(ld["header"])
            hn = {k: int(v) for k, v in h.items()}
            hn["nconst"] = ld["nconst"]; hn["ninstr"] = len([s for s in ld["instrs"]])
            fh.write(json.dumps({"h": hn, "total": total}) + "\n")
            files.append((p, hx, h, total))
    if len(files) * 2 < len(progs):
        raise ToolError(f"only {len(files)} of {len(progs)} base programs of the fault sweep compile and load on this tree")
    t = tlc.run("MC_C07", "MC_C07.cfg", workers=8, env={"HEADERS": hpath}, timeout=1800)
    if t.violations or not t.ok:
        # informational: the property does not fix the file layout; a layout that evolves is reported in the evidence, and
        # the fault sweep below takes its region boundaries from the decoded header either way
        rep.cov["layout_invariant_violated(informational)"] = "; ".join(t.errors[:3])
        if not t.cases: raise tlc.TlcError("MC_C07 produced no fault classes: " + "; ".join(t.errors[:3]))
    faults = sorted(t.cases, key=lambda c: json.dumps(c, sort_keys=True))
    log(f"[C07] TLC: {t.generated} states; {len(faults)} fault classes; {len(files)} emitted files (layout invariant checked on each)")
    tally = collections.Counter(); nloads = 0
    for p, hx, h, total in files:
        allm = []; owner = []
        for fc in faults:
            ms = mutations(fc["fault"], hx, h, total, rnd, tier)
            allm += ms; owner += [fc] * len(ms)
        res = run_batch(hx, allm)
        nloads += len(res)
        for mu, fc, r in zip(allm, owner, res):
            f = fc["fault"]; o = r.get("o")
            cls = f"{f['kind']}/{f['region']}" + (f"/{f['field']}" if f["field"] != "-" else "")
            replay = {"program": p, "base_hex": hx, "mutation": mu, "outcome": r}
            if o in ("hang", "abort"):
                rep.fail(f"C07/{o}/{cls}", f"{p} + {mu}: the loader process {o}s", replay); continue
            if o in ("panic", "oom"):
                rep.fail(f"C07/load-{o}/{cls}", f"{p} + {mu}: from_bytes {o}: {r.get('msg')}", replay); continue
            if fc["verdict"] == "reject":
                if o == "accept" and not r.get("same"):
                    rep.fail(f"C07/accepts-corrupted/{cls}", f"{p} + {mu}: corrupted file accepted by the loader", replay)
                else: tally["rejected"] += 1
                continue
            # nocrash classes
            if o == "accept":
                bad = [(st, r.get(st)) for st in ("decode", "run") if r.get(st) in ("panic", "oom")]
                if bad:
                    st, kind = bad[0]
                    rep.fail(f"C07/{st}-{kind}/{cls}", f"{p} + {mu}: accepted file makes {st} {kind}: {r.get('msg')}", replay); continue
                tally["accepted_harmless"] += 1
            else: tally["rejected"] += 1
    log(f"[C07] {nloads} mutated files loaded: {dict(tally)}")
    rep.cov.update({"states": t.generated, "transitions": max(t.generated - 1, 1), "traces_validated_against_impl": nloads + nrt,
                    "emitted_files": len(files), "fault_classes": len(faults), "mutated_files_loaded": nloads, **tally, "exhaustive": True,
                    "rule": "for every emitted file: every truncation length and every single-bit flip of every region, bursts of widths 2..32 at byte-aligned and random (quick) / all (thorough) bit offsets, appended bytes, every header length/offset/count field and constant-table entry field set to 11 boundary values with the CRC recomputed, instruction bytes overwritten, random byte strings with and without a valid CRC; from_bytes, decode_const_entries and run_program under a 1 GiB address-space limit"})
    rep.add_samples([{"program": p, "bytes": total} for p, _, _, total in files])
    rep.assumptions += ["TLC 1.8.0", "CRC-32 burst detection (assumed from the literature; confirmed by the exhaustive sweep)", "alloc-error hook of the harness turns failed allocations into outcome `oom`"]
