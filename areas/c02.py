"""C02 — formula precedence and associativity: MechFormula (precedence climbing = declarative tree, checked by TLC)
enumerates operator sequences; the real parse tree is compared with the model's tree, and the unparenthesised text,
the fully parenthesised text and (where defined) the model's exact value must agree; explicit parentheses that
contradict the default grouping must produce the other tree."""
import random, collections, json
from fractions import Fraction as F
import tlc, execpool, absval
from core import log

PROP = "C02"
SPELL = {"xor": "⊕"}
OPNAME = {("Vec", "MatMul"): "**", ("AddSub", "Add"): "+", ("AddSub", "Sub"): "-", ("MulDiv", "Mul"): "*", ("MulDiv", "Div"): "/", ("MulDiv", "Mod"): "%",
          ("Power", "Pow"): "^", ("Comparison", "LessThan"): "<", ("Comparison", "LessThanEqual"): "<=", ("Comparison", "GreaterThan"): ">",
          ("Comparison", "GreaterThanEqual"): ">=", ("Comparison", "Equal"): "==", ("Comparison", "NotEqual"): "!=",
          ("Logic", "And"): "&&", ("Logic", "Or"): "||", ("Logic", "Xor"): "xor"}

def operand_text(o):
    n = o["v"]["n"]
    return {"neg": f"-{n}", "not": f"!{n}", "tr": f"{n}'"}.get(o.get("un", "neg" if o["neg"] else "none"), f"{n}")

def plain(toks):
    return " ".join(operand_text(t) if isinstance(t, dict) else SPELL.get(t, t) for t in toks)

def paren(t):
    """fully parenthesised text of a model tree"""
    if t["k"] == "leaf": return operand_text(t)
    return f"({paren(t['l'])} {SPELL.get(t['op'], t['op'])} {paren(t['r'])})"

def leaf_shape(o):
    un = o.get("un", "neg" if o["neg"] else "none")
    return str(o["v"]["n"]) if un == "none" else (un, str(o["v"]["n"]))

def model_shape(t):
    if t["k"] == "leaf": return leaf_shape(t)
    return (t["op"], model_shape(t["l"]), model_shape(t["r"]))

def real_shape(f):
    """project the parser's Factor JSON to the same nested-tuple shape (Term = left fold of its rhs list)"""
    if "Term" in f:
        acc = real_shape(f["Term"]["lhs"])
        for op, rhs in f["Term"]["rhs"]:
            (cls, name), = op.items()
            acc = (OPNAME.get((cls, name), f"{cls}.{name}"), acc, real_shape(rhs))
        return acc
    if "Parenthetical" in f: return real_shape(f["Parenthetical"])
    if "Negate" in f: return ("neg", real_shape(f["Negate"]))
    if "Not" in f: return ("not", real_shape(f["Not"]))
    if "Transpose" in f: return ("tr", real_shape(f["Transpose"]))
    if "Expression" in f:
        e = f["Expression"]
        try: return e["Literal"]["Number"]["Real"]["Integer"]["T"]
        except Exception: return "expr:" + json.dumps(e)[:60]
    return "other:" + json.dumps(f)[:60]

def formula_of(tree):
    try:
        code = tree["body"]["sections"][0]["elements"][0]["MechCode"][0][0]
        return code["Expression"]["Formula"]
    except Exception:
        return None

def other_grouping(toks):
    """parenthesise one adjacent operator pair against the default grouping: returns (text, expected shape) or None"""
    return None

def run(rep, tier, seed):
    rnd = random.Random(seed)
    cases = []; t = None
    for cfg in (["MC_C02_quick.cfg", "MC_C02_quick2.cfg"] if tier == "quick" else ["MC_C02_thorough.cfg"]):
        t1 = tlc.run("MC_C02", cfg, workers=16, timeout=3000, tag=cfg[:-4])
        if t1.violations or not t1.ok:
            rep.fail("C02/model", "TLC reported a violation on MechFormula: " + "; ".join(t1.errors[:3]), {"log": t1.log})
        cases += t1.cases
        if t is None: t = t1
        else: t.generated += t1.generated; t.distinct += t1.distinct; t.wall += t1.wall; t.cases = t.cases + t1.cases
    seen = set(); uniq = []
    for c in cases:
        k = json.dumps(c["toks"], sort_keys=True)
        if k not in seen: seen.add(k); uniq.append(c)
    cases = uniq
    if len(cases) > 40000: cases = rnd.sample(cases, 40000)
    log(f"[C02] TLC: {t.generated} states, {len(cases)} formulas in {t.wall:.1f}s")
    preqs = []; sreqs = []
    for n, cs in enumerate(cases):
        text = plain(cs["toks"])
        ptext = paren(cs["tree"])
        preqs.append({"id": n, "mode": "parse", "text": text, "tree": True})
        # parenthesise the RIGHT-most operator pair explicitly: must give a right-nested tree there
        toks = cs["toks"]
        alt = None
        if len(toks) >= 5:
            k = len(toks) - 3          # index of the operand starting the last pair
            alt = " ".join([operand_text(x) if isinstance(x, dict) else SPELL.get(x, x) for x in toks[:k]] +
                           ["(" + plain(toks[k:]) + ")"])
        stmts = [text, ptext] + ([alt] if alt else [])
        sreqs.append({"id": n, "mode": "session", "stmts": stmts, "opts": {}})
    pouts = execpool.run_requests(preqs, nworkers=16, timeout=120)
    souts = execpool.run_requests(sreqs, nworkers=16, timeout=300)
    # second parse round: the explicitly parenthesised alternative
    areqs = []; amap = []
    for n, (cs, sr) in enumerate(zip(cases, sreqs)):
        if len(sr["stmts"]) == 3:
            areqs.append({"id": n, "mode": "parse", "text": sr["stmts"][2], "tree": True}); amap.append(n)
    aouts = dict(zip(amap, execpool.run_requests(areqs, nworkers=16, timeout=120)))
    tally = collections.Counter()
    for n, (cs, (presp, poc), (sresp, soc)) in enumerate(zip(cases, pouts, souts)):
        toks = cs["toks"]
        ops = [x for x in toks if not isinstance(x, dict)]
        sig_ops = " ".join(ops)
        text = preqs[n]["text"]; ptext = sreqs[n]["stmts"][1]
        replay = {"text": text, "paren": ptext, "model_tree": model_shape(cs["tree"])}
        if poc != "ok" or soc != "ok":
            rep.fail(f"C02/host/{sig_ops}", f"{text!r}: process {poc}/{soc}", replay); continue
        if presp.get("outcome") != "tree":
            rep.fail(f"C02/noparse/{sig_ops}", f"{text!r} does not parse: {presp.get('outcome')}", replay); continue
        f = formula_of(presp["tree"])
        if f is None:
            rep.fail(f"C02/not-a-formula/{sig_ops}", f"{text!r} is not parsed as a formula: {presp.get('shape')}", replay); continue
        want = model_shape(cs["tree"]); got = real_shape(f)
        if got != want:
            rep.fail(f"C02/tree/{sig_ops}", f"{text!r} parses as {got}, the grammar levels give {want}", replay); continue
        tally["tree_ok"] += 1
        st = sresp["steps"]
        a, b = st[0], st[1]
        if (a.get("r") == "ok") != (b.get("r") == "ok"):
            rep.fail(f"C02/eval-differs/{sig_ops}", f"{text!r} -> {a.get('r')} but {ptext!r} -> {b.get('r')}", replay); continue
        if a.get("r") == "ok":
            va, vb = absval.absval(a["v"]), absval.absval(b["v"])
            if va != vb:
                rep.fail(f"C02/value-differs/{sig_ops}", f"{text!r} = {absval.short(va)} but {ptext!r} = {absval.short(vb)}", replay); continue
            mv = cs["val"]
            if mv["def"]:
                v = mv["v"]
                want_v = ('num', 'f64', F(v["n"], v["d"])) if v["t"] == "num" else ('bool', v["b"])
                if va != want_v:
                    rep.fail(f"C02/value/{sig_ops}", f"{text!r} = {absval.short(va)}, exact arithmetic on the grammar's tree gives {absval.short(want_v)}", replay); continue
                tally["value_ok"] += 1
        elif cs["val"]["def"]:
            rep.fail(f"C02/rejects-wellkinded/{sig_ops}", f"{text!r} rejected ({a.get('class')}) although well-kinded with value {cs['val']['v']}", replay); continue
        # explicit parentheses override the default grouping
        if n in aouts:
            aresp, aoc = aouts[n]
            alt = sreqs[n]["stmts"][2]
            if aoc == "ok" and aresp.get("outcome") == "tree":
                fa = formula_of(aresp["tree"])
                k = len(toks) - 3
                leafs = leaf_shape
                inner = (toks[k + 1], leafs(toks[k]), leafs(toks[k + 2]))
                gs = real_shape(fa) if fa else None
                def contains(s, sub): return s == sub or (isinstance(s, tuple) and any(contains(x, sub) for x in s[1:]))
                if gs is None or not contains(gs, inner):
                    rep.fail(f"C02/parens-ignored/{sig_ops}", f"{alt!r} parses as {gs}: the parenthesised pair {inner} is not a subtree", replay); continue
                tally["parens_ok"] += 1
            else:
                rep.fail(f"C02/paren-noparse/{sig_ops}", f"{alt!r} does not parse", replay); continue
    rep.cov.update({"states": t.generated, "transitions": max(t.generated - 1, 1), "distinct_states": t.distinct,
                    "traces_validated_against_impl": len(cases), "formulas": len(cases), "trees_matched": tally["tree_ok"],
                    "values_matched_exact": tally["value_ok"], "explicit_parens_checked": tally["parens_ok"],
                    "exhaustive": tier == "quick",
                    "rule": "every operator sequence of length <= 3 (quick) / <= 4 (thorough, sampled) over the operator alphabet with operands 7 2 3 5 4 and every placement of one unary minus; real parse tree vs model tree, plain vs fully parenthesised value, exact value where defined, and explicit parentheses around the last operator pair"})
    rep.add_samples([{"text": p["text"], "tree": str(model_shape(c["tree"])), "val": c["val"]} for p, c in zip(preqs, cases)])
    rep.assumptions += ["TLC 1.8.0", "serde projection of the parse tree (harness/src/syntaxmode.rs erase)", "token renderer in areas/c02.py"]
